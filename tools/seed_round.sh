#!/bin/sh
# import the two changes of one seeding round for one property, confirm them, evaluate them against the property's check: tools/seed_round.sh c07 4
p=$1; r=$2; P=$(echo $p | tr a-z A-Z); cd "$(dirname "$0")/.."
python3 tools/seed_import.py $p $P $r 2>&1 | grep -E "confirmed|missing|FAIL|not" 
case $r in 2) n="c d";; 3) n="e f";; 4) n="g h";; 5) n="i j";; 6) n="k l";; 7) n="m n";; *) n="a b";; esac
for x in $n; do python3 tools/seed_eval.py ${p}_$x $P 2>&1 | grep -E "^C[0-9]+ exit|no-failing|does not apply" | tr '\n' ' '; echo " <- ${p}_$x"; done
