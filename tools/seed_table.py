#!/usr/bin/env python3
"""markdown table of the seeded changes and which checks catch them (from seeded/*/meta.json + result.json); used for DESIGN.md §11"""
import os, json, glob, re, sys, io
ROOT = os.path.dirname(os.path.dirname(os.path.abspath(__file__)))
_out = io.StringIO(); _real = sys.stdout
if '--design' in sys.argv: sys.stdout = _out
print('| seed | breaks | change (site: idea) | caught by (quick tier) | how |')
print('|------|--------|---------------------|------------------------|-----|')
tot = hit = 0
for d in sorted(glob.glob(os.path.join(ROOT, 'seeded', '*'))):
    sid = os.path.basename(d)
    try: m = json.load(open(d + '/meta.json'))
    except OSError: continue
    res = json.load(open(d + '/result.json'))['results'] if os.path.exists(d + '/result.json') else {}
    files = ','.join(os.path.basename(f) for f in m.get('files', []))
    summ = re.sub(r'\s+', ' ', m.get('summary', ''))[:150].replace('|', '/')
    caught, how = [], []
    for p, v in sorted(res.items()):
        if v['exit'] == 1:
            nf = any('no-failing-input-found' in l for l in v['lines'])
            caught.append(p + ('*' if nf else ''))
            kinds = sorted({re.match(r'\s*problem\[(\w[\w-]*)\]', l).group(1) for l in v['lines'] if l.strip().startswith('problem[')})
            rh = v.get('replay_head', '')
            r = re.search(r'# reason: (\S+)', rh)
            how.append(f"{p}: {r.group(1) if r else '?'}" + (f" (+{'/'.join(kinds)})" if kinds else ''))
        elif v['exit'] == 0:
            how.append(f'{p}: not detected')
    own = m.get('property_id')
    tot += 1; hit += 1 if own in [c.rstrip('*') for c in caught] else 0
    print(f"| {sid} | {own} | {files}: {summ} | {' '.join(caught) or '—'} | {'; '.join(how)} |")
print()
print(f'{hit} of {tot} seeded changes are detected by the check of the property they were written against (`*` = detected through a broken proof obligation or correspondence without a failing input: `no-failing-input-found`).')

if '--design' in sys.argv:
    sys.stdout = _real
    p = os.path.join(ROOT, 'DESIGN.md'); t = open(p).read()
    t = re.sub(r'(<!-- seed-table:begin -->\n).*?(<!-- seed-table:end -->)', lambda m: m.group(1) + _out.getvalue() + m.group(2), t, flags=re.S)
    open(p, 'w').write(t); print('DESIGN.md table updated')
