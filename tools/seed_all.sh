#!/bin/sh
# re-confirm and re-evaluate every seeded change against the current /repo and the current checks (4 lanes); log in .cache/seed_all.log
cd "$(dirname "$0")/.."; mkdir -p .cache; : > .cache/seed_all.log
ls seeded | awk '{print NR%4, $0}' > .cache/seed_all.list
for lane in 0 1 2 3; do
  ( for s in $(awk -v l=$lane '$1==l{print $2}' .cache/seed_all.list); do
      P=$(python3 -c "import json;print(json.load(open('seeded/$s/meta.json'))['property_id'])")
      v=$(python3 tools/seed_verify.py $s 2>&1 | head -1 | cut -c1-40)
      e=$(python3 tools/seed_eval.py $s $P 2>&1 | grep -E "^C[0-9]+ exit|no-failing|does not apply" | tr '\n' ' ')
      echo "$s | $v | $e" >> .cache/seed_all.log
    done ) &
done
wait; echo ALL-DONE >> .cache/seed_all.log
