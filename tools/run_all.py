#!/usr/bin/env python3
"""Run every (or the given) registered check, optionally at several seeds, a few at a time; print one line per run.
usage: tools/run_all.py [--tier quick] [--seeds 0,1,2] [--jobs 4] [IDs...]"""
import os, sys, subprocess, argparse, time, json
from concurrent.futures import ThreadPoolExecutor
ROOT = os.path.dirname(os.path.dirname(os.path.abspath(__file__)))
ap = argparse.ArgumentParser(); ap.add_argument('ids', nargs='*'); ap.add_argument('--tier', default='quick')
ap.add_argument('--seeds', default='0'); ap.add_argument('--jobs', type=int, default=4)
a = ap.parse_args()
ids = a.ids or [l.strip() for l in open(os.path.join(ROOT, 'CLAIMED')) if l.strip() and not l.startswith('#')]
def run(job):
    pid, seed = job; t0 = time.time()
    env = dict(os.environ, VERIF_SEED=str(seed), VERIF_JOBS='4')
    c = subprocess.run([os.path.join(ROOT, 'check'), pid, '--tier', a.tier], cwd=ROOT, env=env, capture_output=True, text=True)
    tail = [l for l in c.stdout.split('\n') if l.startswith('[') or l.startswith('VIOLATION') or l.startswith('KNOWN') or l.startswith('  problem')]
    return pid, seed, c.returncode, time.time() - t0, tail, c.stderr[-300:]
jobs = [(i, int(s)) for s in a.seeds.split(',') for i in ids]
bad = 0
with ThreadPoolExecutor(a.jobs) as ex:
    for pid, seed, rc, dt, tail, err in ex.map(run, jobs):
        print(f'{pid} seed={seed} exit={rc} {dt:.0f}s')
        for l in tail: print('   ', l[:400])
        if rc not in (0,): bad += 1
        if rc not in (0, 1): print('    stderr:', err)
print('runs:', len(jobs), 'non-zero:', bad)
sys.exit(1 if bad else 0)
