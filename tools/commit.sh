#!/bin/sh
# regenerate CelloGen from /repo (a seed evaluation may have left it generated from a scratch tree), then commit everything
cd "$(dirname "$0")/.." && python3 translate/gen.py >/dev/null 2>&1; git add -A && git commit -qm "$1" && git log --oneline | head -1
