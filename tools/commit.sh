#!/bin/sh
# regenerate CelloGen from /repo under the lake lock (a seed evaluation may have left it generated from a scratch tree), then commit everything
cd "$(dirname "$0")/.." && mkdir -p .cache && flock .cache/lake.lock python3 translate/gen.py >/dev/null 2>&1; git add -A && git commit -qm "$1" && git log --oneline | head -1
