#!/usr/bin/env python3
"""Run checks against a seeded change without touching /repo: copy /repo's sources to a scratch directory, apply
seeded/<id>/patch.diff there, run `CELLO_REPO=<scratch> ./check <prop>` for the given properties, write the verdicts to
seeded/<id>/result.json, remove the scratch copy.

usage: tools/seed_eval.py <seeded-id> [PROP ...]     (default PROP = meta.json's property)
"""
import os, sys, json, shutil, subprocess, tempfile, time
ROOT = os.path.dirname(os.path.dirname(os.path.abspath(__file__)))
def main():
    sid = sys.argv[1]; d = os.path.join(ROOT, 'seeded', sid)
    meta = json.load(open(os.path.join(d, 'meta.json')))
    props = sys.argv[2:] or [meta.get('property_id') or meta['property'].split(':')[0].split()[0]]
    scratch = tempfile.mkdtemp(prefix=f'seedeval_{sid}_', dir='/var/tmp')
    try:
        for sub in ('src', 'include', 'tests', 'Makefile'):
            s = os.path.join('/repo', sub)
            (shutil.copytree if os.path.isdir(s) else shutil.copy)(s, os.path.join(scratch, sub))
        r = subprocess.run(['git', 'apply', '--whitespace=nowarn', os.path.join(d, 'patch.diff')], cwd=scratch, capture_output=True, text=True)   # strict: `patch` would place a hunk elsewhere with fuzz
        if r.returncode != 0:
            print('patch does not apply:', r.stdout, r.stderr); return 2
        res = {}
        for p in props:
            t0 = time.time()
            env = dict(os.environ, CELLO_REPO=scratch)
            c = subprocess.run([os.path.join(ROOT, 'check'), p, '--tier', os.environ.get('VERIF_TIER', 'quick')], cwd=ROOT, env=env, capture_output=True, text=True)
            lines = [l for l in c.stdout.split('\n') if l.startswith('VIOLATION') or l.startswith('[') or l.startswith('  problem') or l.startswith('KNOWN')]
            replay = ''
            for l in lines:
                if l.startswith('VIOLATION') and 'replay=' in l:
                    rp = l.split('replay=')[1].split()[0]
                    if os.path.exists(rp):
                        replay = open(rp).read()[:3000]
            res[p] = {'exit': c.returncode, 'lines': lines, 'wall_s': round(time.time() - t0, 1), 'replay_head': replay}
            print(p, 'exit', c.returncode); print('\n'.join(lines))
        rp = os.path.join(d, 'result.json')
        prev = json.load(open(rp)).get('results', {}) if os.path.exists(rp) else {}
        prev.update(res)
        json.dump({'checked_at_repo': subprocess.run(['git', '-C', '/repo', 'rev-parse', '--short', 'HEAD'], capture_output=True, text=True).stdout.strip(),
                   'results': prev}, open(rp, 'w'), indent=1)
        return 0
    finally:
        shutil.rmtree(scratch, ignore_errors=True)
if __name__ == '__main__':
    sys.exit(main())
