#!/usr/bin/env python3
"""Confirm a seeded change independently: in a scratch git worktree of /repo (removed afterwards) check that
 (1) the patch applies, the library builds and `make check` passes with it,
 (2) the demonstration passes on the unchanged tree and fails (non-zero exit / FAIL / crash / hang) on the changed tree.
Writes seeded/<id>/verified.json.   usage: tools/seed_verify.py <seeded-id> [runs]"""
import os, sys, json, subprocess, re, shutil, time
ROOT = os.path.dirname(os.path.dirname(os.path.abspath(__file__)))
def sh(cmd, cwd=None, timeout=900):
    try:
        p = subprocess.run(cmd, shell=True, cwd=cwd, capture_output=True, text=True, timeout=timeout, errors='replace', start_new_session=True)
        return p.returncode, p.stdout + p.stderr
    except subprocess.TimeoutExpired as e:
        return -9, 'TIMEOUT'
def main():
    sid = sys.argv[1]; runs = int(sys.argv[2]) if len(sys.argv) > 2 else 3
    d = os.path.join(ROOT, 'seeded', sid)
    wt = f'/var/tmp/sv_{sid}_{os.getpid()}'
    rc, out = sh(f'git -C /repo worktree add -q --detach {wt} HEAD')
    if rc: print(out); return 2
    res = {'repo_head': sh('git -C /repo rev-parse --short HEAD')[1].strip()}
    try:
        try:
            import re as _re
            extra = ' '.join(t for t in _re.findall(r'-[DO]\S+', json.load(open(os.path.join(d, 'meta.json'))).get('build', '').split('#')[0]) if t != '-DCELLO_NSTRACE')   # flags of the build command itself, not of a remark after '#'
        except Exception:
            extra = ''
        res['extra_build_flags_from_meta'] = extra
        # a demonstration may write scratch files into the directory its author worked in (/tmp/mut*/A): recreate it for the run
        made = []
        for dd in set(re.findall(r'/tmp/mut\w*/[AB]', open(os.path.join(d, 'demo.c'), errors='replace').read())):
            if not os.path.isdir(dd): os.makedirs(dd); made.append(dd)
        def demo(tag):
            exe = f'{wt}/demo_{tag}'
            rc, out = sh(f'gcc -std=gnu99 {extra} -I{wt}/include -DCELLO_NSTRACE {d}/demo.c {wt}/src/*.c -lpthread -lm -o {exe}')
            if rc: return {'build': 'FAILED', 'log': out[-800:]}
            rs = []
            for i in range(runs):
                rc, out = sh(exe, cwd=wt, timeout=180)
                rs.append({'exit': rc, 'tail': out[-300:]})
            return {'build': 'ok', 'runs': rs}
        res['demo_clean'] = demo('clean')
        rc, out = sh(f'git apply {d}/patch.diff', cwd=wt)
        res['patch_applies'] = rc == 0
        if rc: res['apply_log'] = out
        rc, out = sh('make check 2>&1', cwd=wt, timeout=1800)
        txt = re.sub(r'\x1b\[[0-9;]*m', '', out)
        m = re.search(r'Tests\s*\|\|\s*Total\s+(\d+)\s*\|\s*Passed\s+(\d+)\s*\|\s*Failed\s+(\d+)', txt)
        res['make_check'] = {'rc': rc, 'total': int(m.group(1)) if m else None, 'passed': int(m.group(2)) if m else None, 'failed': int(m.group(3)) if m else None}
        res['demo_changed'] = demo('changed')
        clean_ok = res['demo_clean'].get('build') == 'ok' and all(r['exit'] == 0 for r in res['demo_clean']['runs'])
        changed_fail = res['demo_changed'].get('build') == 'ok' and any(r['exit'] != 0 or 'FAIL' in r['tail'] for r in res['demo_changed']['runs'])
        res['confirmed'] = bool(res['patch_applies'] and res['make_check']['rc'] == 0 and res['make_check']['failed'] == 0 and clean_ok and changed_fail)
    finally:
        sh(f'git -C /repo worktree remove --force {wt}')
        for dd in locals().get('made', []): shutil.rmtree(os.path.dirname(dd), ignore_errors=True)
        shutil.rmtree(wt, ignore_errors=True)
    json.dump(res, open(os.path.join(d, 'verified.json'), 'w'), indent=1)
    print(sid, 'confirmed' if res.get('confirmed') else 'NOT CONFIRMED', json.dumps({k: v for k, v in res.items() if k in ('patch_applies', 'make_check')}))
    if not res.get('confirmed'): print(json.dumps(res, indent=1)[:3000])
    return 0 if res.get('confirmed') else 1
if __name__ == '__main__':
    sys.exit(main())
