#!/usr/bin/env python3
"""import the two changes a mutation sub-agent left in /tmp/mut_<x>/{A,B} into seeded/<x>_{a,b}, confirm them
(tools/seed_verify.py), annotate meta.json, remove the agent's worktree.  usage: tools/seed_import.py c09 C09"""
import os, sys, json, shutil, subprocess
ROOT = os.path.dirname(os.path.dirname(os.path.abspath(__file__)))
x, prop = sys.argv[1], sys.argv[2]
rnd = sys.argv[3] if len(sys.argv) > 3 else ''     # '' = first round (/tmp/mut_x, ids x_a,x_b); '2' = second round (/tmp/mut2_x, ids x_c,x_d)
names = {'': 'ab', '2': 'cd', '3': 'ef', '4': 'gh', '5': 'ij', '6': 'kl', '7': 'mn'}[rnd]
for v, nm in zip('AB', names):
    src = f'/tmp/mut{rnd}_{x}/{v}'
    if not os.path.isdir(src): print('missing', src); continue
    d = os.path.join(ROOT, 'seeded', f'{x}_{nm}'); os.makedirs(d, exist_ok=True)
    for f in ('patch.diff', 'demo.c', 'meta.json'):
        shutil.copy(os.path.join(src, f), d)
    r = subprocess.run([os.path.join(ROOT, 'tools', 'seed_verify.py'), f'{x}_{nm}'], capture_output=True, text=True)
    print(r.stdout.strip().split('\n')[0])
    m = json.load(open(os.path.join(d, 'meta.json')))
    m['property_id'] = prop; m['origin'] = 'independent sub-agent given only the property text and a scratch worktree'
    m['what_i_ran'] = 'tools/seed_verify.py (scratch worktree: patch applies, make check passes, demo passes clean / fails changed); tools/seed_eval.py for the checks'
    json.dump(m, open(os.path.join(d, 'meta.json'), 'w'), indent=1)
subprocess.run(['git', '-C', '/repo', 'worktree', 'remove', '--force', f'/tmp/wt{rnd}_{x}'])
shutil.rmtree(f'/tmp/mut{rnd}_{x}', ignore_errors=True)
