#!/bin/sh
# re-confirm nothing, only re-evaluate the listed seeds against the current checks, in N lanes: tools/seed_some.sh <lanes> <seed ids...>; log .cache/seed_some.log
cd "$(dirname "$0")/.."; mkdir -p .cache; N=$1; shift; : > .cache/seed_some.log
i=0; for s in "$@"; do echo "$((i % N)) $s"; i=$((i+1)); done > .cache/seed_some.list
for lane in $(seq 0 $((N-1))); do
  ( for s in $(awk -v l=$lane '$1==l{print $2}' .cache/seed_some.list); do
      P=$(python3 -c "import json;print(json.load(open('seeded/$s/meta.json'))['property_id'])")
      e=$(python3 tools/seed_eval.py $s $P 2>&1 | grep -E "^C[0-9]+ exit|no-failing|does not apply" | tr '\n' ' ')
      echo "$s | $e" >> .cache/seed_some.log
    done ) &
done
wait; echo ALL-DONE >> .cache/seed_some.log
