#!/usr/bin/env python3
"""print the prompt given to an independent seeding sub-agent for one property (only the property text + a scratch worktree).
usage: tools/seed_prompt.py C07 3   -> worktree /tmp/wt3_c07, output /tmp/mut3_c07/{A,B}"""
import sys, json, os
ROOT = os.path.dirname(os.path.dirname(os.path.abspath(__file__)))
pid, rnd = sys.argv[1], sys.argv[2]
x = pid.lower()
p = next(json.loads(l) for l in open(os.path.join(ROOT, 'properties.jsonl')) if json.loads(l)['id'] == pid)
print(f"""You are testing how well a verification effort detects realistic breakage of the C library orangeduck/Cello. You get a scratch git worktree of the
library at /tmp/wt{rnd}_{x} (work ONLY there and under /tmp/mut{rnd}_{x}; never touch /repo or /verif, never read /verif) and the text of one semantic property
that the library is supposed to satisfy:

  Title: {p['title']}
  Property: {p['statement']}
  Quantifier (what it must hold for): {p['quantifier']['text'] if isinstance(p['quantifier'], dict) else p['quantifier']}
  Code it is anchored in: {json.dumps(p['anchors'])}

Task: produce TWO different, independent changes (A and B) to the library source (src/*.c, include/Cello.h), each of which
  * BREAKS this property (the changed library really violates it on some input / history / schedule),
  * still COMPILES and still passes the existing test suite (`make check` in the worktree: all tests pass), and
  * looks like something a maintainer could plausibly commit (a refactor, an optimisation, a tidy-up, a "simplification", a changed constant or
    comparison, two cooperating sites that each look fine alone) — not sabotage that ordinary use would expose at once.
Prefer changes that need something SPECIFIC to manifest: a particular interleaving, a fault or crash at a particular point, a multi-step sequence of
operations, an unusual input (boundary value, particular size, particular collision pattern), a particular configuration, or two sites cooperating.
Make A and B different in kind and in different functions (different files where the property spans several).

For each change deliver a directory /tmp/mut{rnd}_{x}/A (resp. /B) containing exactly:
  patch.diff   — `git diff` of the change against the worktree's HEAD (must apply with `git apply` to a clean checkout)
  demo.c       — a small self-contained C program (`#include "Cello.h"`, `int main(int argc, char** argv)`), built with
                 `gcc -std=gnu99 -I<wt>/include -DCELLO_NSTRACE demo.c <wt>/src/*.c -lpthread -lm -o demo`, that exits 0 (prints PASS) on the UNCHANGED
                 library and exits non-zero (prints FAIL …, or crashes/hangs) on the CHANGED library, deterministically or in the clear majority of runs
  meta.json    — {{"property": "<id: title>", "summary": "<what was changed and why it breaks the property>", "needs": "<what exactly is needed for the
                 breakage to manifest, and why the test suite does not notice>", "files": ["src/..."], "build": "<command>", "run": "<command>",
                 "observed_clean": "<what you saw>", "observed_changed": "<what you saw, incl. make check result>"}}
Verify everything yourself before finishing: with the patch applied `make check` passes (all tests), the demo fails; with the patch reverted
(`git -C /tmp/wt{rnd}_{x} checkout -- .`) the demo passes. Leave the worktree CLEAN (no patch applied) when you finish. Do not commit anything.
The library's unchanged behaviour is the reference: if you believe the unchanged library already violates the property somewhere, do not use that —
pick a place where the unchanged library is right and your change makes it wrong.
Your last message: for A and B one paragraph each (site, idea, what it needs to manifest), and the verification you ran.""")
