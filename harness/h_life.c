/* harness/h_life.c — engine `life` (C06): life cycle of collector-managed objects on the real library.
 *
 * op file = a sequence of histories; each history runs in a forked child (teardown ends the process):
 *   H <main|thread> <ord|uno>     start a history: in the main thread (teardown = Cello_Exit at exit) or in a worker thread
 *                                 (teardown = Thread_Init_Run's del_raw(gc)); ord = every object lives in the fixed-address
 *                                 arena, event *sequences* and pending orders are compared; uno = events compared as sets
 *   n <id> <kind> <how> <slot> <owned|-> ; <order...>
 *   a <id> <kind> <how> <slot> <owned|-> ; <order...>
 *                                 n = new / new_root / new_raw;  a = alloc / alloc_root / alloc_raw followed by construct_with;
 *                                 kind p = probe leaf, q = probe leaf whose destructor allocates (see op q), b = PBox (arena-allocated type built from the library's own Box_New/
 *                                 Box_Del/Box_Assign/Box_Ref/Box_Deref), B = the library's Box (calloc), a = anchor (its Mark
 *                                 instance reports the held objects); how s = new, r = new_root, w = new_raw;
 *                                 order = pending order claimed by the generator if the registration collects
 *   o <id> <target|->             ref(box, target): re-point a Box / PBox (this is how ownership cycles are built: a ring of
 *                                 boxes, a box owning itself); the old pointee is just dropped
 *   d <id> <how>                  del / del_root / del_raw
 *   D <id> <how>                  dealloc(destruct(x)) / dealloc_root(…) / dealloc_raw(…) issued by the program (arena kinds only)
 *   q <id> <cid> <cslot> ...      from now on the destructor of object <id> (kind q) does new(Probe) for each child <cid>
 *                                 at arena slot <cslot>.  An op during which such a destructor ran is compared as a set
 *                                 (events sorted, no pending order); a collection started by one of these registrations is
 *                                 completed by a second one from clean frames, as for n
 *   c <marks...> ; <order...>     white-box collection: set exactly these mark bits, GC_Sweep
 *   g ; <order...>                GC_Mark + GC_Sweep (the real mark phase: roots, anchor, scrubbed stack)
 *   k <ids...>                    the program now holds exactly these objects (anchor)
 *   m <ids...>                    a mark phase that an exception leaves: GC_Mark runs, the anchor's Mark instance reports these
 *                                 objects and then throws; GC_Sweep does not follow, the mark bits set so far stay set.  (Needs a
 *                                 registered anchor.)  Since fix d8f0c4f nothing reads such bits: GC_Mark and GC_Del clear them first
 *   z <id>                        from now on the destructor of object <id> (kind p, q or b) also issues del(NULL), last
 *   N                             del(NULL) issued by the program
 *   r <id>                        from now on the destructor of object <id> (kind p, q, b or i) raises ValueError at the end of its
 *                                 body.  An op that an exception leaves prints ` raised` at the end of its O line (known finding
 *                                 KF-C06-dtor-raises: the rest of the pending list is abandoned)
 *   kinds T and i:  n <id> T <how> <tslot> - ; …   a run-time Type object, new(Type, "RT", size, New instance, Alloc instance),
 *                                 placed (calloc is wrapped) at block <tslot> (0..15) of the type region behind the arena;
 *                   n <id> i <how> <slot> <tid> ; …   an instance of the run-time Type object <tid> (a probe leaf at arena <slot>).
 *                                 When the memory of a Type object is released while one of its instances has not been released
 *                                 (known finding KF-C06-type-released-first) the behaviour of the process is undefined from there
 *                                 on: the op prints `O <op> ub` and the history ends
 *   s | t                         stop / start the collector
 *   e ; <order...>                teardown; the ledger is reported from a destructor-attribute function that runs after
 *                                 Cello_Exit (main) or after join (thread)
 * Every op prints
 *   O <op> ev=<f<id> = destructor entered, x<id> = memory released, in order (sorted in uno)> pend=<pending order|-> reg=<ids, r = root> run=<0|1> mit=<mitems>
 *            tb=<entry tables of the collector that are allocated>,<pending lists that are allocated>   (1,0 between ops, 0,0 after teardown)
 * Direct oracle (ledger, independent of the Lean model): X lines, see oracle_after_op / oracle_final. */
#include "common.h"
#include <sys/mman.h>
#include <pthread.h>

#define ARENA   ((char*)0x200000000000ULL)
#define STRIDE  64
#define NARENA  16384
#define MAXID   65536
#define MAXEV   (1 << 18)
#define TREGION ((char*)(ARENA + (size_t)NARENA * STRIDE))
#define TSTRIDE 8192
#define NTYPES  16

struct Probe { int64_t id; };
struct QProbe { int64_t id; };
struct PBox { var val; };
struct Anchor { int64_t dummy; };

#define MAXCHILD 4
struct Obj {
  var ptr; char kind, how; int slot, owned, owner;
  int allocated, nfin, nfree, fin_seq, free_seq, stopped_alloc, stopped_del, prog_deleted;
  int nchild, child[MAXCHILD], child_slot[MAXCHILD];
  int dealloc_registered;   /* the program released it with dealloc while it was registered: KF-C06-dealloc-registered */
  int clobbered;            /* it was waiting on the pending list of a sweep when a nested collection replaced that list */
  int late_child;           /* registered by a destructor during the teardown sweep (after its phase 1): KF-C06-dtor-alloc */
  int nulldel;              /* its destructor also does del(NULL) */
  int born;                 /* number of the op during which it was allocated */
  int type_id;              /* kind i: the run-time Type object it is an instance of */
  int raises;               /* its destructor raises */
  int raised;               /* … and did */
  int constructed;          /* its constructor ran (no exception came out of the registration) */
  int abandoned;            /* it was waiting on the pending list of a sweep that an exception left */
};
static struct Obj objs[MAXID];
static int slot_id[NARENA];
static int tslot_id[NTYPES];
static int want_tslot = -1;
static var want_type = NULL;
static const char* cur_tag = "?";
static volatile int* shared_expect = NULL;   /* shared with the parent: the child is expected to end with a failure status */
static int op_raised = 0, raise_pending = 0, any_raised = 0;
static int reserved[MAXID];                  /* identity reserved for a child of an allocating destructor */
static int nobjs_alloc = 0;

static int want_slot = -1;
static int held[MAXID], nheld = 0;

struct EvRec { char c; int id; };
static struct EvRec evs[MAXEV];
static int nB = 0;                          /* live objects of the library's Box type */
static int regflag[MAXID];
static int nev = 0, seq = 0;
static int snap[MAXID], nsnap = -1;          /* pending list observed at the first destructor call of a sweep */
static int ordered = 1, in_child = 0, threaded = 0, reported = 0, teardown_started = 0;
static size_t cur_line = 0;
static struct GC* the_gc = NULL;             /* the collector of the thread running the history */
static int marked_now[MAXID], collecting = 0;
static int thresholded = 0;                  /* the registration of this op ran a threshold collection */
static int stale_marks = 0;                  /* an abandoned mark phase left bits set and no collection has completed since */
static int abort_ids[4096], n_abort = 0, abort_armed = 0;   /* op m: what the anchor reports before it throws */

static int id_of(var p) {
  char* c = p;
  if (c >= ARENA && c < ARENA + (size_t)NARENA * STRIDE) {
    if ((c - ARENA) % STRIDE) return -1;
    return slot_id[(c - ARENA) / STRIDE];
  }
  if (c >= TREGION && c < TREGION + (size_t)NTYPES * TSTRIDE) {
    if ((c - TREGION) % TSTRIDE != sizeof(struct Header)) return -1;
    return tslot_id[(c - TREGION) / TSTRIDE];
  }
  if (nB) for (int i = 0; i < nobjs_alloc; i++) if (objs[i].allocated && objs[i].kind == 'B' && objs[i].ptr == p && objs[i].nfree == 0) return i;
  return -1;
}

static void note_freelist(void);
static void take_snapshot(var self) {
  struct GC* gc = the_gc;
  if (!gc || gc->freenum == 0 || nsnap >= 0 || gc->freelist == NULL) return;
  if (raise_pending && (cur_tag[0] == 'd' || cur_tag[0] == 'D')) return;   /* the stale list of a sweep that an exception left */
  nsnap = 0; int used_self = 0;
  for (size_t i = 0; i < gc->freenum; i++) {
    var p = gc->freelist[i];
    if (p == NULL) { if (used_self) continue; used_self = 1; p = self; }
    snap[nsnap++] = id_of(p);
  }
}

static void ledger(char c, var self) {
  int id = id_of(self);
  note_freelist();
  if (c == 'f') take_snapshot(self);
  if (nev < MAXEV) { evs[nev].c = c; evs[nev].id = id; nev++; }
  if (id < 0) { X("sig=life-unknown-object line=%zu what=%s of an address that is not a live probe", cur_line, c == 'f' ? "destructor" : "dealloc"); return; }
  seq++;
  if (c == 'f') { objs[id].nfin++; if (objs[id].nfin == 1) objs[id].fin_seq = seq; }
  else { objs[id].nfree++; if (objs[id].nfree == 1) objs[id].free_seq = seq; }
}

/* ---- probe types (file scope: they must outlive main's frame, Cello_Exit finalises their objects) ---- */
static var Arena_Alloc_Inst(void); static void maybe_raise(var self);
static var Arena_Alloc_Probe(void); static var Arena_Alloc_PBox(void); static var Arena_Alloc_Anchor(void); static var Arena_Alloc_QProbe(void);
static void Arena_Dealloc(var self) { ledger('x', self); }
static void Probe_New(var self, var args) { struct Probe* p = self; p->id = c_int(get(args, $I(0))); }
/* the del(NULL) of a destructor declared with op z (GC_Rem_Ptr's NULL guard, fix d3e4e44) */
static int dtor_catches = 0;
/* … such a destructor also throws and catches an exception of its own (ordinary user code): it needs the thread's exception
   record, also when it runs from GC_Del at thread exit (Thread_Init_Run deletes the record after the collector) */
__attribute__((noinline)) static void dtor_throw_catch(void) { var exc; V_TRY(exc, throw(ValueError, "caught inside the destructor")); if (exc) dtor_catches++; }
static void maybe_del_null(var self) { int id = id_of(self); if (id >= 0 && objs[id].nulldel) { del(NULL); dtor_throw_catch(); } }
static void Probe_Del(var self) { ledger('f', self); maybe_del_null(self); maybe_raise(self); }
static void q_alloc_child(int cid, int cslot);
static void QProbe_Del(var self) {
  ledger('f', self);
  int id = id_of(self);
  if (id < 0) return;
  if (objs[id].nchild > 0) thresholded = 1;
  for (int i = 0; i < objs[id].nchild; i++) q_alloc_child(objs[id].child[i], objs[id].child_slot[i]);
  maybe_del_null(self);
  maybe_raise(self);
}
static void PBox_New(var self, var args) { Box_New(self, args); }
static void PBox_Del(var self) { ledger('f', self); Box_Del(self); maybe_del_null(self); maybe_raise(self); }
/* the destructor of an object declared with op r raises */
static void maybe_raise(var self) {
  int id = id_of(self);
  if (id >= 0 && objs[id].raises) {
    objs[id].raised = 1;
    if (teardown_started && shared_expect) *shared_expect = 1;    /* nobody catches it: Uncaught ValueError, exit status 1 */
    throw(ValueError, "the destructor of object %i raises", $I(id));
  }
}
static void Anchor_Del(var self) { ledger('f', self); }
static void Anchor_Mark(var self, var gc, void(*f)(var,void*)) {
  if (abort_armed) {
    abort_armed = 0;
    for (int i = 0; i < n_abort; i++) { var p = objs[abort_ids[i]].ptr; if (p) f(gc, p); }
    throw(ValueError, "the Mark instance of the anchor throws");
  }
  for (int i = 0; i < nheld; i++) { var p = objs[held[i]].ptr; if (p) f(gc, p); }
}

var Probe = Cello(Probe, Instance(New, Probe_New, Probe_Del), Instance(Alloc, Arena_Alloc_Probe, Arena_Dealloc));
var QProbe = Cello(QProbe, Instance(New, Probe_New, QProbe_Del), Instance(Alloc, Arena_Alloc_QProbe, Arena_Dealloc));
var PBox = Cello(PBox, Instance(New, PBox_New, PBox_Del), Instance(Assign, Box_Assign),
                 Instance(Pointer, Box_Ref, Box_Deref), Instance(Alloc, Arena_Alloc_PBox, Arena_Dealloc));
var Anchor = Cello(Anchor, Instance(New, NULL, Anchor_Del), Instance(Mark, Anchor_Mark),
                   Instance(Alloc, Arena_Alloc_Anchor, Arena_Dealloc));

static var arena_alloc(var type, size_t payload) {
  char* obj = ARENA + (size_t)want_slot * STRIDE;
  char* blk = obj - sizeof(struct Header);
  memset(blk, 0, sizeof(struct Header) + payload);
  return header_init(blk, type, AllocHeap);
}
static var Arena_Alloc_Probe(void) { return arena_alloc(Probe, sizeof(struct Probe)); }
static var Arena_Alloc_QProbe(void) { return arena_alloc(QProbe, sizeof(struct QProbe)); }
static var Arena_Alloc_PBox(void) { return arena_alloc(PBox, sizeof(struct PBox)); }
static var Arena_Alloc_Anchor(void) { return arena_alloc(Anchor, sizeof(struct Anchor)); }
static var Arena_Alloc_Inst(void) { return arena_alloc(want_type, sizeof(struct Probe)); }
/* the instance objects of the run-time types: in static storage (they outlive everything) */
static struct { struct Header h; struct New n; } rt_new;
static struct { struct Header h; struct Alloc a; } rt_alloc;
static var rt_new_inst = NULL, rt_alloc_inst = NULL;
static void rt_init(void) {
  if (rt_new_inst) return;
  rt_new.n.construct_with = Probe_New; rt_new.n.destruct = Probe_Del;
  rt_alloc.a.alloc = Arena_Alloc_Inst; rt_alloc.a.dealloc = Arena_Dealloc;
  rt_new_inst = header_init(&rt_new.h, New, AllocStatic);
  rt_alloc_inst = header_init(&rt_alloc.h, Alloc, AllocStatic);
}

/* ---- the collector's own tables (extension round): every entry table (calloc of GCEntry cells) and every pending list
   (a block whose address was seen in gc->freelist) of the history's collector, allocated / released.  Reported as
   ` tb=<live entry tables>,<live pending lists>` on every O line; the model (Cello/LifecycleMem.lean) predicts 1,0 between
   operations once something was registered and 0,0 after teardown. ---- */
#define MAXTB 64
struct TbRec { void* p; char cls; int live; };
static struct TbRec tbs[MAXTB];
static int ntb = 0;
static long tb_allocs[2], tb_frees[2];       /* [0] entry tables, [1] pending lists */
static struct TbRec* tb_find(void* p) {
  for (int i = 0; i < ntb; i++) if (tbs[i].p == p && tbs[i].live) return &tbs[i];
  return NULL;
}
static void tb_add(void* p, char cls) {
  if (!p || tb_find(p)) return;
  struct TbRec* r = NULL;
  for (int i = 0; i < ntb; i++) if (!tbs[i].live) { r = &tbs[i]; break; }
  if (!r && ntb < MAXTB) r = &tbs[ntb++];
  if (!r) return;
  r->p = p; r->cls = cls; r->live = 1; tb_allocs[cls == 'F']++;
}
static int tb_live(char cls) { int n = 0; for (int i = 0; i < ntb; i++) if (tbs[i].live && tbs[i].cls == cls) n++; return n; }
/* the pending list of the history's collector, whenever harness code runs while a sweep is releasing objects */
static void note_freelist(void) { if (the_gc && the_gc->freelist) tb_add(the_gc->freelist, 'F'); }

/* ---- block accounting for the library's own Box (calloc'ed): link-time --wrap=free ---- */
void* __real_calloc(size_t n, size_t sz);
void* __real_realloc(void* p, size_t n);
void* __wrap_realloc(void* p, size_t n) {
  struct TbRec* r = (in_child && p) ? tb_find(p) : NULL;
  void* q = __real_realloc(p, n);
  if (r && q != p) { r->p = q; if (!q) { r->live = 0; tb_frees[r->cls == 'F']++; } }
  return q;
}
void* __wrap_calloc(size_t n, size_t sz) {
  if (in_child && want_tslot >= 0 && n * sz > 2048 && n * sz <= TSTRIDE) {
    char* blk = TREGION + (size_t)want_tslot * TSTRIDE;
    want_tslot = -1;
    memset(blk, 0, n * sz);
    return blk;
  }
  void* q = __real_calloc(n, sz);
  if (in_child && the_gc && sz == sizeof(struct GCEntry)) tb_add(q, 'E');
  return q;
}
void __real_free(void* p);
void __wrap_free(void* p) {
  if (p && in_child) { struct TbRec* r = tb_find(p); if (r) { r->live = 0; tb_frees[r->cls == 'F']++; } }
  if (p && in_child && (char*)p >= TREGION && (char*)p < TREGION + (size_t)NTYPES * TSTRIDE) {
    /* the memory of a run-time Type object is released (the block stays mapped) */
    var self = (char*)p + sizeof(struct Header);
    int tid = id_of(self);
    ledger('x', self);
    for (int i = 0; tid >= 0 && i < nobjs_alloc; i++) {
      if (objs[i].allocated && objs[i].kind == 'i' && objs[i].type_id == tid && objs[i].nfree == 0) {
        X("sig=life-type-released-first line=%zu what=the run-time Type object %d was released while its instance %d has not been released: destruct(instance) reads the freed Type", cur_line, tid, i);
        O("%s ub", cur_tag);
        fflush(stdout);
        _exit(0);
      }
    }
    return;
  }
  if (p && in_child && nB) {
    var self = (char*)p + sizeof(struct Header);
    if (id_of(self) >= 0) { ledger('x', self); nB--; }
  }
  __real_free(p);
}

/* ---- helpers ---- */
/* zero the stack below the caller's frame.  Not instrumented by ASan, so that there are no red zones between the
   buffer and this function's frame header: the next callee's frame then starts from zeroed memory up to the few words
   of saved registers/return address of this function (the caller's values, never object addresses). */
__attribute__((noinline, no_sanitize("address"))) static void scrub_stack(void) {
  volatile uint64_t buf[8192];
  for (size_t i = 0; i < 8192; i++) buf[i] = 0;
  __asm__ volatile("" ::: "memory");
}

static int cmp_ev(const void* a, const void* b) {
  const struct EvRec* x = a; const struct EvRec* y = b;
  if (x->id != y->id) return x->id < y->id ? -1 : 1;
  return x->c < y->c ? -1 : x->c > y->c;
}

static char obuf[1 << 20];
static void print_obs(const char* op, int with_reg) {
  size_t n = 0;
  n += snprintf(obuf + n, sizeof obuf - n, "%s ev=", op);
  if (!ordered || thresholded) qsort(evs, nev, sizeof evs[0], cmp_ev);
  int first = 1;
  for (int i = 0; i < nev && n < sizeof obuf - 64; i++) {
    n += snprintf(obuf + n, sizeof obuf - n, "%s%c%d", first ? "" : ",", evs[i].c, evs[i].id); first = 0;
  }
  n += snprintf(obuf + n, sizeof obuf - n, " pend=");
  if (!ordered || thresholded || nsnap <= 0) n += snprintf(obuf + n, sizeof obuf - n, "-");
  else for (int i = 0; i < nsnap && n < sizeof obuf - 64; i++) n += snprintf(obuf + n, sizeof obuf - n, "%s%d", i ? "," : "", snap[i]);
  if (with_reg) {
    struct GC* gc = the_gc;
    n += snprintf(obuf + n, sizeof obuf - n, " reg=");
    first = 1;
    memset(regflag, 0, sizeof(int) * (size_t)(nobjs_alloc > 0 ? nobjs_alloc : 1));
    size_t occ0 = 0;
    for (size_t i = 0; i < gc->nslots; i++) {
      if (!gc->entries[i].hash) continue;
      occ0++;
      int id = id_of(gc->entries[i].ptr);
      if (id < 0) { X("sig=life-registry-stale line=%zu what=registry holds an address that is not a live object", cur_line); continue; }
      if (regflag[id]) X("sig=life-registry-dup line=%zu what=object %d registered twice", cur_line, id);
      regflag[id] = gc->entries[i].root ? 2 : 1;
      if (objs[id].nfree > 0 && objs[id].dealloc_registered) X("sig=KF-C06-dealloc-registered line=%zu what=object %d released by the program with dealloc is still registered", cur_line, id);
      else if (objs[id].nfree > 0) X("sig=life-registry-stale line=%zu what=released object %d still registered", cur_line, id);
    }
    for (int id = 0; id < nobjs_alloc && n < sizeof obuf - 64; id++) {
      if (!objs[id].allocated || objs[id].ptr == NULL) continue;
      if (objs[id].nfree == 0 && (regflag[id] != 0) != GC_Mem_Ptr(gc, objs[id].ptr)) X("sig=life-registry-mem line=%zu what=lookup of object %d disagrees with the entry array", cur_line, id);
      if (regflag[id]) { n += snprintf(obuf + n, sizeof obuf - n, "%s%d%s", first ? "" : ",", id, regflag[id] == 2 ? "r" : ""); first = 0; }
    }
    n += snprintf(obuf + n, sizeof obuf - n, " run=%d mit=%zu", (int)gc->running, gc->mitems);
    size_t occ = 0, bits = 0; for (size_t i = 0; i < gc->nslots; i++) if (gc->entries[i].hash) { occ++; if (gc->entries[i].marked) bits++; }
    /* a completed collection leaves no mark bit; only an abandoned mark phase (op m) does, until the next collection */
    if (bits && !stale_marks) X("sig=life-mark-left line=%zu what=%zu mark bits left set after the op", cur_line, bits);
    if (!bits) stale_marks = 0;
    if (occ != gc->nitems) X("sig=life-nitems line=%zu what=nitems %zu but %zu occupied slots", cur_line, gc->nitems, occ);
    if (gc->freelist == NULL && gc->freenum == 0) raise_pending = 0;
    else if (raise_pending) X("sig=life-dtor-raised line=%zu what=an exception raised by a destructor left the release loop of GC_Sweep: the pending list (%zu slots) is still set outside a collection", cur_line, gc->freenum);
    else X("sig=life-pending-left line=%zu what=pending list not released after the op", cur_line);
  }
  {
    if (with_reg) note_freelist();
    int e = tb_live('E'), f = tb_live('F');
    n += snprintf(obuf + n, sizeof obuf - n, " tb=%d,%d", e, f);
    if (with_reg) {
      if (e > 1) X("sig=life-table-left line=%zu what=%d entry tables of the collector are allocated after the op (a rehash must release the table it replaces)", cur_line, e);
      if (f > 0 && !raise_pending) X("sig=life-table-left line=%zu what=%d pending lists of the collector are still allocated after the op (GC_Sweep must release its pending list)", cur_line, f);
    } else if (!op_raised && (e > 0 || f > 0))
      X("sig=life-table-left line=%zu what=after teardown %d entry tables and %d pending lists of the collector are still allocated (GC_Del must return them)", cur_line, e, f);
  }
  if (op_raised) n += snprintf(obuf + n, sizeof obuf - n, " raised");
  O("%s", obuf);
}

/* oracle after every op: nothing finalised or released twice, never released before finalised, no marked object finalised */
static void oracle_after_op(void) {
  for (int i = 0; i < nev; i++) {
    int id = evs[i].id; if (id < 0) continue;
    struct Obj* o = &objs[id];
    if (o->nfin > 1 && o->dealloc_registered) { X("sig=KF-C06-dealloc-registered line=%zu what=object %d, released by the program with dealloc while registered, was finalised again by the collector (%d times in all)", cur_line, id, o->nfin); o->nfin = 1; }
    if (o->nfree > 1 && o->dealloc_registered) { X("sig=KF-C06-dealloc-registered line=%zu what=object %d, released by the program with dealloc while registered, was released again by the collector (%d times in all)", cur_line, id, o->nfree); o->nfree = 1; }
    if (o->nfin > 1) { X("sig=life-double-finalise line=%zu what=object %d finalised %d times", cur_line, id, o->nfin); o->nfin = 1; }
    if (o->nfree > 1) { X("sig=life-double-free line=%zu what=object %d released %d times", cur_line, id, o->nfree); o->nfree = 1; }
    if (o->kind != 'B' && o->kind != 'T' && o->nfree >= 1 && (o->nfin == 0 || o->fin_seq > o->free_seq)) X("sig=life-free-unfinalised line=%zu what=object %d released without having been finalised", cur_line, id);
    if (collecting && marked_now[id] && evs[i].c == 'f') X("sig=life-marked-finalised line=%zu what=collection finalised object %d of its marked set", cur_line, id);
  }
}

static void oracle_final(void) {
  int left = 0;
  for (int id = 0; id < MAXID; id++) {
    struct Obj* o = &objs[id];
    if (!o->allocated) continue;
    int done = (o->kind == 'B' || o->kind == 'T') ? (o->nfree == 1) : (o->nfin == 1 && o->nfree == 1);
    if (done) continue;
    left++;
    if (o->stopped_alloc && o->how != 'w')
      X("sig=KF-C06-stopped line=%zu what=object %d allocated with new/new_root while the collector was stopped was never finalised (fin=%d free=%d)", cur_line, id, o->nfin, o->nfree);
    else if (o->stopped_del && o->how == 'r')
      X("sig=KF-C06-stopped line=%zu what=root object %d deleted while the collector was stopped (the del was ignored) was never finalised (fin=%d free=%d)", cur_line, id, o->nfin, o->nfree);
    else if (o->raised)
      X("sig=life-dtor-raised line=%zu what=object %d, whose destructor raised, was never released (fin=%d free=%d)", cur_line, id, o->nfin, o->nfree);
    else if (o->abandoned)
      X("sig=life-dtor-raised line=%zu what=object %d was waiting on the pending list of a sweep that a destructor's exception left: never finalised (fin=%d free=%d)", cur_line, id, o->nfin, o->nfree);
    else if (any_raised && o->nfin == 1 && o->nfree == 0)
      X("sig=life-dtor-raised line=%zu what=an exception raised by a nested destructor passed through the destructor of object %d: never released (fin=%d free=%d)", cur_line, id, o->nfin, o->nfree);
    else if (any_raised && o->how != 'w' && o->nfin == 0 && o->constructed == 0)
      X("sig=life-dtor-raised line=%zu what=object %d was being allocated when a destructor's exception came out of the threshold collection: left registered, unconstructed (fin=%d free=%d)", cur_line, id, o->nfin, o->nfree);
    else if (o->clobbered)
      X("sig=KF-C06-dtor-alloc line=%zu what=object %d was waiting on the pending list of a sweep when a destructor's allocation ran a nested collection: never finalised (fin=%d free=%d)", cur_line, id, o->nfin, o->nfree);
    else if (o->late_child)
      X("sig=KF-C06-dtor-alloc line=%zu what=object %d, allocated by a destructor during the teardown sweep, was left registered and never finalised (fin=%d free=%d)", cur_line, id, o->nfin, o->nfree);
    else if (o->how == 'w' && !o->prog_deleted)
      I("raw object %d never deleted by the program (program obligation)", id);
    else if (o->how == 'r' && !o->prog_deleted && o->owner >= 0 && objs[o->owner].kind != 'p' &&
             (objs[o->owner].nfree >= 1) && !objs[o->owner].stopped_del && !(objs[o->owner].how == 'w' && objs[o->owner].stopped_alloc))
      X("sig=life-left-behind line=%zu what=root object %d owned by object %d, which was finalised, was never deleted by its owner", cur_line, id, o->owner);
    else if (o->how == 'r' && !o->prog_deleted)
      I("root object %d never deleted by the program (program obligation: roots are not swept)", id);
    else
      X("sig=life-left-behind line=%zu what=object %d (kind %c, how %c) left behind at teardown: finalised %d times, released %d times", cur_line, id, o->kind, o->how, o->nfin, o->nfree);
  }
  I("left=%d", left);
  I("tables entry=%ld/%ld pending=%ld/%ld dtor_catches=%d", tb_allocs[0], tb_frees[0], tb_allocs[1], tb_frees[1], dtor_catches);
}

static int parse_ids(char** toks, int ntok, int from, int* out, int* nout, int* next) {
  /* ids until ';' or end */
  int n = 0, i = from;
  for (; i < ntok; i++) {
    if (strcmp(toks[i], ";") == 0) { i++; break; }
    char* end; long v = strtol(toks[i], &end, 10);
    if (*end || v < 0 || v >= MAXID) return 0;
    out[n++] = (int)v;
  }
  *nout = n; *next = i; return 1;
}

static int op_seq = 0;
static void begin_op(void) { op_seq++; nev = 0; nsnap = -1; collecting = 0; thresholded = 0; op_raised = 0; }
/* an exception raised by a destructor arrived in the program during this op */
static void note_raised(var exc) {
  if (!exc) return;
  struct GC* gc = the_gc;
  op_raised = 1; any_raised = 1;
  if (gc->freelist != NULL && gc->freenum > 0) {
    raise_pending = 1;
    for (size_t i = 0; i < gc->freenum; i++) { int w = gc->freelist[i] ? id_of(gc->freelist[i]) : -1; if (w >= 0) objs[w].abandoned = 1; }
  }
}

/* new(Probe) issued by the destructor of a kind-q object */
__attribute__((noinline)) static void q_alloc_child(int cid, int cslot) {
  var bottom_marker = NULL;
  struct GC* gc = the_gc;
  if (cid < 0 || cid >= MAXID || cslot < 0 || cslot >= NARENA || objs[cid].allocated) { X("sig=life-arena line=%zu what=bad child %d of an allocating destructor", cur_line, cid); return; }
  struct Obj* o = &objs[cid];
  memset(o, 0, sizeof *o);
  reserved[cid] = 0;
  o->kind = 'p'; o->how = 's'; o->slot = cslot; o->owned = -1; o->owner = -1; o->allocated = 1; o->born = op_seq;
  o->stopped_alloc = !gc->running;
  o->late_child = teardown_started;
  if (cid + 1 > nobjs_alloc) nobjs_alloc = cid + 1;
  want_slot = cslot; slot_id[cslot] = cid; o->ptr = ARENA + (size_t)cslot * STRIDE;
  /* is a sweep releasing objects right now?  then remember who is still waiting on its list */
  int in_sweep = gc->freelist != NULL && gc->freenum > 0;
  int* waiting = in_sweep ? malloc(sizeof(int) * gc->freenum) : NULL; int nwaiting = 0;   /* (not static: destructors nest) */
  if (in_sweep) for (size_t i = 0; i < gc->freenum; i++) { int w = gc->freelist[i] ? id_of(gc->freelist[i]) : -1; if (w >= 0) waiting[nwaiting++] = w; }
  int will_collect = gc->running && gc->nitems + 1 > gc->mitems;
  var saved = gc->bottom; gc->bottom = &bottom_marker;
  scrub_stack();
  volatile var p = new(Probe, $I(cid));
  /* did this registration run a collection?  inside a sweep: the nested GC_Sweep has released the list */
  int collected = in_sweep ? (gc->freelist == NULL) : will_collect;
  if (collected) {
    thresholded = 1; stale_marks = 0;
    if (in_sweep) for (int i = 0; i < nwaiting; i++) objs[waiting[i]].clobbered = 1;
    scrub_stack();
    GC_Mark(gc);
    for (size_t i = 0; i < gc->nslots; i++) if (gc->entries[i].hash && gc->entries[i].ptr == p) gc->entries[i].marked = true;
    GC_Sweep(gc);
  }
  gc->bottom = saved;
  free(waiting);
  if (p != o->ptr) X("sig=life-arena line=%zu what=arena address mismatch", cur_line);
  p = NULL;
}

__attribute__((noinline)) static int do_new(int id, char kind, char how, int slot, int owned, int via_alloc) {
  var bottom_marker = NULL;
  struct GC* gc = the_gc;
  struct Obj* o = &objs[id];
  if (o->allocated || reserved[id]) return 0;
  if (kind != 'B') { if (slot < 0 || slot >= NARENA) return 0; }
  int tid = -1;
  if (kind == 'T') { if (slot >= NTYPES || owned >= 0) return 0; }
  if (kind == 'i') { if (owned < 0 || !objs[owned].allocated || objs[owned].kind != 'T' || objs[owned].nfree > 0) return 0; tid = owned; owned = -1; }
  if (owned >= 0 && (!objs[owned].allocated || kind == 'p' || kind == 'q' || kind == 'a')) return 0;
  memset(o, 0, sizeof *o);
  o->kind = kind; o->how = how; o->slot = slot; o->owned = owned; o->owner = -1; o->allocated = 1; o->born = op_seq; o->type_id = tid;
  if (owned >= 0) objs[owned].owner = id;
  o->stopped_alloc = !gc->running;
  if (kind == 'B') nB++;
  if (id + 1 > nobjs_alloc) nobjs_alloc = id + 1;
  var type = kind == 'p' ? Probe : kind == 'q' ? QProbe : kind == 'b' ? PBox : kind == 'B' ? Box : kind == 'T' ? Type : kind == 'i' ? objs[tid].ptr : Anchor;
  if (kind == 'T') { rt_init(); want_tslot = slot; tslot_id[slot] = id; o->ptr = TREGION + (size_t)slot * TSTRIDE + sizeof(struct Header); }
  else if (kind != 'B') { want_slot = slot; slot_id[slot] = id; o->ptr = ARENA + (size_t)slot * STRIDE; }
  if (kind == 'i') want_type = type;
  /* GC_Set will run GC_Mark + GC_Sweep when nitems exceeds mitems.  Which *garbage* that collection reclaims depends on
     stale words in the frames of GC_Set's earlier callees (GC_Set_Ptr's displaced entries end up in the red zones of
     GC_Mark's frame, which the conservative stack scan reads): it may keep some of it.  The harness therefore completes
     a threshold collection with a second collection from clean frames (below): the *set* of objects finalised by the op
     is then determined, and that is what is compared for such ops (events sorted, no pending order). */
  int will_collect = how != 'w' && gc->running && gc->nitems + 1 > gc->mitems;
  var saved = gc->bottom; gc->bottom = &bottom_marker;
  scrub_stack();
  volatile var p = NULL;   /* volatile: the only copy of the new address in this frame is cleared below */
  var exc = NULL;
  try {
  if (via_alloc) {
    /* the alloc route: alloc / alloc_root / alloc_raw, then the constructor */
    p = how == 's' ? alloc(type) : how == 'r' ? alloc_root(type) : alloc_raw(type);
    if (kind == 'p' || kind == 'q' || kind == 'i') construct_with(p, tuple($I(id)));
    else if (kind == 'a') construct_with(p, tuple());
    else if (kind == 'T') construct_with(p, tuple($S("RT"), $I(sizeof(struct Probe)), rt_new_inst, rt_alloc_inst));
    else construct_with(p, tuple($R(owned >= 0 ? objs[owned].ptr : NULL)));
  } else if (kind == 'p' || kind == 'q' || kind == 'i') {
    p = how == 's' ? new_with(type, tuple($I(id))) : how == 'r' ? new_root_with(type, tuple($I(id))) : new_raw_with(type, tuple($I(id)));
  } else if (kind == 'a') {
    p = how == 's' ? new(Anchor) : how == 'r' ? new_root(Anchor) : new_raw(Anchor);
  } else if (kind == 'T') {
    p = how == 's' ? new_with(Type, tuple($S("RT"), $I(sizeof(struct Probe)), rt_new_inst, rt_alloc_inst))
      : how == 'r' ? new_root_with(Type, tuple($S("RT"), $I(sizeof(struct Probe)), rt_new_inst, rt_alloc_inst))
      : new_raw_with(Type, tuple($S("RT"), $I(sizeof(struct Probe)), rt_new_inst, rt_alloc_inst));
  } else {
    var tgt = owned >= 0 ? objs[owned].ptr : NULL;
    p = how == 's' ? new_with(type, tuple($R(tgt))) : how == 'r' ? new_root_with(type, tuple($R(tgt))) : new_raw_with(type, tuple($R(tgt)));
  }
  o->constructed = 1;
  } catch (e_) { exc = e_; }
  want_tslot = -1;
  if (exc) {
    /* a destructor run by the threshold collection of this registration raised: the exception came out of alloc, the
       constructor did not run, the object stays registered (no second collection: the release loop was left) */
    note_raised(exc);
    thresholded = 1;
    gc->bottom = saved;
    p = NULL;
    return 1;
  }
  if (will_collect) {
    thresholded = 1; stale_marks = 0;
    scrub_stack();
    GC_Mark(gc);
    for (size_t i = 0; i < gc->nslots; i++) if (gc->entries[i].hash && gc->entries[i].ptr == p) gc->entries[i].marked = true;
    GC_Sweep(gc);
  }
  gc->bottom = saved;
  if (kind != 'B' && p != o->ptr) { X("sig=life-arena line=%zu what=arena address mismatch (kind %c)", cur_line, kind); }
  o->ptr = p;
  p = NULL;
  return 1;
}

__attribute__((noinline)) static void do_del(int id, char how) {
  var p = objs[id].ptr;
  objs[id].prog_deleted = 1;
  if (how != 'w' && !the_gc->running) objs[id].stopped_del = 1;   /* GC_Rem ignores it: known finding F23 */
  if (how == 's') del(p); else if (how == 'r') del_root(p); else del_raw(p);
}

/* dealloc(destruct(x)) issued by the program: dealloc, dealloc_root and dealloc_raw are the same function */
__attribute__((noinline)) static void do_dealloc(int id, char how) {
  var p = objs[id].ptr;
  objs[id].prog_deleted = 1;
  if (GC_Mem_Ptr(the_gc, p)) objs[id].dealloc_registered = 1;   /* dealloc does not unregister: KF-C06-dealloc-registered */
  destruct(p);
  if (how == 's') dealloc(p); else if (how == 'r') dealloc_root(p); else dealloc_raw(p);
}

__attribute__((noinline)) static void do_collect(int* marks, int nmarks) {
  struct GC* gc = the_gc;
  memset(marked_now, 0, sizeof marked_now);
  for (int i = 0; i < nmarks; i++) marked_now[marks[i]] = 1;
  for (size_t i = 0; i < gc->nslots; i++) {
    if (!gc->entries[i].hash) continue;
    int id = id_of(gc->entries[i].ptr);
    gc->entries[i].marked = (id >= 0 && marked_now[id]);
  }
  collecting = 1; stale_marks = 0;
  GC_Sweep(gc);
}

__attribute__((noinline)) static void do_gc(void) {
  var bottom_marker = NULL;
  struct GC* gc = the_gc;
  var saved = gc->bottom; gc->bottom = &bottom_marker;
  scrub_stack();
  GC_Mark(gc);
  GC_Sweep(gc);
  gc->bottom = saved;
  stale_marks = 0;
}

/* oracle after a collection with the real mark phase from clean frames: what the program cannot reach — not held, not a
   root, not owned (through Box pointers) by something reachable — must have left the registry.  (Stale mark bits of an
   abandoned mark phase must not keep garbage alive: fix d8f0c4f.) */
static void oracle_after_gc(void) {
  static char reach[MAXID]; static int stack[MAXID];
  struct GC* gc = the_gc;
  memset(reach, 0, (size_t)(nobjs_alloc > 0 ? nobjs_alloc : 1));
  int sp = 0;
  for (int i = 0; i < nheld; i++) if (!reach[held[i]]) { reach[held[i]] = 1; stack[sp++] = held[i]; }
  for (size_t i = 0; i < gc->nslots; i++) {
    if (!gc->entries[i].hash || !gc->entries[i].root) continue;
    int id = id_of(gc->entries[i].ptr);
    if (id >= 0 && !reach[id]) { reach[id] = 1; stack[sp++] = id; }
  }
  while (sp > 0) {
    int x = stack[--sp];
    if (!objs[x].allocated || objs[x].nfree > 0) continue;
    int y = objs[x].owned;
    if (y >= 0 && !reach[y]) { reach[y] = 1; stack[sp++] = y; }
  }
  for (size_t i = 0; i < gc->nslots; i++) {
    if (!gc->entries[i].hash || gc->entries[i].root) continue;
    int id = id_of(gc->entries[i].ptr);
    if (id >= 0 && objs[id].born == op_seq) continue;     /* allocated by a destructor that this collection ran */
    if (id >= 0 && !reach[id]) X("sig=life-garbage-kept line=%zu what=object %d, which nothing reaches, is still registered after GC_Mark + GC_Sweep from clean frames", cur_line, id);
  }
}

/* a mark phase that an exception leaves: the anchor's Mark instance reports `ids`, then throws */
__attribute__((noinline)) static void do_mark_abort(int* ids, int n) {
  var bottom_marker = NULL;
  struct GC* gc = the_gc;
  var saved = gc->bottom; gc->bottom = &bottom_marker;
  scrub_stack();
  n_abort = n; memcpy(abort_ids, ids, (size_t)n * sizeof(int));
  abort_armed = 1;
  var exc;
  V_TRY(exc, GC_Mark(gc));
  abort_armed = 0;
  gc->bottom = saved;
  size_t bits = 0; for (size_t i = 0; i < gc->nslots; i++) if (gc->entries[i].hash && gc->entries[i].marked) bits++;
  I("mark-abort line=%zu exc=%s bits=%zu", cur_line, exc ? v_exc_name(exc) : "none", bits);
  stale_marks = 1;
}

static char** hist; static size_t hist_n; static size_t* hist_line;
static var main_bottom = NULL;

/* runs the ops of the current history up to and including `e`; returns 1 if `e` was reached */
static int run_history(void) {
  the_gc = current(GC);
  if (the_gc->entries) tb_add(the_gc->entries, 'E');      /* (a table the collector already had when the history started) */
  main_bottom = the_gc->bottom;
  static char* toks[4096]; static int ids[4096], ids2[4096];
  for (size_t li = 0; li < hist_n; li++) {
    cur_line = hist_line[li];
    static char buf[1 << 16];
    strncpy(buf, hist[li], sizeof buf - 1); buf[sizeof buf - 1] = 0;
    int ntok = 0;
    for (char* t = strtok(buf, " "); t && ntok < 4096; t = strtok(NULL, " ")) toks[ntok++] = t;
    if (ntok == 0) continue;
    begin_op();
    /* the frames of the op functions below start from zeroed memory: the conservative stack scan of a collection
       triggered inside them then sees only what the library itself put there (the object being registered) */
    scrub_stack();
    int n1 = 0, n2 = 0, nx = 0;
    if ((strcmp(toks[0], "n") == 0 || strcmp(toks[0], "a") == 0) && ntok >= 6) {
      char* e1; long id = strtol(toks[1], &e1, 10); char* e2; long slot = strtol(toks[4], &e2, 10);
      long owned = -1; int ok = !*e1 && !*e2 && id >= 0 && id < MAXID && strlen(toks[2]) == 1 && strlen(toks[3]) == 1
        && strchr("pqbBaTi", toks[2][0]) && strchr("srw", toks[3][0]);
      cur_tag = toks[0][0] == 'a' ? "a" : "n";
      if (ok && strcmp(toks[5], "-") != 0) { char* e3; owned = strtol(toks[5], &e3, 10); ok = !*e3 && owned >= 0 && owned < MAXID; }
      if (ok && ntok > 6) ok = strcmp(toks[6], ";") == 0 && parse_ids(toks, ntok, 7, ids2, &n2, &nx);
      if (!ok || !do_new((int)id, toks[2][0], toks[3][0], (int)slot, (int)owned, toks[0][0] == 'a')) { O("bad-op"); continue; }
      oracle_after_op(); print_obs(toks[0], 1);
    } else if (strcmp(toks[0], "d") == 0 && ntok == 3 && strlen(toks[2]) == 1 && strchr("srw", toks[2][0])) {
      char* e1; long id = strtol(toks[1], &e1, 10);
      if (*e1 || id < 0 || id >= MAXID || !objs[id].allocated || objs[id].ptr == NULL) { O("bad-op"); continue; }
      cur_tag = "d";
      { var exc; V_TRY(exc, do_del((int)id, toks[2][0])); note_raised(exc); }
      oracle_after_op(); print_obs("d", 1);
    } else if (strcmp(toks[0], "D") == 0 && ntok == 3 && strlen(toks[2]) == 1 && strchr("srw", toks[2][0])) {
      char* e1; long id = strtol(toks[1], &e1, 10);
      if (*e1 || id < 0 || id >= MAXID || !objs[id].allocated || objs[id].ptr == NULL || objs[id].kind == 'B') { O("bad-op"); continue; }
      cur_tag = "D";
      { var exc; V_TRY(exc, do_dealloc((int)id, toks[2][0])); note_raised(exc); }
      oracle_after_op(); print_obs("D", 1);
    } else if (strcmp(toks[0], "q") == 0 && ntok >= 2 && ntok % 2 == 0 && ntok <= 2 + 2 * MAXCHILD) {
      char* e1; long id = strtol(toks[1], &e1, 10);
      int ok = !*e1 && id >= 0 && id < MAXID && objs[id].allocated && objs[id].kind == 'q';
      int nc = (ntok - 2) / 2; long cv[2 * MAXCHILD];
      for (int i = 0; ok && i < 2 * nc; i++) { char* e2; cv[i] = strtol(toks[2 + i], &e2, 10); ok = !*e2 && cv[i] >= 0 && cv[i] < (i % 2 ? NARENA : MAXID); }
      for (int i = 0; ok && i < nc; i++) { if (objs[cv[2 * i]].allocated || reserved[cv[2 * i]]) ok = 0; for (int j = 0; j < i; j++) if (cv[2 * j] == cv[2 * i]) ok = 0; }
      if (!ok) { O("bad-op"); continue; }
      for (int i = 0; i < objs[id].nchild; i++) reserved[objs[id].child[i]] = 0;
      objs[id].nchild = nc;
      for (int i = 0; i < nc; i++) { objs[id].child[i] = (int)cv[2 * i]; objs[id].child_slot[i] = (int)cv[2 * i + 1]; reserved[cv[2 * i]] = 1; }
      print_obs("q", 1);
    } else if (strcmp(toks[0], "o") == 0 && ntok == 3) {
      char* e1; long id = strtol(toks[1], &e1, 10); long tg = -1; int ok = !*e1 && id >= 0 && id < MAXID && objs[id].allocated
        && (objs[id].kind == 'b' || objs[id].kind == 'B');
      if (ok && strcmp(toks[2], "-") != 0) { char* e2; tg = strtol(toks[2], &e2, 10); ok = !*e2 && tg >= 0 && tg < MAXID && objs[tg].allocated; }
      if (!ok) { O("bad-op"); continue; }
      if (objs[id].owned >= 0 && objs[objs[id].owned].owner == id) objs[objs[id].owned].owner = -1;
      objs[id].owned = (int)tg;
      if (tg >= 0) objs[tg].owner = (int)id;
      ref(objs[id].ptr, tg >= 0 ? objs[tg].ptr : NULL);
      print_obs("o", 1);
    } else if (strcmp(toks[0], "c") == 0) {
      if (!parse_ids(toks, ntok, 1, ids, &n1, &nx) || !parse_ids(toks, ntok, nx, ids2, &n2, &nx)) { O("bad-op"); continue; }
      cur_tag = "c";
      { var exc; V_TRY(exc, do_collect(ids, n1)); note_raised(exc); }
      oracle_after_op(); print_obs("c", 1);
    } else if (strcmp(toks[0], "g") == 0) {
      if (!parse_ids(toks, ntok, 1, ids, &n1, &nx) || n1 != 0 || !parse_ids(toks, ntok, nx, ids2, &n2, &nx)) { O("bad-op"); continue; }
      cur_tag = "g";
      { var exc; V_TRY(exc, do_gc()); note_raised(exc); if (exc) the_gc->bottom = main_bottom; }
      oracle_after_op(); if (!op_raised) oracle_after_gc(); print_obs("g", 1);
    } else if (strcmp(toks[0], "k") == 0) {
      if (!parse_ids(toks, ntok, 1, ids, &n1, &nx)) { O("bad-op"); continue; }
      int ok = 1; for (int i = 0; i < n1; i++) if (!objs[ids[i]].allocated) ok = 0;
      if (!ok) { O("bad-op"); continue; }
      nheld = n1; memcpy(held, ids, n1 * sizeof(int));
      print_obs("k", 1);
    } else if (strcmp(toks[0], "m") == 0) {
      if (!parse_ids(toks, ntok, 1, ids, &n1, &nx) || nx != ntok) { O("bad-op"); continue; }
      int ok = 1; for (int i = 0; i < n1; i++) if (!objs[ids[i]].allocated) ok = 0;
      int anchor = 0;
      for (int i = 0; i < nobjs_alloc; i++) if (objs[i].allocated && objs[i].kind == 'a' && objs[i].ptr && objs[i].nfree == 0 && GC_Mem_Ptr(the_gc, objs[i].ptr)) anchor = 1;
      if (!ok || !anchor) { O("bad-op"); continue; }
      do_mark_abort(ids, n1);
      oracle_after_op(); print_obs("m", 1);
    } else if (strcmp(toks[0], "z") == 0 && ntok == 2) {
      char* e1; long id = strtol(toks[1], &e1, 10);
      if (*e1 || id < 0 || id >= MAXID || !objs[id].allocated || !objs[id].kind || !strchr("pqb", objs[id].kind)) { O("bad-op"); continue; }
      objs[id].nulldel = 1;
      print_obs("z", 1);
    } else if (strcmp(toks[0], "r") == 0 && ntok == 2) {
      char* e1; long id = strtol(toks[1], &e1, 10);
      if (*e1 || id < 0 || id >= MAXID || !objs[id].allocated || !objs[id].kind || !strchr("pqbi", objs[id].kind)) { O("bad-op"); continue; }
      objs[id].raises = 1;
      print_obs("r", 1);
    } else if (strcmp(toks[0], "N") == 0 && ntok == 1) {
      del(NULL);
      oracle_after_op(); print_obs("N", 1);
    } else if (strcmp(toks[0], "s") == 0 && ntok == 1) {
      stop(current(GC)); print_obs("s", 1);
    } else if (strcmp(toks[0], "t") == 0 && ntok == 1) {
      start(current(GC)); print_obs("t", 1);
    } else if (strcmp(toks[0], "e") == 0) {
      if (!parse_ids(toks, ntok, 1, ids, &n1, &nx) || n1 != 0 || !parse_ids(toks, ntok, nx, ids2, &n2, &nx)) { O("bad-op"); continue; }
      begin_op();
      cur_tag = "e";
      teardown_started = 1;
      return 1;
    } else { O("bad-op"); }
  }
  return 0;
}

static void report_teardown(void) {
  if (reported) return;
  reported = 1;
  collecting = 0;
  if (!threaded && shared_expect && *shared_expect) {
    /* a destructor's exception came out of GC_Del: nobody caught it (the collector was not freed) */
    struct GC* gc = the_gc;
    op_raised = 1; any_raised = 1;
    for (size_t i = 0; i < gc->freenum; i++) { int w = gc->freelist[i] ? id_of(gc->freelist[i]) : -1; if (w >= 0) objs[w].abandoned = 1; }
  }
  oracle_after_op();
  print_obs("e", 0);
  oracle_final();
}

__attribute__((destructor)) static void life_fini(void) {
  if (in_child && teardown_started && !threaded) report_teardown();
  if (in_child) fflush(stdout);
}

static var worker(var args) { run_history(); return NULL; }

static void child_main(void) {
  in_child = 1;
  if (!threaded) {
    if (run_history()) exit(0);   /* atexit: Cello_Exit -> GC_Del -> GC_Sweep; then life_fini reports */
    O("e missing"); fflush(stdout); _exit(0);
  } else {
    var t = new_raw(Thread, $(Function, worker));
    call(t);
    join(t);
    if (teardown_started) report_teardown(); else O("e missing");
    del_raw(t);
    fflush(stdout);
    exit(0);
  }
}

int main(int argc, char** argv) {
  v_init();
  if (argc < 2) { fprintf(stderr, "usage: h_life <opfile>\n"); return 2; }
  size_t n; char** lines = v_read_lines(argv[1], &n);
  shared_expect = mmap(NULL, 4096, PROT_READ | PROT_WRITE, MAP_SHARED | MAP_ANONYMOUS, -1, 0);
  if (shared_expect == MAP_FAILED) { perror("mmap shared"); return 2; }
  for (int i = 0; i < NTYPES; i++) tslot_id[i] = -1;
  char* base = mmap(ARENA - 4096, (size_t)NARENA * STRIDE + 4096 + (size_t)NTYPES * TSTRIDE, PROT_READ | PROT_WRITE, MAP_PRIVATE | MAP_ANONYMOUS | MAP_FIXED_NOREPLACE, -1, 0);
  if (base != ARENA - 4096) { perror("mmap arena"); return 2; }
  for (int i = 0; i < NARENA; i++) slot_id[i] = -1;
  hist = malloc(n * sizeof(char*)); hist_line = malloc(n * sizeof(size_t));
  size_t nhist = 0, li = 0;
  while (li < n) {
    if (v_skippable(lines[li])) { li++; continue; }
    char mode[32], ord[32];
    if (sscanf(lines[li], "H %31s %31s", mode, ord) != 2 || (strcmp(mode, "main") && strcmp(mode, "thread")) || (strcmp(ord, "ord") && strcmp(ord, "uno"))) {
      O("bad-op"); li++; continue;
    }
    threaded = strcmp(mode, "thread") == 0; ordered = strcmp(ord, "ord") == 0;
    size_t hline = li + 1;
    li++; hist_n = 0;
    while (li < n && !(lines[li][0] == 'H' && lines[li][1] == ' ')) {
      if (!v_skippable(lines[li])) { hist[hist_n] = lines[li]; hist_line[hist_n] = li + 1; hist_n++; }
      li++;
    }
    nhist++;
    O("H %s %s", mode, ord);
    fflush(stdout);
    *shared_expect = 0;
    pid_t pid = fork();
    if (pid == 0) { alarm(60); child_main(); _exit(0); }
    int st = 0; waitpid(pid, &st, 0);
    if (WIFSIGNALED(st)) X("sig=life-crash line=%zu what=history terminated by signal %d", hline, WTERMSIG(st));
    else if (WEXITSTATUS(st) != 0 && *shared_expect) I("history exited with status %d after a destructor's exception nobody caught at teardown (known finding KF-C06-dtor-raises)", WEXITSTATUS(st));
    else if (WEXITSTATUS(st) != 0) X("sig=life-crash line=%zu what=history exited with status %d (97 = AddressSanitizer, 98 = UBSan)", hline, WEXITSTATUS(st));
  }
  I("histories=%zu", nhist);
  return 0;
}
