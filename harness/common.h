/* harness/common.h — shared by every C harness.
 *
 * The harness is a *unity build* of /repo's current working tree: unity.inc (written by the build step from the
 * list of /repo/src/*.c) #includes every source file, so the harness sees the library's static functions and private
 * structs without any change to /repo.  Build (done by vlib/build.py):
 *   clang-14 -std=gnu99 -g -O1 -fsanitize=address,undefined -fno-sanitize-recover=undefined
 *            -I$REPO/include -I$REPO/src -I<dir of unity.inc> -DCELLO_NSTRACE h_<engine>.c -lpthread -lm
 *
 * Output protocol (one line each, to stdout):
 *   O ...   observation that the Lean driver must reproduce verbatim (correspondence)
 *   X ...   the direct oracle on the implementation failed (sig=<signature> what=<text>)
 *   I ...   information / statistics (not compared)
 */
#ifndef VERIF_COMMON_H
#define VERIF_COMMON_H

#include "unity.inc"

#include <stdarg.h>
#include <stdio.h>
#include <stdlib.h>
#include <string.h>
#include <unistd.h>
#include <sys/wait.h>
#include <sys/types.h>

static FILE* vout = NULL;   /* line-buffered copy of stdout used by all emitters */

static void v_init(void) {
  vout = stdout;
  setvbuf(stdout, NULL, _IOLBF, 0);
}

static void O(const char* fmt, ...) { va_list va; va_start(va, fmt); fputs("O ", vout); vfprintf(vout, fmt, va); fputc('\n', vout); va_end(va); }
static void X(const char* fmt, ...) { va_list va; va_start(va, fmt); fputs("X ", vout); vfprintf(vout, fmt, va); fputc('\n', vout); va_end(va); }
static void I(const char* fmt, ...) { va_list va; va_start(va, fmt); fputs("I ", vout); vfprintf(vout, fmt, va); fputc('\n', vout); va_end(va); }

/* read a whole op file into lines; returns number of lines */
static char** v_read_lines(const char* path, size_t* n) {
  FILE* f = strcmp(path, "-") == 0 ? stdin : fopen(path, "r");
  if (!f) { fprintf(stderr, "cannot open %s\n", path); exit(2); }
  size_t cap = 1024, cnt = 0; char** lines = malloc(cap * sizeof(char*));
  char* line = NULL; size_t lcap = 0; ssize_t len;
  while ((len = getline(&line, &lcap, f)) >= 0) {
    while (len > 0 && (line[len-1] == '\n' || line[len-1] == '\r')) line[--len] = 0;
    if (cnt == cap) { cap *= 2; lines = realloc(lines, cap * sizeof(char*)); }
    lines[cnt++] = strdup(line);
  }
  free(line);
  if (f != stdin) fclose(f);
  *n = cnt; return lines;
}

static int v_skippable(const char* l) {
  while (*l == ' ') l++;
  return *l == 0 || *l == '#';
}

/* name of a Cello exception object for the protocol */
static const char* v_exc_name(var e) {
  if (e == NULL) return "none";
  if (e == TypeError) return "TypeError";
  if (e == ValueError) return "ValueError";
  if (e == ClassError) return "ClassError";
  if (e == IndexOutOfBoundsError) return "IndexOutOfBoundsError";
  if (e == KeyError) return "KeyError";
  if (e == OutOfMemoryError) return "OutOfMemoryError";
  if (e == IOError) return "IOError";
  if (e == FormatError) return "FormatError";
  if (e == BusyError) return "BusyError";
  if (e == ResourceError) return "ResourceError";
  if (e == SegmentationError) return "SegmentationError";
  if (e == DivisionByZeroError) return "DivisionByZeroError";
  return "OtherError";
}

/* Run `stmt`; set `exc` (a `var`) to the raised exception object or NULL.  Usage:
 *   var exc; V_TRY(exc, push(a, x));                                                        */
#define V_TRY(exc, stmt) do { (exc) = NULL; try { stmt; } catch (v_e_) { (exc) = v_e_; } } while (0)

/* splitmix64 — only for harness-internal choices that do not have to match the model */
static uint64_t v_rng_state = 88172645463325252ULL;
static uint64_t v_rand(void) {
  uint64_t z = (v_rng_state += 0x9E3779B97F4A7C15ULL);
  z = (z ^ (z >> 30)) * 0xBF58476D1CE4E5B9ULL; z = (z ^ (z >> 27)) * 0x94D049BB133111EBULL;
  return z ^ (z >> 31);
}

#endif
