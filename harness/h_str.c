/* harness/h_str.c — engine `str` (C16): heap Strings of the real library driven by an op file.
 *
 * After EVERY op the harness prints the canonical dump of the concrete representation of the String it touched:
 *     O <op> <k> <outcome> len=<strlen(val)> cap=<size of the allocation val points to> s=<hex of the first 16 chars>
 *       fnv=<FNV-1a/64 of the WHOLE allocation, terminator and bytes behind it included>
 * (`cap` is exact: AddressSanitizer's allocator reports the requested size; the bytes realloc adds are indeterminate
 * in C, so this harness routes the library's `realloc` through `v_realloc`, which fills them with 0xA5 — the Lean
 * model's junk function in the driver is the constant 0xA5 — so that whole allocations can be compared.)
 *
 * Direct oracle (independent of the Lean model): a reference buffer per object maintained with libc only
 * (strcpy/strcat/strstr/memmove/strcmp/strlen/snprintf).  After every op: same length, same bytes, terminator inside
 * the allocation, expected exception (ValueError exactly for rem of an absent text), and for the observers
 * len/c_str/cmp/eq/mem/hash agreement with libc on the reference (hash: hash(s) == hash($S(ref)) == hash_data(ref)).
 * Out-of-bounds accesses are caught by ASan (the process dies: reported by the runner as a crash of this case).
 *
 * ops (objects are small integers 0..63, texts are hex, `-` = empty):
 *   new k T | new0 k | copy k j | del k
 *   assign k T | assigns k j | concat k T | append k T | concats k j | resize k n | clear k | rem k T | rems k j
 *   fmt k pos T      format_to(s, pos, "%s", T)        fmtl k pos T    format_to(s, pos, T) (T without '%')
 *   print k pos F…   print_to(s, pos, fmt, args) with fragments F = L<hex> literal | S<hex> "%s" | Q<hex> "%$" (show)
 *   len k | cstr k | cmp k T | cmps k j | eq k T | mem k T | hash k
 *   alias <concat|append|assign|rem|mem|cmp> T   the aliased call op(s, s) in a forked child; reported on I lines only
 */
#include <stdlib.h>
#include <string.h>
#include <stddef.h>
#if defined(__has_feature)
#  if __has_feature(address_sanitizer)
#    define V_ASAN 1
#  endif
#endif
#ifdef V_ASAN
#  include <sanitizer/allocator_interface.h>
#  define v_alloc_size(p) __sanitizer_get_allocated_size(p)
#else
#  include <malloc.h>
#  define v_alloc_size(p) malloc_usable_size(p)
#endif
static void* v_realloc(void* p, size_t n);
#define realloc v_realloc
#include "common.h"
#undef realloc
/* realloc with determinised fresh bytes (0xA5) */
static void* v_realloc(void* p, size_t n) {
  size_t old = p ? v_alloc_size(p) : 0;
  void* q = realloc(p, n);
  if (q && n > old) memset((char*)q + old, 0xA5, n - old);
  return q;
}

#define NOBJ 64
#define MAXT 16384
static var sobj[NOBJ];
static char* rtxt[NOBJ];          /* reference text, libc only */
static size_t rcap[NOBJ];
static size_t lineno;

static void ref_reserve(int k, size_t n) {
  if (rcap[k] < n + 1) {
    size_t old = rcap[k]; rcap[k] = 2 * (n + 1) + 16;
    char* q = malloc(rcap[k]); if (old) memcpy(q, rtxt[k], old); else q[0] = 0; free(rtxt[k]); rtxt[k] = q;
  }
}

static uint64_t fnv64(const unsigned char* p, size_t n) {
  uint64_t h = 0xcbf29ce484222325ULL;
  for (size_t i = 0; i < n; i++) { h ^= p[i]; h *= 0x100000001b3ULL; }
  return h;
}

static int hexval(int c) { if (c >= '0' && c <= '9') return c - '0'; if (c >= 'a' && c <= 'f') return c - 'a' + 10; return -1; }
/* decode a text token into buf (NUL-terminated); returns length or -1 */
static long dehex(const char* t, char* buf) {
  if (strcmp(t, "-") == 0) { buf[0] = 0; return 0; }
  size_t l = strlen(t); if (l == 0 || l % 2 || l / 2 >= MAXT) return -1;
  for (size_t i = 0; i < l / 2; i++) {
    int a = hexval(t[2*i]), b = hexval(t[2*i+1]); if (a < 0 || b < 0) return -1;
    int v = a * 16 + b; if (v == 0) return -1; buf[i] = (char)v;
  }
  buf[l/2] = 0; return (long)(l / 2);
}
static void hexpre(const char* s, size_t n, char* out) {
  if (n == 0) { strcpy(out, "-"); return; }
  size_t m = n < 16 ? n : 16;
  for (size_t i = 0; i < m; i++) sprintf(out + 2*i, "%02x", (unsigned char)s[i]);
  if (n > 16) strcpy(out + 2*m, "..");
}

static char* valof(int k) { return ((struct String*)sobj[k])->val; }

/* canonical dump + direct oracle on object k after op `name` */
static void dump(const char* name, int k, const char* outcome) {
  char* v = valof(k);
  size_t l = strlen(v), cap = v_alloc_size(v);
  char pre[40]; hexpre(v, l, pre);
  O("%s %d %s len=%zu cap=%zu s=%s fnv=%016llx", name, k, outcome, l, cap, pre, (unsigned long long)fnv64((unsigned char*)v, cap));
  size_t rl = strlen(rtxt[k]);
  if (l != rl) X("sig=str-len line=%zu what=after %s the String has %zu chars, the libc reference %zu", lineno, name, l, rl);
  else if (memcmp(v, rtxt[k], l) != 0) X("sig=str-content line=%zu what=after %s the chars differ from the libc reference", lineno, name);
  if (l + 1 > cap) X("sig=str-term line=%zu what=after %s the terminator is at %zu outside the allocation of %zu", lineno, name, l, cap);
  if (len(sobj[k]) != rl) X("sig=str-len line=%zu what=len() is %zu, reference %zu", lineno, len(sobj[k]), rl);
  if (c_str(sobj[k]) != v) X("sig=str-content line=%zu what=c_str() is not the buffer", lineno);
}

static int sign(int x) { return x < 0 ? -1 : x > 0 ? 1 : 0; }

/* String_Show's escapes, written independently for the oracle */
static size_t show_ref(const char* t, char* out) {
  size_t n = 0; out[n++] = '"';
  for (; *t; t++) {
    const char* e = NULL;
    switch (*t) { case '\a': e = "\\a"; break; case '\b': e = "\\b"; break; case '\f': e = "\\f"; break; case '\n': e = "\\n"; break;
      case '\r': e = "\\r"; break; case '\t': e = "\\t"; break; case '\v': e = "\\v"; break; case '\\': e = "\\\\"; break;
      case '\'': e = "\\'"; break; case '"': e = "\\\""; break; case '?': e = "\\?"; break; }
    if (e) { out[n++] = e[0]; out[n++] = e[1]; } else out[n++] = *t;
  }
  out[n++] = '"'; out[n] = 0; return n;
}

static void alias_probe(const char* what, const char* text, const char* hex) {
  int fd[2], er[2]; if (pipe(fd) || pipe(er)) return;
  fflush(stdout);
  pid_t pid = fork();
  if (pid == 0) {
    close(fd[0]); close(er[0]); dup2(er[1], 2); alarm(10);
    var s = new_raw(String, $S((char*)text));
    char res[64] = "";
    var exc = NULL;
    if (!strcmp(what, "concat")) V_TRY(exc, concat(s, s));
    else if (!strcmp(what, "append")) V_TRY(exc, append(s, s));
    else if (!strcmp(what, "assign")) V_TRY(exc, assign(s, s));
    else if (!strcmp(what, "rem")) V_TRY(exc, rem(s, s));
    else if (!strcmp(what, "mem")) snprintf(res, sizeof res, "mem=%d ", (int)mem(s, s));
    else if (!strcmp(what, "cmp")) snprintf(res, sizeof res, "cmp=%d ", sign(cmp(s, s)));
    char* v = ((struct String*)s)->val; size_t l = strlen(v);
    dprintf(fd[1], "%sexc=%s len=%zu text=", res, v_exc_name(exc), l);
    for (size_t i = 0; i < l && i < 64; i++) dprintf(fd[1], "%02x", (unsigned char)v[i]);
    _exit(0);
  }
  close(fd[1]); close(er[1]);
  static char ob[4096], eb[1 << 15]; size_t ol = 0, el = 0; ssize_t r;
  while ((r = read(fd[0], ob + ol, sizeof ob - 1 - ol)) > 0) ol += r; ob[ol] = 0; close(fd[0]);
  while ((r = read(er[0], eb + el, sizeof eb - 1 - el)) > 0) el += r; eb[el] = 0; close(er[0]);
  int st = 0; waitpid(pid, &st, 0);
  char kind[128] = "none"; char* a = strstr(eb, "ERROR: AddressSanitizer: ");
  if (a) { a += strlen("ERROR: AddressSanitizer: "); size_t i = 0; while (a[i] && a[i] != ' ' && a[i] != '\n' && i < sizeof kind - 1) { kind[i] = a[i]; i++; } kind[i] = 0; }
  if (WIFSIGNALED(st)) I("alias %s(s,s) s=%s -> killed by signal %d asan=%s %s", what, hex, WTERMSIG(st), kind, ob);
  else I("alias %s(s,s) s=%s -> exit=%d asan=%s %s", what, hex, WEXITSTATUS(st), kind, ob);
}

int main(int argc, char** argv) {
  v_init();
  if (argc < 2) { fprintf(stderr, "usage: h_str <opfile>\n"); return 2; }
  size_t n; char** lines = v_read_lines(argv[1], &n);
#ifndef V_ASAN
  I("warning: built without AddressSanitizer: cap is malloc_usable_size (an upper bound), overflow detection is off");
#endif
  static char t1[MAXT], t2[2 * MAXT + 8], fmtb[MAXT], expect[4 * MAXT];
  size_t nops = 0, nmut = 0, nobs = 0, nexc = 0, maxlen = 0;
  for (size_t li = 0; li < n; li++) {
    char* l = lines[li]; lineno = li + 1;
    if (v_skippable(l)) continue;
    char* tok[40]; int nt = 0; char* save = NULL; char* copyl = strdup(l);
    for (char* p = strtok_r(copyl, " ", &save); p && nt < 40; p = strtok_r(NULL, " ", &save)) tok[nt++] = p;
    if (nt == 0) { free(copyl); continue; }
    const char* op = tok[0];
    nops++;
    if (!strcmp(op, "alias")) {
      if (nt == 3 && dehex(tok[2], t1) >= 0) alias_probe(tok[1], t1, tok[2]); else O("bad-op");
      free(copyl); continue;
    }
    int k = -1, j = -1; char* end;
    if (nt >= 2) { long v = strtol(tok[1], &end, 10); if (*end == 0 && v >= 0 && v < NOBJ) k = (int)v; }
    if (k < 0) { O("bad-op"); free(copyl); continue; }
    #define NEED_LIVE(x) if (sobj[x] == NULL) { O("bad-op"); free(copyl); continue; }
    #define NEED_TEXT(i, buf) if (nt <= (i) || dehex(tok[i], buf) < 0) { O("bad-op"); free(copyl); continue; }
    #define NEED_OBJ(i) { j = -1; if (nt > (i)) { long v = strtol(tok[i], &end, 10); if (*end == 0 && v >= 0 && v < NOBJ && v != k && sobj[v]) j = (int)v; } \
                          if (j < 0) { O("bad-op"); free(copyl); continue; } }
    #define NEED_NUM(i, dst) { if (nt <= (i)) { O("bad-op"); free(copyl); continue; } long long v = strtoll(tok[i], &end, 10); \
                          if (*end || v < 0 || v > 1000000) { O("bad-op"); free(copyl); continue; } dst = (size_t)v; }
    var exc = NULL;
    if (!strcmp(op, "new") && nt == 3) {
      if (sobj[k]) { O("bad-op"); free(copyl); continue; }
      NEED_TEXT(2, t1);
      V_TRY(exc, sobj[k] = new_raw(String, $S(t1)));
      ref_reserve(k, strlen(t1)); strcpy(rtxt[k], t1);
      nmut++; dump("new", k, exc ? v_exc_name(exc) : "ok");
    } else if (!strcmp(op, "new0") && nt == 2) {
      if (sobj[k]) { O("bad-op"); free(copyl); continue; }
      V_TRY(exc, sobj[k] = new_raw(String));
      ref_reserve(k, 0); rtxt[k][0] = 0;
      nmut++; dump("new0", k, exc ? v_exc_name(exc) : "ok");
    } else if (!strcmp(op, "copy") && nt == 3) {
      if (sobj[k]) { O("bad-op"); free(copyl); continue; }
      NEED_OBJ(2);
      V_TRY(exc, sobj[k] = assign(alloc_raw(String), sobj[j]));       /* what copy() does, minus the GC registration */
      ref_reserve(k, strlen(rtxt[j])); strcpy(rtxt[k], rtxt[j]);
      nmut++; dump("copy", k, exc ? v_exc_name(exc) : "ok");
    } else if (!strcmp(op, "del") && nt == 2) {
      NEED_LIVE(k);
      V_TRY(exc, del_raw(sobj[k])); sobj[k] = NULL;
      O("del %d %s", k, exc ? v_exc_name(exc) : "ok");
    } else if ((!strcmp(op, "assign") || !strcmp(op, "concat") || !strcmp(op, "append")) && nt == 3) {
      NEED_LIVE(k); NEED_TEXT(2, t1);
      if (op[0] == 'a' && op[1] == 's') { V_TRY(exc, assign(sobj[k], $S(t1))); ref_reserve(k, strlen(t1)); strcpy(rtxt[k], t1); }
      else { if (op[0] == 'c') V_TRY(exc, concat(sobj[k], $S(t1))); else V_TRY(exc, append(sobj[k], $S(t1)));
             ref_reserve(k, strlen(rtxt[k]) + strlen(t1)); strcat(rtxt[k], t1); }
      if (exc) X("sig=str-exc line=%zu what=%s raised %s", lineno, op, v_exc_name(exc));
      nmut++; dump(op, k, exc ? v_exc_name(exc) : "ok");
    } else if ((!strcmp(op, "assigns") || !strcmp(op, "concats")) && nt == 3) {
      NEED_LIVE(k); NEED_OBJ(2);
      if (op[0] == 'a') { V_TRY(exc, assign(sobj[k], sobj[j])); ref_reserve(k, strlen(rtxt[j])); strcpy(rtxt[k], rtxt[j]); }
      else { V_TRY(exc, concat(sobj[k], sobj[j])); ref_reserve(k, strlen(rtxt[k]) + strlen(rtxt[j])); strcat(rtxt[k], rtxt[j]); }
      if (exc) X("sig=str-exc line=%zu what=%s raised %s", lineno, op, v_exc_name(exc));
      nmut++; dump(op, k, exc ? v_exc_name(exc) : "ok");
    } else if (!strcmp(op, "resize") && nt == 3) {
      NEED_LIVE(k); size_t m; NEED_NUM(2, m);
      V_TRY(exc, resize(sobj[k], m));
      if (m < strlen(rtxt[k])) rtxt[k][m] = 0;                          /* growing reserves room, the text is unchanged */
      if (exc) X("sig=str-exc line=%zu what=resize raised %s", lineno, v_exc_name(exc));
      nmut++; dump(op, k, exc ? v_exc_name(exc) : "ok");
      if (!exc && v_alloc_size(valof(k)) < m + 1) X("sig=str-term line=%zu what=resize(%zu) left an allocation of %zu", lineno, m, v_alloc_size(valof(k)));
    } else if (!strcmp(op, "clear") && nt == 2) {
      NEED_LIVE(k);
      V_TRY(exc, String_Clear(sobj[k]));
      rtxt[k][0] = 0;
      if (exc) X("sig=str-exc line=%zu what=clear raised %s", lineno, v_exc_name(exc));
      nmut++; dump(op, k, exc ? v_exc_name(exc) : "ok");
    } else if ((!strcmp(op, "rem") || !strcmp(op, "rems")) && nt == 3) {
      NEED_LIVE(k);
      const char* x;
      if (op[3]) { NEED_OBJ(2); strcpy(t1, rtxt[j]); V_TRY(exc, rem(sobj[k], sobj[j])); }
      else { NEED_TEXT(2, t1); V_TRY(exc, rem(sobj[k], $S(t1))); }
      x = t1;
      char* p = strstr(rtxt[k], x);
      if (p) { size_t lx = strlen(x); memmove(p, p + lx, strlen(p + lx) + 1); }
      if (p && exc) X("sig=str-rem-exc line=%zu what=rem of a text that occurs raised %s", lineno, v_exc_name(exc));
      if (!p && exc != ValueError) X("sig=str-rem-exc line=%zu what=rem of an absent text: %s instead of ValueError", lineno, v_exc_name(exc));
      if (exc) nexc++;
      nmut++; dump(op, k, exc ? v_exc_name(exc) : "ok");
    } else if ((!strcmp(op, "fmt") || !strcmp(op, "fmtl")) && nt == 4) {
      NEED_LIVE(k); size_t pos; NEED_NUM(2, pos); NEED_TEXT(3, t1);
      if (op[3] == 'l' && strchr(t1, '%')) { O("bad-op"); free(copyl); continue; }
      int ret = -1;
      if (op[3] == 'l') V_TRY(exc, ret = format_to(sobj[k], (int)pos, t1)); else V_TRY(exc, ret = format_to(sobj[k], (int)pos, "%s", t1));
      size_t rl = strlen(rtxt[k]);
      if (pos <= rl) { ref_reserve(k, pos + strlen(t1)); snprintf(rtxt[k] + pos, strlen(t1) + 1, "%s", t1); }
      if (exc) X("sig=str-exc line=%zu what=format_to raised %s", lineno, v_exc_name(exc));
      if (!exc && ret != (int)strlen(t1)) X("sig=str-fmt-ret line=%zu what=format_to returned %d for %zu chars", lineno, ret, strlen(t1));
      char oc[48]; snprintf(oc, sizeof oc, "ret=%d", ret);
      nmut++; dump(op, k, exc ? v_exc_name(exc) : oc);
    } else if (!strcmp(op, "print") && nt >= 4) {
      NEED_LIVE(k); size_t pos; NEED_NUM(2, pos);
      /* build the format and the arguments */
      static char argbuf[4][MAXT]; var args[4]; int na = 0; size_t fl = 0, el = 0; int bad = 0; char prev = 0;
      for (int i = 3; i < nt && !bad; i++) {
        char kind = tok[i][0];
        if (dehex(tok[i] + 1, t1) < 0) { bad = 1; break; }
        if (kind == 'L') { if (strchr(t1, '%') || t1[0] == 0 || prev == 'L' || fl + strlen(t1) >= MAXT) { bad = 1; break; } strcpy(fmtb + fl, t1); fl += strlen(t1); strcpy(expect + el, t1); el += strlen(t1); }
        else if (kind == 'S' || kind == 'Q') {
          if (na == 4 || fl + 2 >= MAXT) { bad = 1; break; }
          strcpy(argbuf[na], t1); na++;
          strcpy(fmtb + fl, kind == 'S' ? "%s" : "%$"); fl += 2;
          if (kind == 'S') { strcpy(expect + el, t1); el += strlen(t1); } else el += show_ref(t1, expect + el);
        } else bad = 1;
        prev = kind;
      }
      if (bad) { O("bad-op"); free(copyl); continue; }
      fmtb[fl] = 0; expect[el] = 0;
      int ret = -1;
      switch (na) {
        case 0: V_TRY(exc, ret = print_to(sobj[k], (int)pos, fmtb)); break;
        case 1: V_TRY(exc, ret = print_to(sobj[k], (int)pos, fmtb, $S(argbuf[0]))); break;
        case 2: V_TRY(exc, ret = print_to(sobj[k], (int)pos, fmtb, $S(argbuf[0]), $S(argbuf[1]))); break;
        case 3: V_TRY(exc, ret = print_to(sobj[k], (int)pos, fmtb, $S(argbuf[0]), $S(argbuf[1]), $S(argbuf[2]))); break;
        default: V_TRY(exc, ret = print_to(sobj[k], (int)pos, fmtb, $S(argbuf[0]), $S(argbuf[1]), $S(argbuf[2]), $S(argbuf[3]))); break;
      }
      size_t rl = strlen(rtxt[k]);
      if (pos <= rl) { ref_reserve(k, pos + el); snprintf(rtxt[k] + pos, el + 1, "%s", expect); }
      if (exc) X("sig=str-exc line=%zu what=print_to raised %s", lineno, v_exc_name(exc));
      if (!exc && ret != (int)(pos + el)) X("sig=str-fmt-ret line=%zu what=print_to returned %d, expected %zu", lineno, ret, pos + el);
      char oc[48]; snprintf(oc, sizeof oc, "ret=%d", ret);
      nmut++; dump(op, k, exc ? v_exc_name(exc) : oc);
    } else if (!strcmp(op, "len") && nt == 2) {
      NEED_LIVE(k); nobs++;
      size_t r = len(sobj[k]);
      O("len %d %zu", k, r);
      if (r != strlen(rtxt[k])) X("sig=str-len line=%zu what=len() is %zu, libc says %zu", lineno, r, strlen(rtxt[k]));
    } else if (!strcmp(op, "cstr") && nt == 2) {
      NEED_LIVE(k); nobs++;
      char* c = c_str(sobj[k]);
      O("cstr %d n=%zu fnv=%016llx", k, strlen(c), (unsigned long long)fnv64((unsigned char*)c, strlen(c)));
      if (strcmp(c, rtxt[k]) != 0) X("sig=str-content line=%zu what=c_str() differs from the libc reference", lineno);
    } else if ((!strcmp(op, "cmp") || !strcmp(op, "eq") || !strcmp(op, "mem")) && nt == 3) {
      NEED_LIVE(k); NEED_TEXT(2, t1); nobs++;
      if (op[0] == 'c') { int r = sign(cmp(sobj[k], $S(t1))); O("cmp %d %d", k, r);
        if (r != sign(strcmp(rtxt[k], t1))) X("sig=str-cmp line=%zu what=cmp gives %d, strcmp on the reference %d", lineno, r, sign(strcmp(rtxt[k], t1)));
        int r2 = sign(cmp($S(t1), sobj[k])); if (r2 != -r) X("sig=str-cmp line=%zu what=cmp is not antisymmetric (%d, %d)", lineno, r, r2);
        if (lt(sobj[k], $S(t1)) != (r < 0) || gt(sobj[k], $S(t1)) != (r > 0)) X("sig=str-cmp line=%zu what=lt/gt disagree with cmp", lineno); }
      else if (op[0] == 'e') { int r = eq(sobj[k], $S(t1)); O("eq %d %d", k, r);
        if (r != (strcmp(rtxt[k], t1) == 0)) X("sig=str-cmp line=%zu what=eq gives %d, strcmp on the reference says %d", lineno, r, strcmp(rtxt[k], t1) == 0);
        if (neq(sobj[k], $S(t1)) == r) X("sig=str-cmp line=%zu what=neq is not the negation of eq", lineno); }
      else { int r = mem(sobj[k], $S(t1)); O("mem %d %d", k, r);
        if (r != (strstr(rtxt[k], t1) != NULL)) X("sig=str-mem line=%zu what=mem gives %d, strstr on the reference says %d", lineno, r, strstr(rtxt[k], t1) != NULL); }
    } else if (!strcmp(op, "cmps") && nt == 3) {
      NEED_LIVE(k); NEED_OBJ(2); nobs++;
      int r = sign(cmp(sobj[k], sobj[j])); O("cmps %d %d", k, r);
      if (r != sign(strcmp(rtxt[k], rtxt[j]))) X("sig=str-cmp line=%zu what=cmp of two heap Strings gives %d, strcmp %d", lineno, r, sign(strcmp(rtxt[k], rtxt[j])));
    } else if (!strcmp(op, "hash") && nt == 2) {
      NEED_LIVE(k); nobs++;
      uint64_t h = hash(sobj[k]), h2 = hash($S(rtxt[k])), h3 = hash_data(rtxt[k], strlen(rtxt[k]));
      O("hash %d %s", k, (h == h2 && h == h3) ? "same" : "diff");
      if (h != h2 || h != h3) X("sig=str-hash line=%zu what=hash of the heap String differs from the hash of an equal stack String / of its bytes", lineno);
    } else {
      O("bad-op");
    }
    if (sobj[k]) { size_t L = strlen(valof(k)); if (L > maxlen) maxlen = L; }
    free(copyl);
  }
  I("ops=%zu mutations=%zu observations=%zu raised=%zu maxlen=%zu", nops, nmut, nobs, nexc, maxlen);
  return 0;
}
