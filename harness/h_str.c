/* harness/h_str.c — engine `str` (C16): heap Strings of the real library driven by an op file.
 *
 * After EVERY op the harness prints the canonical dump of the concrete representation of the String it touched:
 *     O <op> <k> <outcome> len=<strlen(val)> cap=<size of the allocation val points to> s=<hex of the first 16 chars>
 *       fnv=<FNV-1a/64 of the WHOLE allocation, terminator and bytes behind it included>
 * (`cap` is exact: AddressSanitizer's allocator reports the requested size; the bytes realloc adds are indeterminate
 * in C, so this harness routes the library's `realloc` through `v_realloc`, which fills them with 0xA5 — the Lean
 * model's junk function in the driver is the constant 0xA5 — so that whole allocations can be compared.)
 *
 * Direct oracle (independent of the Lean model): a reference buffer per object maintained with libc only
 * (strcpy/strcat/strstr/memmove/strcmp/strlen/snprintf).  After every op: same length, same bytes, terminator inside
 * the allocation, expected exception (ValueError exactly for rem of an absent text), and for the observers
 * len/c_str/cmp/eq/mem/hash agreement with libc on the reference (hash: hash(s) == hash($S(ref)) == hash_data(ref)).
 * After EVERY mutation also eq / cmp / hash against the reference text (the String's value is the C string that was written).
 * Observers judged by the oracle with a reference of its own (not the model, not the library): len — strlen and a byte count;
 * c_str — strcmp; cmp, lt, gt, le, ge — the sign of strcmp AND of the first differing bytes taken as unsigned char (ref_cmp; a
 * byte >= 0x80 is greater than every ASCII byte and than the terminator); eq / neq — byte comparison (ref_eq); mem — strstr AND a
 * try-every-start search (ref_mem); rem — strstr + memmove on the reference buffer; hash — `X sig=str-hash-value` whenever
 * hash(s) is not MurmurHash64A (seed 0xCe110) of exactly the reference buffer's bytes, computed by the harness's own
 * implementation (ref_murmur_a, cross-checked against a second formulation and recorded values by ref_selftest at start-up;
 * `X sig=str-ref-selftest` if THAT fails), after every mutation and at every `hash` op, also for the stack String $S(reference).
 * Statistic only (`I hash-equal …`, `I hashstat …`): two different texts of equal length seen in one run with the same hash.
 * Formatted writes (pf, show): the reference text is libc's own snprintf of the same format at the same offset of the
 * reference buffer — the whole format in one call when it has at most two specifications and no `%$`, otherwise literal
 * runs verbatim, `%` for `%%`, one snprintf per specification with the correctly typed C value and an independent show for
 * `%$` — and the returned position must be pos + the number of characters written.
 * Out-of-bounds accesses are caught by ASan (the process dies: reported by the runner as a crash of this case).
 *
 * ops (objects are small integers 0..63, texts are hex, `-` = empty):
 *   new k T | new0 k | copy k j | del k
 *   newin k T         a String that lives INSIDE a container: push(new_raw(Array, String), $S(T)) and k names get(array, 0) — allocation
 *                     class AllocData, not AllocHeap; its buffer is reallocated by the same code (the alloc checks of String.c refuse
 *                     Stack / Static only).  `del k` deletes the Array.  Same O line as `new`.
 *   assign k T | assigns k j | concat k T | append k T | concats k j | resize k n | clear k | rem k T | rems k j
 *   fmt k pos T      format_to(s, pos, "%s", T)        fmtl k pos T    format_to(s, pos, T) (T without '%')
 *   print k pos F…   print_to(s, pos, fmt, args) with fragments F = L<hex> literal | S<hex> "%s" | Q<hex> "%$" (show)
 *   pf k pos F A…     print_to_with(s, pos, F, tuple(A…)) — what print_to(s, pos, F, A…) expands to — with a general format F
 *                     (hex) over literal text, `%%`, `%s` (`-`, width, precision), `%c` (`-`, width), `%d %i` (`-`, `0`, `+`, width, `l`),
 *                     `%u %x %X %o` (`-`, `0`, width, `l`) and `%$`; arguments A ::= i<int64> | s<hex> | t<n> A1 … An (a Tuple, nested ≤ 3)
 *   show k pos A      show_to(A, s, pos)
 *   remi k n          rem(s, $I(n)): an operand without a C string — ClassError, nothing changed (String_Rem after e60e6ec)
 *   fmtrej k pos      format_to(s, pos, "%lc", U+10FFFF): libc rejects the format in the C locale — a negative value is returned and
 *                     the String is untouched (String_Format_To after a626877)
 *   pfrej k pos T     print_to_with(s, pos, T "%lcZ", tuple($I(0x10FFFF))): T is written, then FormatError leaves
 *   look k j pos      look_from(s_k, s_j, pos): String_Look reads a shown String ("…" with escapes) from the String j at pos <= len(j) into
 *                     the String k: String_Clear, then one String_Concat per character; `looks k j pos` = scan_from(s_j, pos, "%$", s_k).
 *                     Oracle: an independent un-escaping loop over the reference text (sig=str-look, str-look-ret, and the dump's
 *                     str-len / str-content / str-term); text that is not a complete shown String: FormatError, the target holds what
 *                     was read until then
 *   scanw k pos       scan_from(s, pos, "%s", word) reading from the String at pos <= len (observer)
 *   len k | cstr k | cmp k T | cmps k j | eq k T | mem k T | hash k   (hash prints the value: the Lean side computes hash_data's model, C10)
 *   alias <assign|concat|append|print|show|rem|mem|cmp> <self|v<off>> T [pos]
 *                     the call with an operand that IS the target (self) or the view $S(c_str(s) + off) into its buffer, on a fresh
 *                     String holding T, in a forked child; print = print_to(s, pos, "%s", obj), show = show_to(s, s, pos) (self only).
 *                     assign from a view at an offset > 0 / concat / append / print / show:
 *                     known finding KF-C16-alias-operand (sig=kf-c16-alias-operand; witness corpus/kf_c16_alias.ops; never generated);
 *                     assign with self or v0 (c_str(obj) is s->val: early return since 744a45f; sig=str-assign-self, an ordinary violation)
 *                     and rem / mem / cmp (no realloc) are checked against libc by value like any other call
 *   stk <stack|static> <assign X|concat X|append X|resize n|clear|fmt pos X|rem X|assignself> on a String holding T that is NOT on the
 *                     heap (written `stk cls what T [args]`), forked: reallocating functions must raise ValueError and touch nothing
 *                     (CELLO_ALLOC_CHECK; sig=str-nonheap), rem works in place, assign(s, s) returns at once
 *   assignself k      assign(s, s) inside a history: nothing may change, the whole allocation included (744a45f)
 *   oom resize T n    resize(s, n) on a fresh String holding T whose realloc FAILS (returns NULL, old block untouched), in a forked
 *                     child: OutOfMemoryError must be raised (63509f2: the result is tested before it is written through;
 *                     sig=str-resize-oom, an ordinary violation); the O line also says what s->val is afterwards (NULL: the
 *                     failed realloc's result was stored before the test — the old block is no longer referenced)
 */
#include <stdlib.h>
#include <string.h>
#include <stddef.h>
#include <errno.h>
#include <fcntl.h>
#include <wchar.h>
#if defined(__has_feature)
#  if __has_feature(address_sanitizer)
#    define V_ASAN 1
#  endif
#endif
#ifdef V_ASAN
#  include <sanitizer/allocator_interface.h>
#  define v_alloc_size(p) __sanitizer_get_allocated_size(p)
#else
#  include <malloc.h>
#  define v_alloc_size(p) malloc_usable_size(p)
#endif
static void* v_realloc(void* p, size_t n);
#define realloc v_realloc
#include "common.h"
#undef realloc
/* realloc with determinised fresh bytes (0xA5); `v_fail_next`: the next call fails the way ISO C 7.22.3.5 says — NULL is
 * returned and the old block is left alone (op `oom`) */
static int v_fail_next;
static void* v_realloc(void* p, size_t n) {
  if (v_fail_next) { v_fail_next = 0; return NULL; }
  size_t old = p ? v_alloc_size(p) : 0;
  void* q = realloc(p, n);
  if (q && n > old) memset((char*)q + old, 0xA5, n - old);
  return q;
}

#define NOBJ 64
#define MAXT 16384
static var sobj[NOBJ];
static var holder[NOBJ];          /* the Array a `newin` String lives in (NULL: a heap String of its own) */
static char* rtxt[NOBJ];          /* reference text, libc only */
static size_t rcap[NOBJ];

static void ref_reserve(int k, size_t n) {
  if (rcap[k] < n + 1) {
    size_t old = rcap[k]; rcap[k] = 2 * (n + 1) + 16;
    char* q = malloc(rcap[k]); if (old) memcpy(q, rtxt[k], old); else q[0] = 0; free(rtxt[k]); rtxt[k] = q;
  }
}

static uint64_t fnv64(const unsigned char* p, size_t n) {
  uint64_t h = 0xcbf29ce484222325ULL;
  for (size_t i = 0; i < n; i++) { h ^= p[i]; h *= 0x100000001b3ULL; }
  return h;
}

/* ---- independent references for the observers (nothing below calls into the library under test) ----------------------
 * hash: MurmurHash64A (Austin Appleby's published 64-bit hash for 64-bit platforms), written twice from the algorithm:
 *   ref_murmur_a: every 8-byte block assembled byte by byte, least significant first (the published code reads the block as a
 *                 uint64_t on a little-endian machine), the remaining len%8 bytes xor-ed in at 8*j, again byte by byte;
 *   ref_murmur_b: the shape of the published code — walk a block pointer to `end`, then the fall-through switch over len&7
 *                 on the bytes AFTER the last full block.
 * The seed of String_Hash is 0xCe110 (src/Hash.c at the time of writing).  ref_selftest() validates _a against the three
 * values tests/test.c hard-codes ("Hello", "There", "People": all shorter than one block), against values computed with a third
 * implementation (Python, arbitrary-precision integers) for lengths 0, 8, 9, 16, 25, 33, 41 with ASCII / control / >= 0x80 bytes,
 * and _a against _b for every length 0..80 over three byte patterns.  Host assumption: little-endian (as the library's memcpy). */
#define REF_SEED 0xCe110ULL
static uint64_t ref_murmur_a(const char* s, size_t n) {
  const unsigned char* p = (const unsigned char*)s;
  const uint64_t m = 0xc6a4a7935bd1e995ULL; const int r = 47;
  uint64_t h = REF_SEED ^ (n * m);
  size_t nb = n / 8, rest = n % 8;
  for (size_t b = 0; b < nb; b++) {
    uint64_t k = 0;
    for (int j = 7; j >= 0; j--) k = (k << 8) | p[8 * b + (size_t)j];
    k *= m; k ^= k >> r; k *= m;
    h ^= k; h *= m;
  }
  if (rest) {
    for (size_t j = 0; j < rest; j++) h ^= (uint64_t)p[8 * nb + j] << (8 * j);
    h *= m;
  }
  h ^= h >> r; h *= m; h ^= h >> r;
  return h;
}
static uint64_t ref_murmur_b(const void* key, size_t len) {
  const uint64_t m = 0xc6a4a7935bd1e995ULL; const int r = 47;
  uint64_t h = REF_SEED ^ (len * m);
  const unsigned char* data = (const unsigned char*)key;
  const unsigned char* end = data + (len / 8) * 8;
  while (data != end) {
    uint64_t k; memcpy(&k, data, 8); data += 8;
    k *= m; k ^= k >> r; k *= m;
    h ^= k; h *= m;
  }
  const unsigned char* data2 = data;
  switch (len & 7) {
    case 7: h ^= (uint64_t)data2[6] << 48;  /* fall through */
    case 6: h ^= (uint64_t)data2[5] << 40;  /* fall through */
    case 5: h ^= (uint64_t)data2[4] << 32;  /* fall through */
    case 4: h ^= (uint64_t)data2[3] << 24;  /* fall through */
    case 3: h ^= (uint64_t)data2[2] << 16;  /* fall through */
    case 2: h ^= (uint64_t)data2[1] << 8;   /* fall through */
    case 1: h ^= (uint64_t)data2[0]; h *= m;
  }
  h ^= h >> r; h *= m; h ^= h >> r;
  return h;
}
static int ref_broken;                                     /* the reference failed its own validation: str-hash-value is not judged */
static void ref_selftest(void) {
  static const struct { const char* t; uint64_t h; } kv[] = {
    { "Hello", 4771441285123272284ULL }, { "There", 17415363727859751682ULL }, { "People", 11867268813077774525ULL },   /* tests/test.c */
    { "", 0xfc7b4ac02e6776a6ULL }, { "abcdefgh", 0xfa368efebf7a5511ULL }, { "abcdefghi", 0x2dce358a55f64ec6ULL },       /* Python */
    { "user:1001", 0x4e428e33bedf0827ULL }, { "user:1002", 0x38070accb95b59a3ULL }, { "exactly16bytes!!", 0x126e00693149bf10ULL } };
  for (size_t i = 0; i < sizeof kv / sizeof kv[0]; i++)
    if (ref_murmur_a(kv[i].t, strlen(kv[i].t)) != kv[i].h) { ref_broken = 1; X("sig=str-ref-selftest line=0 what=the harness's reference MurmurHash64A gives %016llx for \"%s\", the recorded value is %016llx", (unsigned long long)ref_murmur_a(kv[i].t, strlen(kv[i].t)), kv[i].t, (unsigned long long)kv[i].h); }
  char buf[96];
  for (int i = 0; i < 33; i++) buf[i] = (char)(1 + i);
  if (ref_murmur_a(buf, 33) != 0xb45ccbbdcab05e4dULL) { ref_broken = 1; X("sig=str-ref-selftest line=0 what=reference hash of the bytes 01..21 (33 bytes) is wrong"); }
  for (int i = 0; i < 25; i++) buf[i] = (char)(0x80 + i);
  if (ref_murmur_a(buf, 25) != 0x5d3e78e244716a2dULL) { ref_broken = 1; X("sig=str-ref-selftest line=0 what=reference hash of the bytes 80..98 (25 bytes) is wrong"); }
  memset(buf, 0xff, 41);
  if (ref_murmur_a(buf, 41) != 0x149dcfba71a9a26aULL) { ref_broken = 1; X("sig=str-ref-selftest line=0 what=reference hash of 41 bytes ff is wrong"); }
  for (int pat = 0; pat < 3; pat++)
    for (size_t n = 0; n <= 80; n++) {
      for (size_t i = 0; i < n; i++) buf[i] = (char)(pat == 0 ? 'a' + i % 26 : pat == 1 ? 0x80 + (i * 37) % 128 : 1 + (i * 7) % 31);
      if (ref_murmur_a(buf, n) != ref_murmur_b(buf, n)) { ref_broken = 1; X("sig=str-ref-selftest line=0 what=the two formulations of the reference hash differ at length %zu (pattern %d)", n, pat); }
    }
}
/* cmp: the sign of the difference of the first differing bytes taken as UNSIGNED char (ISO C 7.24.4), the terminator included */
static int ref_cmp(const char* a, const char* b) {
  const unsigned char* x = (const unsigned char*)a; const unsigned char* y = (const unsigned char*)b;
  size_t i = 0; while (x[i] != 0 && x[i] == y[i]) i++;
  return x[i] < y[i] ? -1 : x[i] > y[i] ? 1 : 0;
}
static size_t ref_len(const char* a) { size_t n = 0; while (a[n] != 0) n++; return n; }
static int ref_eq(const char* a, const char* b) { size_t n = ref_len(a); if (n != ref_len(b)) return 0; for (size_t i = 0; i < n; i++) if (a[i] != b[i]) return 0; return 1; }
/* mem: "x is a contiguous run of bytes of t" by trying every start */
static int ref_mem(const char* t, const char* x) {
  size_t n = ref_len(t), m = ref_len(x);
  for (size_t i = 0; i + m <= n; i++) { size_t j = 0; while (j < m && t[i + j] == x[j]) j++; if (j == m) return 1; }
  return 0;
}

/* statistic, not a violation: two DIFFERENT texts of EQUAL length seen in this run with the same library hash.  A 64-bit hash
 * has such pairs, but none is expected among the few thousand texts of a run; a hash that ignores part of the text produces
 * them in numbers (texts differing only in the ignored bytes), which shows in the evidence next to str-hash-value. */
#define COLL_N (1u << 15)
static struct { uint64_t h, d1, d2; size_t len; char small[64]; int used; } coll[COLL_N];
static size_t coll_texts, coll_pairs, coll_hashed;
static size_t lineno;
static void coll_note(uint64_t h, const char* t, size_t l) {
  coll_hashed++;
  uint64_t d1 = 0xcbf29ce484222325ULL, d2 = 5381;
  for (size_t i = 0; i < l; i++) { d1 = (d1 ^ (unsigned char)t[i]) * 0x100000001b3ULL; d2 = d2 * 0x9e3779b97f4a7c15ULL + (unsigned char)t[i] + (d2 >> 41); }
  size_t i = (size_t)(h ^ (h >> 31)) & (COLL_N - 1);
  for (int probe = 0; probe < 64; probe++, i = (i + 1) & (COLL_N - 1)) {
    if (!coll[i].used) {
      if (coll_texts >= COLL_N / 2) return;
      coll[i].used = 1; coll[i].h = h; coll[i].d1 = d1; coll[i].d2 = d2; coll[i].len = l; if (l <= 64) memcpy(coll[i].small, t, l);
      coll_texts++; return;
    }
    if (coll[i].h != h || coll[i].len != l) continue;
    int same = l <= 64 ? memcmp(coll[i].small, t, l) == 0 : (coll[i].d1 == d1 && coll[i].d2 == d2);
    if (same) return;
    coll_pairs++;
    if (coll_pairs <= 6) { char pre[40]; size_t m = l < 16 ? l : 16; for (size_t q = 0; q < m; q++) sprintf(pre + 2 * q, "%02x", (unsigned char)t[q]); pre[2 * m] = 0;
      I("hash-equal line=%zu len=%zu hash=%016llx a different text of the same length seen earlier has the same hash (statistic) s=%s%s", lineno, l, (unsigned long long)h, l ? pre : "-", l > 16 ? ".." : ""); }
    return;
  }
}

static int hexval(int c) { if (c >= '0' && c <= '9') return c - '0'; if (c >= 'a' && c <= 'f') return c - 'a' + 10; return -1; }
/* decode a text token into buf (NUL-terminated); returns length or -1 */
static long dehex(const char* t, char* buf) {
  if (strcmp(t, "-") == 0) { buf[0] = 0; return 0; }
  size_t l = strlen(t); if (l == 0 || l % 2 || l / 2 >= MAXT) return -1;
  for (size_t i = 0; i < l / 2; i++) {
    int a = hexval(t[2*i]), b = hexval(t[2*i+1]); if (a < 0 || b < 0) return -1;
    int v = a * 16 + b; if (v == 0) return -1; buf[i] = (char)v;
  }
  buf[l/2] = 0; return (long)(l / 2);
}
static void hexpre(const char* s, size_t n, char* out) {
  if (n == 0) { strcpy(out, "-"); return; }
  size_t m = n < 16 ? n : 16;
  for (size_t i = 0; i < m; i++) sprintf(out + 2*i, "%02x", (unsigned char)s[i]);
  if (n > 16) strcpy(out + 2*m, "..");
}

/* the VALUE of hash(): MurmurHash64A of exactly the reference buffer's bytes, judged by the harness's own implementation */
static size_t n_hash_judged, n_hash_wrong;
static void judge_hash(const char* when, const char* name, uint64_t hv, const char* ref, size_t rl) {
  n_hash_judged++;
  coll_note(hv, ref, rl);
  if (ref_broken) return;
  uint64_t want = ref_murmur_a(ref, rl);
  if (hv != want) {
    n_hash_wrong++;
    char pre[40]; hexpre(ref, rl, pre);
    X("sig=str-hash-value line=%zu what=%s %s hash() of a String of %zu chars (%s) is %016llx, MurmurHash64A (seed 0xCe110) of those bytes is %016llx", lineno, when, name, rl, pre, (unsigned long long)hv, (unsigned long long)want);
  }
}

static char* valof(int k) { return ((struct String*)sobj[k])->val; }

/* canonical dump + direct oracle on object k after op `name` */
static void dump(const char* name, int k, const char* outcome) {
  char* v = valof(k);
  size_t l = strlen(v), cap = v_alloc_size(v);
  char pre[40]; hexpre(v, l, pre);
  O("%s %d %s len=%zu cap=%zu s=%s fnv=%016llx", name, k, outcome, l, cap, pre, (unsigned long long)fnv64((unsigned char*)v, cap));
  size_t rl = strlen(rtxt[k]);
  if (l != rl) X("sig=str-len line=%zu what=after %s the String has %zu chars, the libc reference %zu", lineno, name, l, rl);
  else if (memcmp(v, rtxt[k], l) != 0) X("sig=str-content line=%zu what=after %s the chars differ from the libc reference", lineno, name);
  if (l + 1 > cap) X("sig=str-term line=%zu what=after %s the terminator is at %zu outside the allocation of %zu", lineno, name, l, cap);
  if (len(sobj[k]) != rl) X("sig=str-len line=%zu what=len() is %zu, reference %zu", lineno, len(sobj[k]), rl);
  if (c_str(sobj[k]) != v) X("sig=str-content line=%zu what=c_str() is not the buffer", lineno);
  if (!eq(sobj[k], $S(rtxt[k])) || cmp(sobj[k], $S(rtxt[k])) != 0 || cmp($S(rtxt[k]), sobj[k]) != 0)
    X("sig=str-cmp line=%zu what=after %s the String does not compare equal to the libc reference text", lineno, name);
  uint64_t hv = hash(sobj[k]);
  if (hv != hash_data(rtxt[k], rl)) X("sig=str-hash line=%zu what=after %s hash() differs from the hash of the libc reference text", lineno, name);
  judge_hash("after", name, hv, rtxt[k], rl);
  /* the same observers against the harness's own byte loops (unsigned bytes), not only against themselves */
  if (ref_len(rtxt[k]) != rl || len(sobj[k]) != ref_len(rtxt[k])) X("sig=str-len line=%zu what=after %s len() is %zu, counting the reference's bytes gives %zu", lineno, name, len(sobj[k]), ref_len(rtxt[k]));
  if (!ref_eq(v, rtxt[k]) && l == rl) X("sig=str-content line=%zu what=after %s the chars differ from the reference (byte loop)", lineno, name);
}

static int sign(int x) { return x < 0 ? -1 : x > 0 ? 1 : 0; }

/* String_Show's escapes, written independently for the oracle */
static size_t show_ref(const char* t, char* out) {
  size_t n = 0; out[n++] = '"';
  for (; *t; t++) {
    const char* e = NULL;
    switch (*t) { case '\a': e = "\\a"; break; case '\b': e = "\\b"; break; case '\f': e = "\\f"; break; case '\n': e = "\\n"; break;
      case '\r': e = "\\r"; break; case '\t': e = "\\t"; break; case '\v': e = "\\v"; break; case '\\': e = "\\\\"; break;
      case '\'': e = "\\'"; break; case '"': e = "\\\""; break; case '?': e = "\\?"; break; }
    if (e) { out[n++] = e[0]; out[n++] = e[1]; } else out[n++] = *t;
  }
  out[n++] = '"'; out[n] = 0; return n;
}

/* String_Look's reading, written independently for the oracle: the text between the quotes at in+pos, escapes undone, goes
 * to out; returns the position behind the closing quote, or -1 where the code must raise FormatError (no opening quote, the
 * input ends, an unknown escape letter) — out then holds what had been read until there (String_Look clears the target first
 * and appends while it reads: KF-C15-look-clobbers-target is C15's finding; here the target must simply be that C string) */
static size_t n_look_ok, n_look_exc, n_look_esc;
static long look_ref(const char* src, size_t pos, char* out) {
  size_t n = 0; const char* p = src + pos; out[0] = 0;
  if (*p != '"') return -1;
  for (p++;;) {
    if (*p == 0) { out[n] = 0; return -1; }
    if (*p == '"') { out[n] = 0; return (long)(p + 1 - src); }
    if (*p == '\\') {
      char c;
      switch (p[1]) { case 'a': c = 7; break; case 'b': c = 8; break; case 'f': c = 12; break; case 'n': c = 10; break; case 'r': c = 13; break;
        case 't': c = 9; break; case 'v': c = 11; break; case '\\': c = 92; break; case '\'': c = 39; break; case '"': c = 34; break; case '?': c = 63; break;
        default: out[n] = 0; return -1; }
      out[n++] = c; p += 2; n_look_esc++; continue;
    }
    out[n++] = *p++;
  }
}

/* ---- arguments of pf / show: Int, String, Tuple (nested) */
typedef struct PArg { char kind; long long i; char* s; int n; struct PArg* items[6]; var obj; } PArg;
static void parg_free(PArg* a) { if (!a) return; for (int i = 0; i < a->n; i++) parg_free(a->items[i]); free(a->s); free(a); }
static PArg* parg_parse(char** tok, int nt, int* idx, int depth) {
  if (*idx >= nt) return NULL;
  const char* t = tok[(*idx)++];
  PArg* a = calloc(1, sizeof(PArg)); a->kind = t[0];
  if (t[0] == 'i') {
    const char* d = t + 1; if (*d == '-') d++;
    size_t nd = strlen(d); if (nd < 1 || nd > 19 || strspn(d, "0123456789") != nd) { parg_free(a); return NULL; }
    errno = 0; a->i = strtoll(t + 1, NULL, 10); if (errno) { parg_free(a); return NULL; }
  } else if (t[0] == 's') {
    a->s = malloc(MAXT); if (dehex(t + 1, a->s) < 0) { parg_free(a); return NULL; }
  } else if (t[0] == 't') {
    if (depth >= 3 || t[1] < '0' || t[1] > '6' || t[2]) { parg_free(a); return NULL; }
    int n = t[1] - '0';
    for (int i = 0; i < n; i++) { PArg* c = parg_parse(tok, nt, idx, depth + 1); if (!c) { parg_free(a); return NULL; } a->items[a->n++] = c; }
  } else { parg_free(a); return NULL; }
  return a;
}
static size_t parg_bytes(PArg* a) { size_t n = a->kind == 's' ? strlen(a->s) : 0; for (int i = 0; i < a->n; i++) n += parg_bytes(a->items[i]); return n; }
static void parg_build(PArg* a) {
  if (a->kind == 'i') a->obj = new_raw(Int, $I(a->i));
  else if (a->kind == 's') a->obj = new_raw(String, $S(a->s));
  else { a->obj = new_raw(Tuple); for (int i = 0; i < a->n; i++) { parg_build(a->items[i]); push(a->obj, a->items[i]->obj); } }
}
static void parg_unbuild(PArg* a) {
  for (int i = 0; i < a->n; i++) parg_unbuild(a->items[i]);
  if (a->obj) { del_raw(a->obj); a->obj = NULL; }
}
/* show, written independently for the oracle: Int as %ld, String quoted and escaped, Tuple as tuple(a, b) */
static size_t parg_show(PArg* a, char* out) {
  if (a->kind == 'i') return (size_t)sprintf(out, "%ld", (long)a->i);
  if (a->kind == 's') return show_ref(a->s, out);
  size_t n = (size_t)sprintf(out, "tuple(");
  for (int i = 0; i < a->n; i++) { n += parg_show(a->items[i], out + n); if (i + 1 < a->n) { out[n++] = ','; out[n++] = ' '; } }
  out[n++] = ')'; out[n] = 0; return n;
}
/* reference reading of the format: validates it against the grammar of the op (see the header), checks the argument
 * classes, writes the expected text; cls[i] = C type of the i-th consumed argument: I int, L long, S char*, $ show.
 * Returns the number of specifications or -1 (outside the grammar). */
static int ref_format(const char* f, PArg** args, int na, char* out, size_t outcap, size_t* outlen, char* cls) {
  size_t n = 0; int ns = 0; static char tmp[2 * MAXT + 256]; char spec[16];
  while (*f) {
    if (*f != '%') { size_t r = strcspn(f, "%"); if (n + r >= outcap) return -1; memcpy(out + n, f, r); n += r; f += r; continue; }
    if (f[1] == '%') { if (n + 1 >= outcap) return -1; out[n++] = '%'; f += 2; continue; }
    const char* p = f + 1; int left = 0, zero = 0, plus = 0, prec = 0, lng = 0;
    while (*p == '-' || *p == '0' || *p == '+') { if (*p == '-') left = 1; else if (*p == '0') zero = 1; else plus = 1; p++; }
    if (*p >= '0' && *p <= '9') { p++; if (*p >= '0' && *p <= '9') p++; }
    if (*p == '.' && p[1] >= '0' && p[1] <= '9') { prec = 1; p += 2; if (*p >= '0' && *p <= '9') p++; }
    if (*p == 'l') { lng = 1; p++; }
    char c = *p; (void)left;
    if (c == 0 || !strchr("sdiuxXoc$", c) || (size_t)(p - f) + 2 > sizeof spec) return -1;
    if (ns >= na) return -1;
    PArg* a = args[ns];
    memcpy(spec, f, (size_t)(p - f) + 1); spec[p - f + 1] = 0;
    size_t r;
    if (c == '$') { if (p != f + 1) return -1; r = parg_show(a, tmp); cls[ns] = '$'; }
    else if (c == 's') { if (zero || plus || lng || a->kind != 's') return -1; r = (size_t)snprintf(tmp, sizeof tmp, spec, a->s); cls[ns] = 'S'; }
    else {
      if (a->kind != 'i' || prec) return -1;
      if (c == 'c') { if (zero || plus || lng || (unsigned char)a->i == 0) return -1; r = (size_t)snprintf(tmp, sizeof tmp, spec, (int)a->i); cls[ns] = 'I'; }
      else if (c == 'd' || c == 'i') { r = lng ? (size_t)snprintf(tmp, sizeof tmp, spec, (long)a->i) : (size_t)snprintf(tmp, sizeof tmp, spec, (int)a->i); cls[ns] = lng ? 'L' : 'I'; }
      else { if (plus) return -1; r = lng ? (size_t)snprintf(tmp, sizeof tmp, spec, (unsigned long)a->i) : (size_t)snprintf(tmp, sizeof tmp, spec, (unsigned)a->i); cls[ns] = lng ? 'L' : 'I'; }
    }
    if (n + r >= outcap) return -1;
    memcpy(out + n, tmp, r); n += r; ns++; f = p + 1;
  }
  out[n] = 0; *outlen = n; return ns;
}
/* libc on the WHOLE format in one call (at most two specifications, none of them `%$`); returns -1 when not applicable */
static int ref_whole(const char* fmt, PArg** a, int ns, const char* cls, char* out, size_t cap) {
  if (ns > 2 || memchr(cls, '$', (size_t)ns)) return -1;
  if (ns == 0) return snprintf(out, cap, fmt, 0);
  #define W1(T0, v0) return snprintf(out, cap, fmt, (T0)(v0))
  #define W2(T0, v0, T1, v1) return snprintf(out, cap, fmt, (T0)(v0), (T1)(v1))
  if (ns == 1) { if (cls[0] == 'I') W1(int, a[0]->i); if (cls[0] == 'L') W1(long, a[0]->i); W1(char*, a[0]->s); }
  if (cls[0] == 'I') { if (cls[1] == 'I') W2(int, a[0]->i, int, a[1]->i); if (cls[1] == 'L') W2(int, a[0]->i, long, a[1]->i); W2(int, a[0]->i, char*, a[1]->s); }
  if (cls[0] == 'L') { if (cls[1] == 'I') W2(long, a[0]->i, int, a[1]->i); if (cls[1] == 'L') W2(long, a[0]->i, long, a[1]->i); W2(long, a[0]->i, char*, a[1]->s); }
  if (cls[1] == 'I') W2(char*, a[0]->s, int, a[1]->i); if (cls[1] == 'L') W2(char*, a[0]->s, long, a[1]->i); W2(char*, a[0]->s, char*, a[1]->s);
  #undef W1
  #undef W2
}

/* alias <what> <self|v<off>> <T> [pos]: the call what(s, obj) on a fresh s = new(String, $S(T)) whose operand obj IS s (`self`) or
 * is the stack String $S(c_str(s) + off) (`v<off>`, off <= len): the operand's bytes lie in the target's own allocation.
 * what = assign | concat | append | print (print_to(s, pos, "%s", obj)) | show (show_to(s, s, pos)) | rem | mem | cmp.  Runs in a forked child (the library
 * reads through a stale pointer after realloc: known finding KF-C16-alias-operand); the parent classifies:
 *     O alias <what> <src> ub                                  the child died / the sanitizer reported
 *     O alias <what> <src> <outcome> len= cap= s= fnv=         it returned (mutators and rem);  O alias mem|cmp <src> <value>
 * and the direct oracle compares a normal return with libc applied BY VALUE to the operand's text.  A sanitizer report or a
 * wrong text in assign / concat / append / print / show is `sig=kf-c16-alias-operand`; rem / mem / cmp make no realloc and must simply be
 * right (`sig=str-alias-readonly`, an ordinary violation). */
#define ALIAS_MAXT 512
static void alias_op(const char* what, long off, const char* srct, const char* text, long pos) {
  int fd[2], er[2]; if (pipe(fd) || pipe(er)) return;
  size_t tl = strlen(text);
  const char* x = text + (off < 0 ? 0 : off);                   /* the operand's text when the call is made */
  int mut = !strcmp(what, "assign") || !strcmp(what, "concat") || !strcmp(what, "append") || !strcmp(what, "print") || !strcmp(what, "show");
  int haspos = !strcmp(what, "print") || !strcmp(what, "show");
  fflush(stdout);
  pid_t pid = fork();
  if (pid == 0) {
    close(fd[0]); close(er[0]); dup2(er[1], 2); alarm(20);
    var s = new_raw(String, $S((char*)text));
    var view = $S(c_str(s) + (off < 0 ? 0 : off));
    var obj = off < 0 ? s : view;
    var exc = NULL; int ret = 0; char oc[48] = "";
    if (!strcmp(what, "concat")) V_TRY(exc, concat(s, obj));
    else if (!strcmp(what, "append")) V_TRY(exc, append(s, obj));
    else if (!strcmp(what, "assign")) V_TRY(exc, assign(s, obj));
    else if (!strcmp(what, "print")) V_TRY(exc, ret = print_to(s, (int)pos, "%s", obj));
    else if (!strcmp(what, "show")) V_TRY(exc, ret = show_to(obj, s, (int)pos));
    else if (!strcmp(what, "rem")) V_TRY(exc, rem(s, obj));
    else if (!strcmp(what, "mem")) { dprintf(fd[1], "%d\n", (int)mem(s, obj)); _exit(0); }
    else { dprintf(fd[1], "%d\n", sign(cmp(s, obj))); _exit(0); }
    char* v = ((struct String*)s)->val; size_t l = strlen(v), cap = v_alloc_size(v);
    char pre[40]; hexpre(v, l, pre);
    if (exc) snprintf(oc, sizeof oc, "%s", v_exc_name(exc)); else if (haspos) snprintf(oc, sizeof oc, "ret=%d", ret); else strcpy(oc, "ok");
    dprintf(fd[1], "%s len=%zu cap=%zu s=%s fnv=%016llx\n", oc, l, cap, pre, (unsigned long long)fnv64((unsigned char*)v, cap));
    for (size_t i = 0; i < l && i < 4 * ALIAS_MAXT; i++) dprintf(fd[1], "%02x", (unsigned char)v[i]);
    _exit(0);
  }
  close(fd[1]); close(er[1]);
  static char ob[16384], eb[1 << 15]; size_t ol = 0, el = 0; ssize_t r;
  while ((r = read(fd[0], ob + ol, sizeof ob - 1 - ol)) > 0) ol += r; ob[ol] = 0; close(fd[0]);
  while ((r = read(er[0], eb + el, sizeof eb - 1 - el)) > 0) el += r; eb[el] = 0; close(er[0]);
  int st = 0; waitpid(pid, &st, 0);
  char kind[128] = "none"; char* a = strstr(eb, "ERROR: AddressSanitizer: ");
  if (a) { a += strlen("ERROR: AddressSanitizer: "); size_t i = 0; while (a[i] && a[i] != ' ' && a[i] != ':' && a[i] != '\n' && i < sizeof kind - 1) { kind[i] = a[i]; i++; } kind[i] = 0; }
  const char* sig = mut ? "kf-c16-alias-operand" : "str-alias-readonly";
  /* c_str(obj) IS s->val (the target itself, or a view at offset 0): String_Assign returns at once since 744a45f — not the finding's territory */
  if (!strcmp(what, "assign") && off <= 0) sig = "str-assign-self";
  char call[96];
  if (off < 0) snprintf(call, sizeof call, "%s(s, s)", what); else snprintf(call, sizeof call, "%s(s, $S(c_str(s) + %ld))", what, off);
  if (!strcmp(what, "print")) { if (off < 0) snprintf(call, sizeof call, "print_to(s, %ld, \"%%s\", s)", pos); else snprintf(call, sizeof call, "print_to(s, %ld, \"%%s\", $S(c_str(s) + %ld))", pos, off); }
  if (!strcmp(what, "show")) snprintf(call, sizeof call, "show_to(s, s, %ld)", pos);
  if (!WIFEXITED(st) || WEXITSTATUS(st) != 0) {
    O("alias %s %s ub", what, srct);
    I("alias %s len=%zu -> %s %d asan=%s", call, tl, WIFEXITED(st) ? "exit" : "signal", WIFEXITED(st) ? WEXITSTATUS(st) : WTERMSIG(st), kind);
    X("sig=%s line=%zu what=%s on a String of %zu chars: the operand lies in the target's own buffer, which realloc has moved or strcat is writing (%s, %s %d)",
      sig, lineno, call, tl, kind, WIFEXITED(st) ? "exit status" : "signal", WIFEXITED(st) ? WEXITSTATUS(st) : WTERMSIG(st));
    return;
  }
  char* nl = strchr(ob, '\n'); if (nl) *nl = 0;
  O("alias %s %s %s", what, srct, ob);
  if (!mut && strcmp(what, "rem")) {                            /* mem / cmp: the value */
    int want = !strcmp(what, "mem") ? (strstr(text, x) != NULL) : sign(strcmp(text, x));
    if (atoi(ob) != want) X("sig=%s line=%zu what=%s gives %s, libc on the operand's text says %d", sig, lineno, call, ob, want);
    return;
  }
  /* the by-value result with libc */
  static char want[4 * ALIAS_MAXT + 16]; int wret = 0;
  if (!strcmp(what, "assign")) strcpy(want, x);
  else if (!strcmp(what, "concat") || !strcmp(what, "append")) { strcpy(want, text); strcat(want, x); }
  else if (!strcmp(what, "print")) { memcpy(want, text, (size_t)pos); wret = (int)pos + snprintf(want + pos, sizeof want - (size_t)pos, "%s", x); }
  else if (!strcmp(what, "show")) { memcpy(want, text, (size_t)pos); wret = (int)pos + (int)show_ref(text, want + pos); }
  else { strcpy(want, text); char* p = strstr(want, x); if (p) memmove(p, p + strlen(x), strlen(p + strlen(x)) + 1); }
  static char wanthex[8 * ALIAS_MAXT + 16]; size_t wl = strlen(want);
  for (size_t i = 0; i < wl; i++) sprintf(wanthex + 2 * i, "%02x", (unsigned char)want[i]); wanthex[2 * wl] = 0;
  const char* got = nl ? nl + 1 : "";
  char expoc[48]; if (haspos) snprintf(expoc, sizeof expoc, "ret=%d ", wret); else strcpy(expoc, "ok ");
  if (strcmp(got, wanthex) != 0 || strncmp(ob, expoc, strlen(expoc)) != 0)
    X("sig=%s line=%zu what=%s on a String of %zu chars returned `%.40s` with a text of %zu chars, by value it is %s with %zu chars", sig, lineno, call, tl, ob, strlen(got) / 2, expoc, wl);
  I("alias %s len=%zu -> returned %.60s", call, tl, ob);
}

/* stk <stack|static> <what> <T> [args]: the call on a String that is NOT on the heap — header class AllocStack (what `$S("…")` makes) or
 * AllocStatic, `val` pointing into an array of this harness — holding T, in a forked child (a missing alloc check would hand that
 * pointer to realloc).  what = assign X | concat X | append X | resize n | clear | fmt pos X | rem X | assignself.
 *     O stk <cls> <what> <outcome> len= s=        or        O stk <cls> <what> ub      (the child died)
 * Oracle: every function that reallocates must raise ValueError and leave the text and the pointer alone (sig=str-nonheap);
 * rem edits in place and is judged against libc; assign(s, s) returns at once (744a45f). */
static size_t n_stk_refused, n_stk_ran;
static void stk_op(const char* cls, const char* what, const char* text, const char* x, long num) {
  int fd[2]; if (pipe(fd)) return;
  fflush(stdout);
  pid_t pid = fork();
  if (pid == 0) {
    close(fd[0]); int dn = open("/dev/null", O_WRONLY); if (dn >= 0) dup2(dn, 2); alarm(20);
    static char hb[sizeof(struct Header) + sizeof(struct String) + 16]; static char arena[2 * ALIAS_MAXT + 64];
    memset(arena, 0xA5, sizeof arena); strcpy(arena, text);
    var s = header_init(hb, String, !strcmp(cls, "stack") ? AllocStack : AllocStatic);
    ((struct String*)s)->val = arena;
    var exc = NULL; int ret = 0; char oc[48] = "ok";
    if (!strcmp(what, "assign")) V_TRY(exc, assign(s, $S((char*)x)));
    else if (!strcmp(what, "concat")) V_TRY(exc, concat(s, $S((char*)x)));
    else if (!strcmp(what, "append")) V_TRY(exc, append(s, $S((char*)x)));
    else if (!strcmp(what, "resize")) V_TRY(exc, resize(s, (size_t)num));
    else if (!strcmp(what, "clear")) V_TRY(exc, String_Clear(s));
    else if (!strcmp(what, "fmt")) { V_TRY(exc, ret = format_to(s, (int)num, "%s", x)); if (!exc) snprintf(oc, sizeof oc, "ret=%d", ret); }
    else if (!strcmp(what, "rem")) V_TRY(exc, rem(s, $S((char*)x)));
    else V_TRY(exc, assign(s, s));
    char* v = ((struct String*)s)->val; size_t l = strlen(v);
    char pre[40]; hexpre(v, l, pre);
    dprintf(fd[1], "%s len=%zu s=%s\n%s\n", exc ? v_exc_name(exc) : oc, l, pre, v == arena ? "same" : "moved");
    for (size_t i = 0; i < l && i < 4 * ALIAS_MAXT; i++) dprintf(fd[1], "%02x", (unsigned char)v[i]);
    _exit(0);
  }
  close(fd[1]);
  static char ob[16384]; size_t ol = 0; ssize_t r;
  while ((r = read(fd[0], ob + ol, sizeof ob - 1 - ol)) > 0) ol += r; ob[ol] = 0; close(fd[0]);
  int st = 0; waitpid(pid, &st, 0);
  int reallocs = strcmp(what, "rem") && strcmp(what, "assignself");
  if (!WIFEXITED(st) || WEXITSTATUS(st) != 0) {
    O("stk %s %s ub", cls, what);
    X("sig=str-nonheap line=%zu what=%s on a %s String of %zu chars: the process died (%s %d) — its buffer, which did not come from malloc, went to realloc",
      lineno, what, cls, strlen(text), WIFEXITED(st) ? "exit status" : "signal", WIFEXITED(st) ? WEXITSTATUS(st) : WTERMSIG(st));
    return;
  }
  char* nl = strchr(ob, '\n'); if (nl) *nl = 0;
  char* l2 = nl ? nl + 1 : ""; char* nl2 = strchr(l2, '\n'); if (nl2) *nl2 = 0;
  const char* got = nl2 ? nl2 + 1 : "";
  O("stk %s %s %s", cls, what, ob);
  static char want[4 * ALIAS_MAXT + 16]; strcpy(want, text); const char* wexc = "ok ";
  if (reallocs) wexc = "ValueError ";
  else if (!strcmp(what, "rem")) { char* p = strstr(want, x); if (p) memmove(p, p + strlen(x), strlen(p + strlen(x)) + 1); else wexc = "ValueError "; }
  static char wanthex[8 * ALIAS_MAXT + 16]; size_t wl = strlen(want);
  for (size_t i = 0; i < wl; i++) sprintf(wanthex + 2 * i, "%02x", (unsigned char)want[i]); wanthex[2 * wl] = 0;
  if (strncmp(ob, wexc, strlen(wexc)) != 0 || strcmp(got, wanthex) != 0 || strcmp(l2, "same") != 0)
    X("sig=str-nonheap line=%zu what=%s on a %s String of %zu chars gave `%.40s` (buffer %s, %zu chars); expected `%s` and %s", lineno, what, cls, strlen(text), ob, l2, strlen(got) / 2,
      wexc, reallocs ? "the text and the buffer untouched: a String that is not on the heap cannot be reallocated" : "the text libc computes in place");
  if (!strncmp(ob, "ValueError", 10) && reallocs) n_stk_refused++; else n_stk_ran++;
}

/* oom resize <T> <n>: resize(s, n) on a fresh s = new(String, $S(T)) whose realloc fails, in a forked child (before 63509f2 the
 * library wrote through the NULL it got).  O oom resize <exception|ok> val=<NULL|kept|other>   or   O oom resize ub */
static void oom_resize(const char* text, size_t n) {
  int fd[2]; if (pipe(fd)) return;
  fflush(stdout);
  pid_t pid = fork();
  if (pid == 0) {
    close(fd[0]); int dn = open("/dev/null", O_WRONLY); if (dn >= 0) dup2(dn, 2); alarm(20);
    var s = new_raw(String, $S((char*)text));
    char* old = ((struct String*)s)->val;
    var exc = NULL;
    v_fail_next = 1;
    V_TRY(exc, resize(s, n));
    int made = !v_fail_next; v_fail_next = 0;
    char* v = ((struct String*)s)->val;
    dprintf(fd[1], "%s val=%s%s\n", exc ? v_exc_name(exc) : "ok", v == NULL ? "NULL" : v == old ? "kept" : "other", made ? "" : " no-realloc");
    _exit(0);
  }
  close(fd[1]);
  char ob[256]; size_t ol = 0; ssize_t r;
  while ((r = read(fd[0], ob + ol, sizeof ob - 1 - ol)) > 0) ol += r; ob[ol] = 0; close(fd[0]);
  int st = 0; waitpid(pid, &st, 0);
  if (!WIFEXITED(st) || WEXITSTATUS(st) != 0) {
    O("oom resize ub");
    X("sig=str-resize-oom line=%zu what=resize(s, %zu) on a String of %zu chars whose realloc returns NULL: the process died (%s %d) instead of raising OutOfMemoryError — the result of realloc was written through before it was tested",
      lineno, n, strlen(text), WIFEXITED(st) ? "exit status" : "signal", WIFEXITED(st) ? WEXITSTATUS(st) : WTERMSIG(st));
    return;
  }
  char* nl = strchr(ob, '\n'); if (nl) *nl = 0;
  O("oom resize %s", ob);
  if (strncmp(ob, "OutOfMemoryError ", 17) != 0)
    X("sig=str-resize-oom line=%zu what=resize(s, %zu) whose realloc returns NULL gave `%s` instead of OutOfMemoryError", lineno, n, ob);
  I("oom resize(s, %zu) len=%zu -> %s", n, strlen(text), ob);
}

int main(int argc, char** argv) {
  v_init();
  if (argc < 2) { fprintf(stderr, "usage: h_str <opfile>\n"); return 2; }
  ref_selftest();
  size_t n; char** lines = v_read_lines(argv[1], &n);
#ifndef V_ASAN
  I("warning: built without AddressSanitizer: cap is malloc_usable_size (an upper bound), overflow detection is off");
#endif
  static char t1[MAXT], t2[2 * MAXT + 8], fmtb[MAXT], expect[4 * MAXT];
  size_t nops = 0, nmut = 0, nobs = 0, nexc = 0, maxlen = 0;
  for (size_t li = 0; li < n; li++) {
    char* l = lines[li]; lineno = li + 1;
    if (v_skippable(l)) continue;
    char* tok[64]; int nt = 0; char* save = NULL; char* copyl = strdup(l);
    for (char* p = strtok_r(copyl, " ", &save); p && nt < 64; p = strtok_r(NULL, " ", &save)) tok[nt++] = p;
    if (nt == 0) { free(copyl); continue; }
    const char* op = tok[0];
    nops++;
    if (!strcmp(op, "alias")) {
      /* alias <what> <self|v<off>> <T> [pos] */
      long off = -1, pos = 0, tl = nt >= 4 ? dehex(tok[3], t1) : -1; int ok = tl >= 0 && tl <= ALIAS_MAXT; char* e2;
      const char* w = nt >= 2 ? tok[1] : "";
      int mut = !strcmp(w, "assign") || !strcmp(w, "concat") || !strcmp(w, "append") || !strcmp(w, "print") || !strcmp(w, "show");
      if (ok && !(mut || !strcmp(w, "rem") || !strcmp(w, "mem") || !strcmp(w, "cmp"))) ok = 0;
      if (ok && !strcmp(w, "show") && strcmp(tok[2], "self")) ok = 0;
      if (ok && strcmp(tok[2], "self")) {
        if (tok[2][0] != 'v' || !tok[2][1] || strspn(tok[2] + 1, "0123456789") != strlen(tok[2] + 1) || strlen(tok[2]) > 8) ok = 0;
        else { off = strtol(tok[2] + 1, &e2, 10); if (off > tl) ok = 0; }
      }
      if (ok && mut && tl == 0 && !(!strcmp(w, "assign") && off <= 0)) ok = 0;   /* one NUL copied onto itself: undefined on paper only, not run */
      if (ok && (!strcmp(w, "print") || !strcmp(w, "show"))) {
        if (nt != 5 || !tok[4][0] || strspn(tok[4], "0123456789") != strlen(tok[4]) || strlen(tok[4]) > 8) ok = 0;
        else { pos = strtol(tok[4], &e2, 10); if (pos > tl) ok = 0; }
      } else if (ok && nt != 4) ok = 0;
      if (ok) { nmut += mut; alias_op(w, off, tok[2], t1, pos); } else O("bad-op");
      free(copyl); continue;
    }
    if (!strcmp(op, "stk")) {
      /* stk <cls> <what> <T> [args] */
      static char t3[MAXT]; long num = 0; int ok = nt >= 4 && (!strcmp(tok[1], "stack") || !strcmp(tok[1], "static"));
      const char* w = nt >= 3 ? tok[2] : ""; long tl = ok ? dehex(tok[3], t1) : -1; if (tl < 0 || tl > ALIAS_MAXT) ok = 0;
      int wx = !strcmp(w, "assign") || !strcmp(w, "concat") || !strcmp(w, "append") || !strcmp(w, "rem");
      t3[0] = 0;
      if (ok && wx) { long xl = nt == 5 ? dehex(tok[4], t3) : -1; if (xl < 0 || xl > ALIAS_MAXT) ok = 0; }
      else if (ok && !strcmp(w, "resize")) { if (nt != 5 || !tok[4][0] || strspn(tok[4], "0123456789") != strlen(tok[4]) || strlen(tok[4]) > 6) ok = 0; else num = strtol(tok[4], NULL, 10); }
      else if (ok && !strcmp(w, "fmt")) { if (nt != 6 || !tok[4][0] || strspn(tok[4], "0123456789") != strlen(tok[4]) || strlen(tok[4]) > 6) ok = 0; else { num = strtol(tok[4], NULL, 10); long xl = dehex(tok[5], t3); if (xl < 0 || xl > ALIAS_MAXT || num > tl) ok = 0; } }
      else if (ok && (!strcmp(w, "clear") || !strcmp(w, "assignself"))) { if (nt != 4) ok = 0; }
      else ok = 0;
      if (ok) { nmut++; stk_op(tok[1], w, t1, t3, num); } else O("bad-op");
      free(copyl); continue;
    }
    if (!strcmp(op, "oom")) {
      /* oom resize <T> <n> */
      long tl = nt == 4 ? dehex(tok[2], t1) : -1; char* e2; long nn = -1;
      int ok = nt == 4 && !strcmp(tok[1], "resize") && tl >= 0 && tl <= ALIAS_MAXT;
      if (ok) { if (!tok[3][0] || strspn(tok[3], "0123456789") != strlen(tok[3]) || strlen(tok[3]) > 7) ok = 0; else nn = strtol(tok[3], &e2, 10); }
      if (ok) { nmut++; oom_resize(t1, (size_t)nn); } else O("bad-op");
      free(copyl); continue;
    }
    int k = -1, j = -1; char* end;
    if (nt >= 2) { long v = strtol(tok[1], &end, 10); if (*end == 0 && v >= 0 && v < NOBJ) k = (int)v; }
    if (k < 0) { O("bad-op"); free(copyl); continue; }
    #define NEED_LIVE(x) if (sobj[x] == NULL) { O("bad-op"); free(copyl); continue; }
    #define NEED_TEXT(i, buf) if (nt <= (i) || dehex(tok[i], buf) < 0) { O("bad-op"); free(copyl); continue; }
    #define NEED_OBJ(i) { j = -1; if (nt > (i)) { long v = strtol(tok[i], &end, 10); if (*end == 0 && v >= 0 && v < NOBJ && v != k && sobj[v]) j = (int)v; } \
                          if (j < 0) { O("bad-op"); free(copyl); continue; } }
    #define NEED_NUM(i, dst) { if (nt <= (i)) { O("bad-op"); free(copyl); continue; } long long v = strtoll(tok[i], &end, 10); \
                          if (*end || v < 0 || v > 1000000) { O("bad-op"); free(copyl); continue; } dst = (size_t)v; }
    var exc = NULL;
    if (!strcmp(op, "new") && nt == 3) {
      if (sobj[k]) { O("bad-op"); free(copyl); continue; }
      NEED_TEXT(2, t1);
      V_TRY(exc, sobj[k] = new_raw(String, $S(t1)));
      ref_reserve(k, strlen(t1)); strcpy(rtxt[k], t1);
      nmut++; dump("new", k, exc ? v_exc_name(exc) : "ok");
    } else if (!strcmp(op, "newin") && nt == 3) {
      if (sobj[k]) { O("bad-op"); free(copyl); continue; }
      NEED_TEXT(2, t1);
      V_TRY(exc, { holder[k] = new_raw(Array, String); push(holder[k], $S(t1)); sobj[k] = get(holder[k], $I(0)); });
      if (exc) X("sig=str-exc line=%zu what=push of a String into an Array raised %s", lineno, v_exc_name(exc));
      else if (header(sobj[k])->alloc != (var)AllocData) X("sig=str-exc line=%zu what=a String inside an Array is not of class AllocData", lineno);
      ref_reserve(k, strlen(t1)); strcpy(rtxt[k], t1);
      nmut++; dump("newin", k, exc ? v_exc_name(exc) : "ok");
    } else if (!strcmp(op, "new0") && nt == 2) {
      if (sobj[k]) { O("bad-op"); free(copyl); continue; }
      V_TRY(exc, sobj[k] = new_raw(String));
      ref_reserve(k, 0); rtxt[k][0] = 0;
      nmut++; dump("new0", k, exc ? v_exc_name(exc) : "ok");
    } else if (!strcmp(op, "copy") && nt == 3) {
      if (sobj[k]) { O("bad-op"); free(copyl); continue; }
      NEED_OBJ(2);
      V_TRY(exc, sobj[k] = assign(alloc_raw(String), sobj[j]));       /* what copy() does, minus the GC registration */
      ref_reserve(k, strlen(rtxt[j])); strcpy(rtxt[k], rtxt[j]);
      nmut++; dump("copy", k, exc ? v_exc_name(exc) : "ok");
    } else if (!strcmp(op, "del") && nt == 2) {
      NEED_LIVE(k);
      if (holder[k]) { V_TRY(exc, del_raw(holder[k])); holder[k] = NULL; } else V_TRY(exc, del_raw(sobj[k]));
      sobj[k] = NULL;
      O("del %d %s", k, exc ? v_exc_name(exc) : "ok");
    } else if ((!strcmp(op, "assign") || !strcmp(op, "concat") || !strcmp(op, "append")) && nt == 3) {
      NEED_LIVE(k); NEED_TEXT(2, t1);
      if (op[0] == 'a' && op[1] == 's') { V_TRY(exc, assign(sobj[k], $S(t1))); ref_reserve(k, strlen(t1)); strcpy(rtxt[k], t1); }
      else { if (op[0] == 'c') V_TRY(exc, concat(sobj[k], $S(t1))); else V_TRY(exc, append(sobj[k], $S(t1)));
             ref_reserve(k, strlen(rtxt[k]) + strlen(t1)); strcat(rtxt[k], t1); }
      if (exc) X("sig=str-exc line=%zu what=%s raised %s", lineno, op, v_exc_name(exc));
      nmut++; dump(op, k, exc ? v_exc_name(exc) : "ok");
    } else if ((!strcmp(op, "assigns") || !strcmp(op, "concats")) && nt == 3) {
      NEED_LIVE(k); NEED_OBJ(2);
      if (op[0] == 'a') { V_TRY(exc, assign(sobj[k], sobj[j])); ref_reserve(k, strlen(rtxt[j])); strcpy(rtxt[k], rtxt[j]); }
      else { V_TRY(exc, concat(sobj[k], sobj[j])); ref_reserve(k, strlen(rtxt[k]) + strlen(rtxt[j])); strcat(rtxt[k], rtxt[j]); }
      if (exc) X("sig=str-exc line=%zu what=%s raised %s", lineno, op, v_exc_name(exc));
      nmut++; dump(op, k, exc ? v_exc_name(exc) : "ok");
    } else if (!strcmp(op, "assignself") && nt == 2) {
      NEED_LIVE(k);
      char* before = valof(k);
      V_TRY(exc, assign(sobj[k], sobj[k]));                             /* the reference is unchanged: so must the String be */
      if (exc) X("sig=str-exc line=%zu what=assign(s, s) raised %s", lineno, v_exc_name(exc));
      if (valof(k) != before) X("sig=str-assign-self line=%zu what=assign(s, s) replaced the buffer of s", lineno);
      nmut++; dump(op, k, exc ? v_exc_name(exc) : "ok");
    } else if (!strcmp(op, "resize") && nt == 3) {
      NEED_LIVE(k); size_t m; NEED_NUM(2, m);
      V_TRY(exc, resize(sobj[k], m));
      if (m < strlen(rtxt[k])) rtxt[k][m] = 0;                          /* growing reserves room, the text is unchanged */
      if (exc) X("sig=str-exc line=%zu what=resize raised %s", lineno, v_exc_name(exc));
      nmut++; dump(op, k, exc ? v_exc_name(exc) : "ok");
      if (!exc && v_alloc_size(valof(k)) < m + 1) X("sig=str-term line=%zu what=resize(%zu) left an allocation of %zu", lineno, m, v_alloc_size(valof(k)));
    } else if (!strcmp(op, "clear") && nt == 2) {
      NEED_LIVE(k);
      V_TRY(exc, String_Clear(sobj[k]));
      rtxt[k][0] = 0;
      if (exc) X("sig=str-exc line=%zu what=clear raised %s", lineno, v_exc_name(exc));
      nmut++; dump(op, k, exc ? v_exc_name(exc) : "ok");
    } else if ((!strcmp(op, "rem") || !strcmp(op, "rems")) && nt == 3) {
      NEED_LIVE(k);
      const char* x;
      if (op[3]) { NEED_OBJ(2); strcpy(t1, rtxt[j]); V_TRY(exc, rem(sobj[k], sobj[j])); }
      else { NEED_TEXT(2, t1); V_TRY(exc, rem(sobj[k], $S(t1))); }
      x = t1;
      char* p = strstr(rtxt[k], x);
      if (p) { size_t lx = strlen(x); memmove(p, p + lx, strlen(p + lx) + 1); }
      if (p && exc) X("sig=str-rem-exc line=%zu what=rem of a text that occurs raised %s", lineno, v_exc_name(exc));
      if (!p && exc != ValueError) X("sig=str-rem-exc line=%zu what=rem of an absent text: %s instead of ValueError", lineno, v_exc_name(exc));
      if (exc) nexc++;
      nmut++; dump(op, k, exc ? v_exc_name(exc) : "ok");
    } else if ((!strcmp(op, "fmt") || !strcmp(op, "fmtl")) && nt == 4) {
      NEED_LIVE(k); size_t pos; NEED_NUM(2, pos); NEED_TEXT(3, t1);
      if (op[3] == 'l' && strchr(t1, '%')) { O("bad-op"); free(copyl); continue; }
      int ret = -1;
      if (op[3] == 'l') V_TRY(exc, ret = format_to(sobj[k], (int)pos, t1)); else V_TRY(exc, ret = format_to(sobj[k], (int)pos, "%s", t1));
      size_t rl = strlen(rtxt[k]);
      if (pos <= rl) { ref_reserve(k, pos + strlen(t1)); snprintf(rtxt[k] + pos, strlen(t1) + 1, "%s", t1); }
      if (exc) X("sig=str-exc line=%zu what=format_to raised %s", lineno, v_exc_name(exc));
      if (!exc && ret != (int)strlen(t1)) X("sig=str-fmt-ret line=%zu what=format_to returned %d for %zu chars", lineno, ret, strlen(t1));
      char oc[48]; snprintf(oc, sizeof oc, "ret=%d", ret);
      nmut++; dump(op, k, exc ? v_exc_name(exc) : oc);
    } else if (!strcmp(op, "print") && nt >= 4) {
      NEED_LIVE(k); size_t pos; NEED_NUM(2, pos);
      /* build the format and the arguments */
      static char argbuf[4][MAXT]; var args[4]; int na = 0; size_t fl = 0, el = 0; int bad = 0; char prev = 0;
      for (int i = 3; i < nt && !bad; i++) {
        char kind = tok[i][0];
        if (dehex(tok[i] + 1, t1) < 0) { bad = 1; break; }
        if (kind == 'L') { if (strchr(t1, '%') || t1[0] == 0 || prev == 'L' || fl + strlen(t1) >= MAXT) { bad = 1; break; } strcpy(fmtb + fl, t1); fl += strlen(t1); strcpy(expect + el, t1); el += strlen(t1); }
        else if (kind == 'S' || kind == 'Q') {
          if (na == 4 || fl + 2 >= MAXT) { bad = 1; break; }
          strcpy(argbuf[na], t1); na++;
          strcpy(fmtb + fl, kind == 'S' ? "%s" : "%$"); fl += 2;
          if (kind == 'S') { strcpy(expect + el, t1); el += strlen(t1); } else el += show_ref(t1, expect + el);
        } else bad = 1;
        prev = kind;
      }
      if (bad) { O("bad-op"); free(copyl); continue; }
      fmtb[fl] = 0; expect[el] = 0;
      int ret = -1;
      switch (na) {
        case 0: V_TRY(exc, ret = print_to(sobj[k], (int)pos, fmtb)); break;
        case 1: V_TRY(exc, ret = print_to(sobj[k], (int)pos, fmtb, $S(argbuf[0]))); break;
        case 2: V_TRY(exc, ret = print_to(sobj[k], (int)pos, fmtb, $S(argbuf[0]), $S(argbuf[1]))); break;
        case 3: V_TRY(exc, ret = print_to(sobj[k], (int)pos, fmtb, $S(argbuf[0]), $S(argbuf[1]), $S(argbuf[2]))); break;
        default: V_TRY(exc, ret = print_to(sobj[k], (int)pos, fmtb, $S(argbuf[0]), $S(argbuf[1]), $S(argbuf[2]), $S(argbuf[3]))); break;
      }
      size_t rl = strlen(rtxt[k]);
      if (pos <= rl) { ref_reserve(k, pos + el); snprintf(rtxt[k] + pos, el + 1, "%s", expect); }
      if (exc) X("sig=str-exc line=%zu what=print_to raised %s", lineno, v_exc_name(exc));
      if (!exc && ret != (int)(pos + el)) X("sig=str-fmt-ret line=%zu what=print_to returned %d, expected %zu", lineno, ret, pos + el);
      char oc[48]; snprintf(oc, sizeof oc, "ret=%d", ret);
      nmut++; dump(op, k, exc ? v_exc_name(exc) : oc);
    } else if ((!strcmp(op, "pf") && nt >= 4) || (!strcmp(op, "show") && nt >= 4)) {
      NEED_LIVE(k); size_t pos; NEED_NUM(2, pos);
      int isshow = op[0] == 's';
      if (!isshow) { NEED_TEXT(3, fmtb); }
      PArg* args[8]; int na = 0, idx = isshow ? 3 : 4, bad = 0;
      while (idx < nt && !bad) { if (na == 8) { bad = 1; break; } PArg* a = parg_parse(tok, nt, &idx, 1); if (!a) bad = 1; else args[na++] = a; }
      size_t el = 0, ab = 0; char cls[8]; int ns = 0;
      for (int i = 0; i < na; i++) ab += parg_bytes(args[i]);
      if (ab > 4096) bad = 1;                                           /* keeps every reference buffer in bounds */
      if (!bad && isshow) { if (na != 1) bad = 1; else el = parg_show(args[0], expect); }
      if (!bad && !isshow) { ns = ref_format(fmtb, args, na, expect, sizeof expect, &el, cls); if (ns < 0) bad = 1; }
      if (bad) { for (int i = 0; i < na; i++) parg_free(args[i]); O("bad-op"); free(copyl); continue; }
      if (!isshow) {
        static char whole[4 * MAXT];
        int wl = ref_whole(fmtb, args, ns, cls, whole, sizeof whole);
        if (wl >= 0) {
          if ((size_t)wl != el || memcmp(whole, expect, el) != 0) I("warning line=%zu the per-specification reference differs from snprintf of the whole format; using the latter", lineno);
          if ((size_t)wl < sizeof whole) { memcpy(expect, whole, (size_t)wl + 1); el = (size_t)wl; }
        }
      }
      var items[9];
      for (int i = 0; i < na; i++) { parg_build(args[i]); items[i] = args[i]->obj; }
      items[na] = Terminal;
      int ret = -1;
      if (isshow) V_TRY(exc, ret = show_to(items[0], sobj[k], (int)pos));
      else V_TRY(exc, ret = print_to_with(sobj[k], (int)pos, fmtb, $(Tuple, items)));
      size_t rl = strlen(rtxt[k]);
      /* libc at the same offset of the reference buffer; an empty format makes no call and leaves the text alone */
      if (pos <= rl && (isshow || fmtb[0])) { ref_reserve(k, pos + el); snprintf(rtxt[k] + pos, el + 1, "%s", expect); }
      if (exc) X("sig=str-exc line=%zu what=%s raised %s", lineno, isshow ? "show_to" : "print_to_with", v_exc_name(exc));
      if (!exc && ret != (int)(pos + el)) X("sig=str-fmt-ret line=%zu what=%s returned position %d, but it started at %zu and wrote %zu characters", lineno, isshow ? "show_to" : "print_to_with", ret, pos, el);
      char oc[48]; snprintf(oc, sizeof oc, "ret=%d", ret);
      nmut++; dump(op, k, exc ? v_exc_name(exc) : oc);
      for (int i = 0; i < na; i++) { parg_unbuild(args[i]); parg_free(args[i]); }
    } else if (!strcmp(op, "remi") && nt == 3) {
      NEED_LIVE(k);
      PArg* a = NULL; int idx = 2; char itok[40]; snprintf(itok, sizeof itok, "i%s", tok[2]); char* one[1] = { itok };
      idx = 0; a = strlen(tok[2]) < 30 ? parg_parse(one, 1, &idx, 1) : NULL;
      if (!a) { O("bad-op"); free(copyl); continue; }
      V_TRY(exc, rem(sobj[k], $I(a->i)));
      parg_free(a);
      /* an Int has no C string: nothing can be removed, the call must say so and must not touch the String */
      if (exc != ClassError) X("sig=str-rem-exc line=%zu what=rem of an object without a C string: %s instead of ClassError", lineno, v_exc_name(exc));
      if (exc) nexc++;
      nmut++; dump(op, k, exc ? v_exc_name(exc) : "ok");
    } else if (!strcmp(op, "fmtrej") && nt == 3) {
      NEED_LIVE(k); size_t pos; NEED_NUM(2, pos);
      int probe = snprintf(NULL, 0, "%lc", (wint_t)0x10FFFF);
      if (probe >= 0) I("warning line=%zu libc accepts %%lc of U+10FFFF in this locale: fmtrej is an ordinary write here", lineno);
      int ret = 0;
      V_TRY(exc, ret = format_to(sobj[k], (int)pos, "%lc", (wint_t)0x10FFFF));
      if (exc) X("sig=str-exc line=%zu what=format_to of a format libc rejects raised %s", lineno, v_exc_name(exc));
      if (!exc && probe < 0 && ret >= 0) X("sig=str-fmt-ret line=%zu what=libc rejects the format, format_to returned %d", lineno, ret);
      char oc[48]; if (ret < 0) strcpy(oc, "rejected"); else snprintf(oc, sizeof oc, "ret=%d", ret);
      nmut++; dump(op, k, exc ? v_exc_name(exc) : oc);                  /* the reference is unchanged: so must the String be */
    } else if (!strcmp(op, "pfrej") && nt == 4) {
      NEED_LIVE(k); size_t pos; NEED_NUM(2, pos); NEED_TEXT(3, t1);
      if (strchr(t1, '%')) { O("bad-op"); free(copyl); continue; }
      snprintf(fmtb, sizeof fmtb, "%s%%lcZ", t1);
      var big = new_raw(Int, $I(0x10FFFF)); var items[2] = { big, Terminal };
      int ret = -1;
      V_TRY(exc, ret = print_to_with(sobj[k], (int)pos, fmtb, $(Tuple, items)));
      del_raw(big);
      size_t rl = strlen(rtxt[k]);
      if (pos <= rl && t1[0]) { ref_reserve(k, pos + strlen(t1)); snprintf(rtxt[k] + pos, strlen(t1) + 1, "%s", t1); }
      if (exc != FormatError) X("sig=str-exc line=%zu what=print_to_with with a specification libc rejects: %s instead of FormatError", lineno, v_exc_name(exc));
      nmut++; dump(op, k, exc ? v_exc_name(exc) : "ok");
    } else if ((!strcmp(op, "look") || !strcmp(op, "looks")) && nt == 4) {
      /* look k j pos: look_from(s_k, s_j, pos) (looks: scan_from(s_j, pos, "%$", s_k)) -> String_Look: String_Clear, then one
         String_Concat per character read from the other String */
      NEED_LIVE(k); NEED_OBJ(2); size_t pos; NEED_NUM(3, pos);
      if (pos > strlen(rtxt[j])) { O("bad-op"); free(copyl); continue; }
      int ret = -1;
      if (op[4]) V_TRY(exc, ret = scan_from(sobj[j], (int)pos, "%$", sobj[k])); else V_TRY(exc, ret = look_from(sobj[k], sobj[j], (int)pos));
      ref_reserve(k, strlen(rtxt[j]) + 1);
      long want = look_ref(rtxt[j], pos, rtxt[k]);
      if (want >= 0 && exc) X("sig=str-look line=%zu what=%s of a complete shown String at %zu raised %s", lineno, op, pos, v_exc_name(exc));
      if (want < 0 && exc != FormatError) X("sig=str-look line=%zu what=%s of text that is not a complete shown String: %s instead of FormatError", lineno, op, v_exc_name(exc));
      if (want >= 0 && !exc && ret != (int)want) X("sig=str-look-ret line=%zu what=%s returned %d, the closing quote of the reference ends at %ld", lineno, op, ret, want);
      if (strcmp(valof(j), rtxt[j]) != 0) X("sig=str-content line=%zu what=%s changed the String it read from", lineno, op);
      if (exc) { nexc++; n_look_exc++; } else n_look_ok++;
      char oc[48]; snprintf(oc, sizeof oc, "ret=%d", ret);
      nmut++; dump(op, k, exc ? v_exc_name(exc) : oc);
    } else if (!strcmp(op, "scanw") && nt == 3) {
      NEED_LIVE(k); size_t pos; NEED_NUM(2, pos); nobs++;
      size_t L = strlen(valof(k));
      if (pos > L) { O("bad-op"); free(copyl); continue; }
      var tgt = new_raw(String); resize(tgt, L + 1);
      int ret = -1;
      V_TRY(exc, ret = scan_from(sobj[k], (int)pos, "%s", tgt));
      char pre[40]; const char* w = exc ? "" : c_str(tgt); hexpre(w, strlen(w), pre);
      O("scanw %d exc=%s ret=%d n=%zu w=%s", k, v_exc_name(exc), exc ? -1 : ret, strlen(w), pre);
      if (pos <= strlen(rtxt[k])) {
        int off = 0; int r = sscanf(rtxt[k] + pos, "%s%n", t1, &off);
        if (r < 1) { if (exc != FormatError) X("sig=str-scan line=%zu what=nothing to read at %zu of the reference, scan_from gave %s", lineno, pos, v_exc_name(exc)); }
        else if (exc) X("sig=str-scan line=%zu what=scan_from raised %s, sscanf on the reference reads a word", lineno, v_exc_name(exc));
        else if (ret != (int)pos + off || strcmp(w, t1) != 0) X("sig=str-scan line=%zu what=scan_from read %zu chars up to %d, sscanf on the reference %zu chars up to %d", lineno, strlen(w), ret, strlen(t1), (int)pos + off);
      }
      del_raw(tgt);
    } else if (!strcmp(op, "len") && nt == 2) {
      NEED_LIVE(k); nobs++;
      size_t r = len(sobj[k]);
      O("len %d %zu", k, r);
      if (r != strlen(rtxt[k])) X("sig=str-len line=%zu what=len() is %zu, libc says %zu", lineno, r, strlen(rtxt[k]));
      if (r != ref_len(rtxt[k])) X("sig=str-len line=%zu what=len() is %zu, counting the reference's bytes gives %zu", lineno, r, ref_len(rtxt[k]));
    } else if (!strcmp(op, "cstr") && nt == 2) {
      NEED_LIVE(k); nobs++;
      char* c = c_str(sobj[k]);
      O("cstr %d n=%zu fnv=%016llx", k, strlen(c), (unsigned long long)fnv64((unsigned char*)c, strlen(c)));
      if (strcmp(c, rtxt[k]) != 0) X("sig=str-content line=%zu what=c_str() differs from the libc reference", lineno);
    } else if ((!strcmp(op, "cmp") || !strcmp(op, "eq") || !strcmp(op, "mem")) && nt == 3) {
      NEED_LIVE(k); NEED_TEXT(2, t1); nobs++;
      if (op[0] == 'c') { int r = sign(cmp(sobj[k], $S(t1))); O("cmp %d %d", k, r);
        if (r != sign(strcmp(rtxt[k], t1))) X("sig=str-cmp line=%zu what=cmp gives %d, strcmp on the reference %d", lineno, r, sign(strcmp(rtxt[k], t1)));
        if (r != ref_cmp(rtxt[k], t1)) X("sig=str-cmp line=%zu what=cmp gives %d, the first differing bytes as unsigned char say %d", lineno, r, ref_cmp(rtxt[k], t1));
        if (sign(strcmp(rtxt[k], t1)) != ref_cmp(rtxt[k], t1)) I("warning line=%zu this libc's strcmp (%d) is not the unsigned-byte order (%d)", lineno, sign(strcmp(rtxt[k], t1)), ref_cmp(rtxt[k], t1));
        if (le(sobj[k], $S(t1)) != (r <= 0) || ge(sobj[k], $S(t1)) != (r >= 0)) X("sig=str-cmp line=%zu what=le/ge disagree with cmp", lineno);
        if ((r == 0) != (bool)eq(sobj[k], $S(t1))) X("sig=str-cmp line=%zu what=cmp is %d but eq says %d", lineno, r, (int)eq(sobj[k], $S(t1)));
        if (r == 0 && hash(sobj[k]) != hash($S(t1))) X("sig=str-hash line=%zu what=equal texts hash differently", lineno);
        int r2 = sign(cmp($S(t1), sobj[k])); if (r2 != -r) X("sig=str-cmp line=%zu what=cmp is not antisymmetric (%d, %d)", lineno, r, r2);
        if (lt(sobj[k], $S(t1)) != (r < 0) || gt(sobj[k], $S(t1)) != (r > 0)) X("sig=str-cmp line=%zu what=lt/gt disagree with cmp", lineno); }
      else if (op[0] == 'e') { int r = eq(sobj[k], $S(t1)); O("eq %d %d", k, r);
        if (r != (strcmp(rtxt[k], t1) == 0)) X("sig=str-cmp line=%zu what=eq gives %d, strcmp on the reference says %d", lineno, r, strcmp(rtxt[k], t1) == 0);
        if (r != ref_eq(rtxt[k], t1)) X("sig=str-cmp line=%zu what=eq gives %d, comparing the bytes says %d", lineno, r, ref_eq(rtxt[k], t1));
        if (eq($S(t1), sobj[k]) != r) X("sig=str-cmp line=%zu what=eq is not symmetric", lineno);
        if (neq(sobj[k], $S(t1)) == r) X("sig=str-cmp line=%zu what=neq is not the negation of eq", lineno); }
      else { int r = mem(sobj[k], $S(t1)); O("mem %d %d", k, r);
        if (r != (strstr(rtxt[k], t1) != NULL)) X("sig=str-mem line=%zu what=mem gives %d, strstr on the reference says %d", lineno, r, strstr(rtxt[k], t1) != NULL);
        if (r != ref_mem(rtxt[k], t1)) X("sig=str-mem line=%zu what=mem gives %d, trying every start in the reference says %d", lineno, r, ref_mem(rtxt[k], t1)); }
    } else if (!strcmp(op, "cmps") && nt == 3) {
      NEED_LIVE(k); NEED_OBJ(2); nobs++;
      int r = sign(cmp(sobj[k], sobj[j])); O("cmps %d %d", k, r);
      if (r != sign(strcmp(rtxt[k], rtxt[j]))) X("sig=str-cmp line=%zu what=cmp of two heap Strings gives %d, strcmp %d", lineno, r, sign(strcmp(rtxt[k], rtxt[j])));
      if (r != ref_cmp(rtxt[k], rtxt[j])) X("sig=str-cmp line=%zu what=cmp of two heap Strings gives %d, the first differing bytes as unsigned char say %d", lineno, r, ref_cmp(rtxt[k], rtxt[j]));
      if (sign(cmp(sobj[j], sobj[k])) != -r) X("sig=str-cmp line=%zu what=cmp of two heap Strings is not antisymmetric", lineno);
      if ((bool)eq(sobj[k], sobj[j]) != (r == 0)) X("sig=str-cmp line=%zu what=eq of two heap Strings disagrees with cmp", lineno);
    } else if (!strcmp(op, "hash") && nt == 2) {
      NEED_LIVE(k); nobs++;
      uint64_t h = hash(sobj[k]), h2 = hash($S(rtxt[k])), h3 = hash_data(rtxt[k], strlen(rtxt[k]));
      O("hash %d %016llx %s", k, (unsigned long long)h, (h == h2 && h == h3) ? "same" : "diff");
      if (h != h2 || h != h3) X("sig=str-hash line=%zu what=hash of the heap String differs from the hash of an equal stack String / of its bytes", lineno);
      judge_hash("op", "hash:", h, rtxt[k], strlen(rtxt[k]));
      if (!ref_broken && h2 != ref_murmur_a(rtxt[k], strlen(rtxt[k]))) X("sig=str-hash-value line=%zu what=hash() of the stack String $S(reference text) of %zu chars is %016llx, MurmurHash64A of those bytes is %016llx", lineno, strlen(rtxt[k]), (unsigned long long)h2, (unsigned long long)ref_murmur_a(rtxt[k], strlen(rtxt[k])));
    } else {
      O("bad-op");
    }
    if (sobj[k]) { size_t L = strlen(valof(k)); if (L > maxlen) maxlen = L; }
    free(copyl);
  }
  I("ops=%zu mutations=%zu observations=%zu raised=%zu maxlen=%zu", nops, nmut, nobs, nexc, maxlen);
  I("stkstat refused=%zu ran=%zu", n_stk_refused, n_stk_ran);
  I("lookstat ok=%zu raised=%zu escapes=%zu", n_look_ok, n_look_exc, n_look_esc);
  I("hashstat judged=%zu wrong=%zu texts=%zu equal-length-equal-hash=%zu reference=%s", n_hash_judged, n_hash_wrong, coll_texts, coll_pairs, ref_broken ? "BROKEN" : "ok");
  return 0;
}
