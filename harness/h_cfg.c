/* harness/h_cfg.c — engine `cfg` (C18): one in-contract public-API workload, interpreted from an op file, that is built
 * from the current tree under every configuration switch (default / CELLO_NDEBUG / CELLO_CACHE predefined = cache off /
 * CELLO_NGC and their combinations) and several optimisation levels by vlib/props/c18.py.  All builds must print the same
 * transcript, byte for byte:
 *   O ...   observations the Lean model (lean/Driver/Cfg.lean) reproduces as well
 *   T ...   transcript-only observations (hashes, formatting, floats, iteration views, raw table order): compared across builds
 *   X ...   the direct oracle (a plain C shadow of every object: arrays of tagged values, association lists) disagrees with what
 *           the library returned, or an in-contract operation raised:  X sig=c18-<cfg>-<opt> line=<n> what=<text>
 *
 * Every operation is validated against the shadow BEFORE it runs; one that would leave the API contract (bad index, absent key,
 * wrong element type, dead handle) prints `O out-of-contract` and is not executed — under CELLO_NDEBUG it would be undefined
 * behaviour, and the property is about in-contract programs only.  So any op file (also a shrunk one) is safe in every build.
 *
 * op file (objects are slot numbers 0..MAXSLOT-1; values are literals i<int> or s<alnum*>; types I | S):
 *   nv d V | na d T V* | nl d T V* | nt d KT VT | nr d KT VT | del x | drop x
 *   push c V | pushat c i V | pop c | popat c i | get c i | set c i V | rem c V | mem c V | len x
 *   mset m K V | mget m K | mrem m K | mmem m K | items c | ritems c | sort c | copy d c | concat c c2 | resize c n
 *   eq a b | cmp a b | vset x V | exc k | nest k1 k2
 *   nvr d V | nvo d V            value objects made by new_raw / new_root (deleted with del_raw / del_root).  The only pointer to a
 *                                new_root object is kept in STATIC storage (XOR-masked: nothing the collector scans shows it) — the
 *                                case roots exist for; the root flag of its registry entry alone keeps it through every collection
 *   ed x SEL EDIT                an in-place edit of a String (asg: also Int) object of ANY allocation class it is defined on:
 *        SEL  = self (the object behind handle x) | at i (get(x, $I(i)) of an Array/List: an element embedded in the container)
 *             | it i (the i-th object handed out by iteration) | val K (get(m, K) of a Table/Tree) | key K (the embedded key equal to K,
 *               found by iteration; only edits that leave its value unchanged are in contract)
 *        EDIT = cat sT | app sT | res n | asg V | fmt p sT (print_to(x, p, "%s", $S(T))) | rem sT | look sT (look_from(x, $S("\"T\""), 0))
 *   (transcript only) hash x | show x | fmt p x | flt a b | range a b c | slice c k | rev c | zip c c2 | filter c k | map c k
 *                     | enum c | gc
 *   (transcript only, ignored by the model) heap Tuples of copies of value objects, in their own slots 0..MAXT-1; the items are
 *   reachable ONLY through the Tuple (the collector must keep them alive; under CELLO_NGC the harness deletes them itself):
 *                     tnew t T x* | tpush t x | tpushat t i x | tpop t | tpopat t i | tget t i | tset t i x | titems t | tritems t
 *                     | tlen t | tsort t | tmem t x | trem t x | tcat t x* | tresize t n | tcmp t t2 | thash t | tdrop t | tdel t
 *                     probe t v q* | preset t   (method-cache probe types, see below)     ring n seed churn   (Boxes owning each other)
 *   (transcript only) nested holders 0..MAXN-1: a container whose ELEMENTS are containers (or Tuples), edited in place through get():
 *                     xnew n OUTER INNER   OUTER = a Array | l List | t Table Int-> | r Tree Int->    INNER = A Array of Int | L List of Int
 *                                          | U Tuple (items: built-in Type objects, by index 0..9, no object twice)
 *                     xadd n k | xpush n k v | xpop n k | xpopat n k j | xset n k j v | xcat n k v* | xres n k m | xget n k j | xshow n
 *                     | xrem n k | xdel n | xdrop n
 *   (O lines, modelled: Cello/Config.lean namespace Keep) keep programs — holders 0..MAXH-1 that are the sole path to managed objects:
 *                     hnew h kind | hput h k id pay | hget h k | hread h | hrem h k | hrel h k | hshrink h n | hreserve h n
 *                     (kind in UPPER CASE — A L T K R Q U C: the container is made with new_root and its only pointer lives in static
 *                     storage outside the collector's view; released with hdel = del_root; hdrop of a root is out of contract)
 *                     | hchurn m | hdrop h | hdel h        (see "keep programs" below)
 *                     | hexit                              process exit in a forked child: which Tracked destructors have run when the process
 *                                                          has ended (the `main` wrapper's atexit(Cello_Exit) exists only #ifndef CELLO_NGC)
 *   (O lines, modelled: Cello/ConfigType.lean) RUN-TIME TYPES — type slots 0..MAXTY-1, object slots 0..MAXOB-1 (see "run-time types" below):
 *                     ty T ROUTE NAME SIZE INST*      new(Type, $S(NAME), $I(SIZE), instances…) by ROUTE = new | raw | root (new_raw / new_root)
 *                                                     | con | conraw | conroot (construct_with(alloc / alloc_raw / alloc_root (Type), …))
 *                     tybig T ROUTE NAME SIZE n k     the same with n instances: table entries k, k+1, … cyclically (n up to CELLO_MAX_INSTANCES)
 *                     tyre T NAME SIZE INST*          destruct(T); construct_with(T, …): re-construction in place
 *                     tyq T CLS | tyshow T | tydel T  type_implements / type_instance / type_implements_method; "%s|%$"; del by route
 *                     ob O T ROUTE v | od O           an object of type T by new_with / new_raw_with / new_root_with; del by route
 *                     oq O Q                          Q = cint | len | cstr | cflt | hash | cmp O2 | eq O2 | asg O2 | show | size | impl CLS | cast
 *                                                     | mem | get | push k | pop | cat k | resize n | copy D
 */
#include "common.h"
#include <inttypes.h>

#ifndef VCFG
#define VCFG "default"
#endif
#ifndef VOPT
#define VOPT "O1"
#endif

#define MAXSLOT 48
#define MAXTOK 80
#define MAXT 16

/* ------------------------------------------------------------------------------------------------ shadow (direct oracle) */
typedef struct { int isstr; long long i; char s[40]; } SV;
enum { K_NONE = 0, K_VAL, K_ARRAY, K_LIST, K_TABLE, K_TREE, K_TUPLE };
typedef struct { int kind; int et; int vt; SV* xs; SV* ys; size_t n, cap; int mode; } SH;   /* mode: 0 new, 1 new_raw, 2 new_root, 3 new_root by a worker thread that has ended */
static SH sh[MAXSLOT];
static var* S;              /* the live handles: an array in main's frame (the collector scans the stack) */
/* ROOTS.  An object made with new_root is meant to be referenced from where the collector does not look (a file-scope variable,
 * a malloc'ed C structure): its registry entry carries the root flag and nothing else keeps it.  So the workload keeps the ONLY
 * pointer to every new_root object in static storage, XOR-masked (no word anywhere has the value of the pointer), S[a] stays NULL.
 * sget() hands the pointer to the operation that uses it; main() scrubs the dead stack below its frame before every operation, so
 * that copies left behind by one operation are not what keeps the root alive in the next. */
#define ROOTMASK ((uintptr_t)0x5a5a5a5a5a5a5a5aULL)
static uintptr_t sroot[MAXSLOT];
static __attribute__((noinline)) var sget(int a) { return (sh[a].kind != 0 && (sh[a].mode == 2 || sh[a].mode == 3)) ? (var)(sroot[a] ^ ROOTMASK) : S[a]; }
#define SG(a) sget(a)
static __attribute__((noinline)) void deep_scrub(void) { volatile uint64_t pad[6144]; for (size_t i = 0; i < sizeof pad / sizeof pad[0]; i++) pad[i] = 0; }
static var* TS;             /* heap Tuples (transcript-only part), also in main's frame */
static SH tsh[MAXT];        /* their shadows: kind K_TUPLE, et, xs = values of the items in order */
static size_t cur_line = 0;
static size_t n_exec = 0, n_ooc = 0, n_bad = 0, n_x = 0, n_ed = 0, n_ed_elem = 0, n_nested = 0;

static void XF(const char* what, const char* a, const char* b) {
  n_x++;
  X("sig=c18-%s-%s line=%zu what=%s got=[%s] want=[%s]", VCFG, VOPT, cur_line, what, a ? a : "", b ? b : "");
}

static int sv_eq(const SV* a, const SV* b) { return a->isstr == b->isstr && (a->isstr ? strcmp(a->s, b->s) == 0 : a->i == b->i); }
static int sv_cmp(const SV* a, const SV* b) {
  if (a->isstr) { int c = strcmp(a->s, b->s); return c < 0 ? -1 : c > 0 ? 1 : 0; }
  return a->i < b->i ? -1 : a->i > b->i ? 1 : 0;
}
static void sv_show(char* out, size_t n, const SV* v) {
  if (v->isstr) snprintf(out, n, "s%s", v->s); else snprintf(out, n, "i%lld", v->i);
}
static int parse_sv(const char* t, SV* v) {
  memset(v, 0, sizeof *v);
  if (t[0] == 'i') {
    const char* p = t + 1; if (*p == '-') p++;
    if (!*p) return 0;
    for (const char* q = p; *q; q++) if (*q < '0' || *q > '9') return 0;
    if (strlen(p) > 17) return 0;
    v->isstr = 0; v->i = atoll(t + 1); return 1;
  }
  if (t[0] == 's') {
    if (strlen(t + 1) > 30) return 0;
    for (const char* q = t + 1; *q; q++)
      if (!((*q >= '0' && *q <= '9') || (*q >= 'a' && *q <= 'z') || (*q >= 'A' && *q <= 'Z') || *q == '_')) return 0;
    v->isstr = 1; strcpy(v->s, t + 1); return 1;
  }
  return 0;
}
static int parse_ty(const char* t, int* isstr) {
  if (strcmp(t, "I") == 0) { *isstr = 0; return 1; }
  if (strcmp(t, "S") == 0) { *isstr = 1; return 1; }
  return 0;
}
static int parse_int(const char* t, long long* v) {
  const char* p = t; if (*p == '-') p++;
  if (!*p || strlen(p) > 17) return 0;
  for (const char* q = p; *q; q++) if (*q < '0' || *q > '9') return 0;
  *v = atoll(t); return 1;
}
static int parse_slot(const char* t, int* s) {
  long long v; if (!parse_int(t, &v) || v < 0 || v >= MAXSLOT) return 0;
  *s = (int)v; return 1;
}

static void sh_reserve(SH* h, size_t n) {
  if (n <= h->cap) return;
  size_t c = h->cap ? h->cap * 2 : 8; while (c < n) c *= 2;
  h->xs = realloc(h->xs, c * sizeof(SV)); h->ys = realloc(h->ys, c * sizeof(SV)); h->cap = c;
}
static void sh_free(SH* h) { free(h->xs); free(h->ys); memset(h, 0, sizeof *h); }
static void sh_insert(SH* h, size_t at, const SV* v) {
  sh_reserve(h, h->n + 1);
  memmove(h->xs + at + 1, h->xs + at, (h->n - at) * sizeof(SV));
  h->xs[at] = *v; h->n++;
}
static void sh_remove(SH* h, size_t at) {
  memmove(h->xs + at, h->xs + at + 1, (h->n - at - 1) * sizeof(SV));
  if (h->ys) memmove(h->ys + at, h->ys + at + 1, (h->n - at - 1) * sizeof(SV));
  h->n--;
}
static long sh_find(const SH* h, const SV* v) {
  for (size_t i = 0; i < h->n; i++) if (sv_eq(&h->xs[i], v)) return (long)i;
  return -1;
}
static void sh_copy(SH* d, const SH* s) {
  memset(d, 0, sizeof *d);
  d->kind = s->kind; d->et = s->et; d->vt = s->vt; d->mode = 0;
  sh_reserve(d, s->n ? s->n : 1);
  memcpy(d->xs, s->xs, s->n * sizeof(SV)); memcpy(d->ys, s->ys, s->n * sizeof(SV)); d->n = s->n;
}
static int is_seq(int s) { return sh[s].kind == K_ARRAY || sh[s].kind == K_LIST; }
static int is_map(int s) { return sh[s].kind == K_TABLE || sh[s].kind == K_TREE; }

/* ------------------------------------------------------------------------------------------------ library side helpers */
#define MK(sv) ((sv).isstr ? (var)$S((sv).s) : (var)$I((sv).i))
static var ty_obj(int isstr) { return isstr ? String : Int; }

/* render a library element (Int or String object) in literal syntax */
static void lib_show(char* out, size_t n, var x) {
  if (x == NULL) { snprintf(out, n, "NULL"); return; }
  var t = type_of(x);
  if (t == Int) snprintf(out, n, "i%lld", (long long)c_int(x));
  else if (t == String) snprintf(out, n, "s%s", c_str(x));
  else snprintf(out, n, "?%s", c_str(t));
}

static char buf1[1 << 16], buf2[1 << 16];
static void app(char* b, size_t* l, const char* s) { size_t k = strlen(s); if (*l + k + 2 < sizeof buf1) { memcpy(b + *l, s, k); *l += k; b[*l] = 0; } }

/* forward item list of a library iterable of Int/String items: "[a,b,c]" */
static void lib_items(char* b, var c) {
  size_t l = 0; b[0] = 0; app(b, &l, "["); int first = 1; char e[64];
  foreach (x in c) { if (!first) app(b, &l, ","); first = 0; lib_show(e, sizeof e, x); app(b, &l, e); }
  app(b, &l, "]");
}
static void lib_ritems(char* b, var c) {
  size_t l = 0; b[0] = 0; app(b, &l, "["); int first = 1; char e[64];
  for (var x = iter_last(c); x != Terminal; x = iter_prev(c, x)) { if (!first) app(b, &l, ","); first = 0; lib_show(e, sizeof e, x); app(b, &l, e); }
  app(b, &l, "]");
}
static void sh_items(char* b, const SH* h, int rev) {
  size_t l = 0; b[0] = 0; app(b, &l, "["); char e[64];
  for (size_t k = 0; k < h->n; k++) { size_t i = rev ? h->n - 1 - k : k; if (k) app(b, &l, ","); sv_show(e, sizeof e, &h->xs[i]); app(b, &l, e); }
  app(b, &l, "]");
}
/* maps: "k=v" pairs; raw = library iteration order, sorted = by key */
typedef struct { SV k, v; } KV;
static int kv_cmp(const void* a, const void* b) { return sv_cmp(&((const KV*)a)->k, &((const KV*)b)->k); }
static void kvs_render(char* b, KV* kv, size_t n) {
  size_t l = 0; b[0] = 0; app(b, &l, "["); char e[64];
  for (size_t i = 0; i < n; i++) { if (i) app(b, &l, ","); sv_show(e, sizeof e, &kv[i].k); app(b, &l, e); app(b, &l, "="); sv_show(e, sizeof e, &kv[i].v); app(b, &l, e); }
  app(b, &l, "]");
}
static void lib_to_sv(SV* out, var x) {
  memset(out, 0, sizeof *out);
  if (type_of(x) == String) { out->isstr = 1; snprintf(out->s, sizeof out->s, "%s", c_str(x)); } else { out->isstr = 0; out->i = c_int(x); }
}
static size_t lib_map_kvs(KV* kv, size_t cap, var m) {
  size_t n = 0;
  foreach (k in m) { if (n < cap) { lib_to_sv(&kv[n].k, k); lib_to_sv(&kv[n].v, get(m, k)); } n++; }
  return n;
}

/* whole-object comparison library vs shadow, after every mutation */
static KV kvbuf[4096], kvbuf2[4096];
static void check_obj(int s, const char* after) {
  SH* h = &sh[s]; var o = SG(s); char w[128];
  if (h->kind == K_VAL) {
    char a[64], b[64]; lib_show(a, sizeof a, o); sv_show(b, sizeof b, &h->xs[0]);
    if (strcmp(a, b)) { snprintf(w, sizeof w, "value-after-%s", after); XF(w, a, b); }
  } else if (is_seq(s)) {
    lib_items(buf1, o); sh_items(buf2, h, 0);
    if (strcmp(buf1, buf2)) { snprintf(w, sizeof w, "contents-after-%s", after); XF(w, buf1, buf2); }
    if (len(o) != h->n) { snprintf(w, sizeof w, "len-after-%s", after); XF(w, "", ""); }
  } else if (is_map(s)) {
    size_t n = lib_map_kvs(kvbuf, 4096, o);
    if (n > 4096) n = 4096;
    qsort(kvbuf, n, sizeof(KV), kv_cmp);
    for (size_t i = 0; i < h->n; i++) { kvbuf2[i].k = h->xs[i]; kvbuf2[i].v = h->ys[i]; }
    qsort(kvbuf2, h->n, sizeof(KV), kv_cmp);
    kvs_render(buf1, kvbuf, n); kvs_render(buf2, kvbuf2, h->n);
    if (strcmp(buf1, buf2)) { snprintf(w, sizeof w, "contents-after-%s", after); XF(w, buf1, buf2); }
    if (len(o) != h->n) { snprintf(w, sizeof w, "len-after-%s", after); XF(w, "", ""); }
  }
}


/* ------------------------------------------------------------------------------------------------ probe types (method cache)
 * Three identical file-scope types implementing 17 of the 18 cached classes (all but Alloc), every member returning a value
 * that identifies the member that was really called.  `probe t v q…` creates an object and queries it through the public API
 * in the given order, so every ordered pair of cached classes is looked up on ONE type, cold (first use in the process, or
 * after `preset t`, a white-box wipe of the type's cache words) and warm.  With the cache compiled out the answers are the
 * declared ones by construction (Type_Scan); a build whose cache hands out another class's instance prints something else. */
struct Probe { int64_t v; var p; };
static var probe_current_obj = NULL;
static size_t Probe_Size(void) { return sizeof(struct Probe); }
static void Probe_New(var self, var args) { struct Probe* q = self; q->v = c_int(get(args, $I(0))); q->p = NULL; }
static void Probe_Assign(var self, var obj) { struct Probe* q = self; struct Probe* o = obj; q->v = o->v; q->p = o->p; }
static int Probe_Cmp(var self, var obj) { struct Probe* q = self; struct Probe* o = obj; return q->v < o->v ? -1 : q->v > o->v ? 1 : 0; }
static void Probe_Mark(var self, var gc, void (*f)(var, void*)) { }
static uint64_t Probe_Hash(var self) { struct Probe* q = self; return (uint64_t)(q->v + 3000); }
static size_t Probe_Len(var self) { struct Probe* q = self; return (size_t)(q->v + 1000); }
static var Probe_Iter_Init(var self) { return Terminal; }
static var Probe_Iter_Next(var self, var curr) { return Terminal; }
static var Probe_Iter_Type(var self) { return Int; }
static void Probe_Push(var self, var obj) { struct Probe* q = self; q->v += c_int(obj); }
static void Probe_Pop(var self) { struct Probe* q = self; q->v -= 1; }
static void Probe_Push_At(var self, var obj, var key) { struct Probe* q = self; q->v += 2 * c_int(obj) + c_int(key); }
static void Probe_Pop_At(var self, var key) { struct Probe* q = self; q->v -= c_int(key); }
static void Probe_Concat(var self, var obj) { struct Probe* q = self; q->v += 100 * c_int(obj); }
static void Probe_Append(var self, var obj) { struct Probe* q = self; q->v += 10 * c_int(obj); }
static var Probe_Get(var self, var key) { return self; }
static void Probe_Set(var self, var key, var val) { struct Probe* q = self; q->v = c_int(key) * 1000 + c_int(val); }
static bool Probe_Mem(var self, var key) { struct Probe* q = self; return (q->v & 1) != 0; }
static void Probe_Rem(var self, var key) { struct Probe* q = self; q->v ^= 1; }
static char probe_strbuf[64];
static char* Probe_C_Str(var self) { struct Probe* q = self; snprintf(probe_strbuf, sizeof probe_strbuf, "probe%lld", (long long)q->v); return probe_strbuf; }
static int64_t Probe_C_Int(var self) { struct Probe* q = self; return q->v + 2000; }
static double Probe_C_Float(var self) { struct Probe* q = self; return (double)q->v + 0.5; }
static var Probe_Current(void) { return probe_current_obj; }
static var Probe_Cast(var self, var type) { return self; }
static void Probe_Ref(var self, var item) { struct Probe* q = self; q->p = item; }
static var Probe_Deref(var self) { struct Probe* q = self; return q->p; }
#define PROBE_TYPE(N) \
  struct N { int64_t v; var p; }; \
  static var N = Cello(N, \
    Instance(Size, Probe_Size), Instance(New, Probe_New, NULL), Instance(Assign, Probe_Assign), Instance(Cmp, Probe_Cmp), \
    Instance(Mark, Probe_Mark), Instance(Hash, Probe_Hash), Instance(Len, Probe_Len), \
    Instance(Iter, Probe_Iter_Init, Probe_Iter_Next, Probe_Iter_Init, Probe_Iter_Next, Probe_Iter_Type), \
    Instance(Push, Probe_Push, Probe_Pop, Probe_Push_At, Probe_Pop_At), Instance(Concat, Probe_Concat, Probe_Append), \
    Instance(Get, Probe_Get, Probe_Set, Probe_Mem, Probe_Rem, NULL, NULL), Instance(C_Str, Probe_C_Str), \
    Instance(C_Int, Probe_C_Int), Instance(C_Float, Probe_C_Float), Instance(Current, Probe_Current), \
    Instance(Cast, Probe_Cast), Instance(Pointer, Probe_Ref, Probe_Deref))
PROBE_TYPE(ProbeA); PROBE_TYPE(ProbeB); PROBE_TYPE(ProbeC);
static var probe_type(int t) { return t == 0 ? ProbeA : t == 1 ? ProbeB : ProbeC; }
static const char* PROBE_Q[] = { "len", "cint", "cflt", "cstr", "hash", "cmp", "asg", "get", "mem", "set", "rem", "push", "pop", "pushat",
  "popat", "cat", "app", "ref", "iter", "cur", "cast", "size", "fmt", "fmt2", "copy", NULL };
static int probe_q(const char* t) { for (int i = 0; PROBE_Q[i]; i++) if (!strcmp(PROBE_Q[i], t)) return i; return -1; }

/* Boxes owning each other (a ring; n == 1: a Box owning itself), dropped: garbage whose destructors come back to objects
 * of the same sweep.  Never deleted explicitly: the collector finalises them (each once), under CELLO_NGC they leak. */
static __attribute__((noinline)) long long ring_round(long long n, long long seed) {
  var bx[8]; long long r = 0;
  for (long long i = 0; i < n; i++) { var x = new(Int, $I(seed + i)); bx[i] = new(Box, x); r += c_int(deref(bx[i])); }
  for (long long i = 0; i < n; i++) ref(bx[i], bx[(i + 1) % n]);          /* the Ints become plain garbage */
  for (long long i = 0; i < n; i++) if (deref(bx[i]) == bx[(i + 1) % n]) r += 1000;
  memset(bx, 0, sizeof bx);
  return r;
}
static __attribute__((noinline)) long long churn_round(long long m) {
  long long sum = 0;
  for (long long j = 0; j < m; j++) { var t = new(Int, $I(j % 7)); sum += c_int(t); }
  return sum;
}

static void check_tuple(int s, const char* after) {
  char w[128];
  lib_items(buf1, TS[s]); sh_items(buf2, &tsh[s], 0);
  if (strcmp(buf1, buf2)) { snprintf(w, sizeof w, "tuple-contents-after-%s", after); XF(w, buf1, buf2); }
  if (len(TS[s]) != tsh[s].n) { snprintf(w, sizeof w, "tuple-len-after-%s", after); XF(w, "", ""); }
}

static var kind_obj(int k) {
  switch (((k % 6) + 6) % 6) {
    case 0: return TypeError; case 1: return ValueError; case 2: return KeyError;
    case 3: return IOError;   case 4: return FormatError; default: return BusyError;
  }
}

/* functions for filter / map views */
static long long view_k = 0;
static var fn_gt(var x) { return c_int(x) > view_k ? x : NULL; }
static var fn_add(var x) { return new(Int, $I(c_int(x) + view_k)); }     /* result is garbage for the collector; leaks under NGC (bounded) */
static var fn_len_gt(var x) { return (long long)strlen(c_str(x)) > view_k ? x : NULL; }

/* ------------------------------------------------------------------------------------------------ keep programs
 * Holders (own slots 0..MAXH-1, an array in main's frame) are containers that are the SOLE path to collector-managed
 * `Tracked` objects: the only pointer to a Tracked object is inside the container (an embedded Ref value, a pointer field of
 * an embedded key, a Tuple item, a link of a chain, a thread-local entry).  Nothing else the collector scans refers to them:
 * the ledger below is indexed by the object's serial number and holds no pointer.
 *   kinds:  a Array of Ref | l List of Ref | t Table Int->Ref | k Table KCell->Int (the KEY holds the pointer) | r Tree Int->Ref
 *           | q Tree KCell->Int | u heap Tuple of the objects themselves | c chain  head Ref -> link -> Tracked -> link -> ...
 *           (links are heap Refs for even serials, heap Boxes for odd ones; the next link hangs off the LAST word of the
 *           Tracked struct: a plain struct traced by the conservative scan) | s thread-local storage set(current(Thread), key, obj)
 *           | w the table of a Thread object that is NOT the running thread: `var t = new(Thread, f); set(t, key, obj);` — t is held
 *           in a variable, not started (or started later with `hrun`); Thread_Mark must present its table whichever thread marks
 *   hnew h kind | hput h k id pay   (new Tracked(id, pay) stored under key k / at index k <= len)
 *   hget h k | hread h              (every element read back: key, serial, payload; type and payload are checked)
 *   hrem h k  (removed and deleted)  | hrel h k  (removed only: garbage for the collector, a leak under CELLO_NGC)
 *   hshrink h n (resize: elements >= n released; maps and thread-local storage only n = 0) | hreserve h n (Table rehash)
 *   hchurn m  (m short-lived Ints: allocation pressure)   | hdrop h (handle forgotten) | hdel h (everything deleted)
 *   hrun h    (kind w only: `call(t, h); join(t);` — the started thread, whose current(Thread) is t, reads every entry back through
 *             get(current(Thread), key): count and sum of the payloads; the main thread waits in join, so no collection of the main
 *             thread's collector runs meanwhile — the unsynchronised walk of a RUNNING thread's table is KF-C13-mark-foreign-tls)
 * Ledger: the destructor of Tracked counts.  An object that is still stored in a live holder must never have been
 * finalised; no object is finalised twice; an explicit del finalises at once.  Audited after every operation, so a
 * prematurely collected object is an oracle failure (and is never dereferenced afterwards). */
#define MAXH 8
#define MAXE 128
#define MAXID 4096
struct Tracked { int64_t id; int64_t pay; var link; };
static struct { unsigned char made, fin, expect, deleted, reported; long long pay; } led[MAXID];
static int led_top = 0;            /* serials below this were used */
static int k_poisoned = 0;         /* an object was lost: nothing is dereferenced any more */
static void Tracked_New(var self, var args) {
  struct Tracked* t = self; t->id = c_int(get(args, $I(0))); t->pay = c_int(get(args, $I(1))); t->link = NULL;
}
static void Tracked_Del(var self) {
  struct Tracked* t = self;
  if (t->id >= 0 && t->id < MAXID && led[t->id].fin < 200) led[t->id].fin++;
  t->pay = -1; t->link = NULL;
}
static var Tracked = Cello(Tracked, Instance(New, Tracked_New, Tracked_Del));
/* key type whose second word is the only pointer to a Tracked object; hashed and compared by its number */
struct KCell { int64_t k; var obj; };
static void KCell_Assign(var self, var obj) { struct KCell* a = self; struct KCell* b = cast(obj, type_of(self)); a->k = b->k; a->obj = b->obj; }
static int KCell_Cmp(var self, var obj) { struct KCell* a = self; struct KCell* b = cast(obj, type_of(self)); return a->k < b->k ? -1 : a->k > b->k ? 1 : 0; }
static uint64_t KCell_Hash(var self) { struct KCell* a = self; return (uint64_t)a->k; }
static var KCell = Cello(KCell, Instance(Assign, KCell_Assign), Instance(Cmp, KCell_Cmp), Instance(Hash, KCell_Hash));

typedef struct { int kind; int n; long long key[MAXE]; int id[MAXE]; int rooted; int lost; } KH;
static KH kh[MAXH];
static var* HH;                    /* the holders: an array in main's frame */
/* ROOTED holders (`hnew h K`, K in upper case): the container is made with new_root and the ONLY pointer to it is kept here, in
 * static storage, XOR-masked — a root referenced from the data segment, which the collector does not scan.  HH[h] stays NULL.  The
 * root flag of its registry entry is all that keeps the container (and through it every Tracked object it holds) alive. */
static uintptr_t hroot[MAXH];
static __attribute__((noinline)) var HV(int h) { return kh[h].rooted ? (var)(hroot[h] ^ ROOTMASK) : HH[h]; }
static var kp[MAXE], kl[MAXE];     /* scratch for pointers (static storage: not scanned by the collector); cleared after use */
static long long kk_[MAXE];
static size_t n_keep = 0, n_keep_reads = 0, n_high = 0, n_thread_runs = 0;

static int k_isseq(int kind) { return kind == 'a' || kind == 'l' || kind == 'u' || kind == 'c'; }
static int k_ismap(int kind) { return kind == 't' || kind == 'k' || kind == 'r' || kind == 'q' || kind == 's' || kind == 'w'; }
static int k_pos(KH* h, long long k) {
  if (k_isseq(h->kind)) return (k >= 0 && k < h->n) ? (int)k : -1;
  for (int i = 0; i < h->n; i++) if (h->key[i] == k) return i;
  return -1;
}
static void k_tls_key(char* out, size_t n, int h, long long k) { snprintf(out, n, "keep%d_%lld", h, k); }
static __attribute__((noinline)) void k_scrub(void) { volatile char pad[6144]; for (size_t i = 0; i < sizeof pad; i++) pad[i] = 0; }

/* a holder the program still holds (in a variable on the stack, or — rooted — in static storage) must still be registered with the
 * collector: public API mem(current(GC), obj), which does not touch the object.  A holder that is not was reclaimed under the
 * program's feet; nothing is dereferenced any more. */
static __attribute__((noinline)) int k_registered(int h) {
#ifndef CELLO_NGC
  var c = HV(h);
  return c == NULL || (int)mem(current(GC), c);
#else
  return 1;
#endif
}
/* the audit: run before and after every keep operation, after every collection and at the end */
static void k_audit(const char* when) {
  char a[96], b[64];
  for (int h = 0; h < MAXH; h++) if (kh[h].kind && kh[h].kind != 's' && !kh[h].lost && !k_registered(h)) {
    kh[h].lost = 1; k_poisoned = 1;
    snprintf(a, sizeof a, "holder=%d kind=%c%s at=%s", h, kh[h].kind, kh[h].rooted ? " (new_root, referenced from static storage only)" : "", when);
    XF(kh[h].rooted ? "root-holder-reclaimed-while-in-use" : "holder-reclaimed-while-in-use", a, "registered");
  }
  for (int id = 0; id < led_top; id++) {
    if (!led[id].made || led[id].reported) continue;
    const char* what = NULL;
    if (led[id].fin > 1) what = "finalised-twice";
    else if (led[id].expect && led[id].fin) what = "finalised-while-stored-in-a-live-container";
    else if (led[id].deleted && led[id].fin != 1) what = "deleted-but-not-finalised";
    if (!what) continue;
    led[id].reported = 1; k_poisoned = 1;
    snprintf(a, sizeof a, "serial=%d finalised=%d at=%s", id, (int)led[id].fin, when); snprintf(b, sizeof b, "%s", led[id].expect ? "alive" : "finalised-once");
    XF(what, a, b);
  }
}

/* `hexit`: the ledger when the process has ENDED.  A function with the destructor attribute runs after every atexit handler, so
 * after Cello_Exit (registered by the `main` wrapper of Cello.h before Cello_Main is entered) — in the builds that have one.
 * What every configuration must agree on: finalised by the end of the process <=> deleted by the program.  An object that was
 * never deleted and is finalised all the same (by a collection, or by the exit-time sweep of GC_Del) is something a build without
 * collector never does: X sig=cfg-exit-finalise (known finding KF-C18-exit-finalisation; generated workloads call hexit only when
 * every Tracked object made so far was deleted by the program). */
static int exit_report = 0;
static size_t exit_line = 0;
__attribute__((destructor)) static void exit_ledger_report(void) {
  if (!exit_report) return;
  int made = 0, fin = 0, extra = 0, twice = 0; char b[256]; int n;
  for (int id = 0; id < led_top; id++) if (led[id].made) { made++; if (led[id].fin) fin++; if (led[id].fin > 1) twice++; if (led[id].fin && !led[id].deleted) extra++; }
  if (extra) {
    n = snprintf(b, sizeof b, "X sig=cfg-exit-finalise line=%zu what=%d Tracked object(s) the program never deleted were finalised by the collector or by the exit-time sweep (build %s-%s); a CELLO_NGC build never finalises them\n", exit_line, extra, VCFG, VOPT);
    if (write(1, b, (size_t)n) < 0) { }
  }
  if (twice) {
    n = snprintf(b, sizeof b, "X sig=c18-%s-%s line=%zu what=exit: %d object(s) finalised twice\n", VCFG, VOPT, exit_line, twice);
    if (write(1, b, (size_t)n) < 0) { }
  }
  n = snprintf(b, sizeof b, "O hexit made=%d finalised=%d\n", made, fin);
  if (write(1, b, (size_t)n) < 0) { }
}

/* the object behind position `pos` / key `k` of holder h, through the public API */
static __attribute__((noinline)) var k_fetch(int h, int pos, long long k) {
  var c = HV(h); var p = NULL; char key[48];
  switch (kh[h].kind) {
    case 'a': case 'l': p = deref(get(c, $I(pos))); break;
    case 'u': p = get(c, $I(pos)); break;
    case 't': case 'r': p = deref(get(c, $I(k))); break;
    case 'k': case 'q': { foreach (kk in c) { struct KCell* q = kk; if (q->k == k) { p = q->obj; break; } } } break;
    case 's': k_tls_key(key, sizeof key, h, k); p = get(current(Thread), $S(key)); break;
    case 'w': k_tls_key(key, sizeof key, h, k); p = get(c, $S(key)); break;
    case 'c': { var L = deref(c); for (int i = 0; i < pos; i++) { struct Tracked* t = deref(L); L = t->link; } p = deref(L); } break;
  }
  return p;
}
/* "serial:payload" of a stored object, checking type, serial and payload against the ledger */
static void k_show(char* out, size_t n, var p, int id) {
  if (led[id].fin) { snprintf(out, n, "%d:dead", id); return; }
  if (p == NULL) { snprintf(out, n, "%d:null", id); XF("keep-element-null", out, ""); return; }
  struct Tracked* t = p; char w[64];
  if (type_of(p) != Tracked) { snprintf(out, n, "%d:not-a-Tracked", id); XF("keep-element-type", out, "Tracked"); return; }
  snprintf(out, n, "%lld:%lld", (long long)t->id, (long long)t->pay);
  snprintf(w, sizeof w, "%d:%lld", id, led[id].pay);
  if (strcmp(out, w)) XF("keep-element-content", out, w);
}
static __attribute__((noinline)) var k_new_tracked(int id, long long pay) {
  var o = new(Tracked, $I(id), $I(pay));
  led[id].made = 1; led[id].expect = 1; led[id].pay = pay; if (id >= led_top) led_top = id + 1;
  return o;
}
static __attribute__((noinline)) void k_put(int h, int pos, long long k, int id, long long pay) {
  var c = HV(h); char key[48];
  var o = k_new_tracked(id, pay);
  switch (kh[h].kind) {
    case 'a': case 'l': if (pos == kh[h].n) push(c, $R(o)); else push_at(c, $R(o), $I(pos)); break;
    case 'u': if (pos == kh[h].n) push(c, o); else push_at(c, o, $I(pos)); break;
    case 't': case 'r': set(c, $I(k), $R(o)); break;
    case 'k': case 'q': set(c, $(KCell, k, o), $I(pay)); break;
    case 's': k_tls_key(key, sizeof key, h, k); set(current(Thread), $S(key), o); break;
    case 'w': k_tls_key(key, sizeof key, h, k); set(c, $S(key), o); break;
    case 'c': {
      var L = (id % 2) ? (var)new(Box, o) : (var)new(Ref, o);
      if (pos == 0) { ((struct Tracked*)o)->link = deref(c); ref(c, L); }
      else {
        var P = deref(c); struct Tracked* t = deref(P);
        for (int i = 1; i < pos; i++) { P = t->link; t = deref(P); }
        ((struct Tracked*)o)->link = t->link; t->link = L;
      }
    } break;
  }
}
/* take the element at pos / key k out of the container; returns the object (and, for a chain, its link in *link) */
static __attribute__((noinline)) var k_take(int h, int pos, long long k, var* link) {
  var c = HV(h); var p = k_fetch(h, pos, k); char key[48]; *link = NULL;
  switch (kh[h].kind) {
    case 'a': case 'l': case 'u': pop_at(c, $I(pos)); break;
    case 't': case 'r': rem(c, $I(k)); break;
    case 'k': case 'q': rem(c, $(KCell, k, NULL)); break;
    case 's': k_tls_key(key, sizeof key, h, k); rem(current(Thread), $S(key)); break;
    case 'w': k_tls_key(key, sizeof key, h, k); rem(c, $S(key)); break;
    case 'c': {
      struct Tracked* me = p;
      if (pos == 0) { *link = deref(c); ref(c, me->link); }
      else {
        var P = deref(c); struct Tracked* t = deref(P);
        for (int i = 1; i < pos; i++) { P = t->link; t = deref(P); }
        *link = t->link; t->link = me->link;
      }
      me->link = NULL;
    } break;
  }
  return p;
}
static __attribute__((noinline)) void k_delete_obj(int id, var p, var link) {
  led[id].expect = 0; led[id].deleted = 1;
  if (link) { if (type_of(link) == Box) { del(link); return; } del(link); }     /* a Box deletes what it owns */
  del(p);
}
/* everything the holder contains, in container order, into kp[] (objects), kl[] (chain links), kk_[] (keys); returns the count */
static __attribute__((noinline)) int k_collect(int h) {
  var c = HV(h); int n = 0; char key[48];
  memset(kp, 0, sizeof kp); memset(kl, 0, sizeof kl);
  switch (kh[h].kind) {
    case 'a': case 'l': { foreach (x in c) { if (n < MAXE) { kp[n] = deref(x); kk_[n] = n; } n++; } } break;
    case 'u': { foreach (x in c) { if (n < MAXE) { kp[n] = x; kk_[n] = n; } n++; } } break;
    case 't': case 'r': { foreach (x in c) { if (n < MAXE) { kk_[n] = c_int(x); kp[n] = deref(get(c, x)); } n++; } } break;
    case 'k': case 'q': { foreach (x in c) { struct KCell* q = x; if (n < MAXE) { kk_[n] = q->k; kp[n] = q->obj; } n++; } } break;
    case 's':
      for (int i = 0; i < kh[h].n; i++) {
        k_tls_key(key, sizeof key, h, kh[h].key[i]);
        if (!mem(current(Thread), $S(key))) continue;
        kk_[n] = kh[h].key[i]; kp[n] = get(current(Thread), $S(key)); n++;
      }
      break;
    case 'w':
      for (int i = 0; i < kh[h].n; i++) {
        k_tls_key(key, sizeof key, h, kh[h].key[i]);
        if (!mem(c, $S(key))) continue;
        kk_[n] = kh[h].key[i]; kp[n] = get(c, $S(key)); n++;
      }
      break;
    case 'c': {
      var L = deref(c);
      while (L && n < MAXE) { struct Tracked* t = deref(L); kl[n] = L; kp[n] = t; kk_[n] = n; n++; L = t->link; }
    } break;
  }
  return n;
}
static void k_forget(int h, int deleted) {
  for (int i = 0; i < kh[h].n; i++) { led[kh[h].id[i]].expect = 0; if (deleted) led[kh[h].id[i]].deleted = 1; }
  memset(&kh[h], 0, sizeof kh[h]);
}
/* delete the holder and everything it contains (every build: nothing is freed for the program under CELLO_NGC) */
static __attribute__((noinline)) void k_delete_all(int h) {
  int kind = kh[h].kind; char key[48];
  int n = k_collect(h); if (n > MAXE) n = MAXE;
  if (kind == 's') {
    for (int i = 0; i < kh[h].n; i++) { k_tls_key(key, sizeof key, h, kh[h].key[i]); rem(current(Thread), $S(key)); }
  } else if (kh[h].rooted) { del_root(HV(h)); hroot[h] = 0; }
  else del(HH[h]);
  for (int i = 0; i < n; i++) {
    if (kind == 'c' && kl[i]) { if (type_of(kl[i]) == Box) { del(kl[i]); continue; } del(kl[i]); }
    del(kp[i]);
  }
  memset(kp, 0, sizeof kp); memset(kl, 0, sizeof kl);
  HH[h] = NULL;
}
/* kind w, `hrun`: the body of the started thread.  Its current(Thread) is the holder object itself, so the entries main stored with
 * set(t, key, obj) are this thread's thread-local storage.  It only reads (no `new`: the thread's own collector stays empty). */
static var keep_fn;                /* $(Function, keep_thread_fn), lives in main's frame */
static struct { int h, n, dead, self_ok; long long sum; } k_run;
static var keep_thread_fn(var args) {
  int h = k_run.h; char key[48];
  var me = current(Thread);
  k_run.self_ok = (me == HH[h]);
  for (int i = 0; i < kh[h].n; i++) {
    if (led[kh[h].id[i]].fin) { k_run.dead++; continue; }          /* lost object: never dereferenced */
    k_tls_key(key, sizeof key, h, kh[h].key[i]);
    if (!mem(me, $S(key))) continue;
    struct Tracked* t = get(me, $S(key));
    if (t == NULL || type_of(t) != Tracked) continue;
    k_run.n++; k_run.sum += t->pay;
  }
  return NULL;
}
static __attribute__((noinline)) void k_run_thread(int h) {
  memset(&k_run, 0, sizeof k_run); k_run.h = h;
  call(HH[h], $I(h));
  join(HH[h]);
}
/* the operations that need the holder itself run in their own frames (the pointer of a rooted holder never rests in run_op's) */
static __attribute__((noinline)) void k_shrink(int h, long long k) {
  KH* s = &kh[h]; var c = HV(h); char key[48];
  if (s->kind == 's') { for (int i = 0; i < s->n; i++) { k_tls_key(key, sizeof key, h, s->key[i]); rem(current(Thread), $S(key)); } }
  else if (s->kind == 'w') { for (int i = 0; i < s->n; i++) { k_tls_key(key, sizeof key, h, s->key[i]); rem(c, $S(key)); } }
  else if (s->kind == 'c') {
    if (k == 0) ref(c, NULL);
    else { var L = deref(c); struct Tracked* q = deref(L); for (int i = 1; i < k; i++) { L = q->link; q = deref(L); } q->link = NULL; }
  }
  else if (s->kind == 'u') { if (k < s->n) resize(c, (size_t)k); }       /* Tuple_Resize refuses n >= len */
  else resize(c, (size_t)k);
}
static __attribute__((noinline)) void k_resize(int h, long long k) { resize(HV(h), (size_t)k); }
static __attribute__((noinline)) size_t k_len(int h) { return len(HV(h)); }
static __attribute__((noinline)) void k_table_stats(int h, size_t* nslots, size_t* high) {
  struct Table* tb = HV(h); *high = 0; *nslots = tb->nslots;
  for (size_t i = tb->nitems; i < tb->nslots; i++) if (Table_Key_Hash(tb, i) != 0) (*high)++;
}
static __attribute__((noinline)) void k_new_holder(int h, int kind, int rooted) {
  var c = NULL;
  if (!rooted) {
    switch (kind) {
      case 'a': c = new(Array, Ref); break;
      case 'l': c = new(List, Ref); break;
      case 't': c = new(Table, Int, Ref); break;
      case 'k': c = new(Table, KCell, Int); break;
      case 'r': c = new(Tree, Int, Ref); break;
      case 'q': c = new(Tree, KCell, Int); break;
      case 'u': c = new(Tuple); break;
      case 'c': c = new(Ref); ref(c, NULL); break;
      case 's': c = NULL; break;
      case 'w': c = new(Thread, keep_fn); break;
    }
    HH[h] = c; hroot[h] = 0;
  } else {
    switch (kind) {
      case 'a': c = new_root(Array, Ref); break;
      case 'l': c = new_root(List, Ref); break;
      case 't': c = new_root(Table, Int, Ref); break;
      case 'k': c = new_root(Table, KCell, Int); break;
      case 'r': c = new_root(Tree, Int, Ref); break;
      case 'q': c = new_root(Tree, KCell, Int); break;
      case 'u': c = new_root(Tuple); break;
      case 'c': c = new_root(Ref); ref(c, NULL); break;
    }
    hroot[h] = (uintptr_t)c ^ ROOTMASK; HH[h] = NULL;
  }
  c = NULL;
}
static int k_cmp_idx(const void* a, const void* b) { long long x = kk_[*(const int*)a], y = kk_[*(const int*)b]; return x < y ? -1 : x > y; }


/* mode 3: a root made by a worker thread that has ended.  The collector it was registered with is gone; del_root from another thread
 * asks THAT thread's collector, which does not know the block: silently ignored in a build with the collector (KF-C19-del-silent),
 * destruct + free under CELLO_NGC.  No thread can release such an object properly any more: the workload keeps it until the process
 * ends and only forgets the handle. */
static void del_by_mode(var x, int mode) { if (mode == 3) return; if (mode == 1) del_raw(x); else if (mode == 2) del_root(x); else del(x); }

/* ------------------------------------------------------------------------------------------------ run-time types
 * Types made at run time with new(Type, name, size, instances…) from instance objects the harness provides (static storage: a
 * run-time type keeps the POINTERS it was given).  The layout of such a type object depends on the configuration (18 cache words
 * and instance triples from cell 8 with the method cache, none and from cell 2 without); nothing a program observes may.
 * Every member works on the first 8 bytes of the object (`struct RObj`) and returns something that tells which member ran.
 * The shadow (direct oracle) is the instance list that was PASSED: name, size, `type_implements`, `type_instance`, which
 * member a call reaches, defaults where a class is not declared — all checked against it after every operation. */
#define MAXTY 8
#define MAXOB 24
#define RT_NINST 20
#define RT_MAXI 256
#define RT_NPROBE 18
struct RObj { int64_t v; };
static long rt_dtors = 0;
#define RV(x) (((struct RObj*)(x))->v)
static void RT_New(var self, var args) { RV(self) = c_int(get(args, $I(0))); }
static void RT_Del(var self) { rt_dtors++; }
static int RT_Cmp(var self, var obj) { return RV(obj) < RV(self) ? -1 : RV(obj) > RV(self) ? 1 : 0; }     /* REVERSED */
static uint64_t RT_Hash(var self) { return (uint64_t)(RV(self) + 7000); }
static uint64_t RT_Hash2(var self) { return (uint64_t)(RV(self) + 9000); }
static size_t RT_Len(var self) { return (size_t)(RV(self) + 100); }
static size_t RT_Len2(var self) { return (size_t)(RV(self) + 300); }
static int64_t RT_C_Int(var self) { return RV(self) + 2000; }
static int64_t RT_C_Int2(var self) { return RV(self) + 4000; }
static int RT_Show(var self, var out, int pos) { return print_to(out, pos, "<rt %li>", $I(RV(self))); }
static void RT_Assign(var self, var obj) { RV(self) = RV(obj) + 1; }
static var RT_Copy(var self) { var r = alloc(type_of(self)); RV(r) = RV(self) + 5; return r; }
static size_t RT_Size(void) { return 32; }
static char rt_strbuf[32];
static char* RT_C_Str(var self) { snprintf(rt_strbuf, sizeof rt_strbuf, "rt%lld", (long long)RV(self)); return rt_strbuf; }
static double RT_C_Float(var self) { return (double)RV(self) + 0.25; }
static var RT_Get(var self, var key) { return self; }
static bool RT_Mem(var self, var key) { return (RV(self) & 1) != 0; }
static void RT_Push(var self, var obj) { RV(self) += c_int(obj); }
static void RT_Pop(var self) { RV(self) -= 1; }
static void RT_Concat(var self, var obj) { RV(self) += 100 * c_int(obj); }
static void RT_Mark(var self, var gc, void (*f)(var, void*)) { }
static void RT_Resize(var self, size_t n) { RV(self) = (int64_t)n; }

static const char* RT_TOK[RT_NINST] = { "New", "Cmp", "Hash", "Len", "C_Int", "Show", "Assign", "Copy", "Size", "C_Str", "C_Float", "Get",
  "Push", "Concat", "Mark", "Resize", "Hash2", "Len2", "C_Int2", "New0" };
/* which members of each provided instance are non-NULL (same table as Cello/ConfigType.lean `table`) */
static const unsigned char RT_MEMB[RT_NINST][6] = { {1,1}, {1}, {1}, {1}, {1}, {1,0}, {1}, {1}, {1}, {1}, {1}, {1,0,1,0,0,0}, {1,1,0,0}, {1,0}, {1}, {1},
  {1}, {1}, {1}, {1,0} };
static var rt_ibuf[RT_NINST][12];
static var rt_inst[RT_NINST];          /* the instance objects */
static var rt_icls[RT_NINST];          /* the class each belongs to */
static const char* RT_PROBE[RT_NPROBE] = { "New", "Cmp", "Hash", "Len", "C_Int", "Show", "Assign", "Copy", "Size", "C_Str", "C_Float", "Get", "Push",
  "Concat", "Mark", "Resize", "Iter", "Doc" };
static const int RT_ARITY[RT_NPROBE] = { 2, 1, 1, 1, 1, 2, 1, 1, 1, 1, 1, 6, 4, 2, 1, 1, 0, 0 };
static var rt_pcls[RT_NPROBE];
#define RT_MK(k, C, ...) do { struct C tmp_ = { __VA_ARGS__ }; memset(rt_ibuf[k], 0, sizeof rt_ibuf[k]); \
    rt_inst[k] = header_init(rt_ibuf[k], C, AllocStatic); memcpy(rt_inst[k], &tmp_, sizeof tmp_); rt_icls[k] = C; } while (0)
static void rt_init(void) {
  RT_MK(0, New, RT_New, RT_Del);      RT_MK(1, Cmp, RT_Cmp);          RT_MK(2, Hash, RT_Hash);        RT_MK(3, Len, RT_Len);
  RT_MK(4, C_Int, RT_C_Int);          RT_MK(5, Show, RT_Show, NULL);  RT_MK(6, Assign, RT_Assign);    RT_MK(7, Copy, RT_Copy);
  RT_MK(8, Size, RT_Size);            RT_MK(9, C_Str, RT_C_Str);      RT_MK(10, C_Float, RT_C_Float);
  RT_MK(11, Get, RT_Get, NULL, RT_Mem, NULL, NULL, NULL);             RT_MK(12, Push, RT_Push, RT_Pop, NULL, NULL);
  RT_MK(13, Concat, RT_Concat, NULL); RT_MK(14, Mark, RT_Mark);       RT_MK(15, Resize, RT_Resize);   RT_MK(16, Hash, RT_Hash2);
  RT_MK(17, Len, RT_Len2);            RT_MK(18, C_Int, RT_C_Int2);    RT_MK(19, New, RT_New, NULL);
  var pc[RT_NPROBE] = { New, Cmp, Hash, Len, C_Int, Show, Assign, Copy, Size, C_Str, C_Float, Get, Push, Concat, Mark, Resize, Iter, Doc };
  memcpy(rt_pcls, pc, sizeof pc);
}
typedef struct { int live, mode, n, bad; short inst[RT_MAXI + 1]; char name[24]; long long size; } RTY;
typedef struct { int live, ty, mode; long long v; } ROB;
static RTY rty[MAXTY];
static ROB rob[MAXOB];
static var* TY;                        /* the type objects and the objects made from them: arrays in main's frame */
static var* OB;
static char rt_names[MAXTY][2][24];    /* a type object keeps the POINTER to its name: two buffers per slot, used alternately */
static int rt_namesel[MAXTY];
static size_t n_rt = 0;
static int rt_route6(const char* t) { static const char* R[] = { "new", "raw", "root", "con", "conraw", "conroot" }; for (int i = 0; i < 6; i++) if (!strcmp(R[i], t)) return i; return -1; }
static int rt_route3(const char* t) { static const char* R[] = { "new", "raw", "root" }; for (int i = 0; i < 3; i++) if (!strcmp(R[i], t)) return i; return -1; }
static int rt_tok(const char* t) { for (int i = 0; i < RT_NINST; i++) if (!strcmp(RT_TOK[i], t)) return i; return -1; }
static int rt_probe(const char* t) { for (int i = 0; i < RT_NPROBE; i++) if (!strcmp(RT_PROBE[i], t)) return i; return -1; }
/* the first instance of the list that belongs to class c: what the type DECLARES for c (-1: nothing) */
static int rt_decl(const RTY* r, var c) { for (int i = 0; i < r->n; i++) if (rt_icls[r->inst[i]] == c) return r->inst[i]; return -1; }
static int rt_needs(const RTY* r, var c, int m) { int k = rt_decl(r, c); return k >= 0 && RT_MEMB[k][m]; }
static int rt_valid_name(const char* n) {
  size_t l = strlen(n); if (l < 1 || l > 20) return 0;
  for (const char* q = n; *q; q++) if (!((*q >= '0' && *q <= '9') || (*q >= 'a' && *q <= 'z') || (*q >= 'A' && *q <= 'Z'))) return 0;
  return 1;
}
static int rt_valid_size(long long z) { return z >= 8 && z <= 64 && z % 8 == 0; }
static int rt_in_range(long long v) { return v >= 0 && v <= 255; }
static int rt_has_objects(int t) { for (int o = 0; o < MAXOB; o++) if (rob[o].live && rob[o].ty == t) return 1; return 0; }
static int rt_inst_index(var p) { for (int i = 0; i < RT_NINST; i++) if (rt_inst[i] == p) return i; return -1; }

/* the argument tuple (name, size, instances…, Terminal) in static storage; the String and the Int are built by hand */
static var rt_args[RT_MAXI + 4];
static var rt_sbuf[(sizeof(struct Header) + sizeof(struct String)) / sizeof(var) + 1];
static var rt_nbuf[(sizeof(struct Header) + sizeof(struct Int)) / sizeof(var) + 1];
static var rt_tbuf[(sizeof(struct Header) + sizeof(struct Tuple)) / sizeof(var) + 1];
static var rt_tuple_for(int t, const RTY* r) {
  memset(rt_sbuf, 0, sizeof rt_sbuf); memset(rt_nbuf, 0, sizeof rt_nbuf); memset(rt_tbuf, 0, sizeof rt_tbuf);
  char* nb = rt_names[t][rt_namesel[t] ^= 1];
  snprintf(nb, 24, "%s", r->name);
  var so = header_init(rt_sbuf, String, AllocStack); ((struct String*)so)->val = nb;
  var no = header_init(rt_nbuf, Int, AllocStack); ((struct Int*)no)->val = r->size;
  rt_args[0] = so; rt_args[1] = no;
  for (int i = 0; i < r->n; i++) rt_args[2 + i] = rt_inst[r->inst[i]];
  rt_args[2 + r->n] = Terminal;
  var to = header_init(rt_tbuf, Tuple, AllocStack); ((struct Tuple*)to)->items = rt_args;
  return to;
}
static __attribute__((noinline)) var rt_construct(int route, var tup) {
  switch (route) {
    case 0: return new_with(Type, tup);
    case 1: return new_raw_with(Type, tup);
    case 2: return new_root_with(Type, tup);
    case 3: return construct_with(alloc(Type), tup);
    case 4: return construct_with(alloc_raw(Type), tup);
    default: return construct_with(alloc_root(Type), tup);
  }
}
/* what every construction prints: the name and the size the type object answers with, type_implements for every probe class —
   each checked against what was passed */
static void rt_describe(int t) {
  var T = TY[t]; RTY* r = &rty[t]; char bits[RT_NPROBE + 1], want[RT_NPROBE + 1], a[64], b[64];
  const char* nm = c_str(T);
  size_t bs = Type_Builtin_Size(T), sz = size(T), wsz = rt_decl(r, Size) >= 0 ? 32 : (size_t)r->size;
  for (int i = 0; i < RT_NPROBE; i++) { bits[i] = type_implements(T, rt_pcls[i]) ? '1' : '0'; want[i] = rt_decl(r, rt_pcls[i]) >= 0 ? '1' : '0'; }
  bits[RT_NPROBE] = 0; want[RT_NPROBE] = 0;
  O("ty name=%s bsize=%zu size=%zu impl=%s", nm ? nm : "(null)", bs, sz, bits);
  if (!nm || strcmp(nm, r->name)) { XF("run-time-type-name", nm ? nm : "(null)", r->name); r->bad = 1; }
  if (bs != (size_t)r->size || sz != wsz) { snprintf(a, sizeof a, "%zu/%zu", bs, sz); snprintf(b, sizeof b, "%lld/%zu", r->size, wsz); XF("run-time-type-size", a, b); r->bad = 1; }
  if (strcmp(bits, want)) { XF("run-time-type-implements", bits, want); r->bad = 1; }
  /* every instance that was passed must be there, in order, and nothing else: type_instance for each declared class */
  for (int i = 0; i < RT_NPROBE && !r->bad; i++) {
    int k = rt_decl(r, rt_pcls[i]); var got = type_instance(T, rt_pcls[i]);
    if (got != (k >= 0 ? rt_inst[k] : NULL)) { snprintf(a, sizeof a, "%s:%d", RT_PROBE[i], rt_inst_index(got)); snprintf(b, sizeof b, "%s:%d", RT_PROBE[i], k); XF("run-time-type-instance", a, b); r->bad = 1; }
  }
}

/* ------------------------------------------------------------------------------------------------ nested holders
 * A container whose elements are themselves containers (Array of Int, List of Int) or Tuples, all embedded in the outer container's
 * storage (allocation class AllocData): every edit goes through get(outer, key) and works on the embedded object in place. */
#define MAXN 8
#define XMAXE 12
#define XMAXI 24
typedef struct { int outer, inner, n; long long key[XMAXE]; int m[XMAXE]; long long it[XMAXE][XMAXI]; } XH;
static XH xh[MAXN];
static var* NS;                    /* the nested holders: an array in main's frame */
static var x_type(long long i) {
  switch (i) { case 0: return Int; case 1: return String; case 2: return Float; case 3: return Array; case 4: return List;
               case 5: return Table; case 6: return Tree; case 7: return Tuple; case 8: return Ref; default: return Box; }
}
static long long x_type_index(var t) { for (long long i = 0; i < 10; i++) if (x_type(i) == t) return i; return -1; }
static int x_isseq(int outer) { return outer == 'a' || outer == 'l'; }
static int x_pos(XH* h, long long k) {
  if (x_isseq(h->outer)) return (k >= 0 && k < h->n) ? (int)k : -1;
  for (int i = 0; i < h->n; i++) if (h->key[i] == k) return i;
  return -1;
}
static var x_inner(int n, int pos) { XH* h = &xh[n]; return get(NS[n], $I(x_isseq(h->outer) ? (long long)pos : h->key[pos])); }
static long long x_item(XH* h, var item) { return h->inner == 'U' ? x_type_index(item) : (long long)c_int(item); }
static int x_has(XH* h, int pos, long long v) { for (int j = 0; j < h->m[pos]; j++) if (h->it[pos][j] == v) return 1; return 0; }
/* library contents against the shadow, inner containers in shadow order; for sequences also the order of iteration over the outer one */
static void x_check(int n, const char* after) {
  XH* h = &xh[n]; size_t l1 = 0, l2 = 0; char e[64], w[96]; buf1[0] = 0; buf2[0] = 0;
  for (int i = 0; i < h->n; i++) {
    var inr = x_inner(n, i);
    snprintf(e, sizeof e, "%s%lld:[", i ? " " : "", x_isseq(h->outer) ? (long long)i : h->key[i]); app(buf1, &l1, e); app(buf2, &l2, e);
    int first = 1;
    foreach (x in inr) { snprintf(e, sizeof e, "%s%lld", first ? "" : ",", x_item(h, x)); first = 0; app(buf1, &l1, e); }
    for (int j = 0; j < h->m[i]; j++) { snprintf(e, sizeof e, "%s%lld", j ? "," : "", h->it[i][j]); app(buf2, &l2, e); }
    snprintf(e, sizeof e, "]#%zu", len(inr)); app(buf1, &l1, e);
    snprintf(e, sizeof e, "]#%d", h->m[i]); app(buf2, &l2, e);
  }
  if (strcmp(buf1, buf2)) { snprintf(w, sizeof w, "nested-contents-after-%s", after); XF(w, buf1, buf2); }
  if (len(NS[n]) != (size_t)h->n) { snprintf(w, sizeof w, "nested-len-after-%s", after); XF(w, "", ""); }
  if (x_isseq(h->outer)) {
    int i = 0;
    foreach (inr in NS[n]) { if (i < h->n && len(inr) != (size_t)h->m[i]) { snprintf(w, sizeof w, "nested-iter-after-%s", after); XF(w, "", ""); } i++; }
    if (i != h->n) { snprintf(w, sizeof w, "nested-iter-count-after-%s", after); XF(w, "", ""); }
  }
}

static const char* FMTS_INT[] = { "%li", "[%5li|%-5li]", "%lx", "%lX", "%lo", "%+li", "%03li", "%c" };
static const char* FMTS_STR[] = { "%s", "[%8s|%-8s]", "%.2s", "<%s>%%" };

/* ------------------------------------------------------------------------------------------------ interpreter */
#define OOC() do { O("out-of-contract"); n_ooc++; return; } while (0)
#define TOOC() do { fprintf(vout, "T out-of-contract\n"); n_ooc++; return; } while (0)
#define BAD() do { O("bad-op"); n_bad++; return; } while (0)
#define LIVE(s) (sh[s].kind != K_NONE)

/* new_root of a value object: the pointer goes straight into the masked static cell, never into a variable of the caller */
static __attribute__((noinline)) void s_new_root(int a, const SV* v) {
  var o = v->isstr ? (var)new_root(String, $S((char*)v->s)) : (var)new_root(Int, $I(v->i));
  sroot[a] = (uintptr_t)o ^ ROOTMASK; S[a] = NULL; o = NULL;
}
/* every live new_root value object must still be registered with the collector (public API: mem(current(GC), obj)); one that is not
 * was reclaimed although the program never released it — reported, and the slot is given up so that freed memory is never read */
static __attribute__((noinline)) int s_root_registered(int a) {
#ifndef CELLO_NGC
  return (int)mem(current(GC), (var)(sroot[a] ^ ROOTMASK));
#else
  return 1;
#endif
}
/* ---- objects that cross the END of a collector: `w <nvo|na|nl|nt|nr …>` — a worker thread makes the object with new_root (after
 * some ordinary garbage of its own), publishes the pointer through a C global (sroot[], masked) and ends; Thread_Init_Run deletes the
 * worker's collector (GC_Del: GC_Unmark + GC_Sweep, no mark phase), the main thread joins and goes on using the object.  A root stays
 * until del_root: the teardown must spare it.  Oracle: before the object is touched after join (and before / after every later
 * operation) its block must not have been freed (ASan: the header is not poisoned) and its header must still name its type. */
#if defined(__SANITIZE_ADDRESS__)
#define V18_ASAN 1
#elif defined(__has_feature)
#if __has_feature(address_sanitizer)
#define V18_ASAN 1
#endif
#endif
#ifdef V18_ASAN
int __asan_address_is_poisoned(void const volatile* addr);
#endif
static size_t n_worker = 0, n_worker_seq = 0, n_worker_map = 0, n_worker_val = 0;
static struct { int a, kind, et, vt, cnt; SV vs[MAXTOK]; char exc[48]; } w_req;
static var w_fn;                   /* $(Function, w_thread_fn), lives in main's frame */
static var w_type(int kind, int et) {
  switch (kind) { case K_VAL: return et ? String : Int; case K_ARRAY: return Array; case K_LIST: return List; case K_TABLE: return Table; default: return Tree; }
}
static __attribute__((noinline)) void w_make(void) {
  var o = NULL;
  static var whb[MAXTOK][(sizeof(struct Header) + sizeof(struct Int)) / sizeof(var)];
  for (int i = 0; i < 6; i++) { var g = new(String); print_to(g, 0, "garbage %i", $I(i)); }      /* swept by the teardown */
  switch (w_req.kind) {
    case K_VAL: o = w_req.et ? (var)new_root(String, $S(w_req.vs[0].s)) : (var)new_root(Int, $I(w_req.vs[0].i)); break;
    case K_ARRAY: case K_LIST: {
      var args[MAXTOK + 2]; args[0] = ty_obj(w_req.et);
      for (int i = 0; i < w_req.cnt; i++) {
        memset(whb[i], 0, sizeof whb[i]);
        var e = header_init(whb[i], ty_obj(w_req.et), AllocStack);
        if (w_req.et) ((struct String*)e)->val = w_req.vs[i].s; else ((struct Int*)e)->val = w_req.vs[i].i;
        args[1 + i] = e;
      }
      args[1 + w_req.cnt] = Terminal;
      o = new_root_with(w_req.kind == K_ARRAY ? Array : List, $(Tuple, args));
      break; }
    default: o = new_root_with(w_req.kind == K_TABLE ? Table : Tree, tuple(ty_obj(w_req.et), ty_obj(w_req.vt))); break;
  }
  for (int i = 0; i < 3; i++) { var g = new(Int, $I(i)); (void)g; }
  sroot[w_req.a] = (uintptr_t)o ^ ROOTMASK; o = NULL;
}
static var w_thread_fn(var args) {
  var exc = NULL;
  V_TRY(exc, w_make());
  if (exc) snprintf(w_req.exc, sizeof w_req.exc, "%s", v_exc_name(exc));
  return NULL;
}
static __attribute__((noinline)) void w_run_thread(void) {
  var t = new(Thread, w_fn);
  call(t, $I(w_req.a));
  join(t);
}
static __attribute__((noinline)) int w_root_alive(int a) {
  char* p = (char*)(sroot[a] ^ ROOTMASK) - sizeof(struct Header);
#ifdef V18_ASAN
  if (__asan_address_is_poisoned(p)) return 0;
#endif
  return ((struct Header*)p)->type == w_type(sh[a].kind, sh[a].et);
}
static void s_audit(const char* when) {
  char w[96];
  for (int a = 0; a < MAXSLOT; a++) if (sh[a].kind != K_NONE && sh[a].mode == 3 && !w_root_alive(a)) {
    snprintf(w, sizeof w, "slot=%d at=%s", a, when);
    XF("worker-root-destroyed-after-thread-end", w, "alive: a root stays until del_root");
    sroot[a] = 0; S[a] = NULL; sh_free(&sh[a]);
  }
  for (int a = 0; a < MAXSLOT; a++) if (sh[a].kind != K_NONE && sh[a].mode == 2 && !s_root_registered(a)) {
    snprintf(w, sizeof w, "slot=%d at=%s", a, when);
    XF("root-object-reclaimed-while-in-use", w, "registered-root");
    sroot[a] = 0; S[a] = NULL; sh_free(&sh[a]);
  }
}

static void unexpected(var e) {
  char a[64]; snprintf(a, sizeof a, "%s", v_exc_name(e));
  XF("in-contract-operation-raised", a, "none");
}

static void run_op(int nt, char** t) {
  const char* op = t[0];
  int a, b; SV v, k; long long n; var exc = NULL; char e1[128], e2[128];
  /* ---------------- a constructor run by a worker thread that ends; the main thread joins and keeps the object */
  if (!strcmp(op, "w")) {
    if (nt < 2) BAD();
    const char* c = t[1]; int kt = 0, vt = 0;
    memset(&w_req, 0, sizeof w_req);
    if (!strcmp(c, "nvo")) {
      if (nt != 4 || !parse_slot(t[2], &a) || !parse_sv(t[3], &v)) BAD();
      w_req.kind = K_VAL; w_req.et = v.isstr; w_req.vs[0] = v; w_req.cnt = 1;
    } else if (!strcmp(c, "na") || !strcmp(c, "nl")) {
      if (nt < 4 || !parse_slot(t[2], &a) || !parse_ty(t[3], &kt)) BAD();
      w_req.kind = c[1] == 'a' ? K_ARRAY : K_LIST; w_req.et = kt; w_req.cnt = nt - 4;
      for (int i = 0; i < w_req.cnt; i++) if (!parse_sv(t[4 + i], &w_req.vs[i])) BAD();
    } else if (!strcmp(c, "nt") || !strcmp(c, "nr")) {
      if (nt != 5 || !parse_slot(t[2], &a) || !parse_ty(t[3], &kt) || !parse_ty(t[4], &vt)) BAD();
      w_req.kind = c[1] == 't' ? K_TABLE : K_TREE; w_req.et = kt; w_req.vt = vt;
    } else BAD();
    if (LIVE(a)) OOC();
    if (w_req.kind == K_ARRAY || w_req.kind == K_LIST) for (int i = 0; i < w_req.cnt; i++) if (w_req.vs[i].isstr != w_req.et) OOC();
    n_exec++; n_worker++; w_req.a = a;
    if (w_req.kind == K_VAL) n_worker_val++; else if (w_req.kind == K_TABLE || w_req.kind == K_TREE) n_worker_map++; else n_worker_seq++;
    V_TRY(exc, w_run_thread());
    if (!exc && w_req.exc[0]) { XF("in-contract-operation-raised", w_req.exc, "none"); O("err %s", w_req.exc); sroot[a] = 0; return; }
    if (exc) { unexpected(exc); O("err %s", v_exc_name(exc)); sroot[a] = 0; return; }
    sh[a].kind = w_req.kind; sh[a].et = w_req.et; sh[a].vt = w_req.vt; sh[a].mode = 3; S[a] = NULL;
    if (w_req.kind == K_TABLE || w_req.kind == K_TREE) { sh_reserve(&sh[a], 8); sh[a].n = 0; }
    else { int cnt = w_req.kind == K_VAL ? 1 : w_req.cnt; sh_reserve(&sh[a], cnt + 1); for (int i = 0; i < cnt; i++) sh[a].xs[i] = w_req.vs[i]; sh[a].n = cnt; }
    if (!w_root_alive(a)) {
      snprintf(e1, sizeof e1, "slot=%d kind=%s", a, c);
      XF("worker-root-destroyed-at-thread-end", e1, "alive: a root stays until del_root");
      sroot[a] = 0; sh_free(&sh[a]);
      O("err destroyed"); return;
    }
    O("ok"); check_obj(a, "w"); return;
  }
  /* ---------------- constructors */
  if (!strcmp(op, "nv") || !strcmp(op, "nvr") || !strcmp(op, "nvo")) {
    if (nt != 3 || !parse_slot(t[1], &a) || !parse_sv(t[2], &v)) BAD();
    if (LIVE(a)) OOC();
    n_exec++;
    int mode = op[2] == 'r' ? 1 : op[2] == 'o' ? 2 : 0;
    V_TRY(exc, {
      if (mode == 0) S[a] = v.isstr ? (var)new(String, $S(v.s)) : (var)new(Int, $I(v.i));
      else if (mode == 1) S[a] = v.isstr ? (var)new_raw(String, $S(v.s)) : (var)new_raw(Int, $I(v.i));
      else s_new_root(a, &v);
    });
    if (exc) { unexpected(exc); O("err %s", v_exc_name(exc)); return; }
    sh[a].kind = K_VAL; sh[a].et = v.isstr; sh_reserve(&sh[a], 1); sh[a].xs[0] = v; sh[a].n = 1; sh[a].mode = mode;
    O("ok"); check_obj(a, "nv"); return;
  }
  if (!strcmp(op, "na") || !strcmp(op, "nl")) {
    int et;
    if (nt < 3 || !parse_slot(t[1], &a) || !parse_ty(t[2], &et)) BAD();
    int cnt = nt - 3; SV vs[MAXTOK];
    for (int i = 0; i < cnt; i++) if (!parse_sv(t[3 + i], &vs[i])) BAD();
    if (LIVE(a)) OOC();
    for (int i = 0; i < cnt; i++) if (vs[i].isstr != et) OOC();
    n_exec++;
    var args[MAXTOK + 2]; args[0] = ty_obj(et);
    /* stack objects built by hand (a `$I()` inside a loop body dies with the iteration): what alloc_stack + `$` do */
    static var hb[MAXTOK][(sizeof(struct Header) + sizeof(struct Int)) / sizeof(var)];
    for (int i = 0; i < cnt; i++) {
      memset(hb[i], 0, sizeof hb[i]);
      var o = header_init(hb[i], ty_obj(et), AllocStack);
      if (et) ((struct String*)o)->val = vs[i].s; else ((struct Int*)o)->val = vs[i].i;
      args[1 + i] = o;
    }
    args[1 + cnt] = Terminal;
    V_TRY(exc, S[a] = new_with(op[1] == 'a' ? Array : List, $(Tuple, args)));
    if (exc) { unexpected(exc); O("err %s", v_exc_name(exc)); return; }
    sh[a].kind = op[1] == 'a' ? K_ARRAY : K_LIST; sh[a].et = et; sh_reserve(&sh[a], cnt + 1);
    for (int i = 0; i < cnt; i++) sh[a].xs[i] = vs[i];
    sh[a].n = cnt;
    O("ok"); check_obj(a, op); return;
  }
  if (!strcmp(op, "nt") || !strcmp(op, "nr")) {
    int kt, vt;
    if (nt != 4 || !parse_slot(t[1], &a) || !parse_ty(t[2], &kt) || !parse_ty(t[3], &vt)) BAD();
    if (LIVE(a)) OOC();
    n_exec++;
    V_TRY(exc, S[a] = new_with(op[1] == 't' ? Table : Tree, tuple(ty_obj(kt), ty_obj(vt))));
    if (exc) { unexpected(exc); O("err %s", v_exc_name(exc)); return; }
    sh[a].kind = op[1] == 't' ? K_TABLE : K_TREE; sh[a].et = kt; sh[a].vt = vt; sh_reserve(&sh[a], 8); sh[a].n = 0;
    O("ok"); check_obj(a, op); return;
  }
  if (!strcmp(op, "del") || !strcmp(op, "drop")) {
    if (nt != 2 || !parse_slot(t[1], &a)) BAD();
    if (!LIVE(a)) OOC();
    n_exec++;
    if (op[1] == 'e') { V_TRY(exc, del_by_mode(SG(a), sh[a].mode)); if (exc) { unexpected(exc); } }
    S[a] = NULL; sroot[a] = 0; sh_free(&sh[a]);
    O("ok"); return;
  }
  /* ---------------- sequences */
  if (!strcmp(op, "push")) {
    if (nt != 3 || !parse_slot(t[1], &a) || !parse_sv(t[2], &v)) BAD();
    if (!LIVE(a) || !is_seq(a) || v.isstr != sh[a].et) OOC();
    n_exec++;
    V_TRY(exc, push(SG(a), MK(v)));
    if (exc) { unexpected(exc); O("err %s", v_exc_name(exc)); return; }
    sh_insert(&sh[a], sh[a].n, &v);
    O("ok"); check_obj(a, op); return;
  }
  if (!strcmp(op, "pushat")) {
    if (nt != 4 || !parse_slot(t[1], &a) || !parse_int(t[2], &n) || !parse_sv(t[3], &v)) BAD();
    if (!LIVE(a) || !is_seq(a) || v.isstr != sh[a].et) OOC();
    long long L = (long long)sh[a].n, i = n;
    if (sh[a].kind == K_ARRAY) { i = i < 0 ? (L + 1) + i : i; if (i < 0 || i > L) OOC(); }
    else { if (n != 0) { i = i < 0 ? L + i : i; if (i < 0 || i >= L) OOC(); } else i = 0; }
    n_exec++;
    V_TRY(exc, push_at(SG(a), MK(v), $I(n)));
    if (exc) { unexpected(exc); O("err %s", v_exc_name(exc)); return; }
    sh_insert(&sh[a], (size_t)i, &v);
    O("ok"); check_obj(a, op); return;
  }
  if (!strcmp(op, "pop")) {
    if (nt != 2 || !parse_slot(t[1], &a)) BAD();
    if (!LIVE(a) || !is_seq(a) || sh[a].n == 0) OOC();
    n_exec++;
    V_TRY(exc, pop(SG(a)));
    if (exc) { unexpected(exc); O("err %s", v_exc_name(exc)); return; }
    sh_remove(&sh[a], sh[a].n - 1);
    O("ok"); check_obj(a, op); return;
  }
  if (!strcmp(op, "popat") || !strcmp(op, "get") || !strcmp(op, "set")) {
    int isset = op[0] == 's';
    if (nt != (isset ? 4 : 3) || !parse_slot(t[1], &a) || !parse_int(t[2], &n)) BAD();
    if (isset && !parse_sv(t[3], &v)) BAD();
    if (!LIVE(a) || !is_seq(a)) OOC();
    if (isset && v.isstr != sh[a].et) OOC();
    long long L = (long long)sh[a].n, i = n < 0 ? L + n : n;
    if (i < 0 || i >= L) OOC();
    n_exec++;
    if (op[0] == 'g') {
      var r = NULL;
      V_TRY(exc, r = get(SG(a), $I(n)));
      if (exc) { unexpected(exc); O("err %s", v_exc_name(exc)); return; }
      lib_show(e1, sizeof e1, r); sv_show(e2, sizeof e2, &sh[a].xs[i]);
      if (strcmp(e1, e2)) XF("get", e1, e2);
      O("get %s", e1); return;
    }
    if (isset) {
      V_TRY(exc, set(SG(a), $I(n), MK(v)));
      if (exc) { unexpected(exc); O("err %s", v_exc_name(exc)); return; }
      sh[a].xs[i] = v;
    } else {
      V_TRY(exc, pop_at(SG(a), $I(n)));
      if (exc) { unexpected(exc); O("err %s", v_exc_name(exc)); return; }
      sh_remove(&sh[a], (size_t)i);
    }
    O("ok"); check_obj(a, op); return;
  }
  if (!strcmp(op, "rem") || !strcmp(op, "mem")) {
    if (nt != 3 || !parse_slot(t[1], &a) || !parse_sv(t[2], &v)) BAD();
    if (!LIVE(a) || !is_seq(a) || v.isstr != sh[a].et) OOC();
    long at = sh_find(&sh[a], &v);
    if (op[0] == 'r' && at < 0) OOC();
    n_exec++;
    if (op[0] == 'm') {
      bool r = false;
      V_TRY(exc, r = mem(SG(a), MK(v)));
      if (exc) { unexpected(exc); O("err %s", v_exc_name(exc)); return; }
      if ((int)r != (at >= 0)) XF("mem", r ? "1" : "0", at >= 0 ? "1" : "0");
      O("mem %d", (int)r); return;
    }
    V_TRY(exc, rem(SG(a), MK(v)));
    if (exc) { unexpected(exc); O("err %s", v_exc_name(exc)); return; }
    sh_remove(&sh[a], (size_t)at);
    O("ok"); check_obj(a, op); return;
  }
  if (!strcmp(op, "len")) {
    if (nt != 2 || !parse_slot(t[1], &a)) BAD();
    if (!LIVE(a)) OOC();
    if (sh[a].kind == K_VAL && !sh[a].et) OOC();
    n_exec++;
    size_t r = 0, w = sh[a].kind == K_VAL ? strlen(sh[a].xs[0].s) : sh[a].n;
    V_TRY(exc, r = len(SG(a)));
    if (exc) { unexpected(exc); O("err %s", v_exc_name(exc)); return; }
    if (r != w) { snprintf(e1, sizeof e1, "%zu", r); snprintf(e2, sizeof e2, "%zu", w); XF("len", e1, e2); }
    O("len %zu", r); return;
  }
  /* ---------------- maps */
  if (!strcmp(op, "mset")) {
    if (nt != 4 || !parse_slot(t[1], &a) || !parse_sv(t[2], &k) || !parse_sv(t[3], &v)) BAD();
    if (!LIVE(a) || !is_map(a) || k.isstr != sh[a].et || v.isstr != sh[a].vt) OOC();
    n_exec++;
    V_TRY(exc, set(SG(a), MK(k), MK(v)));
    if (exc) { unexpected(exc); O("err %s", v_exc_name(exc)); return; }
    long at = sh_find(&sh[a], &k);
    if (at >= 0) sh[a].ys[at] = v; else { sh_reserve(&sh[a], sh[a].n + 1); sh[a].xs[sh[a].n] = k; sh[a].ys[sh[a].n] = v; sh[a].n++; }
    O("ok"); check_obj(a, op); return;
  }
  if (!strcmp(op, "mget") || !strcmp(op, "mrem") || !strcmp(op, "mmem")) {
    if (nt != 3 || !parse_slot(t[1], &a) || !parse_sv(t[2], &k)) BAD();
    if (!LIVE(a) || !is_map(a) || k.isstr != sh[a].et) OOC();
    long at = sh_find(&sh[a], &k);
    if (op[1] != 'm' && at < 0) OOC();
    n_exec++;
    if (op[1] == 'm') {
      bool r = false;
      V_TRY(exc, r = mem(SG(a), MK(k)));
      if (exc) { unexpected(exc); O("err %s", v_exc_name(exc)); return; }
      if ((int)r != (at >= 0)) XF("mmem", r ? "1" : "0", at >= 0 ? "1" : "0");
      O("mem %d", (int)r); return;
    }
    if (op[1] == 'g') {
      var r = NULL;
      V_TRY(exc, r = get(SG(a), MK(k)));
      if (exc) { unexpected(exc); O("err %s", v_exc_name(exc)); return; }
      lib_show(e1, sizeof e1, r); sv_show(e2, sizeof e2, &sh[a].ys[at]);
      if (strcmp(e1, e2)) XF("mget", e1, e2);
      O("get %s", e1); return;
    }
    V_TRY(exc, rem(SG(a), MK(k)));
    if (exc) { unexpected(exc); O("err %s", v_exc_name(exc)); return; }
    sh_remove(&sh[a], (size_t)at);
    O("ok"); check_obj(a, op); return;
  }
  /* ---------------- whole-object observations */
  if (!strcmp(op, "items") || !strcmp(op, "ritems")) {
    if (nt != 2 || !parse_slot(t[1], &a)) BAD();
    if (!LIVE(a) || sh[a].kind == K_VAL) OOC();
    if (op[0] == 'r' && !is_seq(a)) OOC();
    n_exec++;
    if (is_seq(a)) {
      V_TRY(exc, if (op[0] == 'r') lib_ritems(buf1, SG(a)); else lib_items(buf1, SG(a)));
      if (exc) { unexpected(exc); O("err %s", v_exc_name(exc)); return; }
      sh_items(buf2, &sh[a], op[0] == 'r');
      if (strcmp(buf1, buf2)) XF(op, buf1, buf2);
      O("items %s", buf1); return;
    }
    size_t cnt = 0;
    V_TRY(exc, cnt = lib_map_kvs(kvbuf, 4096, SG(a)));
    if (exc) { unexpected(exc); O("err %s", v_exc_name(exc)); return; }
    if (cnt > 4096) cnt = 4096;
    kvs_render(buf1, kvbuf, cnt);
    fprintf(vout, "T raw %s\n", buf1);                       /* library iteration order: same in every build */
    qsort(kvbuf, cnt, sizeof(KV), kv_cmp); kvs_render(buf1, kvbuf, cnt);
    for (size_t i = 0; i < sh[a].n; i++) { kvbuf2[i].k = sh[a].xs[i]; kvbuf2[i].v = sh[a].ys[i]; }
    qsort(kvbuf2, sh[a].n, sizeof(KV), kv_cmp); kvs_render(buf2, kvbuf2, sh[a].n);
    if (strcmp(buf1, buf2)) XF(op, buf1, buf2);
    O("items %s", buf1); return;
  }
  if (!strcmp(op, "sort")) {
    if (nt != 2 || !parse_slot(t[1], &a)) BAD();
    if (!LIVE(a) || sh[a].kind != K_ARRAY) OOC();
    n_exec++;
    V_TRY(exc, sort(SG(a)));
    if (exc) { unexpected(exc); O("err %s", v_exc_name(exc)); return; }
    /* reference: insertion sort (values that compare equal are indistinguishable) */
    for (size_t i = 1; i < sh[a].n; i++) { SV x = sh[a].xs[i]; size_t j = i; while (j > 0 && sv_cmp(&sh[a].xs[j-1], &x) > 0) { sh[a].xs[j] = sh[a].xs[j-1]; j--; } sh[a].xs[j] = x; }
    O("ok"); check_obj(a, op); return;
  }
  if (!strcmp(op, "copy")) {
    if (nt != 3 || !parse_slot(t[1], &a) || !parse_slot(t[2], &b)) BAD();
    if (LIVE(a) || !LIVE(b)) OOC();
    n_exec++;
    V_TRY(exc, S[a] = copy(SG(b)));
    if (exc) { unexpected(exc); O("err %s", v_exc_name(exc)); return; }
    sh_copy(&sh[a], &sh[b]);
    O("ok"); check_obj(a, op); check_obj(b, "copy-source"); return;
  }
  if (!strcmp(op, "concat")) {
    if (nt != 3 || !parse_slot(t[1], &a) || !parse_slot(t[2], &b)) BAD();
    if (!LIVE(a) || !LIVE(b) || a == b) OOC();
    if (is_seq(a)) { if (!is_seq(b) || sh[a].et != sh[b].et) OOC(); }
    else if (sh[a].kind == K_VAL && sh[a].et) { if (!(sh[b].kind == K_VAL && sh[b].et)) OOC(); if (strlen(sh[a].xs[0].s) + strlen(sh[b].xs[0].s) > 30) OOC(); }
    else OOC();
    n_exec++;
    V_TRY(exc, concat(SG(a), SG(b)));
    if (exc) { unexpected(exc); O("err %s", v_exc_name(exc)); return; }
    if (is_seq(a)) { for (size_t i = 0; i < sh[b].n; i++) { SV x = sh[b].xs[i]; sh_insert(&sh[a], sh[a].n, &x); } }
    else strcat(sh[a].xs[0].s, sh[b].xs[0].s);
    O("ok"); check_obj(a, op); check_obj(b, "concat-source"); return;
  }
  if (!strcmp(op, "resize")) {
    if (nt != 3 || !parse_slot(t[1], &a) || !parse_int(t[2], &n)) BAD();
    if (!LIVE(a) || !is_seq(a) || n < 0 || (size_t)n > sh[a].n) OOC();     /* growing creates unconstructed items: not in contract */
    n_exec++;
    V_TRY(exc, resize(SG(a), (size_t)n));
    if (exc) { unexpected(exc); O("err %s", v_exc_name(exc)); return; }
    sh[a].n = (size_t)n;
    O("ok"); check_obj(a, op); return;
  }
  if (!strcmp(op, "eq") || !strcmp(op, "cmp")) {
    if (nt != 3 || !parse_slot(t[1], &a) || !parse_slot(t[2], &b)) BAD();
    if (!LIVE(a) || !LIVE(b)) OOC();
    int w = 0;
    if (sh[a].kind == K_VAL && sh[b].kind == K_VAL && sh[a].et == sh[b].et) w = sv_cmp(&sh[a].xs[0], &sh[b].xs[0]);
    else if (is_seq(a) && is_seq(b) && sh[a].et == sh[b].et) {   /* Table/Tree equality is layout dependent (known finding F06): excluded */
      size_t i = 0;
      for (;; i++) {
        if (i == sh[a].n && i == sh[b].n) { w = 0; break; }
        if (i == sh[a].n) { w = -1; break; }
        if (i == sh[b].n) { w = 1; break; }
        w = sv_cmp(&sh[a].xs[i], &sh[b].xs[i]); if (w) break;
      }
    } else OOC();
    n_exec++;
    if (op[0] == 'e') {
      bool r = false;
      V_TRY(exc, r = eq(SG(a), SG(b)));
      if (exc) { unexpected(exc); O("err %s", v_exc_name(exc)); return; }
      if ((int)r != (w == 0)) XF("eq", r ? "1" : "0", w == 0 ? "1" : "0");
      O("eq %d", (int)r); return;
    }
    int r = 0;
    V_TRY(exc, r = cmp(SG(a), SG(b)));
    if (exc) { unexpected(exc); O("err %s", v_exc_name(exc)); return; }
    r = r < 0 ? -1 : r > 0 ? 1 : 0;
    if (r != w) { snprintf(e1, sizeof e1, "%d", r); snprintf(e2, sizeof e2, "%d", w); XF("cmp", e1, e2); }
    O("cmp %d", r); return;
  }
  if (!strcmp(op, "vset")) {
    if (nt != 3 || !parse_slot(t[1], &a) || !parse_sv(t[2], &v)) BAD();
    if (!LIVE(a) || sh[a].kind != K_VAL || sh[a].et != v.isstr) OOC();
    n_exec++;
    V_TRY(exc, assign(SG(a), MK(v)));
    if (exc) { unexpected(exc); O("err %s", v_exc_name(exc)); return; }
    sh[a].xs[0] = v;
    O("ok"); check_obj(a, op); return;
  }
  /* ---------------- in-place edits of String / Int objects of every allocation class they are defined on */
  if (!strcmp(op, "ed")) {
    enum { SEL_SELF, SEL_AT, SEL_IT, SEL_VAL, SEL_KEY } sel; int e0;        /* e0: first token of the edit */
    long long si = 0; SV sk;
    if (nt < 3 || !parse_slot(t[1], &a)) BAD();
    if (!strcmp(t[2], "self")) { sel = SEL_SELF; e0 = 3; }
    else if (!strcmp(t[2], "at") || !strcmp(t[2], "it")) { sel = t[2][0] == 'a' ? SEL_AT : SEL_IT; if (nt < 4 || !parse_int(t[3], &si)) BAD(); e0 = 4; }
    else if (!strcmp(t[2], "val") || !strcmp(t[2], "key")) { sel = t[2][0] == 'v' ? SEL_VAL : SEL_KEY; if (nt < 4 || !parse_sv(t[3], &sk)) BAD(); e0 = 4; }
    else BAD();
    enum { E_CAT, E_APP, E_RES, E_ASG, E_FMT, E_REM, E_LOOK } ek; long long en = 0; SV ev; memset(&ev, 0, sizeof ev);
    int na = nt - e0;
    if (na < 1) BAD();
    const char* en_ = t[e0];
    if (!strcmp(en_, "cat") || !strcmp(en_, "app") || !strcmp(en_, "rem") || !strcmp(en_, "look")) {
      ek = en_[0] == 'c' ? E_CAT : en_[0] == 'a' ? E_APP : en_[0] == 'r' ? E_REM : E_LOOK;
      if (na != 2 || !parse_sv(t[e0 + 1], &ev) || !ev.isstr) BAD();
    } else if (!strcmp(en_, "res")) { ek = E_RES; if (na != 2 || !parse_int(t[e0 + 1], &en)) BAD(); }
    else if (!strcmp(en_, "asg")) { ek = E_ASG; if (na != 2 || !parse_sv(t[e0 + 1], &ev)) BAD(); }
    else if (!strcmp(en_, "fmt")) { ek = E_FMT; if (na != 3 || !parse_int(t[e0 + 1], &en) || !parse_sv(t[e0 + 2], &ev) || !ev.isstr) BAD(); }
    else BAD();
    /* the target, in the shadow */
    if (!LIVE(a)) OOC();
    SV* tv = NULL; long pos = -1;
    switch (sel) {
      case SEL_SELF: if (sh[a].kind != K_VAL) OOC(); tv = &sh[a].xs[0]; break;
      case SEL_AT: { if (!is_seq(a)) OOC(); long long L = (long long)sh[a].n, i = si < 0 ? L + si : si; if (i < 0 || i >= L) OOC(); pos = (long)i; tv = &sh[a].xs[i]; } break;
      case SEL_IT: if (!is_seq(a) || si < 0 || si >= (long long)sh[a].n) OOC(); pos = (long)si; tv = &sh[a].xs[si]; break;
      case SEL_VAL: case SEL_KEY:
        if (!is_map(a) || sk.isstr != sh[a].et) OOC();
        pos = sh_find(&sh[a], &sk); if (pos < 0) OOC();
        tv = sel == SEL_VAL ? &sh[a].ys[pos] : &sh[a].xs[pos]; break;
    }
    /* is the edit defined on it; the value afterwards */
    SV nv = *tv;
    if (ek == E_ASG) { if (ev.isstr != tv->isstr) OOC(); nv = ev; }
    else {
      if (!tv->isstr) OOC();
      size_t L = strlen(tv->s), T = strlen(ev.s);
      switch (ek) {
        case E_CAT: case E_APP: if (L + T > 30) OOC(); strcat(nv.s, ev.s); break;
        case E_RES: if (en < 0 || en > 30) OOC(); if ((size_t)en <= L) nv.s[en] = 0; break;      /* growing adds NUL bytes only */
        case E_FMT: if (en < 0 || (size_t)en > L || (size_t)en + T > 30) OOC(); nv.s[en] = 0; strcat(nv.s, ev.s); break;
        case E_REM: { char* q = strstr(nv.s, ev.s); if (!q) OOC(); memmove(q, q + T, strlen(q + T) + 1); } break;
        case E_LOOK: strcpy(nv.s, ev.s); break;
        default: break;
      }
    }
    if (sel == SEL_KEY && !sv_eq(&nv, tv)) OOC();            /* a key may only be rewritten with its own value */
    n_exec++; n_ed++; if (sel != SEL_SELF) n_ed_elem++;
    char lk[40];
    V_TRY(exc, {
      var x = NULL;
      switch (sel) {
        case SEL_SELF: x = SG(a); break;
        case SEL_AT: x = get(SG(a), $I(si)); break;
        case SEL_IT: { x = iter_init(SG(a)); for (long long j = 0; j < si; j++) x = iter_next(SG(a), x); } break;
        case SEL_VAL: x = get(SG(a), MK(sk)); break;
        case SEL_KEY: { foreach (kk in SG(a)) { if (eq(kk, MK(sk))) { x = kk; break; } } } break;
      }
      switch (ek) {
        case E_CAT: concat(x, $S(ev.s)); break;
        case E_APP: append(x, $S(ev.s)); break;
        case E_RES: resize(x, (size_t)en); break;
        case E_ASG: assign(x, MK(ev)); break;
        case E_FMT: { int r = print_to(x, (int)en, "%s", $S(ev.s)); if (r != (int)(en + (long long)strlen(ev.s))) XF("ed-print_to-position", "", ""); } break;
        case E_REM: rem(x, $S(ev.s)); break;
        case E_LOOK: { snprintf(lk, sizeof lk, "\"%s\"", ev.s); int r = look_from(x, $S(lk), 0); if (r != (int)strlen(lk)) XF("ed-look_from-position", "", ""); } break;
      }
    });
    if (exc) { unexpected(exc); O("err %s", v_exc_name(exc)); return; }
    *tv = nv;
    O("ok"); check_obj(a, "ed"); return;
  }
  /* ---------------- exceptions (raised and caught by the workload itself) */
  if (!strcmp(op, "exc")) {
    if (nt != 2 || !parse_int(t[1], &n)) BAD();
    n_exec++;
    size_t d0 = len(current(Exception)); var got = NULL; int after = 0;
    try { throw(kind_obj((int)n), "workload exception %i", $I(n)); after = 1; } catch (e in kind_obj((int)n)) { got = e; }
    size_t d1 = len(current(Exception));
    if (got != kind_obj((int)n) || after) XF("exc", v_exc_name(got), v_exc_name(kind_obj((int)n)));
    if (d0 != d1) XF("exc-depth", "", "");
    O("exc %s", v_exc_name(got)); return;
  }
  if (!strcmp(op, "nest")) {
    long long n2;
    if (nt != 3 || !parse_int(t[1], &n) || !parse_int(t[2], &n2)) BAD();
    n_exec++;
    var k1 = kind_obj((int)n), k2 = kind_obj((int)n2); const char* where = "none"; var got = NULL;
    size_t d0 = len(current(Exception));
    try {
      try { throw(k1, "inner"); } catch (e in k2) { where = "inner"; got = e; }
    } catch (e) { where = "outer"; got = e; }
    size_t d1 = len(current(Exception));
    if (got != k1 || strcmp(where, k1 == k2 ? "inner" : "outer")) XF("nest", where, k1 == k2 ? "inner" : "outer");
    if (d0 != d1) XF("nest-depth", "", "");
    O("nest %s %s", where, v_exc_name(got)); return;
  }
  /* ---------------- transcript-only observations (compared across builds, not with the model) */
  if (!strcmp(op, "hash")) {
    if (nt != 2 || !parse_slot(t[1], &a)) BAD();
    if (!LIVE(a) || is_map(a)) OOC();
    n_exec++;
    uint64_t h = 0;
    V_TRY(exc, h = hash(SG(a)));
    if (exc) { unexpected(exc); return; }
    fprintf(vout, "T hash %016" PRIx64 "\n", h); return;
  }
  if (!strcmp(op, "show")) {
    if (nt != 2 || !parse_slot(t[1], &a)) BAD();
    if (!LIVE(a) || sh[a].kind != K_VAL) OOC();       /* containers print their address */
    n_exec++;
    var s = NULL; int pos = 0;
    V_TRY(exc, { s = new(String, $S("")); pos = show_to(SG(a), s, 0); });
    if (exc) { unexpected(exc); return; }
    fprintf(vout, "T show %d %s\n", pos, c_str(s));
    del(s); return;
  }
  if (!strcmp(op, "fmt")) {
    if (nt != 3 || !parse_int(t[1], &n) || !parse_slot(t[2], &a)) BAD();
    if (!LIVE(a) || sh[a].kind != K_VAL || n < 0) OOC();
    n_exec++;
    var s = NULL; int pos = 0;
    if (sh[a].et) {
      const char* f = FMTS_STR[n % 4];
      V_TRY(exc, { s = new(String, $S("")); pos = print_to(s, 0, f, SG(a), SG(a)); pos = print_to(s, pos, " %$", SG(a)); });
    } else {
      const char* f = FMTS_INT[n % 8];
      long long iv = sh[a].xs[0].i;
      if (n % 8 == 7 && (iv < 33 || iv > 126)) OOC();
      V_TRY(exc, { s = new(String, $S("")); pos = print_to(s, 0, f, SG(a), SG(a)); pos = print_to(s, pos, " %$", SG(a)); });
    }
    if (exc) { unexpected(exc); return; }
    fprintf(vout, "T fmt %d %s\n", pos, c_str(s));
    del(s); return;
  }
  if (!strcmp(op, "flt")) {
    long long n2;
    if (nt != 3 || !parse_int(t[1], &n) || !parse_int(t[2], &n2)) BAD();
    if (n2 == 0) OOC();
    n_exec++;
    var s = NULL; var f = NULL, g = NULL; int pos = 0; int c = 0; uint64_t h = 0;
    V_TRY(exc, { f = new(Float, $F((double)n / (double)n2)); g = copy(f); s = new(String, $S(""));
                 pos = print_to(s, 0, "%$ %f %.3f %e %g", f, f, f, f, f); c = cmp(f, $F(0.5)); h = hash(g); });
    if (exc) { unexpected(exc); return; }
    fprintf(vout, "T flt %d %s cmp=%d eq=%d hash=%016" PRIx64 "\n", pos, c_str(s), c < 0 ? -1 : c > 0, (int)eq(f, g), h);
    del(s); del(f); del(g); return;
  }
  if (!strcmp(op, "range")) {
    long long r0, r1, r2;
    if (nt != 4 || !parse_int(t[1], &r0) || !parse_int(t[2], &r1) || !parse_int(t[3], &r2)) BAD();
    if (r2 == 0 || r0 < -1000 || r0 > 1000 || r1 < -1000 || r1 > 1000 || r2 < -50 || r2 > 50) OOC();
    n_exec++;
    size_t l = 0; buf1[0] = 0; char e[64]; size_t rl = 0;
    V_TRY(exc, { var r = range($I(r0), $I(r1), $I(r2)); rl = len(r); foreach (x in r) { snprintf(e, sizeof e, "%lld,", (long long)c_int(x)); app(buf1, &l, e); } });
    if (exc) { unexpected(exc); return; }
    fprintf(vout, "T range len=%zu [%s]\n", rl, buf1); return;
  }
  if (!strcmp(op, "slice") || !strcmp(op, "rev") || !strcmp(op, "enum")) {
    n = 0;
    if (op[0] == 's') { if (nt != 3 || !parse_slot(t[1], &a) || !parse_int(t[2], &n)) BAD(); }
    else if (nt != 2 || !parse_slot(t[1], &a)) BAD();
    if (!LIVE(a) || !is_seq(a) || n < 0 || (size_t)n >= sh[a].n) OOC();   /* F11: only `start`, step 1, start < len */
    n_exec++;
    size_t l = 0; buf1[0] = 0; char e[96], e0[64];
    if (op[0] == 's') { V_TRY(exc, { foreach (x in slice(SG(a), $I(n))) { lib_show(e0, sizeof e0, x); snprintf(e, sizeof e, "%s,", e0); app(buf1, &l, e); } }); }
    else if (op[0] == 'r') { V_TRY(exc, { foreach (x in reverse(SG(a))) { lib_show(e0, sizeof e0, x); snprintf(e, sizeof e, "%s,", e0); app(buf1, &l, e); } }); }
    else { V_TRY(exc, { foreach (p in enumerate(SG(a))) { lib_show(e0, sizeof e0, get(p, $I(1))); snprintf(e, sizeof e, "%lld:%s,", (long long)c_int(get(p, $I(0))), e0); app(buf1, &l, e); } }); }
    if (exc) { unexpected(exc); return; }
    fprintf(vout, "T %s [%s]\n", op, buf1); return;
  }
  if (!strcmp(op, "zip")) {
    if (nt != 3 || !parse_slot(t[1], &a) || !parse_slot(t[2], &b)) BAD();
    if (!LIVE(a) || !LIVE(b) || !is_seq(a) || !is_seq(b)) OOC();
    n_exec++;
    size_t l = 0; buf1[0] = 0; char e[160], ea[64], eb[64];
    V_TRY(exc, { foreach (p in zip(SG(a), SG(b))) { lib_show(ea, sizeof ea, get(p, $I(0))); lib_show(eb, sizeof eb, get(p, $I(1))); snprintf(e, sizeof e, "%s:%s,", ea, eb); app(buf1, &l, e); } });
    if (exc) { unexpected(exc); return; }
    fprintf(vout, "T zip [%s]\n", buf1); return;
  }
  if (!strcmp(op, "filter") || !strcmp(op, "map")) {
    if (nt != 3 || !parse_slot(t[1], &a) || !parse_int(t[2], &n)) BAD();
    if (!LIVE(a) || !is_seq(a)) OOC();
    if (op[0] == 'm' && sh[a].et) OOC();
    n_exec++;
    view_k = n; size_t l = 0; buf1[0] = 0; char e[96], e0[64];
    if (op[0] == 'f') { V_TRY(exc, { foreach (x in filter(SG(a), $(Function, sh[a].et ? fn_len_gt : fn_gt))) { lib_show(e0, sizeof e0, x); snprintf(e, sizeof e, "%s,", e0); app(buf1, &l, e); } }); }
    else { V_TRY(exc, { foreach (x in map(SG(a), $(Function, fn_add))) { lib_show(e0, sizeof e0, x); snprintf(e, sizeof e, "%s,", e0); app(buf1, &l, e); del(x); } }); }
    if (exc) { unexpected(exc); return; }
    fprintf(vout, "T %s [%s]\n", op, buf1); return;
  }

  /* ---------------- heap Tuples (transcript only; the Lean driver checks the syntax and prints nothing) */
  if (!strcmp(op, "tcmp")) {
    int t2;
    if (nt != 3 || !parse_slot(t[1], &a) || !parse_slot(t[2], &t2) || a >= MAXT || t2 >= MAXT) BAD();
    if (tsh[a].kind != K_TUPLE || tsh[t2].kind != K_TUPLE || tsh[a].et != tsh[t2].et) TOOC();
    n_exec++;
    int r = 0; bool q = false;
    V_TRY(exc, { r = cmp(TS[a], TS[t2]); q = eq(TS[a], TS[t2]); });
    if (exc) { unexpected(exc); return; }
    int w = 0; size_t i = 0;
    for (;; i++) {
      if (i == tsh[a].n && i == tsh[t2].n) { w = 0; break; }
      if (i == tsh[a].n) { w = -1; break; }
      if (i == tsh[t2].n) { w = 1; break; }
      w = sv_cmp(&tsh[a].xs[i], &tsh[t2].xs[i]); if (w) break;
    }
    r = r < 0 ? -1 : r > 0 ? 1 : 0;
    if (r != w || (int)q != (w == 0)) { snprintf(e1, sizeof e1, "%d/%d", r, (int)q); snprintf(e2, sizeof e2, "%d/%d", w, w == 0); XF("tcmp", e1, e2); }
    fprintf(vout, "T tcmp %d eq=%d\n", r, (int)q); return;
  }
  if (!strcmp(op, "tnew") || !strcmp(op, "tcat")) {
    int isnew = op[1] == 'n'; int et = 0; int first = isnew ? 3 : 2;
    if (nt < first || !parse_slot(t[1], &a) || a >= MAXT) BAD();
    if (isnew && !parse_ty(t[2], &et)) BAD();
    int cnt = nt - first; int xs[MAXTOK];
    for (int i = 0; i < cnt; i++) if (!parse_slot(t[first + i], &xs[i])) BAD();
    if (isnew ? tsh[a].kind != K_NONE : tsh[a].kind != K_TUPLE) TOOC();
    if (!isnew) et = tsh[a].et;
    for (int i = 0; i < cnt; i++) if (sh[xs[i]].kind != K_VAL || sh[xs[i]].et != et) TOOC();
    if (!isnew && tsh[a].n + cnt > 200) TOOC();
    n_exec++;
    var args[MAXTOK + 1];
    V_TRY(exc, {
      for (int i = 0; i < cnt; i++) args[i] = copy(SG(xs[i]));        /* fresh objects: no pointer occurs twice (F13) */
      args[cnt] = Terminal;
      if (isnew) TS[a] = new_with(Tuple, $(Tuple, args)); else concat(TS[a], $(Tuple, args));
    });
    if (exc) { unexpected(exc); return; }
    if (isnew) { tsh[a].kind = K_TUPLE; tsh[a].et = et; tsh[a].n = 0; sh_reserve(&tsh[a], cnt + 1); }
    for (int i = 0; i < cnt; i++) { SV x = sh[xs[i]].xs[0]; sh_insert(&tsh[a], tsh[a].n, &x); }
    fprintf(vout, "T %s ok\n", op); check_tuple(a, op); return;
  }
  if (!strcmp(op, "tpush") || !strcmp(op, "tmem") || !strcmp(op, "trem")) {
    if (nt != 3 || !parse_slot(t[1], &a) || !parse_slot(t[2], &b) || a >= MAXT) BAD();
    if (tsh[a].kind != K_TUPLE || sh[b].kind != K_VAL || sh[b].et != tsh[a].et) TOOC();
    long at = sh_find(&tsh[a], &sh[b].xs[0]);
    if (op[1] == 'r' && at < 0) TOOC();
    if (op[1] == 'p' && tsh[a].n >= 200) TOOC();
    n_exec++;
    if (op[1] == 'p') {
      V_TRY(exc, push(TS[a], copy(SG(b))));
      if (exc) { unexpected(exc); return; }
      sh_insert(&tsh[a], tsh[a].n, &sh[b].xs[0]);
    } else if (op[1] == 'm') {
      bool r = false;
      V_TRY(exc, r = mem(TS[a], SG(b)));
      if (exc) { unexpected(exc); return; }
      if ((int)r != (at >= 0)) XF("tmem", r ? "1" : "0", at >= 0 ? "1" : "0");
      fprintf(vout, "T tmem %d\n", (int)r); return;
    } else {
      var victim = NULL;
      V_TRY(exc, { victim = get(TS[a], $I(at)); rem(TS[a], SG(b)); del(victim); });   /* `rem` removes the first equal item: that one */
      if (exc) { unexpected(exc); return; }
      sh_remove(&tsh[a], (size_t)at);
    }
    fprintf(vout, "T %s ok\n", op); check_tuple(a, op); return;
  }
  if (!strcmp(op, "tpushat") || !strcmp(op, "tset")) {
    if (nt != 4 || !parse_slot(t[1], &a) || !parse_int(t[2], &n) || !parse_slot(t[3], &b) || a >= MAXT) BAD();
    if (tsh[a].kind != K_TUPLE || sh[b].kind != K_VAL || sh[b].et != tsh[a].et) TOOC();
    long long L = (long long)tsh[a].n, i = n < 0 ? L + n : n;
    if (i < 0 || i >= L || L >= 200) TOOC();             /* Tuple_Push_At walks to an existing item: i == len is refused */
    n_exec++;
    if (op[1] == 'p') {
      V_TRY(exc, push_at(TS[a], copy(SG(b)), $I(n)));
      if (exc) { unexpected(exc); return; }
      sh_insert(&tsh[a], (size_t)i, &sh[b].xs[0]);
    } else {
      V_TRY(exc, { var old = get(TS[a], $I(n)); set(TS[a], $I(n), copy(SG(b))); del(old); });
      if (exc) { unexpected(exc); return; }
      tsh[a].xs[i] = sh[b].xs[0];
    }
    fprintf(vout, "T %s ok\n", op); check_tuple(a, op); return;
  }
  if (!strcmp(op, "tpopat") || !strcmp(op, "tget") || !strcmp(op, "tresize")) {
    if (nt != 3 || !parse_slot(t[1], &a) || !parse_int(t[2], &n) || a >= MAXT) BAD();
    if (tsh[a].kind != K_TUPLE) TOOC();
    long long L = (long long)tsh[a].n, i = n < 0 ? L + n : n;
    if (op[1] == 'r') { if (n < 0 || n >= L) TOOC(); }    /* Tuple_Resize only shrinks, and raises for n >= len */
    else if (i < 0 || i >= L) TOOC();
    n_exec++;
    if (op[1] == 'g') {
      var r = NULL;
      V_TRY(exc, r = get(TS[a], $I(n)));
      if (exc) { unexpected(exc); return; }
      lib_show(e1, sizeof e1, r); sv_show(e2, sizeof e2, &tsh[a].xs[i]);
      if (strcmp(e1, e2)) XF("tget", e1, e2);
      fprintf(vout, "T tget %s\n", e1); return;
    }
    if (op[1] == 'p') {
      V_TRY(exc, { var old = get(TS[a], $I(n)); pop_at(TS[a], $I(n)); del(old); });
      if (exc) { unexpected(exc); return; }
      sh_remove(&tsh[a], (size_t)i);
    } else {
      V_TRY(exc, { for (long long j = n; j < L; j++) del(get(TS[a], $I(j))); resize(TS[a], (size_t)n); });
      if (exc) { unexpected(exc); return; }
      tsh[a].n = (size_t)n;
    }
    fprintf(vout, "T %s ok\n", op); check_tuple(a, op); return;
  }
  if (!strcmp(op, "tpop") || !strcmp(op, "titems") || !strcmp(op, "tritems") || !strcmp(op, "tlen") || !strcmp(op, "tsort")
      || !strcmp(op, "thash") || !strcmp(op, "tdrop") || !strcmp(op, "tdel")) {
    if (nt != 2 || !parse_slot(t[1], &a) || a >= MAXT) BAD();
    if (tsh[a].kind != K_TUPLE) TOOC();
    if (!strcmp(op, "tpop") && tsh[a].n == 0) TOOC();
    n_exec++;
    if (!strcmp(op, "tpop")) {
      V_TRY(exc, { var old = get(TS[a], $I(-1)); pop(TS[a]); del(old); });
      if (exc) { unexpected(exc); return; }
      sh_remove(&tsh[a], tsh[a].n - 1);
    } else if (!strcmp(op, "titems") || !strcmp(op, "tritems")) {
      V_TRY(exc, if (op[1] == 'r') lib_ritems(buf1, TS[a]); else lib_items(buf1, TS[a]));
      if (exc) { unexpected(exc); return; }
      sh_items(buf2, &tsh[a], op[1] == 'r');
      if (strcmp(buf1, buf2)) XF(op, buf1, buf2);
      fprintf(vout, "T %s %s\n", op, buf1); return;
    } else if (!strcmp(op, "tlen")) {
      size_t r = 0;
      V_TRY(exc, r = len(TS[a]));
      if (exc) { unexpected(exc); return; }
      if (r != tsh[a].n) XF("tlen", "", "");
      fprintf(vout, "T tlen %zu\n", r); return;
    } else if (!strcmp(op, "tsort")) {
      V_TRY(exc, sort(TS[a]));
      if (exc) { unexpected(exc); return; }
      for (size_t i = 1; i < tsh[a].n; i++) { SV x = tsh[a].xs[i]; size_t j = i; while (j > 0 && sv_cmp(&tsh[a].xs[j-1], &x) > 0) { tsh[a].xs[j] = tsh[a].xs[j-1]; j--; } tsh[a].xs[j] = x; }
    } else if (!strcmp(op, "thash")) {
      uint64_t h = 0;
      V_TRY(exc, h = hash(TS[a]));
      if (exc) { unexpected(exc); return; }
      fprintf(vout, "T thash %016" PRIx64 "\n", h); return;
    } else {
      if (op[2] == 'e') { V_TRY(exc, { foreach (x in TS[a]) { del(x); } del(TS[a]); }); if (exc) { unexpected(exc); return; } }
      TS[a] = NULL; sh_free(&tsh[a]);
      fprintf(vout, "T %s ok\n", op); return;
    }
    fprintf(vout, "T %s ok\n", op); check_tuple(a, op); return;
  }

  /* ---------------- nested holders: containers (and Tuples) embedded in containers, edited in place through get() (transcript only) */
  if (op[0] == 'x' && (!strcmp(op, "xnew") || !strcmp(op, "xadd") || !strcmp(op, "xpush") || !strcmp(op, "xpop") || !strcmp(op, "xpopat")
      || !strcmp(op, "xset") || !strcmp(op, "xcat") || !strcmp(op, "xres") || !strcmp(op, "xget") || !strcmp(op, "xshow") || !strcmp(op, "xrem")
      || !strcmp(op, "xdel") || !strcmp(op, "xdrop"))) {
    int n_ = 0; long long k = 0, j = 0, v_ = 0; long long vs[MAXTOK]; int cnt = 0;
    if (nt < 2 || !parse_slot(t[1], &n_) || n_ >= MAXN) BAD();
    if (!strcmp(op, "xnew")) { if (nt != 4 || strlen(t[2]) != 1 || !strchr("altr", t[2][0]) || strlen(t[3]) != 1 || !strchr("ALU", t[3][0])) BAD(); }
    else if (!strcmp(op, "xshow") || !strcmp(op, "xdel") || !strcmp(op, "xdrop")) { if (nt != 2) BAD(); }
    else if (!strcmp(op, "xadd") || !strcmp(op, "xpop") || !strcmp(op, "xrem")) { if (nt != 3 || !parse_int(t[2], &k)) BAD(); }
    else if (!strcmp(op, "xpush") || !strcmp(op, "xpopat") || !strcmp(op, "xres") || !strcmp(op, "xget")) { if (nt != 4 || !parse_int(t[2], &k) || !parse_int(t[3], &j)) BAD(); v_ = j; }
    else if (!strcmp(op, "xset")) { if (nt != 5 || !parse_int(t[2], &k) || !parse_int(t[3], &j) || !parse_int(t[4], &v_)) BAD(); }
    else { if (nt < 3 || !parse_int(t[2], &k)) BAD(); cnt = nt - 3; for (int i = 0; i < cnt; i++) if (!parse_int(t[3 + i], &vs[i])) BAD(); }
    XH* h = &xh[n_];
    if (!strcmp(op, "xnew")) {
      if (h->outer) TOOC();
      n_exec++; n_nested++;
      int ou = t[2][0]; int ik = t[3][0];
      var ity = ik == 'A' ? Array : ik == 'L' ? List : Tuple;
      V_TRY(exc, {
        switch (ou) {
          case 'a': NS[n_] = new(Array, ity); break;
          case 'l': NS[n_] = new(List, ity); break;
          case 't': NS[n_] = new(Table, Int, ity); break;
          default:  NS[n_] = new(Tree, Int, ity); break;
        }
      });
      if (exc) { unexpected(exc); return; }
      memset(h, 0, sizeof *h); h->outer = ou; h->inner = ik;
      fprintf(vout, "T xnew ok\n"); x_check(n_, op); return;
    }
    if (!h->outer) TOOC();
    if (!strcmp(op, "xshow")) {
      n_exec++; n_nested++;
      V_TRY(exc, x_check(n_, op));
      if (exc) { unexpected(exc); return; }
      fprintf(vout, "T xshow n=%d %s\n", h->n, buf1); return;
    }
    if (!strcmp(op, "xdel") || !strcmp(op, "xdrop")) {
      n_exec++; n_nested++;
      if (op[2] == 'e') { V_TRY(exc, del(NS[n_])); if (exc) { unexpected(exc); return; } }
      NS[n_] = NULL; memset(h, 0, sizeof *h);
      fprintf(vout, "T %s ok\n", op); return;
    }
    if (!strcmp(op, "xadd")) {
      if (h->n >= XMAXE) TOOC();
      if (x_isseq(h->outer)) { if (k < 0 || k > h->n) TOOC(); }
      else if (k < -1000000 || k > 1000000 || x_pos(h, k) >= 0) TOOC();
      n_exec++; n_nested++;
      var tarr[1] = { Terminal };
      V_TRY(exc, {
        var src = h->inner == 'A' ? (var)new(Array, Int) : h->inner == 'L' ? (var)new(List, Int) : (var)$(Tuple, tarr);
        if (!x_isseq(h->outer)) set(NS[n_], $I(k), src);
        else if (k == h->n) push(NS[n_], src);
        else push_at(NS[n_], src, $I(k));
        if (h->inner != 'U') del(src);
      });
      if (exc) { unexpected(exc); return; }
      int at = x_isseq(h->outer) ? (int)k : h->n;
      memmove(&h->key[at + 1], &h->key[at], (h->n - at) * sizeof h->key[0]);
      memmove(&h->m[at + 1], &h->m[at], (h->n - at) * sizeof h->m[0]);
      memmove(&h->it[at + 1], &h->it[at], (h->n - at) * sizeof h->it[0]);
      h->key[at] = k; h->m[at] = 0; h->n++;
      fprintf(vout, "T xadd ok\n"); x_check(n_, op); return;
    }
    int pos = x_pos(h, k);
    if (pos < 0) TOOC();
    if (!strcmp(op, "xrem")) {
      n_exec++; n_nested++;
      V_TRY(exc, { if (x_isseq(h->outer)) pop_at(NS[n_], $I(k)); else rem(NS[n_], $I(k)); });
      if (exc) { unexpected(exc); return; }
      memmove(&h->key[pos], &h->key[pos + 1], (h->n - pos - 1) * sizeof h->key[0]);
      memmove(&h->m[pos], &h->m[pos + 1], (h->n - pos - 1) * sizeof h->m[0]);
      memmove(&h->it[pos], &h->it[pos + 1], (h->n - pos - 1) * sizeof h->it[0]);
      h->n--;
      fprintf(vout, "T xrem ok\n"); x_check(n_, op); return;
    }
    int m = h->m[pos];
    int isU = h->inner == 'U';
    #define XVAL_OK(x) (isU ? ((x) >= 0 && (x) < 10 && !x_has(h, pos, (x))) : ((x) >= -1000000 && (x) <= 1000000))
    #define XMK(x) (isU ? x_type(x) : (var)$I(x))
    if (!strcmp(op, "xpush")) {
      if (m >= XMAXI || !XVAL_OK(v_)) TOOC();
      n_exec++; n_nested++;
      V_TRY(exc, push(x_inner(n_, pos), XMK(v_)));
      if (exc) { unexpected(exc); return; }
      h->it[pos][m] = v_; h->m[pos]++;
    } else if (!strcmp(op, "xpop")) {
      if (m == 0) TOOC();
      n_exec++; n_nested++;
      V_TRY(exc, pop(x_inner(n_, pos)));
      if (exc) { unexpected(exc); return; }
      h->m[pos]--;
    } else if (!strcmp(op, "xpopat") || !strcmp(op, "xget")) {
      long long jj = j < 0 ? m + j : j;
      if (jj < 0 || jj >= m) TOOC();
      n_exec++; n_nested++;
      if (op[1] == 'g') {
        long long r = 0;
        V_TRY(exc, r = x_item(h, get(x_inner(n_, pos), $I(j))));
        if (exc) { unexpected(exc); return; }
        if (r != h->it[pos][jj]) { snprintf(e1, sizeof e1, "%lld", r); snprintf(e2, sizeof e2, "%lld", h->it[pos][jj]); XF("xget", e1, e2); }
        fprintf(vout, "T xget %lld\n", r); return;
      }
      V_TRY(exc, pop_at(x_inner(n_, pos), $I(j)));
      if (exc) { unexpected(exc); return; }
      memmove(&h->it[pos][jj], &h->it[pos][jj + 1], (m - jj - 1) * sizeof(long long)); h->m[pos]--;
    } else if (!strcmp(op, "xset")) {
      long long jj = j < 0 ? m + j : j;
      if (jj < 0 || jj >= m) TOOC();
      if (isU ? !(v_ >= 0 && v_ < 10 && (!x_has(h, pos, v_) || h->it[pos][jj] == v_)) : !XVAL_OK(v_)) TOOC();
      n_exec++; n_nested++;
      V_TRY(exc, set(x_inner(n_, pos), $I(j), XMK(v_)));
      if (exc) { unexpected(exc); return; }
      h->it[pos][jj] = v_;
    } else if (!strcmp(op, "xres")) {
      if (v_ < 0 || v_ >= m) TOOC();                    /* shrinking only: Tuple_Resize refuses n >= len, growing leaves unconstructed items */
      n_exec++; n_nested++;
      V_TRY(exc, resize(x_inner(n_, pos), (size_t)v_));
      if (exc) { unexpected(exc); return; }
      h->m[pos] = (int)v_;
    } else {  /* xcat */
      if (m + cnt > XMAXI) TOOC();
      for (int i = 0; i < cnt; i++) { if (!XVAL_OK(vs[i])) TOOC(); if (isU) for (int q = 0; q < i; q++) if (vs[q] == vs[i]) TOOC(); }
      n_exec++; n_nested++;
      var args[MAXTOK + 1];
      static var xb[MAXTOK][(sizeof(struct Header) + sizeof(struct Int)) / sizeof(var)];
      for (int i = 0; i < cnt; i++) {
        if (isU) { args[i] = x_type(vs[i]); continue; }
        memset(xb[i], 0, sizeof xb[i]);
        var o = header_init(xb[i], Int, AllocStack); ((struct Int*)o)->val = vs[i]; args[i] = o;
      }
      args[cnt] = Terminal;
      V_TRY(exc, concat(x_inner(n_, pos), $(Tuple, args)));
      if (exc) { unexpected(exc); return; }
      for (int i = 0; i < cnt; i++) h->it[pos][m + i] = vs[i];
      h->m[pos] += cnt;
    }
    #undef XVAL_OK
    #undef XMK
    fprintf(vout, "T %s ok\n", op);
    V_TRY(exc, x_check(n_, op)); if (exc) unexpected(exc);
    return;
  }
  /* ---------------- method-cache probes and owning rings (transcript only) */
  if (!strcmp(op, "preset")) {
    if (nt != 2 || !parse_slot(t[1], &a) || a >= 3) BAD();
    n_exec++;
#if CELLO_CACHE == 1
    memset(probe_type(a), 0, CELLO_CACHE_NUM * sizeof(var));      /* white box: the cache words open every Type object */
#endif
    fprintf(vout, "T preset\n"); return;
  }
  if (!strcmp(op, "probe")) {
    long long v0;
    if (nt < 3 || !parse_slot(t[1], &a) || a >= 3 || !parse_int(t[2], &v0)) BAD();
    for (int i = 3; i < nt; i++) if (probe_q(t[i]) < 0) BAD();
    if (v0 < -1000000 || v0 > 1000000) OOC();
    n_exec++;
    size_t l = 0; buf1[0] = 0; char e[160];
    var ty = probe_type(a); var p = NULL; var other = NULL; var s = NULL;
    V_TRY(exc, {
      p = new_with(ty, tuple($I(v0))); other = new_with(ty, tuple($I(v0 + 1))); probe_current_obj = other;
      for (int i = 3; i < nt; i++) {
        struct Probe* q = p; e[0] = 0;
        switch (probe_q(t[i])) {
          case 0: snprintf(e, sizeof e, "len=%zu ", len(p)); break;
          case 1: snprintf(e, sizeof e, "cint=%lld ", (long long)c_int(p)); break;
          case 2: snprintf(e, sizeof e, "cflt=%.3f ", c_float(p)); break;
          case 3: snprintf(e, sizeof e, "cstr=%s ", c_str(p)); break;
          case 4: snprintf(e, sizeof e, "hash=%llu ", (unsigned long long)hash(p)); break;
          case 5: snprintf(e, sizeof e, "cmp=%d,%d ", cmp(p, other), (int)eq(p, p)); break;
          case 6: assign(p, other); snprintf(e, sizeof e, "asg=%lld ", (long long)q->v); break;
          case 7: snprintf(e, sizeof e, "get=%d ", get(p, $I(3)) == p); break;
          case 8: snprintf(e, sizeof e, "mem=%d ", (int)mem(p, $I(3))); break;
          case 9: set(p, $I(4), $I(5)); snprintf(e, sizeof e, "set=%lld ", (long long)q->v); break;
          case 10: rem(p, $I(3)); snprintf(e, sizeof e, "rem=%lld ", (long long)q->v); break;
          case 11: push(p, $I(7)); snprintf(e, sizeof e, "push=%lld ", (long long)q->v); break;
          case 12: pop(p); snprintf(e, sizeof e, "pop=%lld ", (long long)q->v); break;
          case 13: push_at(p, $I(7), $I(2)); snprintf(e, sizeof e, "pushat=%lld ", (long long)q->v); break;
          case 14: pop_at(p, $I(3)); snprintf(e, sizeof e, "popat=%lld ", (long long)q->v); break;
          case 15: concat(p, $I(2)); snprintf(e, sizeof e, "cat=%lld ", (long long)q->v); break;
          case 16: append(p, $I(2)); snprintf(e, sizeof e, "app=%lld ", (long long)q->v); break;
          case 17: ref(p, other); snprintf(e, sizeof e, "ref=%d ", deref(p) == other); break;
          case 18: { int cnt = 0; foreach (x in p) { cnt++; } snprintf(e, sizeof e, "iter=%d,%d ", cnt, iter_type(p) == Int); } break;
          case 19: snprintf(e, sizeof e, "cur=%d ", current(ty) == other); break;
          case 20: snprintf(e, sizeof e, "cast=%d ", cast(p, ty) == p); break;
          case 21: snprintf(e, sizeof e, "size=%zu ", size(ty)); break;
          case 22: s = new(String, $S("")); print_to(s, 0, "%li|%f", p, p); snprintf(e, sizeof e, "fmt=%s ", c_str(s)); del(s); break;
          case 23: s = new(String, $S("")); print_to(s, 0, "%f|%li", p, p); snprintf(e, sizeof e, "fmt2=%s ", c_str(s)); del(s); break;
          case 24: { var c = copy(p); snprintf(e, sizeof e, "copy=%lld,%d ", (long long)((struct Probe*)c)->v, type_of(c) == ty); del(c); } break;
        }
        app(buf1, &l, e);
      }
      probe_current_obj = NULL; del(p); del(other);
    });
    if (exc) { unexpected(exc); return; }
    fprintf(vout, "T probe %s\n", buf1); return;
  }
  if (!strcmp(op, "ring")) {
    long long rn, seed, m;
    if (nt != 4 || !parse_int(t[1], &rn) || !parse_int(t[2], &seed) || !parse_int(t[3], &m)) BAD();
    if (rn < 1 || rn > 8 || seed < -100000 || seed > 100000 || m < 0 || m > 400) OOC();
    n_exec++;
    long long r = 0, c = 0;
    V_TRY(exc, { r = ring_round(rn, seed); c = churn_round(m); });
    if (exc) { unexpected(exc); return; }
    fprintf(vout, "T ring %lld churn %lld\n", r, c); return;
  }
  /* ---------------- keep programs: containers as the sole path to collector-managed objects (O lines: the model has them) */
  if (!strcmp(op, "hexit")) {
    if (nt != 1) BAD();
    n_exec++; n_keep++;
    k_scrub(); k_audit("hexit");
    fflush(vout); fflush(stderr);
    pid_t pid = fork();
    if (pid == 0) {
      alarm(30);
      exit_report = 1; exit_line = cur_line;
      exit(0);                     /* atexit handlers (Cello_Exit when the build has the collector), then the report above */
    }
    int status = 0;
    if (pid < 0 || waitpid(pid, &status, 0) < 0 || !WIFEXITED(status) || WEXITSTATUS(status) != 0) {
      snprintf(e1, sizeof e1, "child status %d", status); XF("exit-crashed", e1, "clean exit");
      O("hexit crashed");
    }
    return;
  }
  if (op[0] == 'h' && (!strcmp(op, "hnew") || !strcmp(op, "hput") || !strcmp(op, "hget") || !strcmp(op, "hread") || !strcmp(op, "hrem")
      || !strcmp(op, "hrel") || !strcmp(op, "hshrink") || !strcmp(op, "hreserve") || !strcmp(op, "hchurn") || !strcmp(op, "hdrop") || !strcmp(op, "hdel") || !strcmp(op, "hrun"))) {
    int h = 0; long long k = 0, id = 0, pay = 0; KH* s = NULL;
    if (!strcmp(op, "hchurn")) {
      if (nt != 2 || !parse_int(t[1], &n)) BAD();
      if (n < 0 || n > 400) OOC();
      n_exec++; n_keep++;
      long long c = 0;
      k_scrub();
      V_TRY(exc, c = churn_round(n));
      if (exc) { unexpected(exc); O("err %s", v_exc_name(exc)); return; }
      k_scrub(); k_audit("hchurn");
      O("churn %lld", c); return;
    }
    if (nt < 2 || !parse_slot(t[1], &h)) BAD();
    if (!strcmp(op, "hnew")) {
      if (nt != 3 || strlen(t[2]) != 1 || !strchr("altkrqucswALTKRQUC", t[2][0])) BAD();
    } else if (!strcmp(op, "hput")) {
      if (nt != 5 || !parse_int(t[2], &k) || !parse_int(t[3], &id) || !parse_int(t[4], &pay)) BAD();
    } else if (!strcmp(op, "hget") || !strcmp(op, "hrem") || !strcmp(op, "hrel") || !strcmp(op, "hshrink") || !strcmp(op, "hreserve")) {
      if (nt != 3 || !parse_int(t[2], &k)) BAD();
    } else if (nt != 2) BAD();
    if (h >= MAXH) OOC();
    s = &kh[h];
    if (!strcmp(op, "hnew")) {
      if (s->kind) OOC();
      n_exec++; n_keep++; k_audit("before");
      int kind = t[2][0], rooted = 0;
      if (kind >= 'A' && kind <= 'Z') { rooted = 1; kind = kind - 'A' + 'a'; }
      V_TRY(exc, k_new_holder(h, kind, rooted));
      if (exc) { unexpected(exc); O("err %s", v_exc_name(exc)); return; }
      memset(s, 0, sizeof *s); s->kind = kind; s->rooted = rooted;
      k_scrub(); k_audit(op); O("ok"); return;
    }
    if (!s->kind) OOC();
    if (k_poisoned) { O("skipped-after-lost-object"); return; }
    k_audit("before");
    if (!strcmp(op, "hput")) {
      if (id < 0 || id >= MAXID || led[id].made || pay < 0 || pay > 1000000000LL || s->n >= MAXE - 8) OOC();
      if (k_isseq(s->kind)) { if (k < 0 || k > s->n) OOC(); }
      else if (k < 0 || k > 1000000 || k_pos(s, k) >= 0) OOC();
      n_exec++; n_keep++;
      V_TRY(exc, k_put(h, (int)k, k, (int)id, pay));
      if (exc) { unexpected(exc); O("err %s", v_exc_name(exc)); return; }
      if (k_isseq(s->kind)) { memmove(s->id + k + 1, s->id + k, (s->n - k) * sizeof(int)); s->id[k] = (int)id; }
      else { s->key[s->n] = k; s->id[s->n] = (int)id; }
      s->n++;
      k_scrub(); k_audit(op); O("ok"); return;
    }
    if (!strcmp(op, "hget") || !strcmp(op, "hrem") || !strcmp(op, "hrel")) {
      int pos = k_pos(s, k);
      if (pos < 0) OOC();
      n_exec++; n_keep++;
      int eid = s->id[pos];
      if (op[1] == 'g') {
        n_keep_reads++;
        var p = NULL;
        V_TRY(exc, p = k_fetch(h, pos, k));
        if (exc) { unexpected(exc); O("err %s", v_exc_name(exc)); return; }
        k_show(e1, sizeof e1, p, eid); p = NULL;
        O("hget %s", e1); return;
      }
      var p = NULL; var link = NULL;
      V_TRY(exc, { p = k_take(h, pos, k, &link); if (op[2] == 'e' && op[3] == 'm') k_delete_obj(eid, p, link); });
      if (exc) { unexpected(exc); O("err %s", v_exc_name(exc)); return; }
      led[eid].expect = 0; p = NULL; link = NULL;
      memmove(s->id + pos, s->id + pos + 1, (s->n - pos - 1) * sizeof(int));
      memmove(s->key + pos, s->key + pos + 1, (s->n - pos - 1) * sizeof(long long));
      s->n--;
      k_scrub(); k_audit(op); O("ok"); return;
    }
    if (!strcmp(op, "hshrink")) {
      if (k < 0 || k > s->n) OOC();
      if (k_ismap(s->kind) && k != 0) OOC();
      n_exec++; n_keep++;
      V_TRY(exc, k_shrink(h, k));
      if (exc) { unexpected(exc); O("err %s", v_exc_name(exc)); return; }
      for (int i = (int)k; i < s->n; i++) led[s->id[i]].expect = 0;
      s->n = (int)k;
      k_scrub(); k_audit(op); O("ok"); return;
    }
    if (!strcmp(op, "hreserve")) {
      if ((s->kind != 't' && s->kind != 'k') || k < s->n || k < 1 || k > 400) OOC();
      n_exec++; n_keep++;
      V_TRY(exc, k_resize(h, k));
      if (exc) { unexpected(exc); O("err %s", v_exc_name(exc)); return; }
      k_scrub(); k_audit(op); O("ok"); return;
    }
    if (!strcmp(op, "hread")) {
      n_exec++; n_keep++; n_keep_reads++;
      int cnt = 0; size_t ln = 0;
      V_TRY(exc, { cnt = k_collect(h); if (s->kind != 's' && s->kind != 'c' && s->kind != 'w') ln = k_len(h); else ln = (size_t)cnt; });
      if (exc) { unexpected(exc); O("err %s", v_exc_name(exc)); return; }
      if (cnt != s->n || ln != (size_t)s->n) { snprintf(e1, sizeof e1, "%d/%zu", cnt, ln); snprintf(e2, sizeof e2, "%d", s->n); XF("keep-length", e1, e2); }
      if (cnt > MAXE) cnt = MAXE;
      int ord[MAXE]; for (int i = 0; i < cnt; i++) ord[i] = i;
      if (k_ismap(s->kind)) qsort(ord, cnt, sizeof(int), k_cmp_idx);
      /* the expected serials: container order for sequences, key order for maps */
      int xo[MAXE]; for (int i = 0; i < s->n; i++) xo[i] = i;
      if (k_ismap(s->kind)) { for (int i = 1; i < s->n; i++) { int x = xo[i], j = i; while (j > 0 && s->key[xo[j-1]] > s->key[x]) { xo[j] = xo[j-1]; j--; } xo[j] = x; } }
      size_t l = 0; buf1[0] = 0; char e[96], e0_[64];
      for (int i = 0; i < cnt; i++) {
        int j = ord[i];
        if (i >= s->n) { XF("keep-extra-element", "", ""); break; }
        int eid = s->id[xo[i]];
        long long ek = k_isseq(s->kind) ? i : s->key[xo[i]];
        if (kk_[j] != ek) { snprintf(e1, sizeof e1, "%lld", kk_[j]); snprintf(e2, sizeof e2, "%lld", ek); XF("keep-key", e1, e2); }
        k_show(e0_, sizeof e0_, kp[j], eid);
        snprintf(e, sizeof e, "%s%lld:%s", i ? "," : "", kk_[j], e0_); app(buf1, &l, e);
      }
      memset(kp, 0, sizeof kp); memset(kl, 0, sizeof kl);
      if (s->kind == 't' || s->kind == 'k') {
        size_t high = 0, tslots = 0;
        k_table_stats(h, &tslots, &high);
        n_high += high;
        O("hread n=%d [%s] slots=%zu high=%zu", cnt, buf1, tslots, high);
      } else O("hread n=%d [%s]", cnt, buf1);
      k_scrub(); return;
    }
    if (!strcmp(op, "hrun")) {
      if (s->kind != 'w') OOC();
      n_exec++; n_keep++; n_keep_reads++; n_thread_runs++;
      V_TRY(exc, k_run_thread(h));
      if (exc) { unexpected(exc); O("err %s", v_exc_name(exc)); return; }
      long long want = 0; for (int i = 0; i < s->n; i++) want += led[s->id[i]].pay;
      if (!k_run.self_ok) XF("keep-thread-current", "current(Thread) in the started thread is not the Thread object", "the Thread object");
      if (k_run.dead) { snprintf(e1, sizeof e1, "%d entries finalised", k_run.dead); XF("keep-thread-read", e1, "alive"); }
      else if (k_run.n != s->n || k_run.sum != want) { snprintf(e1, sizeof e1, "n=%d sum=%lld", k_run.n, k_run.sum); snprintf(e2, sizeof e2, "n=%d sum=%lld", s->n, want); XF("keep-thread-read", e1, e2); }
      O("hrun n=%d sum=%lld", k_run.n, k_run.sum);
      k_scrub(); k_audit(op); return;
    }
    if (!strcmp(op, "hdrop") || !strcmp(op, "hdel")) {
      if (op[2] == 'r' && s->rooted) OOC();       /* forgetting the only pointer to a root leaks it in every build: not a program the workload writes */
      n_exec++; n_keep++;
      if (op[2] == 'e') {
        V_TRY(exc, k_delete_all(h));
        if (exc) { unexpected(exc); O("err %s", v_exc_name(exc)); return; }
        k_forget(h, 1);
      } else {
        if (s->kind == 's') { V_TRY(exc, { char key[48]; for (int i = 0; i < s->n; i++) { k_tls_key(key, sizeof key, h, s->key[i]); rem(current(Thread), $S(key)); } }); if (exc) { unexpected(exc); return; } }
        HH[h] = NULL; hroot[h] = 0; k_forget(h, 0);
      }
      k_scrub(); k_audit(op); O("ok"); return;
    }
    BAD();
  }
  /* ---------------- run-time types (O lines: the model is Cello/ConfigType.lean) */
  if (!strcmp(op, "ty") || !strcmp(op, "tybig") || !strcmp(op, "tyre")) {
    int tt, route = 0; long long size = 0, bn = 0, bk = 0; int cnt = 0; static short insts[RT_MAXI + 2]; const char* name;
    int isre = op[2] == 'r', isbig = op[2] == 'b';
    if (isbig) {
      if (nt != 7 || !parse_slot(t[1], &tt)) BAD();
      if ((route = rt_route6(t[2])) < 0 || !parse_int(t[4], &size) || !parse_int(t[5], &bn) || !parse_int(t[6], &bk)) BAD();
      name = t[3];
    } else if (isre) {
      if (nt < 4 || !parse_slot(t[1], &tt) || !parse_int(t[3], &size)) BAD();
      name = t[2];
      for (int i = 4; i < nt; i++) { int k = rt_tok(t[i]); if (k < 0) BAD(); insts[cnt++] = (short)k; }
    } else {
      if (nt < 5 || !parse_slot(t[1], &tt)) BAD();
      if ((route = rt_route6(t[2])) < 0 || !parse_int(t[4], &size)) BAD();
      name = t[3];
      for (int i = 5; i < nt; i++) { int k = rt_tok(t[i]); if (k < 0) BAD(); insts[cnt++] = (short)k; }
    }
    if (isbig) {
      if (bn < 0 || bk < 0 || bn > RT_MAXI) OOC();
      cnt = (int)bn;
      for (int i = 0; i < cnt; i++) insts[i] = (short)((bk + i) % RT_NINST);
    }
    if (tt >= MAXTY || !rt_valid_name(name) || !rt_valid_size(size)) OOC();
    RTY* r = &rty[tt];
    if (isre) { if (!r->live || r->bad || rt_has_objects(tt)) OOC(); }
    else if (r->live) OOC();
    n_exec++; n_rt++;
    int mode = isre ? r->mode : route % 3;
    memset(r->inst, 0, sizeof r->inst);
    r->n = cnt; for (int i = 0; i < cnt; i++) r->inst[i] = insts[i];
    snprintf(r->name, sizeof r->name, "%s", name); r->size = size; r->mode = mode; r->bad = 0;
    V_TRY(exc, {
      var tup = rt_tuple_for(tt, r);
      if (isre) { destruct(TY[tt]); construct_with(TY[tt], tup); }
      else TY[tt] = rt_construct(route, tup);
    });
    if (exc) { unexpected(exc); O("err %s", v_exc_name(exc)); if (!isre) TY[tt] = NULL; r->live = isre; r->bad = 1; return; }
    r->live = 1;
    V_TRY(exc, rt_describe(tt));
    if (exc) { unexpected(exc); r->bad = 1; }
    return;
  }
  if (!strcmp(op, "tyq") || !strcmp(op, "tyshow") || !strcmp(op, "tydel")) {
    int tt;
    if (nt != (op[2] == 'q' ? 3 : 2) || !parse_slot(t[1], &tt)) BAD();
    if (tt >= MAXTY || !rty[tt].live) OOC();
    RTY* r = &rty[tt]; var T = TY[tt];
    if (op[2] == 'd') {
      if (rt_has_objects(tt)) OOC();
      n_exec++; n_rt++;
      if (!r->bad) { V_TRY(exc, del_by_mode(T, r->mode)); if (exc) unexpected(exc); }
      TY[tt] = NULL; memset(r, 0, sizeof *r);
      O("ok"); return;
    }
    if (op[2] == 'q') {
      int pc = rt_probe(t[2]);
      if (pc < 0 || r->bad) OOC();
      n_exec++; n_rt++;
      var C = rt_pcls[pc]; bool im = false; var inst = NULL; char ms[8], wm[8]; int ar = RT_ARITY[pc];
      V_TRY(exc, {
        im = type_implements(T, C); inst = type_instance(T, C);
        for (int k = 0; k < ar; k++) ms[k] = type_implements_method_at_offset(T, C, k * sizeof(var)) ? '1' : '0';
      });
      if (exc) { unexpected(exc); O("err %s", v_exc_name(exc)); return; }
      ms[ar] = 0;
      int k = rt_decl(r, C), gi = rt_inst_index(inst);
      for (int j = 0; j < ar; j++) wm[j] = (k >= 0 && RT_MEMB[k][j]) ? '1' : '0';
      wm[ar] = 0;
      if (inst == NULL) snprintf(e1, sizeof e1, "-"); else if (gi < 0) snprintf(e1, sizeof e1, "?"); else snprintf(e1, sizeof e1, "%d", gi);
      if (k < 0) snprintf(e2, sizeof e2, "-"); else snprintf(e2, sizeof e2, "%d", k);
      if ((int)im != (k >= 0)) XF("type_implements", im ? "1" : "0", k >= 0 ? "1" : "0");
      if (strcmp(e1, e2)) XF("type_instance", e1, e2);
      if (strcmp(ms, wm)) XF("type_implements_method", ms, wm);
      O("tyq impl=%d inst=%s m=%s", (int)im, e1, ms); return;
    }
    if (r->bad) OOC();
    n_exec++; n_rt++;
    var s = NULL;
    V_TRY(exc, { s = new(String, $S("")); print_to(s, 0, "%s|%$", T, T); });
    if (exc) { unexpected(exc); O("err %s", v_exc_name(exc)); return; }
    snprintf(e2, sizeof e2, "%s|%s", r->name, r->name);
    if (strcmp(c_str(s), e2)) XF("run-time-type-print", c_str(s), e2);
    O("tyshow %s", c_str(s)); del(s); return;
  }
  if (!strcmp(op, "ob")) {
    int oo, tt, route; long long v0;
    if (nt != 5 || !parse_slot(t[1], &oo) || !parse_slot(t[2], &tt)) BAD();
    if ((route = rt_route3(t[3])) < 0 || !parse_int(t[4], &v0)) BAD();
    if (tt >= MAXTY || !rty[tt].live) OOC();
    if (oo >= MAXOB || rob[oo].live || !rt_in_range(v0) || rty[tt].bad) OOC();
    n_exec++; n_rt++;
    RTY* r = &rty[tt]; var T = TY[tt]; var p = NULL;
    int hasnew = rt_decl(r, New) >= 0;
    long long want = hasnew ? v0 : 0;
    V_TRY(exc, {
      var tup = hasnew ? tuple($I(v0)) : tuple();        /* without a constructor the harness passes no argument: calloc'ed zeroes */
      p = route == 0 ? new_with(T, tup) : route == 1 ? new_raw_with(T, tup) : new_root_with(T, tup);
    });
    if (exc) { unexpected(exc); O("err %s", v_exc_name(exc)); return; }
    OB[oo] = p; rob[oo].live = 1; rob[oo].ty = tt; rob[oo].mode = route; rob[oo].v = want;
    const char* tn = c_str(type_of(p)); size_t sz = size(type_of(p));
    if (type_of(p) != T) XF("object-type", tn ? tn : "(null)", r->name);
    if (RV(p) != want) { snprintf(e1, sizeof e1, "%lld", (long long)RV(p)); snprintf(e2, sizeof e2, "%lld", want); XF("object-value-after-new", e1, e2); }
    O("ob v=%lld type=%s size=%zu", (long long)RV(p), tn ? tn : "(null)", sz); return;
  }
  if (!strcmp(op, "od")) {
    int oo;
    if (nt != 2 || !parse_slot(t[1], &oo)) BAD();
    if (oo >= MAXOB || !rob[oo].live || rty[rob[oo].ty].bad) OOC();
    n_exec++; n_rt++;
    RTY* r = &rty[rob[oo].ty]; long d0 = rt_dtors;
    V_TRY(exc, del_by_mode(OB[oo], rob[oo].mode));
    if (exc) { unexpected(exc); O("err %s", v_exc_name(exc)); return; }
    OB[oo] = NULL; memset(&rob[oo], 0, sizeof rob[oo]);
    long want = rt_needs(r, New, 1) ? 1 : 0;
    if (rt_dtors - d0 != want) { snprintf(e1, sizeof e1, "%ld", rt_dtors - d0); snprintf(e2, sizeof e2, "%ld", want); XF("object-destructor-runs", e1, e2); }
    O("od dtor=%ld", rt_dtors - d0); return;
  }
  if (!strcmp(op, "oq")) {
    int oo, o2 = -1; long long qa = 0; int pc = -1;
    if (nt < 3 || !parse_slot(t[1], &oo)) BAD();
    const char* q = t[2];
    static const char* Q0[] = { "cint", "len", "cstr", "cflt", "hash", "show", "size", "cast", "mem", "get", "pop", NULL };
    int is0 = 0; for (int i = 0; Q0[i]; i++) if (!strcmp(Q0[i], q)) is0 = 1;
    if (is0) { if (nt != 3) BAD(); }
    else if (!strcmp(q, "cmp") || !strcmp(q, "eq") || !strcmp(q, "asg") || !strcmp(q, "copy")) { if (nt != 4 || !parse_slot(t[3], &o2)) BAD(); }
    else if (!strcmp(q, "impl")) { if (nt != 4) BAD(); pc = rt_probe(t[3]); }
    else if (!strcmp(q, "push") || !strcmp(q, "cat") || !strcmp(q, "resize")) { if (nt != 4 || !parse_int(t[3], &qa)) BAD(); }
    else BAD();
    if (oo >= MAXOB || !rob[oo].live || rty[rob[oo].ty].bad) OOC();
    ROB* ob = &rob[oo]; RTY* r = &rty[ob->ty]; var T = TY[ob->ty]; var p = OB[oo]; long long v = ob->v;
    /* in contract? (decided on what the type was DECLARED with) */
    long long nv = v; int needc = 0;
    if (!strcmp(q, "cint")) needc = rt_needs(r, C_Int, 0);
    else if (!strcmp(q, "len")) needc = rt_needs(r, Len, 0);
    else if (!strcmp(q, "cstr")) needc = rt_needs(r, C_Str, 0);
    else if (!strcmp(q, "cflt")) needc = rt_needs(r, C_Float, 0);
    else if (!strcmp(q, "mem")) needc = rt_needs(r, Get, 2);
    else if (!strcmp(q, "get")) needc = rt_needs(r, Get, 0);
    else if (!strcmp(q, "push")) { nv = v + qa; needc = rt_in_range(nv) && rt_needs(r, Push, 0); }
    else if (!strcmp(q, "pop")) { nv = v - 1; needc = rt_in_range(nv) && rt_needs(r, Push, 1); }
    else if (!strcmp(q, "cat")) { nv = v + 100 * qa; needc = qa > -1000 && qa < 1000 && rt_in_range(nv) && rt_needs(r, Concat, 0); }
    else if (!strcmp(q, "resize")) { nv = qa; needc = rt_in_range(nv) && rt_needs(r, Resize, 0); }
    else if (!strcmp(q, "cmp") || !strcmp(q, "eq")) needc = o2 < MAXOB && rob[o2].live && rob[o2].ty == ob->ty;
    else if (!strcmp(q, "asg")) { needc = o2 < MAXOB && rob[o2].live && rob[o2].ty == ob->ty && o2 != oo && rt_in_range(rob[o2].v + 1); if (needc) nv = rt_needs(r, Assign, 0) ? rob[o2].v + 1 : rob[o2].v; }
    else if (!strcmp(q, "copy")) { needc = o2 < MAXOB && !rob[o2].live && o2 != oo && rt_in_range(v + 5); if (needc) nv = rt_needs(r, Copy, 0) ? v + 5 : rt_needs(r, Assign, 0) ? v + 1 : v; }
    else if (!strcmp(q, "impl")) needc = pc >= 0;
    else needc = 1;      /* hash show size cast: defined for every type */
    if (!needc) OOC();
    n_exec++; n_rt++;
    char outb[160]; outb[0] = 0; char wantb[160]; wantb[0] = 0;
    V_TRY(exc, {
      if (!strcmp(q, "cint")) { snprintf(outb, sizeof outb, "cint %lld", (long long)c_int(p)); snprintf(wantb, sizeof wantb, "cint %lld", v + (rt_decl(r, C_Int) == 18 ? 4000 : 2000)); }
      else if (!strcmp(q, "len")) { snprintf(outb, sizeof outb, "len %zu", len(p)); snprintf(wantb, sizeof wantb, "len %lld", v + (rt_decl(r, Len) == 17 ? 300 : 100)); }
      else if (!strcmp(q, "cstr")) { snprintf(outb, sizeof outb, "cstr %s", c_str(p)); snprintf(wantb, sizeof wantb, "cstr rt%lld", v); }
      else if (!strcmp(q, "cflt")) { snprintf(outb, sizeof outb, "cflt %lld", (long long)(c_float(p) * 4)); snprintf(wantb, sizeof wantb, "cflt %lld", 4 * v + 1); }
      else if (!strcmp(q, "mem")) { snprintf(outb, sizeof outb, "mem %d", (int)mem(p, $I(3))); snprintf(wantb, sizeof wantb, "mem %d", (int)(v & 1)); }
      else if (!strcmp(q, "get")) { snprintf(outb, sizeof outb, "get %d", get(p, $I(3)) == p); snprintf(wantb, sizeof wantb, "get 1"); }
      else if (!strcmp(q, "push")) { push(p, $I(qa)); snprintf(outb, sizeof outb, "push %lld", (long long)RV(p)); snprintf(wantb, sizeof wantb, "push %lld", nv); }
      else if (!strcmp(q, "pop")) { pop(p); snprintf(outb, sizeof outb, "pop %lld", (long long)RV(p)); snprintf(wantb, sizeof wantb, "pop %lld", nv); }
      else if (!strcmp(q, "cat")) { concat(p, $I(qa)); snprintf(outb, sizeof outb, "cat %lld", (long long)RV(p)); snprintf(wantb, sizeof wantb, "cat %lld", nv); }
      else if (!strcmp(q, "resize")) { resize(p, (size_t)qa); snprintf(outb, sizeof outb, "resize %lld", (long long)RV(p)); snprintf(wantb, sizeof wantb, "resize %lld", nv); }
      else if (!strcmp(q, "hash")) {
        uint64_t h = hash(p); int k = rt_decl(r, Hash);
        if (k >= 0) { snprintf(outb, sizeof outb, "hash %llu", (unsigned long long)h); snprintf(wantb, sizeof wantb, "hash %lld", v + (k == 16 ? 9000 : 7000)); }
        else { snprintf(wantb, sizeof wantb, "hash *");        /* the default: hash_data over size(T) bytes of the object */
               snprintf(outb, sizeof outb, h == hash_data(p, size(T)) ? "hash *" : "hash %llu", (unsigned long long)h); }
      }
      else if (!strcmp(q, "cmp") || !strcmp(q, "eq")) {
        long long w = rob[o2].v; int declared = rt_decl(r, Cmp) >= 0;
        int ws = declared ? (w < v ? -1 : w > v ? 1 : 0) : (v < w ? -1 : v > w ? 1 : 0);        /* default: memcmp over size(T) bytes, values 0..255 */
        if (q[0] == 'c') { int c = cmp(p, OB[o2]); snprintf(outb, sizeof outb, "cmp %d", c < 0 ? -1 : c > 0 ? 1 : 0); snprintf(wantb, sizeof wantb, "cmp %d", ws); }
        else { snprintf(outb, sizeof outb, "eq %d", (int)eq(p, OB[o2])); snprintf(wantb, sizeof wantb, "eq %d", (int)(v == w)); }
      }
      else if (!strcmp(q, "asg")) { assign(p, OB[o2]); snprintf(outb, sizeof outb, "asg %lld", (long long)RV(p)); snprintf(wantb, sizeof wantb, "asg %lld", nv); }
      else if (!strcmp(q, "show")) {
        var s = new(String, $S("")); show_to(p, s, 0); const char* cs = c_str(s);
        if (rt_needs(r, Show, 0)) { snprintf(outb, sizeof outb, "show %s", cs); snprintf(wantb, sizeof wantb, "show <rt %lld>", v); }
        else {     /* the default prints the type's name and the address: "<'Name' At 0x…>" — the address is masked */
          const char* at = strstr(cs, "' At 0x");
          if (at && cs[0] == '<' && cs[1] == '\'' && at - cs - 2 < 40) snprintf(outb, sizeof outb, "show <'%.*s' At *>", (int)(at - cs - 2), cs + 2);
          else snprintf(outb, sizeof outb, "show %.100s", cs);
          snprintf(wantb, sizeof wantb, "show <'%s' At *>", r->name);
        }
        del(s);
      }
      else if (!strcmp(q, "size")) { snprintf(outb, sizeof outb, "size %zu", size(type_of(p))); snprintf(wantb, sizeof wantb, "size %lld", rt_decl(r, Size) >= 0 ? 32LL : r->size); }
      else if (!strcmp(q, "impl")) { snprintf(outb, sizeof outb, "impl %d", (int)implements(p, rt_pcls[pc])); snprintf(wantb, sizeof wantb, "impl %d", rt_decl(r, rt_pcls[pc]) >= 0); }
      else if (!strcmp(q, "cast")) { snprintf(outb, sizeof outb, "cast %d", cast(p, T) == p); snprintf(wantb, sizeof wantb, "cast 1"); }
      else if (!strcmp(q, "copy")) {
        var c = copy(p);
        OB[o2] = c; rob[o2].live = 1; rob[o2].ty = ob->ty; rob[o2].mode = 0; rob[o2].v = nv;
        if (type_of(c) != T) XF("copy-type", "", r->name);
        snprintf(outb, sizeof outb, "copy %lld", (long long)RV(c)); snprintf(wantb, sizeof wantb, "copy %lld", nv);
      }
    });
    if (exc) { unexpected(exc); O("err %s", v_exc_name(exc)); return; }
    if (strcmp(q, "copy")) ob->v = nv;
    if (strcmp(outb, wantb)) { snprintf(e1, sizeof e1, "%.100s", outb); snprintf(e2, sizeof e2, "%.100s", wantb); XF("run-time-type-object", e1, e2); }
    if (RV(p) != ob->v) { snprintf(e1, sizeof e1, "%lld", (long long)RV(p)); snprintf(e2, sizeof e2, "%lld", ob->v); XF("object-value", e1, e2); }
    O("%s", outb); return;
  }
  if (!strcmp(op, "gc")) {
    if (nt != 1) BAD();
    n_exec++;
#ifndef CELLO_NGC
    GC_Mark(current(GC)); GC_Sweep(current(GC));
#endif
    s_audit("gc"); k_audit("gc");
    fprintf(vout, "T gc\n");
    /* every live handle must be intact after a collection */
    for (int s = 0; s < MAXSLOT; s++) if (LIVE(s)) check_obj(s, "gc");
    for (int s = 0; s < MAXT; s++) if (tsh[s].kind == K_TUPLE) check_tuple(s, "gc");
    for (int s = 0; s < MAXN; s++) if (xh[s].outer) x_check(s, "gc");
    for (int o = 0; o < MAXOB; o++) if (rob[o].live && !rty[rob[o].ty].bad && (RV(OB[o]) != rob[o].v || type_of(OB[o]) != TY[rob[o].ty])) XF("run-time-type-object-after-gc", "", "");
    return;
  }
  BAD();
}

int main(int argc, char** argv) {
  v_init();
  if (argc < 2) { fprintf(stderr, "usage: h_cfg <opfile>\n"); return 2; }
  var slots[MAXSLOT]; memset(slots, 0, sizeof slots); S = slots;
  var tslots[MAXT]; memset(tslots, 0, sizeof tslots); TS = tslots;
  var hslots[MAXH]; memset(hslots, 0, sizeof hslots); HH = hslots;
  var nslots_[MAXN]; memset(nslots_, 0, sizeof nslots_); NS = nslots_;
  var tyslots[MAXTY]; memset(tyslots, 0, sizeof tyslots); TY = tyslots;
  var obslots[MAXOB]; memset(obslots, 0, sizeof obslots); OB = obslots;
  rt_init();
  keep_fn = $(Function, keep_thread_fn);
  w_fn = $(Function, w_thread_fn);
  size_t n; char** lines = v_read_lines(argv[1], &n);
  I("cfg=%s opt=%s header=%zu cache=%d", VCFG, VOPT, sizeof(struct Header), (int)CELLO_CACHE_NUM);
  for (size_t li = 0; li < n; li++) {
    char* l = lines[li];
    if (v_skippable(l)) continue;
    cur_line = li + 1;
    char* toks[MAXTOK]; int nt = 0; char* p = l;
    while (*p && nt < MAXTOK) { while (*p == ' ') p++; if (!*p) break; toks[nt++] = p; while (*p && *p != ' ') p++; if (*p) *p++ = 0; }
    if (nt == 0 || (nt == MAXTOK && *p)) { O("bad-op"); n_bad++; continue; }
    deep_scrub();                  /* what the previous operation left in dead frames is not a reference the program holds */
    s_audit("before");
    run_op(nt, toks);
  }
  deep_scrub(); s_audit("end");
  /* teardown: the workload deletes what it created (nothing is freed for it under CELLO_NGC) */
  size_t live = 0;
  for (int s = 0; s < MAXSLOT; s++) if (LIVE(s)) { live++; check_obj(s, "end"); var exc; V_TRY(exc, del_by_mode(SG(s), sh[s].mode)); if (exc) unexpected(exc); S[s] = NULL; sroot[s] = 0; sh_free(&sh[s]); }
  size_t tlive = 0;
  for (int s = 0; s < MAXT; s++) if (tsh[s].kind == K_TUPLE) {
    tlive++; check_tuple(s, "end");
    var exc; V_TRY(exc, { foreach (x in TS[s]) { del(x); } del(TS[s]); }); if (exc) unexpected(exc);
    TS[s] = NULL; sh_free(&tsh[s]);
  }
  size_t nlive = 0;
  for (int s = 0; s < MAXN; s++) if (xh[s].outer) {
    nlive++;
    var exc; V_TRY(exc, { x_check(s, "end"); del(NS[s]); }); if (exc) unexpected(exc);
    NS[s] = NULL; memset(&xh[s], 0, sizeof xh[s]);
  }
  size_t hlive = 0;
  k_audit("end");
  for (int h = 0; h < MAXH; h++) if (kh[h].kind) {
    hlive++;
    if (!k_poisoned) { var exc; V_TRY(exc, k_delete_all(h)); if (exc) unexpected(exc); k_forget(h, 1); }
  }
  k_audit("teardown");
  /* run-time types: the objects first, then the types they belong to */
  size_t tylive = 0, oblive = 0;
  for (int o = 0; o < MAXOB; o++) if (rob[o].live) {
    oblive++;
    if (!rty[rob[o].ty].bad) { var exc; V_TRY(exc, del_by_mode(OB[o], rob[o].mode)); if (exc) unexpected(exc); }
    OB[o] = NULL;
  }
  for (int t = 0; t < MAXTY; t++) if (rty[t].live) {
    tylive++;
    if (!rty[t].bad) { var exc; V_TRY(exc, del_by_mode(TY[t], rty[t].mode)); if (exc) unexpected(exc); }
    TY[t] = NULL;
  }
  O("end live=%zu holders=%zu types=%zu objects=%zu", live, hlive, tylive, oblive);
  fprintf(vout, "T end tuples=%zu nested=%zu\n", tlive, nlive);
  I("worker-threads=%zu worker-values=%zu worker-seqs=%zu worker-maps=%zu", n_worker, n_worker_val, n_worker_seq, n_worker_map);
  I("executed=%zu out-of-contract=%zu bad=%zu oracle-failures=%zu keep-ops=%zu keep-reads=%zu high-slot-entries-read=%zu tracked=%d edits=%zu elem-edits=%zu nested-ops=%zu thread-runs=%zu rt-ops=%zu", n_exec, n_ooc, n_bad, n_x, n_keep, n_keep_reads, n_high, led_top, n_ed, n_ed_elem, n_nested, n_thread_runs, n_rt);
  return 0;
}
