/* harness/h_seq.c — engine `seq` (C04): Array, List and Tuple behave as sequences.
 *
 * Executes an op file on the real containers (unity build: white-box access to struct Array / struct List / struct Tuple)
 * and prints, for every op, one `O <cmd> <result> | <canonical dump of the concrete representation>` line that the Lean
 * driver (lean/Driver/Seq.lean, model lean/Cello/Seq.lean + Sort.lean) must reproduce verbatim, and `X sig=… line=… what=…`
 * whenever the DIRECT ORACLE — a plain reference C array per container, updated by the textbook meaning of each
 * operation — disagrees with the implementation: contents and order after every op (white-box), len, get with every
 * positive and negative index (sampled when long), mem, iteration in both directions through the public iterator
 * protocol, permutation + order after sort, first-equal removal for rem, the expected exception for out-of-range
 * arguments, nitems <= nslots, List back links.
 *
 * op file (slots 0..15; <e> = integer value, or id:value for Tuple elements; <i> = integer index):
 *   new <slot> <A|L|T|AS|LS> <e>*      del <slot>           copy <slot> <src>        dump on|off
 *   layout <slot>                       (Arrays: element size, header, pointer size, rounded size, stride, offset of element nitems, the record
 *                                       Array_Alloc zeroes there and where it puts the header, bytes of the block)
 *   push <slot> <e>     pop <slot>      pushat <slot> <e> <i>      popat <slot> <i>      append <slot> <e>
 *   get <slot> <i>      set <slot> <i> <e>     mem <slot> <v>      rem <slot> <v>        len <slot>
 *   concat <slot> <src>     assign <slot> <src>     resize <slot> <n>     sort <slot> <0|1|2|3>     iter <slot>
 *   assign <dst> <src> between Array / List kinds of DIFFERENT element types: the target takes over the element type of the source
 *                                       (Array_Assign / List_Assign set type = iter_type(obj)) and is dumped as that kind from then on
 *   assign <slot> <slot>                (assign(x, x): since fix a3140e4 a no-op for Array and List; Tuple re-stores its own cells)
 *   assignf <slot> <src> <0|1|2>        (assign(x, filter(src, p)): an iterator-only source — no Len, no Get; p = 0 keeps every
 *                                       element, 1 the even values, 2 none.  Array: clear + push each; List: ClassError after the
 *                                       clear; Tuple: items are APPENDED (known finding KF-C04-tuple-assign-iter unless it is empty))
 *   pushelem <slot> <k>                 (push(x, get(x, k)): the argument is the container's own element)
 *   pushatelem <slot> <k> <i>           (push_at(x, get(x, k), i).  For an Array both print `own-refused` and do nothing when the
 *                                       call is in the territory of known finding KF-C04-push-own-element: the Array would
 *                                       have to grow (realloc moves the block the argument points into) or, for push_at, k >= i
 *                                       after normalisation (the argument is read after the memmove and the zeroing of record i);
 *                                       for a Tuple the pointer is already inside: `dup-refused`)
 *   kf13 <id:value>                     (known finding F13: a Tuple holding one pointer twice; runs in a forked child)
 *   kfself <assign|concat> <A|AR|L|T> <e>*   (aliased arguments op(x, x) on a fresh container with these elements, in a forked
 *                                       child; AR = Array whose capacity was reserved to 2*len first; prints `ret <dump>` |
 *                                       `diverges` | `ub`.  concat: known finding KF-C04-self-concat; assign: regression
 *                                       witness of fix a3140e4, a wrong result is an ordinary violation `C04-self-assign`)
 *   kfown <push|pushat> <nslots> <k> <i> <e>*   (known finding KF-C04-push-own-element: on a fresh Array<Int> with these elements
 *                                       and capacity max(len, nslots): push(a, get(a, k)) / push_at(a, get(a, k), i) (i is
 *                                       ignored for push), in a forked child; prints `ret <dump>` | `ub`)
 *   setelem <slot> <i> <k>             (set(x, i, get(x, k)): nothing moves; for i = k the element is assigned to itself — String_Assign(s, s)
 *                                       is a no-op since fix 744a45f; Tuple: a pointer may only replace itself, else `dup-refused`)
 *   remelem <slot> <k>    memelem <slot> <k>    (rem(x, get(x, k)) / mem(x, get(x, k)))
 *   concatelems <slot> <k1> <k2>        (concat(x, tuple(get(x, k1), get(x, k2))): the operand holds pointers to x's own elements.  Array:
 *                                       `own-refused` when it would have to grow (known finding KF-C04-push-own-element, site
 *                                       Array_Concat: realloc before the operand is read); List: always executed; Tuple: `dup-refused`)
 *   kfown <concat|assign|lassign> <nslots> <k1> <k2> <e>*   (same finding, in a forked child: concat / assign(a, tuple(get(a, k1), get(a, k2)))
 *                                       on a fresh Array<Int>, lassign: assign on a fresh List<Int>; assign frees the block / the nodes first)
 *   kfraw <n> <e>*                      (known finding KF-C04-list-resize-raw, forked child: fresh List<String>, resize(l, n), then
 *                                       mem(l, absent): beyond the length the List links calloc'ed records with a NULL buffer)
 * kinds A12 / A5 = Array of 12-byte / 5-byte records (file-scope types Rec12 / Rec5: own Cmp, no Swap, no Assign, sizes
 * that are not a multiple of the machine word, so the default byte-wise swap/assign paths and the rounded Array stride are
 * exercised); an integer v is encoded in the whole record (redundantly: a trailing check field), a record whose fields do
 * not belong together decodes to a value below -2^50, which no reference array ever holds.
 * kind TK = a Tuple that is NOT on the heap (header alloc = AllocStack, as `tuple(...)` makes): same elements as T; every op that would
 * reallocate its block (push, append, pop, pushat, popat, rem, concat, assign, assignf, resize, pushelem, pushatelem) must raise — its own
 * bounds error where the C code tests that first, else ValueError — and leave the Tuple as it was; no dup refusals (nothing is stored).
 * kinds: A = Array of Int, L = List of Int, T = heap Tuple of Int objects (identity = id), AS / LS = Array / List of String
 * (value v in 0..9999999 is the string "k%07d": strcmp order = numeric order).
 * comparators: 0 = sort() i.e. lt on the whole value, 1 = key(a) < key(b), 2 = key(a) > key(b), 3 = key(a) <= key(b),
 * key(v) = floor(v / 256): the low 8 bits are a tag that makes the instability of the quicksort visible.
 * Tuple rule shared with the driver: an op that would store an id already present in that Tuple prints `dup-refused`
 * and is not executed (F13 territory); `set` may store the pointer the cell already holds.
 * The driver dumps the STORE-LEVEL model (lean/Cello/SeqStore.lean): cells in use + capacity for Arrays, the node chain read along
 * next with the same link checks as read_rep() below for Lists (BADLINKS otherwise), the cell block up to Terminal for Tuples.   */
#include "common.h"
#include <signal.h>
#include <inttypes.h>
#include <errno.h>
#include <fcntl.h>
#include <sys/time.h>

#define NSLOT 16
#define MAXOBJ (1 << 20)
#define STRMAX 9999999
#define SHOWMAX 24
#define HP 4294967291ULL
#define ABSENT 7777777       /* a value the generators never use (fits the String encoding) */

enum { K_NONE, K_A, K_L, K_T, K_AS, K_LS, K_A12, K_A5, K_NKIND };
static const char* kind_name[] = { "-", "A", "L", "T", "AS", "LS", "A12", "A5" };
typedef struct { int64_t val; int64_t id; } Ent;          /* id = -1 for value elements */
typedef struct { int kind; int gc; int stk; var obj; Ent* ref; size_t n, cap; } Slot;   /* stk: Tuple not on the heap (kind K_T) */

static Slot* SL;                 /* points to main's local array: GC-managed copies stay visible to the stack scan */
static int dump_on = 1;
static size_t cur_line = 0, opcount = 0;
static size_t st_ops, st_err, st_maxn, st_grow, st_shrink, st_sort, st_xs, st_layout;

/* ---- Tuple element objects: Int objects with identity, carved from one block so that pointer -> id is arithmetic ---- */
typedef struct { struct Header h; struct Int i; } PoolObj;
static PoolObj* pool; static char* pool_used;
static var pool_obj(int64_t id, int64_t val, int* fresh_conflict) {
  if (!pool) { pool = calloc(MAXOBJ, sizeof(PoolObj)); pool_used = calloc(MAXOBJ, 1); }
  if (!pool_used[id]) { struct Int* p = header_init(&pool[id].h, Int, AllocData); p->val = val; pool_used[id] = 1; }
  if (pool[id].i.val != val) { *fresh_conflict = 1; }
  return &pool[id].i;
}
static int64_t pool_id(var p) {
  if (!pool || (char*)p < (char*)pool || (char*)p >= (char*)(pool + MAXOBJ)) return -2;
  size_t off = (char*)p - (char*)pool;
  if (off % sizeof(PoolObj) != offsetof(PoolObj, i)) return -2;
  return (int64_t)(off / sizeof(PoolObj));
}

static int is_str(int k) { return k == K_AS || k == K_LS; }
static int is_arr(int k) { return k == K_A || k == K_AS || k == K_A12 || k == K_A5; }
static int is_rec(int k) { return k == K_A12 || k == K_A5; }
#define R5MAX 8388607LL
#define CORRUPT (-(1LL << 50))

/* ---- record element types whose size is not a multiple of the word size ---- */
struct Rec12 { int32_t key; int32_t lo; int32_t chk; };                 /* v = key * 65536 + lo, chk = check field */
struct Rec5 { uint8_t b[5]; };                                           /* v + 2^23 big-endian in b[0..2], check in b[3..4] */
static int64_t fdiv(int64_t v, int64_t d) { int64_t q = v / d; if ((v % d) && ((v < 0) != (d < 0))) q--; return q; }
static uint32_t chk_of(int64_t v) { return (uint32_t)((((uint64_t)v * 2654435761ULL) >> 9) & 0x7fffffffULL); }
static void rec12_enc(struct Rec12* r, int64_t v) { r->key = (int32_t)fdiv(v, 65536); r->lo = (int32_t)(v - (int64_t)r->key * 65536); r->chk = (int32_t)chk_of(v); }
static int64_t rec12_dec(const struct Rec12* r) {
  int64_t v = (int64_t)r->key * 65536 + r->lo;
  if (r->lo < 0 || r->lo > 65535 || (uint32_t)r->chk != chk_of(v)) return CORRUPT - (((int64_t)(uint32_t)r->chk) & 0xffff) - 1;
  return v;
}
static void rec5_enc(struct Rec5* r, int64_t v) { uint32_t u = (uint32_t)(v + R5MAX + 1); uint32_t c = chk_of(v) & 0xffff;
  r->b[0] = (u >> 16) & 255; r->b[1] = (u >> 8) & 255; r->b[2] = u & 255; r->b[3] = (c >> 8) & 255; r->b[4] = c & 255; }
static int64_t rec5_dec(const struct Rec5* r) {
  int64_t v = (int64_t)(((uint32_t)r->b[0] << 16) | ((uint32_t)r->b[1] << 8) | r->b[2]) - R5MAX - 1;
  uint32_t c = ((uint32_t)r->b[3] << 8) | r->b[4];
  if (c != (chk_of(v) & 0xffff)) return CORRUPT - (int64_t)c - 1;
  return v;
}
static int Rec12_Cmp(var self, var obj) { int64_t a = rec12_dec(self), b = rec12_dec(obj); return a > b ? 1 : a < b ? -1 : 0; }
static int Rec5_Cmp(var self, var obj) { int64_t a = rec5_dec(self), b = rec5_dec(obj); return a > b ? 1 : a < b ? -1 : 0; }
var Rec12 = Cello(Rec12, Instance(Cmp, Rec12_Cmp));
var Rec5 = Cello(Rec5, Instance(Cmp, Rec5_Cmp));
static int is_lst(int k) { return k == K_L || k == K_LS; }

/* value of an element object of any of the kinds */
static int64_t ev(var x) {
  if (type_of(x) is Int) return ((struct Int*)x)->val;
  if (type_of(x) is Rec12) return rec12_dec(x);
  if (type_of(x) is Rec5) return rec5_dec(x);
  if (type_of(x) is String) { char* s = ((struct String*)x)->val; return s && s[0] == 'k' ? atoll(s + 1) : -1; }
  return -999;
}
static int64_t key_of(int64_t v) { return v >= 0 ? v / 256 : -((-v + 255) / 256); }
static bool f_key_lt(var a, var b) { return key_of(ev(a)) <  key_of(ev(b)); }
static bool f_key_gt(var a, var b) { return key_of(ev(a)) >  key_of(ev(b)); }
static bool f_key_le(var a, var b) { return key_of(ev(a)) <= key_of(ev(b)); }

/* ---- parsing ---- */
static int parse_i64(const char* s, int64_t* out) {
  if (!*s) return 0; char* e; errno = 0; long long v = strtoll(s, &e, 10);
  if (*e || errno) return 0;
  /* canonical decimal only (the driver uses String.toInt?) */
  const char* p = s; if (*p == '-') p++; if (!*p) return 0; for (; *p; p++) if (*p < '0' || *p > '9') return 0;
  *out = v; return 1;
}
static int parse_nat(const char* s, int64_t* out) { return parse_i64(s, out) && s[0] != '-' && *out >= 0; }
/* element token for a container of kind k: `v`, or `id:v` for T */
static int parse_elem(int k, const char* s, Ent* e) {
  if (k == K_T) {
    const char* c = strchr(s, ':'); if (!c) return 0;
    char idb[32]; size_t l = c - s; if (l == 0 || l >= sizeof idb) return 0; memcpy(idb, s, l); idb[l] = 0;
    if (!parse_nat(idb, &e->id) || e->id >= MAXOBJ) return 0;
    if (!parse_i64(c + 1, &e->val)) return 0;
    if (e->val < -1000000000000LL || e->val > 1000000000000LL) return 0;
    int conflict = 0; pool_obj(e->id, e->val, &conflict); if (conflict) return 0;
    return 1;
  }
  e->id = -1;
  if (!parse_i64(s, &e->val)) return 0;
  if (is_str(k)) return e->val >= 0 && e->val <= STRMAX;
  if (k == K_A5) return e->val >= -R5MAX - 1 && e->val <= R5MAX;
  return e->val >= -1000000000000LL && e->val <= 1000000000000LL;
}
static int parse_val(int k, const char* s, int64_t* v) {   /* probe value for mem / rem */
  if (!parse_i64(s, v)) return 0;
  if (is_str(k)) return *v >= 0 && *v <= STRMAX;
  if (k == K_A5) return *v >= -R5MAX - 1 && *v <= R5MAX;
  return *v >= -1000000000000LL && *v <= 1000000000000LL;
}

/* a Cello object to pass as element / probe; valid until the next call with the same `which` */
static char strbuf[4][16];
static var mk_arg(int k, Ent e, int which, struct Int* ibuf, struct String* sbuf, char* rbuf) {
  if (k == K_A12) { struct Rec12* r = header_init(rbuf, Rec12, AllocStack); rec12_enc(r, e.val); return r; }
  if (k == K_A5) { struct Rec5* r = header_init(rbuf, Rec5, AllocStack); rec5_enc(r, e.val); return r; }
  if (k == K_T) { int c = 0; return pool_obj(e.id, e.val, &c); }
  if (is_str(k)) { snprintf(strbuf[which], sizeof strbuf[which], "k%07" PRId64, e.val); sbuf->val = strbuf[which]; return sbuf; }
  ibuf->val = e.val; return ibuf;
}
/* stack objects with headers for arguments */
#define ARG_DECL(n) struct Int* n##_i = $I(0); struct String* n##_s = $S(""); char n##_r[sizeof(struct Header) + 16] __attribute__((aligned(8)))
#define ARG(n, k, e, which) mk_arg(k, e, which, n##_i, n##_s, n##_r)

/* ---- reference array ---- */
static void entcpy(Ent* d, const Ent* s, size_t n) { if (n) memcpy(d, s, n * sizeof(Ent)); }
static void ref_reserve(Slot* s, size_t n) { if (!s->ref || n > s->cap) { s->cap = n * 2 + 8; s->ref = realloc(s->ref, s->cap * sizeof(Ent)); } }
static void ref_insert(Slot* s, size_t k, Ent e) { ref_reserve(s, s->n + 1); memmove(s->ref + k + 1, s->ref + k, (s->n - k) * sizeof(Ent)); s->ref[k] = e; s->n++; }
static void ref_erase(Slot* s, size_t k) { memmove(s->ref + k, s->ref + k + 1, (s->n - k - 1) * sizeof(Ent)); s->n--; }
static int ref_idx(size_t n, int64_t i, size_t* k) {
  if (i >= 0 && i < (int64_t)n) { *k = (size_t)i; return 1; }
  if (i < 0 && -(int64_t)n <= i) { *k = (size_t)((int64_t)n + i); return 1; }
  return 0;
}
static int ref_has_id(Slot* s, int64_t id) { for (size_t i = 0; i < s->n; i++) if (s->ref[i].id == id) return 1; return 0; }

/* ---- white-box read of the concrete representation ---- */
static Ent* cur; static size_t cur_n, cur_cap; static size_t cur_nslots; static int links_ok; static size_t cnt_field;
static void cur_push(Ent e) { if (cur_n == cur_cap) { cur_cap = cur_cap * 2 + 64; cur = realloc(cur, cur_cap * sizeof(Ent)); } cur[cur_n++] = e; }
static Ent ent_of(int k, var x) { Ent e; if (k == K_T) { e.id = pool_id(x); e.val = e.id >= 0 ? ((struct Int*)x)->val : -999; } else { e.id = -1; e.val = ev(x); } return e; }
static void read_rep(Slot* s) {
  cur_n = 0; links_ok = 1; cur_nslots = 0;
  if (is_arr(s->kind)) {
    struct Array* a = s->obj; cur_nslots = a->nslots; cnt_field = a->nitems;
    for (size_t i = 0; i < a->nitems; i++) cur_push(ent_of(s->kind, Array_Item(a, i)));
  } else if (is_lst(s->kind)) {
    struct List* l = s->obj; cnt_field = l->nitems;
    size_t guard = l->nitems + 2; var it = l->head; var last = NULL;
    if (l->head && *List_Prev(l, l->head) != NULL) links_ok = 0;
    while (it && guard--) { cur_push(ent_of(s->kind, it)); last = it; it = *List_Next(l, it); }
    if (it) links_ok = 0;
    if (last != l->tail) links_ok = 0;
    /* backward walk must be the reverse */
    size_t k = cur_n; it = l->tail; guard = l->nitems + 2;
    while (it && guard--) { if (k == 0) { links_ok = 0; break; } k--; Ent e = ent_of(s->kind, it); if (e.val != cur[k].val) links_ok = 0; it = *List_Prev(l, it); }
    if (k != 0 || it) links_ok = 0;
    if (cur_n != l->nitems) links_ok = 0;
  } else {
    struct Tuple* t = s->obj; size_t i = 0;
    while (t->items && t->items[i] isnt Terminal && i < 50000000) { cur_push(ent_of(K_T, t->items[i])); i++; }
    cnt_field = i;
  }
}

static uint64_t enc(Ent e) {
  int64_t m = e.val % (int64_t)HP; if (m < 0) m += (int64_t)HP;
  uint64_t r = (uint64_t)m;
  if (e.id >= 0) r = (r + ((uint64_t)e.id * 7919ULL) % HP) % HP;
  return r;
}
static size_t fmt_ent(char* b, size_t cap, Ent e) {
  if (e.id >= 0) return snprintf(b, cap, "%" PRId64 ":%" PRId64, e.id, e.val);
  if (e.id == -2) return snprintf(b, cap, "?:%" PRId64, e.val);
  return snprintf(b, cap, "%" PRId64, e.val);
}
/* "[e0 e1 ...]" or, when long, "[first 8 ... last 8] h=<hash>" */
static size_t fmt_seq(char* b, size_t cap, Ent* xs, size_t n) {
  size_t o = 0; o += snprintf(b + o, cap - o, "[");
  if (n <= SHOWMAX) {
    for (size_t i = 0; i < n; i++) { if (i) b[o++] = ' '; o += fmt_ent(b + o, cap - o, xs[i]); }
    o += snprintf(b + o, cap - o, "]");
  } else {
    for (size_t i = 0; i < 8; i++) { if (i) b[o++] = ' '; o += fmt_ent(b + o, cap - o, xs[i]); }
    o += snprintf(b + o, cap - o, " ...");
    for (size_t i = n - 8; i < n; i++) { b[o++] = ' '; o += fmt_ent(b + o, cap - o, xs[i]); }
    uint64_t h = 0; for (size_t i = 0; i < n; i++) h = (h * 1000003ULL + enc(xs[i])) % HP;
    o += snprintf(b + o, cap - o, "] h=%" PRIu64, h);
  }
  return o;
}
static char linebuf[8192];
static size_t fmt_dump(char* b, size_t cap, Slot* s) {   /* uses cur (read_rep) */
  size_t o = 0;
  if (is_arr(s->kind)) o += snprintf(b + o, cap - o, "%s n=%zu s=%zu ", kind_name[s->kind], cnt_field, cur_nslots);
  else o += snprintf(b + o, cap - o, "%s n=%zu ", s->stk ? "TK" : kind_name[s->kind], cnt_field);
  o += fmt_seq(b + o, cap - o, cur, cur_n);
  if (!links_ok) o += snprintf(b + o, cap - o, " BADLINKS");
  return o;
}

#define XF(sig, ...) do { char xb_[600]; snprintf(xb_, sizeof xb_, __VA_ARGS__); X("sig=%s line=%zu what=%s", sig, cur_line, xb_); st_xs++; } while (0)

/* ---- direct oracle on the public interface ---- */
static int same_ent(int k, Ent a, Ent b) { return a.val == b.val && (k != K_T || a.id == b.id); }

static int quiet_api = 0;
static void api_checks(Slot* s, int force_iter) {
  var exc; size_t n = s->n; int k = s->kind;
  volatile size_t L = 0;
  V_TRY(exc, L = len(s->obj));
  if (exc || L != n) XF("C04-len", "len=%zu expected %zu exc=%s", (size_t)L, n, v_exc_name(exc));
  /* get with positive and negative indices */
  int64_t idxs[80]; size_t ni = 0;
  if (n <= 32) { for (int64_t i = -(int64_t)n; i < (int64_t)n; i++) idxs[ni++] = i; }
  else {
    int64_t fixed[] = { 0, 1, (int64_t)n / 2, (int64_t)n / 2 + 1, (int64_t)n - 2, (int64_t)n - 1, -1, -2, -(int64_t)n, -(int64_t)n + 1 };
    for (size_t j = 0; j < sizeof fixed / sizeof fixed[0]; j++) idxs[ni++] = fixed[j];
    for (int j = 0; j < 6; j++) idxs[ni++] = (int64_t)(v_rand() % (2 * n)) - (int64_t)n;
  }
  for (size_t j = 0; j < ni; j++) {
    int64_t i = idxs[j]; size_t kpos; if (!ref_idx(n, i, &kpos)) continue;
    var e = NULL; V_TRY(exc, e = get(s->obj, $I(i)));
    if (exc) { XF("C04-get", "get(%" PRId64 ") raised %s on length %zu", i, v_exc_name(exc), n); continue; }
    Ent g = ent_of(k, e);
    if (!same_ent(k, g, s->ref[kpos])) XF("C04-get", "get(%" PRId64 ") = %" PRId64 " expected %" PRId64 " (length %zu)", i, g.val, s->ref[kpos].val, n);
  }
  { var e = NULL; V_TRY(exc, e = get(s->obj, $I((int64_t)n))); if (exc != IndexOutOfBoundsError) XF("C04-get-range", "get(len) did not raise IndexOutOfBoundsError (%s)", v_exc_name(exc));
    V_TRY(exc, e = get(s->obj, $I(-(int64_t)n - 1))); if (exc != IndexOutOfBoundsError) XF("C04-get-range", "get(-len-1) did not raise IndexOutOfBoundsError (%s)", v_exc_name(exc)); (void)e; }
  /* mem: one present value, one absent value (Tuple_Mem walks by identity: quadratic, so only when short or forced) */
  int do_mem = (k != K_T) || n <= 200 || force_iter;
  if (do_mem) {
    ARG_DECL(p); volatile bool m = false;
    if (n > 0) { Ent pr = s->ref[v_rand() % n]; pr.id = -1; int pk = k == K_T ? K_A : k;
      V_TRY(exc, m = mem(s->obj, ARG(p, pk, pr, 0))); if (exc || !m) XF("C04-mem", "mem(%" PRId64 ") = %d exc=%s but the value is present", pr.val, (int)m, v_exc_name(exc)); }
    Ent ab = { ABSENT, -1 }; int pk = k == K_T ? K_A : k; m = true;
    V_TRY(exc, m = mem(s->obj, ARG(p, pk, ab, 0))); if (exc || m) XF("C04-mem", "mem(absent) = %d exc=%s", (int)m, v_exc_name(exc));
  }
  /* iteration both ways through the public protocol */
  size_t itmax = k == K_T ? 300 : 64;
  if (n <= itmax || force_iter) {
    size_t c = 0; int bad = 0; var it = NULL;
    V_TRY(exc, {
      for (it = iter_init(s->obj); it isnt Terminal && c <= n; it = iter_next(s->obj, it)) {
        if (c < n && !same_ent(k, ent_of(k, it), s->ref[c])) bad = 1; c++; } });
    if (exc || bad || c != n) XF("C04-iter", "forward iteration: %zu items (expected %zu)%s exc=%s", c, n, bad ? ", wrong element" : "", v_exc_name(exc));
    c = 0; bad = 0;
    V_TRY(exc, {
      for (it = iter_last(s->obj); it isnt Terminal && c <= n; it = iter_prev(s->obj, it)) {
        if (c < n && !same_ent(k, ent_of(k, it), s->ref[n - 1 - c])) bad = 1; c++; } });
    if (exc || bad || c != n) XF("C04-iter", "backward iteration: %zu items (expected %zu)%s exc=%s", c, n, bad ? ", wrong element" : "", v_exc_name(exc));
  }
}

static int cmp_ent(const void* a, const void* b) {
  const Ent* x = a; const Ent* y = b;
  if (x->val != y->val) return x->val < y->val ? -1 : 1;
  if (x->id != y->id) return x->id < y->id ? -1 : 1;
  return 0;
}

/* after the op: read the representation, compare with the reference, run the interface checks */
static void check_state(Slot* s, int sorted_by, int force_iter) {
  read_rep(s);
  if (!links_ok) XF("C04-list-links", "List links inconsistent (nitems field %zu, forward walk %zu)", cnt_field, cur_n);
  if (is_arr(s->kind)) {
    struct Array* a = s->obj;
    if (a->nitems > a->nslots) XF("C04-capacity", "nitems %zu > nslots %zu", a->nitems, a->nslots);
    if (a->nslots > 0 && a->data == NULL) XF("C04-capacity", "nslots %zu with NULL data", a->nslots);
  }
  if (sorted_by >= 0) {
    /* permutation of the previous contents, ordered by the comparator */
    int perm = cur_n == s->n;
    if (perm) {
      Ent* a = malloc((cur_n + 1) * sizeof(Ent)); Ent* b = malloc((cur_n + 1) * sizeof(Ent));
      entcpy(a, cur, cur_n); entcpy(b, s->ref, cur_n);
      qsort(a, cur_n, sizeof(Ent), cmp_ent); qsort(b, cur_n, sizeof(Ent), cmp_ent);
      perm = memcmp(a, b, cur_n * sizeof(Ent)) == 0; free(a); free(b);
    }
    if (!perm) XF("C04-sort-perm", "sort did not leave a permutation (%zu -> %zu items)", s->n, cur_n);
    for (size_t i = 0; i + 1 < cur_n; i++) {
      int64_t x = cur[i].val, y = cur[i + 1].val; int bad;
      switch (sorted_by) { case 0: bad = y < x; break; case 2: bad = key_of(y) > key_of(x); break; default: bad = key_of(y) < key_of(x); }
      if (bad) { XF("C04-sort-order", "after sort(%d) position %zu holds %" PRId64 " before %" PRId64, sorted_by, i, x, y); break; }
    }
    ref_reserve(s, cur_n); entcpy(s->ref, cur, cur_n); s->n = cur_n;
  } else {
    int bad = cur_n != s->n; size_t at = 0;
    for (size_t i = 0; !bad && i < cur_n; i++) if (!same_ent(s->kind, cur[i], s->ref[i])) { bad = 1; at = i; }
    if (bad) {
      XF("C04-contents", "contents differ from the abstract sequence: %zu items (expected %zu), first difference at %zu", cur_n, s->n, at);
      /* resynchronise so that one defect is reported once */
      ref_reserve(s, cur_n); entcpy(s->ref, cur, cur_n); s->n = cur_n;
    }
  }
  if (!quiet_api) api_checks(s, force_iter);
  if (s->n > st_maxn) st_maxn = s->n;
}

static void emit(const char* cmd, const char* res, Slot* s) {
  if (s && dump_on) { size_t o = snprintf(linebuf, sizeof linebuf, "%s %s | ", cmd, res); fmt_dump(linebuf + o, sizeof linebuf - o, s); O("%s", linebuf); }
  else O("%s %s", cmd, res);
}
static const char* res_of(var exc, char* buf, size_t cap) {
  if (exc) { snprintf(buf, cap, "err=%s", v_exc_name(exc)); st_err++; return buf; }
  return "ok";
}
static void expect_exc(const char* cmd, var got, var want) {
  if (got != want) XF("C04-outcome", "%s: raised %s, the abstract operation %s%s", cmd, v_exc_name(got), want ? "is out of range: expected " : "is in range: expected no exception", want ? v_exc_name(want) : "");
}

/* ---- container construction ---- */
static var new_container(int k, Ent* es, size_t n) {
  var* items = malloc((n + 2) * sizeof(var)); size_t c = 0;
  var* tmp = malloc((n + 1) * sizeof(var));
  char sb[16];
  if (k != K_T) items[c++] = is_str(k) ? String : k == K_A12 ? Rec12 : k == K_A5 ? Rec5 : Int;
  for (size_t i = 0; i < n; i++) {
    if (k == K_T) { int cf = 0; tmp[i] = pool_obj(es[i].id, es[i].val, &cf); }
    else if (is_str(k)) { snprintf(sb, sizeof sb, "k%07" PRId64, es[i].val); tmp[i] = new_raw(String, $S(sb)); }
    else if (k == K_A12) { tmp[i] = alloc_raw(Rec12); rec12_enc(tmp[i], es[i].val); }
    else if (k == K_A5) { tmp[i] = alloc_raw(Rec5); rec5_enc(tmp[i], es[i].val); }
    else tmp[i] = new_raw(Int, $I(es[i].val));
    items[c++] = tmp[i];
  }
  items[c] = Terminal;
  struct Tuple* args = new_raw(Tuple);
  free(args->items); args->items = items;
  var obj = new_raw_with(k == K_T ? Tuple : is_arr(k) ? Array : List, args);
  del_raw(args);                               /* frees `items` */
  if (k != K_T) for (size_t i = 0; i < n; i++) { if (is_rec(k)) dealloc_raw(tmp[i]); else del_raw(tmp[i]); }
  free(tmp);
  return obj;
}

/* a Tuple that is not on the heap: header with AllocStack (what the `tuple(...)` macro builds), items in a block of its own */
typedef struct { struct Header h; struct Tuple t; } StackTuple;
static var new_stack_tuple(Ent* es, size_t n) {
  StackTuple* b = calloc(1, sizeof *b);
  struct Tuple* t = header_init(&b->h, Tuple, AllocStack);
  t->items = malloc((n + 1) * sizeof(var));
  for (size_t i = 0; i < n; i++) { int cf = 0; t->items[i] = pool_obj(es[i].id, es[i].val, &cf); }
  t->items[n] = Terminal;
  return t;
}

/* ---- known finding F13 in a forked child ---- */
static void run_kf13(Ent e) {
  int pf[2]; if (pipe(pf)) { perror("pipe"); exit(2); }
  fflush(stdout);
  pid_t pid = fork();
  if (pid == 0) {
    close(pf[0]); alarm(5);
    int cf = 0; var x = pool_obj(e.id, e.val, &cf);
    var t = new_raw(Tuple); push(t, x); push(t, x);
    size_t c = 0; for (var it = iter_init(t); it isnt Terminal && c < 1000; it = iter_next(t, it)) c++;
    char b[32]; int l = snprintf(b, sizeof b, "%zu", c); if (write(pf[1], b, l) < 0) {}
    _exit(0);
  }
  close(pf[1]); char b[32] = {0}; ssize_t r = read(pf[0], b, sizeof b - 1); close(pf[0]); (void)r;
  int st; waitpid(pid, &st, 0);
  size_t c = strtoul(b, NULL, 10);
  if (!WIFEXITED(st) || c >= 1000) {
    O("kf13 fwd=diverges");
    X("sig=KF-C04-tuple-dup-iter line=%zu what=foreach over a Tuple holding the same pointer twice does not terminate (%s)", cur_line, WIFEXITED(st) ? "1000 steps without Terminal" : "killed");
  } else {
    O("kf13 fwd=%zu", c);
    if (c != 2) X("sig=C04-iter line=%zu what=Tuple [x, x] iterates %zu items", cur_line, c);
  }
}

/* ---- known findings KF-C04-self-assign / KF-C04-self-concat: aliased arguments, in a forked child ---- */
static void run_kfself(int isc, int k, int reserve, Ent* es, size_t n) {
  int pf[2]; if (pipe(pf)) { perror("pipe"); exit(2); }
  fflush(stdout);
  pid_t pid = fork();
  if (pid == 0) {
    close(pf[0]);
    int devnull = open("/dev/null", O_WRONLY); if (devnull >= 0) dup2(devnull, 2);   /* the sanitizer report is expected */
    /* List_Concat(l, l) allocates for ever: stop it after 0.3 s of its own CPU time (a wall-clock limit would also
       hit a child that is merely waiting for the sanitizer's symbolizer on a loaded machine); wall-clock backstop 30 s */
    struct itimerval tv = { {0, 0}, {0, 300000} }; setitimer(ITIMER_PROF, &tv, NULL); alarm(30);
    Slot s; memset(&s, 0, sizeof s); s.kind = k;
    s.obj = new_container(k, es, n);
    if (reserve && n > 0) resize(s.obj, 2 * n);
    var exc; if (isc) V_TRY(exc, concat(s.obj, s.obj)); else V_TRY(exc, assign(s.obj, s.obj));
    tv.it_value.tv_usec = 0; setitimer(ITIMER_PROF, &tv, NULL); alarm(0);
    char b[4096]; size_t o = 0;
    if (exc) o = snprintf(b, sizeof b, "err=%s", v_exc_name(exc));
    else { read_rep(&s); o = fmt_dump(b, sizeof b, &s); }
    if (write(pf[1], b, o) < 0) {}
    _exit(0);
  }
  close(pf[1]); static char b[4200]; size_t got = 0; ssize_t r;
  while ((r = read(pf[0], b + got, sizeof b - 1 - got)) > 0) got += r; b[got] = 0; close(pf[0]);
  int st; waitpid(pid, &st, 0);
  const char* opn = isc ? "concat" : "assign"; const char* kn = reserve ? "AR" : kind_name[k];
  const char* sig = isc ? "KF-C04-self-concat" : "C04-self-assign";      /* assign(x, x) was repaired (a3140e4): a wrong result is an ordinary violation */
  if (WIFSIGNALED(st) && (WTERMSIG(st) == SIGPROF || WTERMSIG(st) == SIGALRM)) {
    O("kfself %s %s diverges", opn, kn);
    X("sig=%s line=%zu what=%s(x, x) on a %s of %zu elements does not terminate", sig, cur_line, opn, kn, n);
  } else if (!WIFEXITED(st) || WEXITSTATUS(st) != 0) {
    O("kfself %s %s ub", opn, kn);
    X("sig=%s line=%zu what=%s(x, x) on a %s of %zu elements leaves the object (%s %d)", sig, cur_line, opn, kn, n,
      WIFEXITED(st) ? "sanitizer exit status" : "signal", WIFEXITED(st) ? WEXITSTATUS(st) : WTERMSIG(st));
  } else {
    O("kfself %s %s ret %s", opn, kn, b);
    /* the abstract result: assign(x, x) leaves x alone, concat(x, x) doubles it */
    Slot e; memset(&e, 0, sizeof e); e.kind = k;
    ref_reserve(&e, 2 * n + 1); entcpy(e.ref, es, n); e.n = n;
    if (isc) { entcpy(e.ref + n, es, n); e.n = 2 * n; }
    char want[4096]; size_t o = 0; o += snprintf(want, sizeof want, " n=%zu ", e.n);
    fmt_seq(want + o, sizeof want - o, e.ref, e.n);
    /* compare length and element sequence (capacity is not part of the abstract result) */
    char* bn = strstr(b, " n="); char* bl = bn ? strchr(bn, '[') : NULL; char* wl = strchr(want, '[');
    char lenb[32]; snprintf(lenb, sizeof lenb, " n=%zu ", e.n);
    if (!bn || !bl || strncmp(bn, lenb, strlen(lenb)) != 0 || strcmp(bl, wl) != 0)
      X("sig=%s line=%zu what=%s(x, x) on a %s of %zu elements leaves `%s`, expected%s", sig, cur_line, opn, kn, n, b, want);
    free(e.ref);
  }
}

/* ---- known finding KF-C04-push-own-element: an Array's own element as the argument of push / push_at, in a forked child ---- */
static void run_kfown2(int mode, size_t nslots, int64_t k1, int64_t k2, Ent* es, size_t n);
static void run_kfown(int isat, size_t nslots, int64_t kidx, int64_t iidx, Ent* es, size_t n) {
  int pf[2]; if (pipe(pf)) { perror("pipe"); exit(2); }
  fflush(stdout);
  pid_t pid = fork();
  if (pid == 0) {
    close(pf[0]);
    int devnull = open("/dev/null", O_WRONLY); if (devnull >= 0) dup2(devnull, 2);   /* the sanitizer report is expected */
    alarm(30);
    Slot s; memset(&s, 0, sizeof s); s.kind = K_A;
    s.obj = new_container(K_A, es, n);
    if (nslots > n) resize(s.obj, nslots);
    var exc; var own = NULL;
    V_TRY(exc, own = get(s.obj, $I(kidx)));
    if (!exc) { if (isat) V_TRY(exc, push_at(s.obj, own, $I(iidx))); else V_TRY(exc, push(s.obj, own)); }
    alarm(0);
    char b[4096]; size_t o = 0;
    if (exc) o = snprintf(b, sizeof b, "err=%s", v_exc_name(exc));
    else { read_rep(&s); o = fmt_dump(b, sizeof b, &s); }
    if (write(pf[1], b, o) < 0) {}
    _exit(0);
  }
  close(pf[1]); static char b[4200]; size_t got = 0; ssize_t r;
  while ((r = read(pf[0], b + got, sizeof b - 1 - got)) > 0) got += r; b[got] = 0; close(pf[0]);
  int st; waitpid(pid, &st, 0);
  const char* opn = isat ? "pushat" : "push"; const char* sig = "KF-C04-push-own-element";
  /* the abstract result: the value of element k inserted at the position the index names (the type's own rule) */
  size_t kpos = 0, ipos = n; int kin = ref_idx(n, kidx, &kpos), iin = 1;
  if (isat) { if (iidx >= 0 && iidx <= (int64_t)n) ipos = (size_t)iidx; else if (iidx < 0 && -(int64_t)(n + 1) <= iidx) ipos = (size_t)((int64_t)n + 1 + iidx); else iin = 0; }
  if (!WIFEXITED(st) || WEXITSTATUS(st) != 0) {
    O("kfown %s ub", opn);
    X("sig=%s line=%zu what=%s(a, get(a, %" PRId64 ")%s) on an Array of %zu elements with capacity %zu leaves the object: the argument points into the block that realloc moved (%s %d)",
      sig, cur_line, isat ? "push_at" : "push", kidx, isat ? ", i" : "", n, nslots > n ? nslots : n, WIFEXITED(st) ? "sanitizer exit status" : "signal", WIFEXITED(st) ? WEXITSTATUS(st) : WTERMSIG(st));
    return;
  }
  O("kfown %s ret %s", opn, b);
  if (!kin || !iin) { if (strcmp(b, "err=IndexOutOfBoundsError")) X("sig=C04-outcome line=%zu what=kfown with an index out of range returned `%s`", cur_line, b); return; }
  Slot e; memset(&e, 0, sizeof e); e.kind = K_A;
  ref_reserve(&e, n + 1); entcpy(e.ref, es, n); e.n = n; ref_insert(&e, ipos, es[kpos]);
  char want[4096]; fmt_seq(want, sizeof want, e.ref, e.n);
  char* bl = strchr(b, '[');
  if (!bl || strcmp(bl, want) != 0)
    X("sig=%s line=%zu what=%s(a, get(a, %" PRId64 ")%s) leaves `%s`, the abstract sequence is %s: the argument is read after the records were shifted and record i was zeroed",
      sig, cur_line, isat ? "push_at" : "push", kidx, isat ? ", i" : "", b, want);
  free(e.ref);
}

/* same finding through the OPERAND: mode 0 = concat(a, tuple(get(a,k1), get(a,k2))), 1 = assign(a, …) on an Array<Int>, 2 = assign on a List<Int> */
static void run_kfown2(int mode, size_t nslots, int64_t k1, int64_t k2, Ent* es, size_t n) {
  int pf[2]; if (pipe(pf)) { perror("pipe"); exit(2); }
  fflush(stdout);
  int kind = mode == 2 ? K_L : K_A;
  pid_t pid = fork();
  if (pid == 0) {
    close(pf[0]);
    int devnull = open("/dev/null", O_WRONLY); if (devnull >= 0) dup2(devnull, 2);
    alarm(30);
    Slot s; memset(&s, 0, sizeof s); s.kind = kind;
    s.obj = new_container(kind, es, n);
    if (kind == K_A && nslots > n) resize(s.obj, nslots);
    var exc; var p1 = NULL; var p2 = NULL;
    V_TRY(exc, { p1 = get(s.obj, $I(k1)); p2 = get(s.obj, $I(k2)); });
    if (!exc) { if (mode == 0) V_TRY(exc, concat(s.obj, tuple(p1, p2))); else V_TRY(exc, assign(s.obj, tuple(p1, p2))); }
    alarm(0);
    char b[4096]; size_t o = 0;
    if (exc) o = snprintf(b, sizeof b, "err=%s", v_exc_name(exc));
    else { read_rep(&s); o = fmt_dump(b, sizeof b, &s); }
    if (write(pf[1], b, o) < 0) {}
    _exit(0);
  }
  close(pf[1]); static char b[4200]; size_t got = 0; ssize_t r;
  while ((r = read(pf[0], b + got, sizeof b - 1 - got)) > 0) got += r; b[got] = 0; close(pf[0]);
  int st; waitpid(pid, &st, 0);
  const char* opn = mode == 0 ? "concat" : mode == 1 ? "assign" : "lassign"; const char* sig = "KF-C04-push-own-element";
  size_t p1 = 0, p2 = 0; int in1 = ref_idx(n, k1, &p1), in2 = ref_idx(n, k2, &p2);
  if (!WIFEXITED(st) || WEXITSTATUS(st) != 0) {
    O("kfown %s ub", opn);
    X("sig=%s line=%zu what=%s(x, tuple(get(x, %" PRId64 "), get(x, %" PRId64 "))) on a%s of %zu elements leaves the object: the operand's pointers are read after %s (%s %d)",
      sig, cur_line, mode == 0 ? "concat" : "assign", k1, k2, kind == K_L ? " List" : "n Array", n,
      mode == 0 ? "realloc moved the block" : kind == K_L ? "List_Clear freed the nodes" : "Array_Clear freed the block",
      WIFEXITED(st) ? "sanitizer exit status" : "signal", WIFEXITED(st) ? WEXITSTATUS(st) : WTERMSIG(st));
    return;
  }
  O("kfown %s ret %s", opn, b);
  if (!in1 || !in2) { if (strcmp(b, "err=IndexOutOfBoundsError")) X("sig=C04-outcome line=%zu what=kfown with an index out of range returned `%s`", cur_line, b); return; }
  Slot e; memset(&e, 0, sizeof e); e.kind = kind;
  ref_reserve(&e, n + 2); e.n = 0; if (mode == 0) { entcpy(e.ref, es, n); e.n = n; }
  ref_insert(&e, e.n, es[p1]); ref_insert(&e, e.n, es[p2]);
  char want[4096]; fmt_seq(want, sizeof want, e.ref, e.n);
  char* bl = strchr(b, '[');
  if (!bl || strcmp(bl, want) != 0)
    X("sig=%s line=%zu what=%s(x, tuple(get(x, k1), get(x, k2))) leaves `%s`, the abstract sequence is %s", sig, cur_line, opn, b, want);
  free(e.ref);
}

/* ---- known finding KF-C04-list-resize-raw: resize of a List<String> beyond its length, then mem, in a forked child ---- */
static void run_kfraw(size_t newn, Ent* es, size_t n) {
  int pf[2]; if (pipe(pf)) { perror("pipe"); exit(2); }
  fflush(stdout);
  pid_t pid = fork();
  if (pid == 0) {
    close(pf[0]);
    int devnull = open("/dev/null", O_WRONLY); if (devnull >= 0) dup2(devnull, 2);
    alarm(30);
    Slot s; memset(&s, 0, sizeof s); s.kind = K_LS;
    s.obj = new_container(K_LS, es, n);
    var exc; volatile bool m = false;
    V_TRY(exc, resize(s.obj, newn));
    if (!exc) { ARG_DECL(p); Ent ab = { ABSENT, -1 }; V_TRY(exc, m = mem(s.obj, ARG(p, K_LS, ab, 0))); }
    (void)m; alarm(0);
    char b[4096]; size_t o = 0;
    if (exc) o = snprintf(b, sizeof b, "err=%s", v_exc_name(exc));
    else { read_rep(&s); o = fmt_dump(b, sizeof b, &s); }
    if (write(pf[1], b, o) < 0) {}
    _exit(0);
  }
  close(pf[1]); static char b[4200]; size_t got = 0; ssize_t r;
  while ((r = read(pf[0], b + got, sizeof b - 1 - got)) > 0) got += r; b[got] = 0; close(pf[0]);
  int st; waitpid(pid, &st, 0);
  if (!WIFEXITED(st) || WEXITSTATUS(st) != 0) {
    O("kfraw ub");
    X("sig=KF-C04-list-resize-raw line=%zu what=resize(l, %zu) on a List<String> of %zu elements links records that were never constructed (NULL buffer): mem(l, x) on it leaves the object (%s %d)",
      cur_line, newn, n, WIFEXITED(st) ? "sanitizer exit status" : "signal", WIFEXITED(st) ? WEXITSTATUS(st) : WTERMSIG(st));
    return;
  }
  O("kfraw ret %s", b);
  Slot e; memset(&e, 0, sizeof e); e.kind = K_LS; ref_reserve(&e, n + 1); entcpy(e.ref, es, n); e.n = newn < n ? newn : n;
  char want[4096]; fmt_seq(want, sizeof want, e.ref, e.n);
  char* bl = strchr(b, '[');
  if (newn > n || !bl || strcmp(bl, want) != 0)
    X("sig=%s line=%zu what=resize(l, %zu) on a List<String> of %zu elements leaves `%s`", newn > n ? "KF-C04-list-resize-raw" : "C04-contents", cur_line, newn, n, b);
  free(e.ref);
}

/* predicates of the iterator-only sources (filter) */
static var pf_all(var x) { return x; }
static var pf_even(var x) { return (ev(x) & 1) == 0 ? x : NULL; }
static var pf_none(var x) { (void)x; return NULL; }
static int pf_keep(int p, int64_t v) { return p == 0 ? 1 : p == 1 ? ((v & 1) == 0) : 0; }

static Slot* slot_of(const char* tok, int must_exist) {
  int64_t v; if (!parse_nat(tok, &v) || v >= NSLOT) return NULL;
  Slot* s = &SL[v];
  if (must_exist == 1 && s->kind == K_NONE) return NULL;
  if (must_exist == 0 && s->kind != K_NONE) return NULL;
  return s;
}
static void free_slot(Slot* s) {
  if (s->kind == K_NONE) return;
  if (s->stk) { struct Tuple* t = s->obj; free(t->items); free((char*)s->obj - sizeof(struct Header)); }
  else if (s->gc) del(s->obj); else del_raw(s->obj);
  free(s->ref); memset(s, 0, sizeof *s);
}

#define MAXTOK 32768
static char* toks[MAXTOK];

int main(int argc, char** argv) {
  v_init();
  if (argc < 2) { fprintf(stderr, "usage: h_seq <opfile>\n"); return 2; }
  Slot slots[NSLOT]; memset(slots, 0, sizeof slots); SL = slots;
  size_t nl; char** lines = v_read_lines(argv[1], &nl);
  char rb[64];
  for (size_t li = 0; li < nl; li++) {
    char* l = lines[li]; cur_line = li + 1;
    /* `#!quiet on|off` (a comment for the model driver): while quiet the oracle compares only the representation it reads white-box and
       makes no calls of its own through the public interface, so that state hidden inside the container (a cached cursor, a memo) is
       touched by the operations of the op file alone and an index-dependent fault is not healed by the oracle's own sweep of get() */
    if (!strncmp(l, "#!quiet ", 8)) { quiet_api = !strcmp(l + 8, "on"); continue; }
    if (v_skippable(l)) continue;
    size_t nt = 0; { char* sv; for (char* t = strtok_r(l, " ", &sv); t && nt < MAXTOK; t = strtok_r(NULL, " ", &sv)) toks[nt++] = t; }
    if (nt == 0) continue;
    const char* cmd = toks[0]; var exc = NULL; Slot* s; Slot* src;
    ARG_DECL(a);
    opcount++; st_ops++;
    int force_iter = (opcount % 16) == 0;
    if (!strcmp(cmd, "dump") && nt == 2 && (!strcmp(toks[1], "on") || !strcmp(toks[1], "off"))) { dump_on = !strcmp(toks[1], "on"); O("dump %s", toks[1]); continue; }
    if (!strcmp(cmd, "kf13") && nt == 2) { Ent e; if (!parse_elem(K_T, toks[1], &e)) { O("bad-op"); continue; } run_kf13(e); continue; }
    if (!strcmp(cmd, "kfself") && nt >= 3) {
      int isc = !strcmp(toks[1], "concat"); int k = K_NONE, reserve = 0;
      if (!isc && strcmp(toks[1], "assign")) { O("bad-op"); continue; }
      if (!strcmp(toks[2], "A")) k = K_A; else if (!strcmp(toks[2], "AR")) { k = K_A; reserve = 1; }
      else if (!strcmp(toks[2], "L")) k = K_L; else if (!strcmp(toks[2], "T")) k = K_T;
      if (k == K_NONE) { O("bad-op"); continue; }
      size_t n = nt - 3; Ent* es = malloc((n + 1) * sizeof(Ent)); int ok = 1;
      for (size_t i = 0; i < n && ok; i++) ok = parse_elem(k, toks[3 + i], &es[i]);
      if (ok && k == K_T) for (size_t i = 0; i < n && ok; i++) for (size_t j = 0; j < i; j++) if (es[i].id == es[j].id) { ok = 0; break; }
      if (!ok || n > 200) { free(es); O("bad-op"); continue; }
      run_kfself(isc, k, reserve, es, n); free(es); continue;
    }
    if (!strcmp(cmd, "kfown") && nt >= 5) {
      int isat = !strcmp(toks[1], "pushat"); int64_t ns, kk, ii;
      int mode2 = !strcmp(toks[1], "concat") ? 0 : !strcmp(toks[1], "assign") ? 1 : !strcmp(toks[1], "lassign") ? 2 : -1;
      if ((!isat && mode2 < 0 && strcmp(toks[1], "push")) || !parse_nat(toks[2], &ns) || ns > 100000 || !parse_i64(toks[3], &kk) || !parse_i64(toks[4], &ii)) { O("bad-op"); continue; }
      size_t n = nt - 5; Ent* es = malloc((n + 1) * sizeof(Ent)); int ok = 1;
      for (size_t i = 0; i < n && ok; i++) ok = parse_elem(K_A, toks[5 + i], &es[i]);
      if (!ok || n > 200) { free(es); O("bad-op"); continue; }
      if (mode2 >= 0) { size_t q1, q2; if (ref_idx(n, kk, &q1) && ref_idx(n, ii, &q2) && q1 == q2) { free(es); O("bad-op"); continue; } }   /* operand with one pointer twice: F13 */
      if (mode2 >= 0) run_kfown2(mode2, (size_t)ns, kk, ii, es, n); else run_kfown(isat, (size_t)ns, kk, ii, es, n);
      free(es); continue;
    }
    if (!strcmp(cmd, "kfraw") && nt >= 2) {
      int64_t nn; if (!parse_nat(toks[1], &nn) || nn > 1000) { O("bad-op"); continue; }
      size_t n = nt - 2; Ent* es = malloc((n + 1) * sizeof(Ent)); int ok = 1;
      for (size_t i = 0; i < n && ok; i++) ok = parse_elem(K_LS, toks[2 + i], &es[i]);
      if (!ok || n > 200) { free(es); O("bad-op"); continue; }
      run_kfraw((size_t)nn, es, n); free(es); continue;
    }
    if (!strcmp(cmd, "new") && nt >= 3) {
      s = slot_of(toks[1], 0); int k = K_NONE; int stk = !strcmp(toks[2], "TK");
      for (int j = 1; j < K_NKIND; j++) if (!strcmp(toks[2], kind_name[j])) k = j;
      if (stk) k = K_T;
      if (!s || k == K_NONE) { O("bad-op"); continue; }
      size_t n = nt - 3; Ent* es = malloc((n + 1) * sizeof(Ent)); int ok = 1;
      for (size_t i = 0; i < n && ok; i++) ok = parse_elem(k, toks[3 + i], &es[i]);
      if (ok && k == K_T) for (size_t i = 0; i < n && ok; i++) for (size_t j = 0; j < i; j++) if (es[i].id == es[j].id) { ok = 0; break; }
      if (!ok) { free(es); O("bad-op"); continue; }
      s->kind = k; s->gc = 0; s->stk = stk; s->ref = NULL; s->n = s->cap = 0;
      s->obj = stk ? new_stack_tuple(es, n) : new_container(k, es, n);
      ref_reserve(s, n); entcpy(s->ref, es, n); s->n = n; free(es);
      check_state(s, -1, force_iter); emit("new", "ok", s); continue;
    }
    if (!strcmp(cmd, "del") && nt == 2) { s = slot_of(toks[1], 1); if (!s) { O("bad-op"); continue; } free_slot(s); O("del ok"); continue; }
    if (!strcmp(cmd, "copy") && nt == 3) {
      s = slot_of(toks[1], 0); src = slot_of(toks[2], 1);
      if (!s || !src) { O("bad-op"); continue; }
      var c = NULL; V_TRY(exc, c = copy(src->obj));
      if (exc) { expect_exc("copy", exc, NULL); O("copy err=%s", v_exc_name(exc)); continue; }
      s->kind = src->kind; s->gc = 1; s->stk = 0; s->obj = c; s->ref = NULL; s->n = s->cap = 0;   /* the copy of a stack Tuple is a heap Tuple */
      ref_reserve(s, src->n); entcpy(s->ref, src->ref, src->n); s->n = src->n;
      if (c == src->obj) XF("C04-contents", "copy returned the same object");
      check_state(s, -1, force_iter); emit("copy", "ok", s); continue;
    }
    /* everything else: <cmd> <slot> ... */
    if (nt < 2 || !(s = slot_of(toks[1], 1))) { O("bad-op"); continue; }
    int k = s->kind; size_t n = s->n; size_t nslots0 = is_arr(k) ? ((struct Array*)s->obj)->nslots : 0;
    Ent e; int64_t iv; size_t kpos;
    if (s->stk && (!strcmp(cmd, "push") || !strcmp(cmd, "append") || !strcmp(cmd, "pop") || !strcmp(cmd, "pushat") || !strcmp(cmd, "popat") ||
                   !strcmp(cmd, "rem") || !strcmp(cmd, "concat") || !strcmp(cmd, "assign") || !strcmp(cmd, "assignf") || !strcmp(cmd, "resize") ||
                   !strcmp(cmd, "pushelem") || !strcmp(cmd, "pushatelem") || !strcmp(cmd, "remelem"))) {
      /* a Tuple that is not on the heap refuses to reallocate: the op raises and nothing changes (the reference is left alone) */
      var want = ValueError; int64_t kv; size_t kk;
      if ((!strcmp(cmd, "push") || !strcmp(cmd, "append")) && nt == 3) {
        if (!parse_elem(k, toks[2], &e)) { O("bad-op"); continue; }
        if (cmd[0] == 'p') V_TRY(exc, push(s->obj, ARG(a, k, e, 1))); else V_TRY(exc, append(s->obj, ARG(a, k, e, 1)));
      } else if (!strcmp(cmd, "pop") && nt == 2) { V_TRY(exc, pop(s->obj)); if (n == 0) want = IndexOutOfBoundsError; }
      else if (!strcmp(cmd, "pushat") && nt == 4) {
        if (!parse_elem(k, toks[2], &e) || !parse_i64(toks[3], &iv)) { O("bad-op"); continue; }
        V_TRY(exc, push_at(s->obj, ARG(a, k, e, 1), $I(iv))); if (!ref_idx(n, iv, &kpos)) want = IndexOutOfBoundsError;
      } else if (!strcmp(cmd, "popat") && nt == 3) {
        if (!parse_i64(toks[2], &iv)) { O("bad-op"); continue; }
        V_TRY(exc, pop_at(s->obj, $I(iv))); if (!ref_idx(n, iv, &kpos)) want = IndexOutOfBoundsError;
      } else if (!strcmp(cmd, "rem") && nt == 3) {
        if (!parse_val(k, toks[2], &iv)) { O("bad-op"); continue; }
        Ent pr = { iv, -1 }; V_TRY(exc, rem(s->obj, ARG(a, K_A, pr, 1)));
      } else if ((!strcmp(cmd, "concat") || !strcmp(cmd, "assign")) && nt == 3) {
        src = slot_of(toks[2], 1); if (!src || src->kind != K_T || (src == s && cmd[0] == 'c')) { O("bad-op"); continue; }
        if (cmd[0] == 'c') V_TRY(exc, concat(s->obj, src->obj)); else V_TRY(exc, assign(s->obj, src->obj));
      } else if (!strcmp(cmd, "assignf") && nt == 4) {
        src = slot_of(toks[2], 1); int64_t pv;
        if (!src || src == s || src->kind != K_T || !parse_nat(toks[3], &pv) || pv > 2) { O("bad-op"); continue; }
        int any = 0; for (size_t i = 0; i < src->n; i++) if (pf_keep((int)pv, src->ref[i].val)) any = 1;
        var fn = $(Function, pv == 0 ? pf_all : pv == 1 ? pf_even : pf_none);
        V_TRY(exc, assign(s->obj, filter(src->obj, fn))); if (!any) want = NULL;
      } else if (!strcmp(cmd, "resize") && nt == 3) {
        if (!parse_nat(toks[2], &iv) || iv > 100000) { O("bad-op"); continue; }
        V_TRY(exc, resize(s->obj, (size_t)iv));
      } else if ((!strcmp(cmd, "pushelem") && nt == 3) || (!strcmp(cmd, "pushatelem") && nt == 4)) {
        int isat = cmd[4] == 'a';
        if (!parse_i64(toks[2], &kv) || (isat && !parse_i64(toks[3], &iv))) { O("bad-op"); continue; }
        var own = NULL; V_TRY(exc, own = get(s->obj, $I(kv)));
        if (!exc) { if (isat) V_TRY(exc, push_at(s->obj, own, $I(iv))); else V_TRY(exc, push(s->obj, own)); }
        if (!ref_idx(n, kv, &kk) || (isat && !ref_idx(n, iv, &kpos))) want = IndexOutOfBoundsError;
      } else if (!strcmp(cmd, "remelem") && nt == 3) {
        if (!parse_i64(toks[2], &kv)) { O("bad-op"); continue; }
        var own = NULL; V_TRY(exc, own = get(s->obj, $I(kv)));
        if (!exc) V_TRY(exc, rem(s->obj, own));
        if (!ref_idx(n, kv, &kk)) want = IndexOutOfBoundsError;
      } else { O("bad-op"); continue; }
      expect_exc(cmd, exc, want);
      check_state(s, -1, force_iter); emit(cmd, res_of(exc, rb, sizeof rb), s); continue;
    }
    if ((!strcmp(cmd, "push") || !strcmp(cmd, "append")) && nt == 3) {
      if (!parse_elem(k, toks[2], &e)) { O("bad-op"); continue; }
      if (k == K_T && ref_has_id(s, e.id)) { O("%s dup-refused", cmd); continue; }
      if (cmd[0] == 'p') V_TRY(exc, push(s->obj, ARG(a, k, e, 1))); else V_TRY(exc, append(s->obj, ARG(a, k, e, 1)));
      expect_exc(cmd, exc, NULL); if (!exc) ref_insert(s, s->n, e);
    } else if (!strcmp(cmd, "pop") && nt == 2) {
      V_TRY(exc, pop(s->obj));
      expect_exc(cmd, exc, n == 0 ? IndexOutOfBoundsError : NULL); if (n > 0) ref_erase(s, n - 1);
    } else if (!strcmp(cmd, "pushat") && nt == 4) {
      if (!parse_elem(k, toks[2], &e) || !parse_i64(toks[3], &iv)) { O("bad-op"); continue; }
      if (k == K_T && ref_has_id(s, e.id)) { O("pushat dup-refused"); continue; }
      V_TRY(exc, push_at(s->obj, ARG(a, k, e, 1), $I(iv)));
      int inr;
      if (is_arr(k)) { /* Array: positions 0..n and -(n+1)..-1 (-1 appends) */
        if (iv >= 0 && iv <= (int64_t)n) { kpos = iv; inr = 1; } else if (iv < 0 && -(int64_t)(n + 1) <= iv) { kpos = (size_t)((int64_t)n + 1 + iv); inr = 1; } else inr = 0;
      } else if (is_lst(k) && iv == 0) { kpos = 0; inr = 1; }
      else inr = ref_idx(n, iv, &kpos);              /* List / Tuple: before an existing element */
      expect_exc(cmd, exc, inr ? NULL : IndexOutOfBoundsError); if (inr) ref_insert(s, kpos, e);
    } else if (!strcmp(cmd, "popat") && nt == 3) {
      if (!parse_i64(toks[2], &iv)) { O("bad-op"); continue; }
      V_TRY(exc, pop_at(s->obj, $I(iv)));
      int inr = ref_idx(n, iv, &kpos);
      expect_exc(cmd, exc, inr ? NULL : IndexOutOfBoundsError); if (inr) ref_erase(s, kpos);
    } else if (!strcmp(cmd, "get") && nt == 3) {
      if (!parse_i64(toks[2], &iv)) { O("bad-op"); continue; }
      var g = NULL; V_TRY(exc, g = get(s->obj, $I(iv)));
      int inr = ref_idx(n, iv, &kpos);
      expect_exc(cmd, exc, inr ? NULL : IndexOutOfBoundsError);
      check_state(s, -1, force_iter);
      if (exc) { emit(cmd, res_of(exc, rb, sizeof rb), s); continue; }
      Ent ge = ent_of(k, g);
      if (inr && !same_ent(k, ge, s->ref[kpos])) XF("C04-get", "get(%" PRId64 ") = %" PRId64 " expected %" PRId64, iv, ge.val, s->ref[kpos].val);
      char vb[80]; size_t o = snprintf(vb, sizeof vb, "v="); fmt_ent(vb + o, sizeof vb - o, ge);
      emit(cmd, vb, s); continue;
    } else if (!strcmp(cmd, "set") && nt == 4) {
      if (!parse_i64(toks[2], &iv) || !parse_elem(k, toks[3], &e)) { O("bad-op"); continue; }
      int inr = ref_idx(n, iv, &kpos);
      /* a pointer may replace itself; anywhere else it would be a second copy (F13 territory) */
      if (k == K_T && inr) { int dup = 0; for (size_t j = 0; j < n; j++) if (j != kpos && s->ref[j].id == e.id) dup = 1; if (dup) { O("set dup-refused"); continue; } }
      V_TRY(exc, set(s->obj, $I(iv), ARG(a, k, e, 1)));
      expect_exc(cmd, exc, inr ? NULL : IndexOutOfBoundsError); if (inr) s->ref[kpos] = e;
    } else if (!strcmp(cmd, "mem") && nt == 3) {
      if (!parse_val(k, toks[2], &iv)) { O("bad-op"); continue; }
      Ent pr = { iv, -1 }; volatile bool m = false;
      V_TRY(exc, m = mem(s->obj, ARG(a, k == K_T ? K_A : k, pr, 1)));
      expect_exc(cmd, exc, NULL);
      int want = 0; for (size_t i = 0; i < n; i++) if (s->ref[i].val == iv) want = 1;
      if (!exc && (int)m != want) XF("C04-mem", "mem(%" PRId64 ") = %d expected %d", iv, (int)m, want);
      check_state(s, -1, force_iter);
      if (exc) { emit(cmd, res_of(exc, rb, sizeof rb), s); continue; }
      emit(cmd, m ? "b=1" : "b=0", s); continue;
    } else if (!strcmp(cmd, "rem") && nt == 3) {
      if (!parse_val(k, toks[2], &iv)) { O("bad-op"); continue; }
      Ent pr = { iv, -1 };
      V_TRY(exc, rem(s->obj, ARG(a, k == K_T ? K_A : k, pr, 1)));
      int found = 0; for (size_t i = 0; i < n; i++) if (s->ref[i].val == iv) { kpos = i; found = 1; break; }
      expect_exc(cmd, exc, found ? NULL : ValueError); if (found) ref_erase(s, kpos);   /* the FIRST equal element */
    } else if (!strcmp(cmd, "layout") && nt == 2) {
      /* record layout of an Array observed through the real Array_Step / Array_Item / Array_Alloc on a scratch block with the Array's
         element type, length and capacity (the driver evaluates the expressions g_seq.py extracted from Array.c) */
      if (!is_arr(k)) { O("bad-op"); continue; }
      struct Array* a = s->obj; struct Array tmp = *a; size_t st = Array_Step(a), tot = st * (a->nitems + 2);
      unsigned char* blk = malloc(tot); memset(blk, 0xAA, tot); tmp.data = blk;
      Array_Alloc(&tmp, a->nitems);
      size_t lo = tot, hi = 0, hd = tot;
      for (size_t b = 0; b < tot; b++) if (blk[b] != 0xAA) { if (lo == tot) lo = b; hi = b; }
      for (size_t b = 0; b + sizeof(struct Header) <= tot; b += sizeof(var)) if (((struct Header*)(blk + b))->type == a->type) { hd = b; break; }
      char lb[240]; snprintf(lb, sizeof lb, "raw=%zu hdr=%zu ptr=%zu tsize=%zu step=%zu item=%td rec=%zu+%zu head=%zu bytes=%zu",
        (size_t)size(a->type), sizeof(struct Header), sizeof(var), a->tsize, st, (char*)Array_Item(&tmp, a->nitems) - (char*)blk,
        lo, lo == tot ? (size_t)0 : hi - lo + 1, hd, a->nslots * st);
      free(blk); st_layout++;
      { /* direct oracle: the textbook layout — the element size rounded up to the next multiple of the pointer size, one header in front
           of each element, records back to back */
        size_t raw = size(a->type), P = sizeof(var), Hd = sizeof(struct Header), want = raw % P ? raw + (P - raw % P) : raw, nn = a->nitems;
        size_t it = (size_t)((char*)Array_Item(&tmp, nn) - (char*)blk);
        if (a->tsize != want) XF("C04-layout", "element size %zu is stored in %zu bytes, expected %zu (next multiple of %zu)", raw, a->tsize, want, P);
        else if (st != want + Hd || it != nn * st + Hd || lo != nn * st || hi - lo + 1 != st || hd != lo)
          XF("C04-layout", "record %zu: stride %zu element at %zu zeroed %zu+%zu header at %zu, expected stride %zu element at %zu record %zu+%zu",
             nn, st, it, lo, hi - lo + 1, hd, want + Hd, nn * (want + Hd) + Hd, nn * (want + Hd), want + Hd);
      }
      check_state(s, -1, force_iter);
      emit(cmd, lb, s); continue;
    } else if (!strcmp(cmd, "len") && nt == 2) {
      volatile size_t L = 0; V_TRY(exc, L = len(s->obj)); expect_exc(cmd, exc, NULL);
      check_state(s, -1, force_iter);
      char vb[40]; snprintf(vb, sizeof vb, "v=%zu", (size_t)L); emit(cmd, exc ? res_of(exc, rb, sizeof rb) : vb, s); continue;
    } else if ((!strcmp(cmd, "concat") || !strcmp(cmd, "assign")) && nt == 3) {
      src = slot_of(toks[2], 1); int isc = cmd[0] == 'c';
      if (!src || (src == s && isc)) { O("bad-op"); continue; }      /* concat(x, x): known finding, `kfself` only */
      if (src == s) {                                                 /* assign(x, x) leaves x as it was */
        V_TRY(exc, assign(s->obj, s->obj)); expect_exc(cmd, exc, NULL);
        check_state(s, -1, force_iter); emit(cmd, res_of(exc, rb, sizeof rb), s); continue;
      }
      int sk = src->kind, okk, newk = k;
      if (k == K_T) okk = sk == K_T;
      else if (!isc && sk != K_T && (is_arr(k) || !is_rec(sk))) {
        /* assign takes over the element type of the source (Array_Assign / List_Assign: type = iter_type(obj)): the container changes kind */
        okk = 1; newk = is_arr(k) ? (is_str(sk) ? K_AS : sk == K_A12 ? K_A12 : sk == K_A5 ? K_A5 : K_A) : (is_str(sk) ? K_LS : K_L);
      }
      else if (is_str(k)) okk = is_str(sk);
      else if (is_rec(k)) okk = sk == k;
      else okk = sk == K_A || sk == K_L || (isc && sk == K_T);
      if (!okk) { O("bad-op"); continue; }
      if (k == K_T && isc) { int dup = 0; for (size_t i = 0; i < src->n && !dup; i++) dup = ref_has_id(s, src->ref[i].id); if (dup) { O("concat dup-refused"); continue; } }
      if (isc) V_TRY(exc, concat(s->obj, src->obj)); else V_TRY(exc, assign(s->obj, src->obj));
      expect_exc(cmd, exc, NULL);
      if (!isc) s->n = 0;
      s->kind = k = newk;
      for (size_t i = 0; i < src->n; i++) { Ent x = src->ref[i]; if (k != K_T) x.id = -1; ref_insert(s, s->n, x); }
    } else if ((!strcmp(cmd, "pushelem") && nt == 3) || (!strcmp(cmd, "pushatelem") && nt == 4)) {
      int isat = cmd[4] == 'a'; int64_t kv; size_t kk;
      if (!parse_i64(toks[2], &kv) || (isat && !parse_i64(toks[3], &iv))) { O("bad-op"); continue; }
      int kin = ref_idx(n, kv, &kk), inr = 1; kpos = n;
      if (isat) {
        if (is_arr(k)) { if (iv >= 0 && iv <= (int64_t)n) kpos = iv; else if (iv < 0 && -(int64_t)(n + 1) <= iv) kpos = (size_t)((int64_t)n + 1 + iv); else inr = 0; }
        else if (is_lst(k) && iv == 0) kpos = 0;
        else inr = ref_idx(n, iv, &kpos);
      }
      if (kin && k == K_T) { O("%s dup-refused", cmd); continue; }
      if (kin && inr && is_arr(k) && (n + 1 > nslots0 || (isat && kk >= kpos))) { O("%s own-refused", cmd); continue; }
      var own = NULL; V_TRY(exc, own = get(s->obj, $I(kv)));
      if (!exc) { if (isat) V_TRY(exc, push_at(s->obj, own, $I(iv))); else V_TRY(exc, push(s->obj, own)); }
      expect_exc(cmd, exc, (kin && inr) ? NULL : IndexOutOfBoundsError);
      if (kin && inr) { Ent x = s->ref[kk]; ref_insert(s, kpos, x); }
    } else if (!strcmp(cmd, "setelem") && nt == 4) {
      int64_t kv; size_t kk;
      if (!parse_i64(toks[2], &iv) || !parse_i64(toks[3], &kv)) { O("bad-op"); continue; }
      int kin = ref_idx(n, kv, &kk), inr = ref_idx(n, iv, &kpos);
      if (k == K_T && kin && inr && kk != kpos) { O("setelem dup-refused"); continue; }
      var own = NULL; V_TRY(exc, own = get(s->obj, $I(kv)));
      if (!exc) V_TRY(exc, set(s->obj, $I(iv), own));
      expect_exc(cmd, exc, (kin && inr) ? NULL : IndexOutOfBoundsError);
      if (kin && inr) s->ref[kpos] = s->ref[kk];
    } else if (!strcmp(cmd, "remelem") && nt == 3) {
      int64_t kv; size_t kk;
      if (!parse_i64(toks[2], &kv)) { O("bad-op"); continue; }
      int kin = ref_idx(n, kv, &kk);
      var own = NULL; V_TRY(exc, own = get(s->obj, $I(kv)));
      if (!exc) V_TRY(exc, rem(s->obj, own));
      expect_exc(cmd, exc, kin ? NULL : IndexOutOfBoundsError);
      if (kin) { for (size_t i = 0; i < n; i++) if (s->ref[i].val == s->ref[kk].val) { kpos = i; break; } ref_erase(s, kpos); }   /* the FIRST equal element */
    } else if (!strcmp(cmd, "memelem") && nt == 3) {
      int64_t kv; size_t kk;
      if (!parse_i64(toks[2], &kv)) { O("bad-op"); continue; }
      int kin = ref_idx(n, kv, &kk); volatile bool m = false;
      var own = NULL; V_TRY(exc, own = get(s->obj, $I(kv)));
      if (!exc) V_TRY(exc, m = mem(s->obj, own));
      expect_exc(cmd, exc, kin ? NULL : IndexOutOfBoundsError);
      if (!exc && !m) XF("C04-mem", "mem(x, get(x, %" PRId64 ")) = 0", kv);
      check_state(s, -1, force_iter);
      if (exc) { emit(cmd, res_of(exc, rb, sizeof rb), s); continue; }
      emit(cmd, m ? "b=1" : "b=0", s); continue;
    } else if (!strcmp(cmd, "concatelems") && nt == 4) {
      int64_t k1, k2; size_t p1, p2;
      if (!parse_i64(toks[2], &k1) || !parse_i64(toks[3], &k2)) { O("bad-op"); continue; }
      int in1 = ref_idx(n, k1, &p1), in2 = ref_idx(n, k2, &p2);
      if (in1 && in2 && (k == K_T || p1 == p2)) { O("concatelems dup-refused"); continue; }   /* the operand Tuple would hold one pointer twice: F13 */
      if (in1 && in2 && is_arr(k) && n + 2 > nslots0) { O("concatelems own-refused"); continue; }
      var q1 = NULL; var q2 = NULL;
      V_TRY(exc, { q1 = get(s->obj, $I(k1)); q2 = get(s->obj, $I(k2)); });
      if (!exc) V_TRY(exc, concat(s->obj, tuple(q1, q2)));
      expect_exc(cmd, exc, (in1 && in2) ? NULL : IndexOutOfBoundsError);
      if (in1 && in2) { Ent x = s->ref[p1], y = s->ref[p2]; ref_insert(s, s->n, x); ref_insert(s, s->n, y); }
    } else if (!strcmp(cmd, "assignf") && nt == 4) {
      src = slot_of(toks[2], 1); int64_t pv;
      if (!src || src == s || !parse_nat(toks[3], &pv) || pv > 2) { O("bad-op"); continue; }
      int sk = src->kind, okk;
      if (k == K_T) okk = sk == K_T;
      else if (is_str(k)) okk = is_str(sk);
      else if (is_rec(k)) okk = sk == k;
      else okk = sk == K_A || sk == K_L;
      if (!okk) { O("bad-op"); continue; }
      if (k == K_T) { int dup = 0; for (size_t i = 0; i < src->n && !dup; i++) dup = pf_keep((int)pv, src->ref[i].val) && ref_has_id(s, src->ref[i].id); if (dup) { O("assignf dup-refused"); continue; } }
      var fn = $(Function, pv == 0 ? pf_all : pv == 1 ? pf_even : pf_none);
      V_TRY(exc, assign(s->obj, filter(src->obj, fn)));
      if (is_lst(k)) {
        /* List_Assign needs len(obj): out of range for a List; what is left of the List is the model's business (and C12's) */
        expect_exc(cmd, exc, ClassError);
        read_rep(s); ref_reserve(s, cur_n); entcpy(s->ref, cur, cur_n); s->n = cur_n;
      } else {
        expect_exc(cmd, exc, NULL);
        size_t n0 = s->n; s->n = 0;
        for (size_t i = 0; i < src->n; i++) if (pf_keep((int)pv, src->ref[i].val)) { Ent x = src->ref[i]; if (k != K_T) x.id = -1; ref_insert(s, s->n, x); }
        if (k == K_T && n0 > 0 && !exc) {
          /* known finding: Tuple_Assign from an iterator-only source pushes onto what the Tuple holds */
          read_rep(s);
          if (cur_n == n0 + s->n) {
            X("sig=KF-C04-tuple-assign-iter line=%zu what=assign(t, filter(...)) on a Tuple of %zu items appended the %zu new items instead of replacing the contents", cur_line, n0, s->n);
            ref_reserve(s, cur_n); entcpy(s->ref, cur, cur_n); s->n = cur_n;
          }
        }
      }
    } else if (!strcmp(cmd, "resize") && nt == 3) {
      if (!parse_nat(toks[2], &iv) || iv > 100000) { O("bad-op"); continue; }
      if (k == K_LS && (size_t)iv > n) { O("resize unsupported"); continue; }   /* would create String elements with a NULL buffer */
      V_TRY(exc, resize(s->obj, (size_t)iv));
      if (k == K_T) { expect_exc(cmd, exc, (size_t)iv < n ? NULL : FormatError); if ((size_t)iv < n) s->n = iv; }
      else {
        expect_exc(cmd, exc, NULL);
        if ((size_t)iv < n) s->n = iv;
        else if (is_lst(k)) { Ent z = { 0, -1 }; while (s->n < (size_t)iv) ref_insert(s, s->n, z); }   /* List pads with zero-initialised elements; Array only reserves */
      }
    } else if (!strcmp(cmd, "sort") && nt == 3) {
      if (!parse_nat(toks[2], &iv) || iv > 3) { O("bad-op"); continue; }
      switch (iv) { case 0: V_TRY(exc, sort(s->obj)); break; case 1: V_TRY(exc, sort_by(s->obj, f_key_lt)); break;
                    case 2: V_TRY(exc, sort_by(s->obj, f_key_gt)); break; default: V_TRY(exc, sort_by(s->obj, f_key_le)); }
      st_sort++;
      if (is_lst(k)) { expect_exc(cmd, exc, ClassError); }
      else { expect_exc(cmd, exc, NULL); check_state(s, (int)iv, 1); emit(cmd, res_of(exc, rb, sizeof rb), s); continue; }
    } else if (!strcmp(cmd, "iter") && nt == 2) {
      /* the public iterator protocol, both directions, printed */
      size_t cap = n + 2; Ent* fw = malloc((cap + 1) * sizeof(Ent)); Ent* bw = malloc((cap + 1) * sizeof(Ent)); size_t nf = 0, nb = 0; var it;
      V_TRY(exc, { for (it = iter_init(s->obj); it isnt Terminal && nf < cap; it = iter_next(s->obj, it)) fw[nf++] = ent_of(k, it); });
      var exc2; V_TRY(exc2, { for (it = iter_last(s->obj); it isnt Terminal && nb < cap; it = iter_prev(s->obj, it)) bw[nb++] = ent_of(k, it); });
      check_state(s, -1, 1);
      size_t o = 0; static char ib[8192];
      o += snprintf(ib + o, sizeof ib - o, "fwd="); if (exc || nf >= cap) o += snprintf(ib + o, sizeof ib - o, "diverges"); else o += fmt_seq(ib + o, sizeof ib - o, fw, nf);
      o += snprintf(ib + o, sizeof ib - o, " bwd="); if (exc2 || nb >= cap) o += snprintf(ib + o, sizeof ib - o, "diverges"); else o += fmt_seq(ib + o, sizeof ib - o, bw, nb);
      free(fw); free(bw);
      emit(cmd, ib, s); continue;
    } else { O("bad-op"); continue; }
    /* common tail of the mutating ops */
    check_state(s, -1, force_iter);
    if (is_arr(k)) { size_t ns = ((struct Array*)s->obj)->nslots; if (ns > nslots0) st_grow++; else if (ns < nslots0) st_shrink++; }
    emit(cmd, res_of(exc, rb, sizeof rb), s);
  }
  I("ops=%zu errors=%zu maxlen=%zu grow=%zu shrink=%zu sorts=%zu oracle_failures=%zu layouts=%zu", st_ops, st_err, st_maxn, st_grow, st_shrink, st_sort, st_xs, st_layout);
  for (int i = 0; i < NSLOT; i++) free_slot(&slots[i]);
  return 0;
}
