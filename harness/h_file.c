/* harness/h_file.c — engine `file` (C20): File streams round-trip data and refuse use when closed.
 *
 * Link-time interposition (`-Wl,--wrap=<fn>` for fopen fclose fseek ftell fflush feof fread fwrite vfprintf vfscanf
 * __isoc99_vfscanf):
 * while a Cello operation runs (`trk` = 1) every stdio call the library makes is recorded with the *handle id* of its
 * stream (id = sequence number of the successful fopen that produced it).  A call on NULL or on a FILE* that is not
 * live is NOT forwarded to libc (it would be undefined behaviour): it is reported as an oracle failure instead.
 *
 * op file (objects 0..3 = stack objects `$(File, NULL)`, 4..7 = heap objects made by `new`; files 0..5 = regular files in
 * a private temp dir, 90 = a path in a directory that does not exist, 91 = /dev/full):
 *   new1 <o> <file>                       new(File, $S(path)): one constructor argument (File_New reads args[1]: IndexOutOfBoundsError)
 *   new <o> [<file> <mode>] | del <o> | open <o> <file> <mode> | close <o> | stop <o>
 *   with <o> <n> | withx <o> <n>          the next n ops are the body of `with(f in obj)`; withx leaves it by an exception
 *   withv <o> <leave> <n>                 the same with the way out spelled: fall | cont | brk | throw | ret (`return` from
 *                                         the function the block is written in)
 *   copy <src> <dst>                      objs[dst] = copy(objs[src])   (slot dst free; File has no Copy instance: alloc + memcpy)
 *   assign <dst> <src>                    assign(objs[dst], objs[src])  (File has no Assign instance: memcpy)
 *   withnew <o> <file> <mode> <leave> <n> `with (f in new(File, $S(path), $S(mode)))`: the source expression constructs the File (slot o free)
 *   withnew0 <o> <leave> <n>              `with (f in new(File))`
 *   withcall <o> <file> <mode> <leave> <n>  `with (f in fn(path, mode))`, fn constructs the File and counts its calls
 *   seek <o> <off> <set|cur|end|bad> | tell <o> | flush <o> | eof <o>
 *   read <o> <size> | write <o> <len> <seed> | writehex <o> <hex|-> | print <o> <int> | scan <o>
 *   dump <file> | rm <file>
 *   tp <o> <spec> <value> <sep>          print_to(f, 0, "%<spec><sep>", x): spec = [hh|h|l|ll|j|z|t|q]?[diouxX] | c | l?[fFeEgG] | s |
 *                                         $i | $f | $s (`%$` on an Int / Float / String); value = decimal int64 | x<16 hex digits of the
 *                                         double> | hex bytes of the string (`-` = empty); sep = hex bytes of the literal run that follows
 *                                         (`-` = none; no `%`, no NUL, at most 8 bytes)
 *   ts <o> <spec> <sep>                  scan_from(f, 0, "%<spec><sep>", x) into an Int (-777) / Float (7.5) / String ("?"): the value
 *                                         delivered, the position returned, the stream afterwards.  Executed when libc converts the text
 *                                         at the position (or the file ends there): anything else is answered `unsup` by both sides.
 *   drop <o>                              the collector as the closer: the slot is cleared, the stack below is scrubbed and a
 *                                         collection is forced (GC_Mark + GC_Sweep → File_Del → File_Close); expected: what `del` does
 * Process (the second Stream class of src/File.c: the same wrappers over popen / pclose; slots 0..1 = stack objects
 * `$(Process, NULL)`, 2..3 = heap objects; commands 0 = `true`, 1 = `false`, 10+k = `cat <input k>` when reading, `cat > <sink k>`
 * when writing; popen and pclose are interposed like fopen / fclose, pipe handles are written p<id>):
 *   pgen <k> <len> <seed>                 fill input k of `cat`
 *   pnew <o> <cmd> <mode> | pnew0 <o> | pnew1 <o> <cmd>     new(Process, $S(cmd), $S(mode)) / with too few arguments
 *   popen <o> <cmd> <mode> | pclose <o> | pstop <o> | pdel <o> | pwith <o> <leave> <n>
 *   pread <o> <size> | pwrite <o> <len> <seed> | peof <o> | ptell <o> | pseek <o> <off> <wh> | pflush <o> | pprint <o> <int> | pscan <o>
 * Oracle for these: refusal on a closed Process (sig=closed-not-refused); close / stop / with-exit / del leave the object closed
 * whatever the command's exit status (sig=not-closed) and raise IOError exactly for a non-zero status (`system()` of the same
 * command, sig=exc-mismatch); bytes read = the input file's bytes (sig=bytes-mismatch), the sink holds what was written
 * (sig=file-content); popen / pclose never on NULL or a dead handle (sig=stale-handle), live pipes = pipes held
 * (sig=handle-leak, stale-handle-kept), at the end successful popens == pcloses (sig=close-count).
 * An input pipe is read to its end inside the interposed pclose before the real one (so `cat` is never killed by SIGPIPE).
 * Ops outside the domain the model covers are answered `O <op> unsup` / `busy` by both sides and not executed: a second
 * stream on a file, a transfer in the other direction without fseek/fflush in between (undefined in C), a write
 * beyond 1 MiB, octal/hex/overlong numbers for scan, anything but bounded writes on /dev/full.
 * After every op one `O` line: op, exception, results, state of the object (closed | h<id>:pos:eof as libc sees the raw
 * stream), the stdio calls made by the library during the op, number of live handles.
 *
 * Direct oracle (X lines), independent of the Lean model:
 *   - every op is mirrored with plain libc calls on a twin file (t<k>.bin next to f<k>.bin): results, bytes, ftell, feof
 *     of the Cello File must equal libc's on the twin (sig=ret-mismatch, bytes-mismatch, tell-mismatch, eof-mismatch,
 *     exc-mismatch, file-content);
 *   - an op on a File that is not open must raise IOError and make no stdio call (sig=closed-not-refused);
 *   - stdio is never called with NULL or a dead handle (sig=stale-handle);
 *   - after every op the set of live handles is exactly the set of handles held by existing File objects
 *     (sig=handle-leak, stale-handle-kept); close/stop/del/with-exit leave the object closed (sig=not-closed);
 *   - at the end (everything deleted/closed) successful fopens == fcloses (sig=close-count);
 *   - with blocks: the source expression is evaluated exactly once (sig=with-reeval), its init clause makes exactly the fopen the
 *     expression asks for (sig=with-init-calls), leaving through the step clause makes exactly one stdio call, fclose of the handle
 *     the loop variable's File held when the body ended (sig=with-exit-calls), break / return / exception make none;
 *   - copy / assign make no stdio call (sig=copy-calls) and a copy of a closed File is closed;
 *   - drop: the forced collection makes exactly the fclose `del` would make and the handle is gone (sig=collector-close);
 *   - typed text (tp / ts): the twin receives the same text from libc's own fprintf with the argument converted to the type the
 *     specification names; ts: libc's own fscanf of the same bytes with the same conversion INTO THE C TYPE the specification names
 *     (signed char / unsigned char … long / unsigned long, char, float / double, a char array) is compared with what scan_from
 *     delivered into the Int / Float / String object (sig=text-value-mismatch), the position returned with `%n` + the literal's
 *     length (sig=ret-mismatch), the stream with the twin (tell / eof); and the round trip itself: a value printed at an offset
 *     with a specification whose type can represent it, read at that offset with the same specification, must come back
 *     identical (sig=text-roundtrip).
 * Known findings (the oracle reports them under their own signature; generated inputs stay out of these regions):
 *   sig=kf-c20-with-early-exit       a with block left by break / return / an exception while its File is open: stop_in does not
 *                                    run, the stream stays open ("leaving a with block closes the stream exactly once" fails);
 *   sig=kf-c20-copy-aliases-handle   copy / assign of a File while source or target is open: the memcpy duplicates the FILE*
 *                                    (two objects hold one handle; after one closes it the other passes the closed handle to
 *                                    stdio, fclose is called twice for one fopen) or overwrites it (the target's handle is never
 *                                    closed).  The interposed fclose of a handle that another object still holds does not really
 *                                    close it (the pointer could be handed out again by libc): it is flushed, marked dead, and
 *                                    every later call on it is refused and reported.
 * A File object that holds a shared or a dead handle is outside the twin bookkeeping: only close / stop / del / tell / eof
 * (and, on a dead handle, flush / seek / read / write) are executed on it, everything else is answered `unsup` by both sides.
 */
#include "common.h"
#include <errno.h>
#include <ctype.h>
#include <stdint.h>
#include <sys/stat.h>
#include <fcntl.h>
#include <dirent.h>
#include <time.h>

/* ------------------------------------------------------------------------------------------ interposition */
FILE* __real_fopen(const char*, const char*);
int __real_fclose(FILE*);
int __real_fseek(FILE*, long, int);
long __real_ftell(FILE*);
int __real_fflush(FILE*);
int __real_feof(FILE*);
size_t __real_fread(void*, size_t, size_t, FILE*);
size_t __real_fwrite(const void*, size_t, size_t, FILE*);
int __real_vfprintf(FILE*, const char*, va_list);
int __real_vfscanf(FILE*, const char*, va_list);
int __real___isoc99_vfscanf(FILE*, const char*, va_list);     /* what <stdio.h> redirects vfscanf to under gnu99 */

static int trk = 0;
#define MAXLIVE 64
static FILE* live_fp[MAXLIVE]; static int live_id[MAXLIVE]; static int nlive = 0;
static int n_fopen_ok = 0, n_fopen_fail = 0, n_fclose = 0;
static char callbuf[1024]; static size_t calllen = 0; static int ncalls = 0;
static size_t cur_line = 0;

/* KF-C20-copy-aliases-handle bookkeeping */
static FILE* dead_fp[MAXLIVE]; static int dead_id[MAXLIVE]; static int ndead = 0;   /* closed while another object still held them; really closed at exit */
static int aliased_id[MAXLIVE]; static int naliased = 0;                           /* handles duplicated by copy / assign */
static int leaked_id[MAXLIVE]; static int nleaked = 0;                             /* handles overwritten by assign while open */
static int n_fclose_dead = 0;                                                      /* fclose calls on dead handles (second close of one fopen) */
#define KF_ALIAS "kf-c20-copy-aliases-handle"
#define KF_EARLY "kf-c20-with-early-exit"
static int holders(FILE* fp);

/* pipes (Process): popen / pclose */
FILE* __real_popen(const char*, const char*);
int __real_pclose(FILE*);
static FILE* plive_fp[MAXLIVE]; static int plive_id[MAXLIVE]; static int plive_rd[MAXLIVE]; static int nplive = 0;
static int n_popen_ok = 0, n_popen_fail = 0, n_pclose = 0;
static int plive_index(FILE* fp) { for (int i = 0; i < nplive; i++) if (plive_fp[i] == fp) return i; return -1; }
#define PIPE_BASE 1000

static int live_index(FILE* fp) { for (int i = 0; i < nlive; i++) if (live_fp[i] == fp) return i; return -1; }
static int dead_index(FILE* fp) { for (int i = ndead - 1; i >= 0; i--) if (dead_fp[i] == fp) return i; return -1; }
static int in_ids(const int* t, int n, int id) { for (int i = 0; i < n; i++) if (t[i] == id) return 1; return 0; }
static char first_call[64]; static int calls_same = 1;      /* for the compressed call report of the typed text ops */
static void rec_call(const char* fn, const char* what) {
  ncalls++;
  { char one[64]; snprintf(one, sizeof one, "%s:%s", fn, what);
    if (ncalls == 1) { snprintf(first_call, sizeof first_call, "%s", one); calls_same = 1; }
    else if (strcmp(one, first_call) != 0) calls_same = 0; }
  if (calllen + 40 < sizeof callbuf) calllen += snprintf(callbuf + calllen, sizeof callbuf - calllen, "%s%s:%s", calllen ? "," : "", fn, what);
}
static int passthrough(FILE* fp) { return !trk || fp == stdout || fp == stderr || fp == stdin; }
/* returns the live index, or -1 after reporting (the call must then not be forwarded) */
static int check_handle(const char* fn, FILE* fp) {
  char b[32];
  if (fp == NULL) { rec_call(fn, "NULL"); X("sig=stale-handle line=%zu what=%s called with NULL", cur_line, fn); return -1; }
  int i = live_index(fp);
  if (i < 0) {
    int pi = plive_index(fp);
    if (pi >= 0) { snprintf(b, sizeof b, "p%d", plive_id[pi]); rec_call(fn, b); return PIPE_BASE + pi; }
    int d = dead_index(fp);
    if (d >= 0) {
      snprintf(b, sizeof b, "%d", dead_id[d]); rec_call(fn, b);
      if (!strcmp(fn, "fclose")) n_fclose_dead++;
      X("sig=" KF_ALIAS " line=%zu what=%s called with handle %d, which was already closed through another File object that held the same FILE*", cur_line, fn, dead_id[d]);
      return -1;
    }
    rec_call(fn, "STALE"); X("sig=stale-handle line=%zu what=%s called with a handle that is not open", cur_line, fn); return -1;
  }
  snprintf(b, sizeof b, "%d", live_id[i]); rec_call(fn, b);
  return i;
}

FILE* __wrap_fopen(const char* path, const char* mode) {
  if (!trk) return __real_fopen(path, mode);
  FILE* r = __real_fopen(path, mode);
  if (r) {
    char b[32]; int id = ++n_fopen_ok;
    if (nlive < MAXLIVE) { live_fp[nlive] = r; live_id[nlive] = id; nlive++; }
    snprintf(b, sizeof b, "%d", id); rec_call("fopen", b);
  } else { n_fopen_fail++; rec_call("fopen", "fail"); }
  return r;
}
int __wrap_fclose(FILE* fp) {
  if (passthrough(fp)) return __real_fclose(fp);
  int i = check_handle("fclose", fp);
  if (i < 0) return EOF;
  if (i >= PIPE_BASE) { X("sig=stale-handle line=%zu what=fclose called with the handle of a pipe", cur_line); return EOF; }
  int id = live_id[i];
  live_fp[i] = live_fp[nlive-1]; live_id[i] = live_id[nlive-1]; nlive--;
  n_fclose++;
  if (holders(fp) > 1 && ndead < MAXLIVE) {       /* another object holds the same FILE*: keep the pointer allocated */
    dead_fp[ndead] = fp; dead_id[ndead] = id; ndead++;
    return __real_fflush(fp) == 0 ? 0 : EOF;
  }
  return __real_fclose(fp);
}
FILE* __wrap_popen(const char* cmd, const char* mode) {
  if (!trk) return __real_popen(cmd, mode);
  FILE* r = __real_popen(cmd, mode);
  if (r) {
    char b[32]; int id = ++n_popen_ok;
    if (nplive < MAXLIVE) { plive_fp[nplive] = r; plive_id[nplive] = id; plive_rd[nplive] = mode[0] == 'r'; nplive++; }
    snprintf(b, sizeof b, "p%d", id); rec_call("popen", b);
  } else { n_popen_fail++; rec_call("popen", "fail"); }
  return r;
}
int __wrap_pclose(FILE* fp) {
  if (!trk) return __real_pclose(fp);
  char b[32];
  if (fp == NULL) { rec_call("pclose", "NULL"); X("sig=stale-handle line=%zu what=pclose called with NULL", cur_line); return -1; }
  int i = plive_index(fp);
  if (i < 0) { rec_call("pclose", "STALE"); X("sig=stale-handle line=%zu what=pclose called with a handle that is not open (a second pclose for one popen)", cur_line); return -1; }
  snprintf(b, sizeof b, "p%d", plive_id[i]); rec_call("pclose", b);
  int rd = plive_rd[i];
  plive_fp[i] = plive_fp[nplive-1]; plive_id[i] = plive_id[nplive-1]; plive_rd[i] = plive_rd[nplive-1]; nplive--;
  n_pclose++;
  if (rd) { char t[4096]; while (__real_fread(t, 1, sizeof t, fp) > 0) {} }       /* let the command finish writing */
  return __real_pclose(fp);
}
int __wrap_fseek(FILE* fp, long off, int wh) { if (passthrough(fp)) return __real_fseek(fp, off, wh); if (check_handle("fseek", fp) < 0) return -1; return __real_fseek(fp, off, wh); }
long __wrap_ftell(FILE* fp) { if (passthrough(fp)) return __real_ftell(fp); if (check_handle("ftell", fp) < 0) return -1; return __real_ftell(fp); }
int __wrap_fflush(FILE* fp) { if (passthrough(fp)) return __real_fflush(fp); if (check_handle("fflush", fp) < 0) return EOF; return __real_fflush(fp); }
int __wrap_feof(FILE* fp) { if (passthrough(fp)) return __real_feof(fp); if (check_handle("feof", fp) < 0) return 1; return __real_feof(fp); }
size_t __wrap_fread(void* p, size_t s, size_t n, FILE* fp) { if (passthrough(fp)) return __real_fread(p, s, n, fp); if (check_handle("fread", fp) < 0) return 0; return __real_fread(p, s, n, fp); }
size_t __wrap_fwrite(const void* p, size_t s, size_t n, FILE* fp) { if (passthrough(fp)) return __real_fwrite(p, s, n, fp); if (check_handle("fwrite", fp) < 0) return 0; return __real_fwrite(p, s, n, fp); }
int __wrap_vfprintf(FILE* fp, const char* fmt, va_list va) { if (passthrough(fp)) return __real_vfprintf(fp, fmt, va); if (check_handle("vfprintf", fp) < 0) return -1; return __real_vfprintf(fp, fmt, va); }
int __wrap_vfscanf(FILE* fp, const char* fmt, va_list va) { if (passthrough(fp)) return __real_vfscanf(fp, fmt, va); if (check_handle("vfscanf", fp) < 0) return -1; return __real_vfscanf(fp, fmt, va); }

int __wrap___isoc99_vfscanf(FILE* fp, const char* fmt, va_list va) { if (passthrough(fp)) return __real___isoc99_vfscanf(fp, fmt, va); if (check_handle("vfscanf", fp) < 0) return -1; return __real___isoc99_vfscanf(fp, fmt, va); }

/* ------------------------------------------------------------------------------------------ state */
#define NOBJ 8
#define NSTACK 4
#define NFILE 6
#define F_NODIR 90
#define F_FULL 91
#define MAXIO 262144
#define FULL_LIMIT 1024
#define POS_LIMIT 1048576       /* no write beyond 1 MiB: the model keeps files as byte lists */
enum { L_NONE = 0, L_READ = 1, L_WRITE = 2 };

static var* objs;                       /* main's local array (on the stack, so the collector sees the heap objects) */
static struct { int file; char mode[8]; int last; long pending; FILE* twin; } bk[NOBJ];   /* harness bookkeeping, file = -1: closed */
static char tmpdir[300];
static unsigned char *buf1, *buf2;
static int in_with[NOBJ];               /* number of with-blocks on object o that are being executed */

static int file_ok(int k) { return (k >= 0 && k < NFILE) || k == F_NODIR || k == F_FULL; }
static void path_of(int k, int twin, char* out, size_t n) {
  if (k == F_FULL) snprintf(out, n, "/dev/full");
  else if (k == F_NODIR) snprintf(out, n, "%s/nodir/x", tmpdir);
  else snprintf(out, n, "%s/%c%d.bin", tmpdir, twin ? 't' : 'f', k);
}
static const char* MODES[] = { "r", "w", "a", "r+", "w+", "rb", "wb", "ab", "r+b", "rb+", "w+b", "wb+", "x", NULL };
static int mode_ok(const char* m) { for (int i = 0; MODES[i]; i++) if (!strcmp(MODES[i], m)) return 1; return 0; }
static int m_read(const char* m) { return m[0] == 'r' || strchr(m, '+') != NULL; }
static int m_write(const char* m) { return m[0] == 'w' || m[0] == 'a' || strchr(m, '+') != NULL; }
static int m_full_ok(const char* m) { return (m[0] == 'w' || m[0] == 'a') && !strchr(m, '+'); }

static FILE* raw(int o) { return objs[o] ? ((struct File*)objs[o])->file : NULL; }
static int holders(FILE* fp) { int n = 0; if (objs && fp) for (int o = 0; o < NOBJ; o++) if (raw(o) == fp) n++; return n; }
/* 0: the object is closed or the only holder of an open handle; 1: it shares an open handle with another object;
   2: it holds a handle that is not open any more */
static int shared_state(int o) {
  FILE* fp = raw(o); if (!fp) return 0;
  if (live_index(fp) < 0) return 2;
  return holders(fp) > 1 ? 1 : 0;
}

static unsigned char gen_byte(uint64_t seed, uint64_t i) {
  uint64_t z = seed * 0x9E3779B97F4A7C15ULL + i * 0xBF58476D1CE4E5B9ULL + 0x94D049BB133111EBULL;
  z ^= z >> 29; z *= 0xBF58476D1CE4E5B9ULL; z ^= z >> 32;
  if (((z >> 8) & 3) == 0) return 0;
  return (unsigned char)(z & 0xFF);
}
static uint64_t fnv(const unsigned char* p, size_t n) {
  uint64_t h = 14695981039346656037ULL;
  for (size_t i = 0; i < n; i++) { h ^= p[i]; h *= 1099511628211ULL; }
  return h;
}

/* results of the op being executed (static: they are written between setjmp and longjmp) */
static var r_exc; static long long r_ret; static long long r_val;

static void begin_op(void) { calllen = 0; callbuf[0] = 0; ncalls = 0; r_exc = NULL; r_ret = 0; r_val = 0; first_call[0] = 0; calls_same = 1; }

/* state of object o as libc sees the raw stream */
static void st_text(int o, char* out, size_t n) {
  if (!objs[o]) { snprintf(out, n, "none"); return; }
  FILE* fp = raw(o);
  if (!fp) { snprintf(out, n, "closed"); return; }
  int i = live_index(fp);
  if (i < 0) { snprintf(out, n, "STALE"); return; }
  snprintf(out, n, "h%d:%ld:%d", live_id[i], __real_ftell(fp), __real_feof(fp) ? 1 : 0);
}

/* handle accounting: live handles == handles held by the existing objects, each by exactly one */
static int said_dead[NOBJ], said_alias[NOBJ];      /* known-finding lines are printed once per object and handle */
static void check_accounting(void) {
  int held_live = 0;
  for (int o = 0; o < NOBJ; o++) {
    FILE* fp = raw(o);
    if (!fp) continue;
    int li = live_index(fp);
    if (li < 0) {
      int d = dead_index(fp);
      if (d >= 0) { if (said_dead[o] != dead_id[d]) X("sig=" KF_ALIAS " line=%zu what=object %d keeps handle %d, which was closed through another File object", cur_line, o, dead_id[d]); said_dead[o] = dead_id[d]; }
      else X("sig=stale-handle-kept line=%zu what=object %d keeps a handle that is not open", cur_line, o);
      continue;
    }
    int first = 1;
    for (int p = 0; p < o; p++) if (raw(p) == fp) {
      first = 0;
      if (in_ids(aliased_id, naliased, live_id[li])) { if (said_alias[o] != live_id[li]) X("sig=" KF_ALIAS " line=%zu what=objects %d and %d hold the same handle %d", cur_line, p, o, live_id[li]); said_alias[o] = live_id[li]; }
      else X("sig=stale-handle-kept line=%zu what=objects %d and %d hold the same handle", cur_line, p, o);
    }
    if (first) held_live++;
  }
  int unheld = 0;
  for (int i = 0; i < nlive; i++) {
    if (holders(live_fp[i]) > 0) continue;
    if (in_ids(leaked_id, nleaked, live_id[i])) continue;      /* reported when assign overwrote it, and at the end */
    unheld++;
  }
  if (unheld) X("sig=handle-leak line=%zu what=%d handles are open but the File objects hold %d", cur_line, nlive, held_live);
}

static void emit(int o, const char* op, const char* extra) {
  char st[96]; st_text(o, st, sizeof st);
  O("%s exc=%s%s%s st=%s calls=%s live=%d", op, v_exc_name(r_exc), extra[0] ? " " : "", extra, st, ncalls ? callbuf : "-", nlive);
  check_accounting();
}

/* ops that need an open File: when it was closed they must raise IOError without touching stdio */
static int refused_if_closed(int o, const char* op, int was_open) {
  if (was_open) return 0;
  if (r_exc != IOError || ncalls != 0)
    X("sig=closed-not-refused line=%zu what=%s on a closed File: exception %s, %d stdio calls (%s)", cur_line, op, v_exc_name(r_exc), ncalls, callbuf);
  return 1;
}
static void expect_exc(const char* op, var want) {
  if (r_exc != want) X("sig=exc-mismatch line=%zu what=%s raised %s, libc on the twin says %s", cur_line, op, v_exc_name(r_exc), v_exc_name(want));
}
static void compare_stream(int o, const char* op) {
  FILE* fp = raw(o); FILE* tw = bk[o].twin;
  if (!fp || !tw || live_index(fp) < 0) return;
  long a = __real_ftell(fp), b = __real_ftell(tw);
  if (a != b) X("sig=tell-mismatch line=%zu what=after %s the File is at %ld, libc on the twin at %ld", cur_line, op, a, b);
  int ea = __real_feof(fp) ? 1 : 0, eb = __real_feof(tw) ? 1 : 0;
  if (ea != eb) X("sig=eof-mismatch line=%zu what=after %s feof is %d, on the twin %d", cur_line, op, ea, eb);
}

/* the twin's stream is closed whenever the object's close path runs; returns libc's verdict */
static int twin_close(int o) {
  int rc = 0;
  if (bk[o].twin) { rc = __real_fclose(bk[o].twin); bk[o].twin = NULL; }
  bk[o].file = -1; bk[o].last = L_NONE; bk[o].pending = 0;
  return rc;
}
static void must_be_closed(int o, const char* op) {
  if (objs[o] && raw(o) != NULL) X("sig=not-closed line=%zu what=after %s the File still holds a handle", cur_line, op);
}

static int busy(int k, int except) {
  if (k < 0 || k >= NFILE) return 0;
  for (int o = 0; o < NOBJ; o++) if (o != except && bk[o].file == k) return 1;
  return 0;
}

static void trec_drop(int k, long from);      /* typed text: forget what print_to wrote into file k at offsets >= from */
/* open path shared by `open` and `new` with arguments; `fresh` = object did not exist before */
static void mirror_open(int o, int k, const char* mode, const char* op, int was_open) {
  var want = NULL;
  if (was_open) {
    int rc = twin_close(o);
    if (rc != 0) want = IOError;
  }
  if (!want) {
    char p[400]; path_of(k, 1, p, sizeof p);
    FILE* tw = __real_fopen(p, mode);
    if (!tw) want = IOError;
    else { bk[o].twin = tw; bk[o].file = k; snprintf(bk[o].mode, sizeof bk[o].mode, "%s", mode); bk[o].last = L_NONE; bk[o].pending = 0;
           if (mode[0] == 'w') trec_drop(k, 0); }
  }
  expect_exc(op, want);
  if (objs[o]) {
    if (want && raw(o) != NULL) X("sig=not-closed line=%zu what=%s failed but the File holds a handle", cur_line, op);
    if (!want && raw(o) == NULL) X("sig=exc-mismatch line=%zu what=%s succeeded but the File holds no handle", cur_line, op);
  }
}

/* does the text at the twin's position scan as a plain decimal integer (the part of %li that the model covers)? */
static int scan_supported(int o) {
  FILE* tw = bk[o].twin; if (!tw) return 1;
  if (!m_read(bk[o].mode)) return 1;
  long pos = __real_ftell(tw);
  char p[400]; path_of(bk[o].file, 1, p, sizeof p);
  int fd = open(p, O_RDONLY); if (fd < 0) return 1;
  unsigned char b[4200]; ssize_t n = pread(fd, b, sizeof b, pos); close(fd);
  if (n < 0) n = 0;
  ssize_t i = 0;
  while (i < n && (b[i] == ' ' || (b[i] >= 9 && b[i] <= 13))) i++;
  if (i >= n) return n < (ssize_t)sizeof b;           /* only white space up to the end of the file */
  if (b[i] == '+' || b[i] == '-') i++;
  ssize_t d = i; while (d < n && b[d] >= '0' && b[d] <= '9') d++;
  if (d == (ssize_t)sizeof b) return 0;
  ssize_t nd = d - i;
  if (nd == 0) return 1;
  if (nd > 18) return 0;
  if (b[i] == '0' && (nd > 1 || (d < n && (b[d] == 'x' || b[d] == 'X')))) return 0;
  return 1;
}

static void run_range(char** lines, size_t lo, size_t hi);

static int parse_hex(const char* s, unsigned char* out, size_t cap, size_t* n) {
  *n = 0; if (!strcmp(s, "-")) return 1;
  size_t l = strlen(s); if (l % 2) return 0;
  for (size_t i = 0; i < l; i += 2) {
    unsigned v; char t[3] = { s[i], s[i+1], 0 }; char* e;
    v = (unsigned)strtoul(t, &e, 16); if (*e) return 0;
    if (*n >= cap) return 0; out[(*n)++] = (unsigned char)v;
  }
  return 1;
}

static void do_write(int o, const char* op, size_t len) {
  int was_open = raw(o) != NULL;
  char ex[128];
  if (was_open && bk[o].last == L_READ && !__real_feof(raw(o))) { O("%s unsup", op); return; }
  if (was_open && bk[o].file == F_FULL && bk[o].pending + (long)len > FULL_LIMIT) { O("%s unsup", op); return; }
  if (was_open && __real_ftell(raw(o)) > POS_LIMIT) { O("%s unsup", op); return; }
  begin_op(); trk = 1; V_TRY(r_exc, r_ret = (long long)swrite(objs[o], buf1, len)); trk = 0;
  if (!refused_if_closed(o, op, was_open)) {
    size_t r2 = __real_fwrite(buf1, len, 1, bk[o].twin);
    var want = (r2 != 1 && len != 0) ? IOError : NULL;
    expect_exc(op, want);
    if (!r_exc && (size_t)r_ret != r2) X("sig=ret-mismatch line=%zu what=swrite returned %lld, fwrite on the twin %zu", cur_line, r_ret, r2);
    if (len > 0 && m_write(bk[o].mode)) { bk[o].last = L_WRITE; if (bk[o].file == F_FULL) bk[o].pending += (long)len; trec_drop(bk[o].file, 0); }
    compare_stream(o, op);
  }
  snprintf(ex, sizeof ex, "ret=%lld", r_exc ? -1LL : r_ret);
  emit(o, op, ex);
}

static void do_close_like(int o, const char* op, int which) {   /* 0 sclose, 1 stop */
  int was_open = raw(o) != NULL;
  begin_op(); trk = 1;
  if (which == 0) V_TRY(r_exc, sclose(objs[o])); else V_TRY(r_exc, stop(objs[o]));
  trk = 0;
  if (!refused_if_closed(o, op, was_open)) {
    int rc = twin_close(o);
    expect_exc(op, rc != 0 ? IOError : NULL);
  }
  must_be_closed(o, op);
  emit(o, op, "");
}

/* ------------------------------------------------------------------------------------------ with blocks
 * `with (f in S) { body }` through the real macro, for source expressions S with and without side effects:
 *   WK_VAR   with (f in objs[o])                              a variable
 *   WK_NEW   with (f in new(File, $S(path), $S(mode)))        the idiom of the documentation: S constructs and opens
 *   WK_NEW0  with (f in new(File))                            S constructs a closed File
 *   WK_CALL  with (f in src_call(depth, path, mode))          a function that constructs the File and counts its calls
 * and for the five ways a body can end: falling off its end, `continue` (both reach the step clause of the for loop the
 * macro expands to), `break`, `return` (the block is written in a function of its own, with_run) and an exception (all
 * three leave the loop without it: known finding KF-C20-with-early-exit when the File is open at that moment).
 * Oracle, independent of the model: S is evaluated exactly once (call counter; no fopen attempt outside the init
 * clause); the init clause makes exactly the fopen attempt S asks for; the step clause makes exactly one stdio call,
 * fclose of the handle the loop variable's File held when the body ended (or none and IOError when it held none), and
 * leaves that File closed; break / exception make no call; handle accounting and the twin file as for every other op. */
enum { WK_VAR = 0, WK_NEW = 1, WK_NEW0 = 2, WK_CALL = 3 };
enum { LV_FALL = 0, LV_CONT = 1, LV_BRK = 2, LV_THROW = 3, LV_RET = 4 };
#define MAXDEPTH 16
static int with_depth = 0;
static int src_evals[MAXDEPTH + 2];
static var src_call(int d, const char* path, const char* mode) { src_evals[d]++; return new(File, $S(path), $S(mode)); }

static int count_calls(const char* fn) {          /* how many recorded calls of this op are `fn:…` */
  int n = 0; size_t l = strlen(fn);
  for (const char* q = callbuf; *q; ) {
    if (!strncmp(q, fn, l) && q[l] == ':') n++;
    const char* c = strchr(q, ','); if (!c) break; q = c + 1;
  }
  return n;
}

/* the body of every variant (a macro: `break` / `continue` / `return` must sit inside the for loop `with` expands to) */
struct wctx { volatile int entered; volatile int hid; };
#define WITH_BODY(BIND) { \
    trk = 0; cx->entered = 1; \
    if (BIND) objs[o] = f; \
    with_entered(o, wk, k, mode, d); \
    with_depth++; in_with[o]++; \
    run_range(lines, i + 1, end); \
    with_depth--; in_with[o]--; \
    if (leave == LV_THROW) throw(ValueError, "leaving the with block"); \
    begin_op(); cur_line = i + 1; \
    if (leave == LV_BRK) break; \
    if (leave == LV_RET) return; \
    cx->hid = (raw(o) && live_index(raw(o)) >= 0) ? live_id[live_index(raw(o))] : 0; \
    trk = 1; \
    if (leave == LV_CONT) continue; \
  }

static void with_entered(int o, int wk, int k, const char* mode, int d);
/* the real macro: init clause, body, step clause — in a function of its own so that a body can `return` out of it */
static void with_run(char** lines, size_t i, size_t end, int o, int wk, int k, const char* p, const char* mode, int d, int leave, struct wctx* cx) {
  switch (wk) {
    case WK_VAR:  with (f in objs[o]) WITH_BODY(0); break;
    case WK_NEW:  with (f in new(File, $S(p), $S(mode))) WITH_BODY(1); break;
    case WK_NEW0: with (f in new(File)) WITH_BODY(1); break;
    default:      with (f in src_call(d, p, mode)) WITH_BODY(1); break;
  }
}

static void with_entered(int o, int wk, int k, const char* mode, int d) {
  r_exc = NULL;
  if (wk == WK_NEW || wk == WK_CALL) mirror_open(o, k, mode, "with-enter", 0);
  int want_fopen = (wk == WK_NEW || wk == WK_CALL) ? 1 : 0;
  if (ncalls != want_fopen || count_calls("fopen") != want_fopen)
    X("sig=with-init-calls line=%zu what=the init clause of with made the stdio calls (%s), expected %s", cur_line, ncalls ? callbuf : "-", want_fopen ? "exactly one fopen" : "none");
  if (wk == WK_CALL && src_evals[d] != 1)
    X("sig=with-reeval line=%zu what=the source expression of with was evaluated %d times before the body", cur_line, src_evals[d]);
  emit(o, "with-enter", "");
}

static void exec_with(char** lines, size_t* ip, size_t hi, size_t i, int o, int wk, const char* op, char** tok, int nt) {
  /* with <o> <n> | withx <o> <n> | withv <o> <leave> <n> | withnew0 <o> <leave> <n> | withnew/withcall <o> <file> <mode> <leave> <n> */
  const char* lvs = NULL; const char* ns = NULL; const char* mode = ""; long kl = -1; char* e;
  if (!strcmp(op, "with") || !strcmp(op, "withx")) { if (nt != 3) { O("bad-op"); return; } lvs = !strcmp(op, "with") ? "fall" : "throw"; ns = tok[2]; }
  else if (wk == WK_VAR || wk == WK_NEW0) { if (nt != 4) { O("bad-op"); return; } lvs = tok[2]; ns = tok[3]; }
  else {
    if (nt != 6) { O("bad-op"); return; }
    kl = strtol(tok[2], &e, 10);
    if (*e || !file_ok((int)kl) || !mode_ok(tok[3])) { O("bad-op"); return; }
    mode = tok[3]; lvs = tok[4]; ns = tok[5];
  }
  int leave = !strcmp(lvs, "fall") ? LV_FALL : !strcmp(lvs, "cont") ? LV_CONT : !strcmp(lvs, "brk") ? LV_BRK : !strcmp(lvs, "throw") ? LV_THROW : !strcmp(lvs, "ret") ? LV_RET : -1;
  long n = strtol(ns, &e, 10);
  if (leave < 0 || *e || n < 0 || ns[0] == '-' || ns[0] == '+') { O("bad-op"); return; }
  if (with_depth > MAXDEPTH) { O("bad-op"); return; }
  int k = (int)kl;
  if (wk == WK_NEW || wk == WK_CALL) {
    if (busy(k, o)) { O("%s busy", op); return; }
    if (k == F_FULL && !m_full_ok(mode)) { O("%s unsup", op); return; }
  }
  size_t end = i + 1 + (size_t)n; if (end > hi || end < i) end = hi;
  char p[400]; p[0] = 0; if (wk == WK_NEW || wk == WK_CALL) path_of(k, 0, p, sizeof p);
  int d = with_depth;
  struct wctx cxs = { 0, 0 }; struct wctx* cx = &cxs;
  var wexc = NULL;
  src_evals[d] = 0;
  cur_line = i + 1;
  begin_op(); trk = 1;
  V_TRY(wexc, with_run(lines, i, end, o, wk, k, p, mode, d, leave, cx));
  trk = 0;
  int entered = cx->entered, hid = cx->hid;
  cur_line = i + 1;
  r_exc = wexc;
  *ip = end;
  if (!entered) {
    /* the init clause threw (the constructor could not open the file): the loop was never entered, nothing is bound */
    if (wk == WK_NEW || wk == WK_CALL) { mirror_open(o, k, mode, "with-enter", 0); if (bk[o].twin) twin_close(o); }
    if (!r_exc) X("sig=with-not-entered line=%zu what=the with block was skipped although its init clause raised nothing", cur_line);
    if (wk == WK_CALL && src_evals[d] != 1) X("sig=with-reeval line=%zu what=the source expression of with was evaluated %d times", cur_line, src_evals[d]);
    emit(o, "with-enter", "");
    return;
  }
  if (wk == WK_CALL && src_evals[d] != 1)
    X("sig=with-reeval line=%zu what=the source expression of with was evaluated %d times", cur_line, src_evals[d]);
  if (leave == LV_THROW || leave == LV_BRK || leave == LV_RET) {
    const char* how = leave == LV_THROW ? "an exception" : leave == LV_BRK ? "break" : "return";
    if (leave == LV_THROW) { calllen = 0; callbuf[0] = 0; ncalls = 0; }
    else if (r_exc || ncalls) X("sig=with-exit-calls line=%zu what=%s out of a with block raised %s and made the stdio calls (%s)", cur_line, how, v_exc_name(r_exc), ncalls ? callbuf : "-");
    /* the property: leaving a with block closes the stream.  The loop was left without its step clause: known finding */
    if (raw(o) != NULL)
      X("sig=" KF_EARLY " line=%zu what=the with block was left by %s: stop_in did not run and the File still holds an open stream", cur_line, how);
    emit(o, leave == LV_THROW ? "with-abort" : leave == LV_BRK ? "with-break" : "with-return", "");
    return;
  }
  /* the step clause ran.  Was the File open when it ran?  the twin says so */
  int was_open = bk[o].file >= 0;
  if (!refused_if_closed(o, "with-exit", was_open)) {
    int rc = twin_close(o);
    expect_exc("with-exit", rc != 0 ? IOError : NULL);
    char want[32]; snprintf(want, sizeof want, "fclose:%d", (int)hid);
    if (strcmp(callbuf, want) != 0)
      X("sig=with-exit-calls line=%zu what=leaving the with block made the stdio calls (%s), expected exactly %s: the one fclose of the handle the body used", cur_line, ncalls ? callbuf : "-", want);
  }
  must_be_closed(o, "with-exit");
  emit(o, "with-exit", "");
}

/* an object that shares its handle with another object (sh = 1) or holds a handle that is not open any more (sh = 2):
 * the region of KF-C20-copy-aliases-handle.  No twin: the wrappers refuse and report every call on a dead handle. */
static void exec_shared(int o, int sh, const char* op, char** tok, int nt) {
  char ex[128]; ex[0] = 0; char* e;
  if (!strcmp(op, "close") || !strcmp(op, "stop")) {
    if (nt != 2) { O("bad-op"); return; }
    begin_op(); trk = 1;
    if (op[0] == 'c') V_TRY(r_exc, sclose(objs[o])); else V_TRY(r_exc, stop(objs[o]));
    trk = 0;
    twin_close(o);
    must_be_closed(o, op);
    emit(o, op, "");
    return;
  }
  if (!strcmp(op, "del")) {
    if (o < NSTACK || nt != 2 || in_with[o] > 0) { O("bad-op"); return; }
    begin_op(); trk = 1; V_TRY(r_exc, del(objs[o])); trk = 0;
    objs[o] = NULL;
    twin_close(o);
    emit(o, "del", "");
    return;
  }
  if (!strcmp(op, "tell") || !strcmp(op, "eof")) {
    if (nt != 2) { O("bad-op"); return; }
    begin_op(); trk = 1;
    if (op[0] == 't') V_TRY(r_exc, r_ret = (long long)stell(objs[o])); else V_TRY(r_exc, r_ret = seof(objs[o]) ? 1 : 0);
    trk = 0;
    snprintf(ex, sizeof ex, "ret=%lld", r_exc ? -1LL : r_ret);
    emit(o, op, ex);
    return;
  }
  if (sh == 2 && !strcmp(op, "flush")) {
    if (nt != 2) { O("bad-op"); return; }
    begin_op(); trk = 1; V_TRY(r_exc, sflush(objs[o])); trk = 0;
    emit(o, op, "");
    return;
  }
  if (sh == 2 && !strcmp(op, "seek")) {
    if (nt != 4) { O("bad-op"); return; }
    long long off = strtoll(tok[2], &e, 10); if (*e) { O("bad-op"); return; }
    int wh = !strcmp(tok[3], "set") ? SEEK_SET : !strcmp(tok[3], "cur") ? SEEK_CUR : !strcmp(tok[3], "end") ? SEEK_END : !strcmp(tok[3], "bad") ? 7 : -1;
    if (wh < 0) { O("bad-op"); return; }
    begin_op(); trk = 1; V_TRY(r_exc, sseek(objs[o], off, wh)); trk = 0;
    emit(o, op, "");
    return;
  }
  if (sh == 2 && !strcmp(op, "read")) {
    if (nt != 3) { O("bad-op"); return; }
    long long size = strtoll(tok[2], &e, 10);
    if (*e || size < 0 || size > MAXIO) { O("bad-op"); return; }
    begin_op(); trk = 1; V_TRY(r_exc, r_ret = (long long)sread(objs[o], buf1, (size_t)size)); trk = 0;
    snprintf(ex, sizeof ex, "ret=%lld got=0 h=%llu", r_exc ? -1LL : r_ret, (unsigned long long)fnv(buf1, 0));
    emit(o, op, ex);
    return;
  }
  if (sh == 2 && (!strcmp(op, "write") || !strcmp(op, "writehex"))) {
    size_t len = 0;
    if (op[5] == 0) {
      if (nt != 4) { O("bad-op"); return; }
      long long l = strtoll(tok[2], &e, 10); if (*e || l < 0 || l > MAXIO) { O("bad-op"); return; }
      unsigned long long seed = strtoull(tok[3], &e, 10); if (*e) { O("bad-op"); return; }
      for (long long j = 0; j < l; j++) buf1[j] = gen_byte(seed, (uint64_t)j);
      len = (size_t)l;
    } else {
      if (nt != 3) { O("bad-op"); return; }
      if (!parse_hex(tok[2], buf1, MAXIO, &len)) { O("bad-op"); return; }
    }
    begin_op(); trk = 1; V_TRY(r_exc, r_ret = (long long)swrite(objs[o], buf1, len)); trk = 0;
    snprintf(ex, sizeof ex, "ret=%lld", r_exc ? -1LL : r_ret);
    emit(o, op, ex);
    return;
  }
  O("%s unsup", op);
}


/* ------------------------------------------------------------------------------------------ typed text: tp / ts */
enum { T_INT, T_CHR, T_FLT, T_STR, T_SHOWI, T_SHOWF, T_SHOWS };
struct tspec { int kind; int width; int sgn; int wide; char conv; char fmt[16]; char name[8]; };
static int parse_tspec(const char* sp, struct tspec* t) {
  memset(t, 0, sizeof *t);
  size_t n = strlen(sp); if (n < 1 || n > 3) return 0;
  snprintf(t->name, sizeof t->name, "%s", sp);
  if (!strcmp(sp, "c")) { t->kind = T_CHR; strcpy(t->fmt, "%c"); return 1; }
  if (!strcmp(sp, "s")) { t->kind = T_STR; strcpy(t->fmt, "%s"); return 1; }
  if (!strcmp(sp, "$i")) { t->kind = T_SHOWI; strcpy(t->fmt, "%$"); return 1; }
  if (!strcmp(sp, "$f")) { t->kind = T_SHOWF; strcpy(t->fmt, "%$"); return 1; }
  if (!strcmp(sp, "$s")) { t->kind = T_SHOWS; strcpy(t->fmt, "%$"); return 1; }
  char conv = sp[n - 1]; char mod[4]; memcpy(mod, sp, n - 1); mod[n - 1] = 0;
  t->conv = conv;
  if (strchr("diouxX", conv)) {
    static const char* M[] = { "", "hh", "h", "l", "ll", "j", "z", "t", "q", NULL };
    int ok = 0; for (int i = 0; M[i]; i++) if (!strcmp(M[i], mod)) ok = 1;
    if (!ok) return 0;
    t->kind = T_INT; t->sgn = conv == 'd' || conv == 'i';
    t->width = !strcmp(mod, "hh") ? 8 : !strcmp(mod, "h") ? 16 : !mod[0] ? 32 : 64;
  } else if (strchr("fFeEgG", conv)) {
    if (mod[0] && strcmp(mod, "l")) return 0;
    t->kind = T_FLT; t->wide = mod[0] == 'l';
  } else return 0;
  snprintf(t->fmt, sizeof t->fmt, "%%%s", sp);
  return 1;
}
static int c_space(int b) { return b == 32 || (b >= 9 && b <= 13); }
static int parse_sep(const char* s, unsigned char* out, size_t* n) {
  if (!parse_hex(s, out, 8, n)) return 0;
  for (size_t i = 0; i < *n; i++) if (out[i] == '%' || out[i] == 0) return 0;
  out[*n] = 0;
  return 1;
}
#define MAXSTRVAL 64
#define MAXWORD 190
#define TS_WINDOW 4200
#define TS_LIMIT 4000
struct tval { long long iv; double d; unsigned char s[TS_WINDOW + 8]; size_t sl; };
static uint64_t bits_of(double d) { uint64_t u; memcpy(&u, &d, 8); return u; }
static int kind_is_int(int k) { return k == T_INT || k == T_CHR || k == T_SHOWI; }
static int kind_is_flt(int k) { return k == T_FLT || k == T_SHOWF; }
static void tval_text(const struct tspec* t, const struct tval* v, char* out, size_t n) {
  if (kind_is_int(t->kind)) snprintf(out, n, "%lld", v->iv);
  else if (kind_is_flt(t->kind)) snprintf(out, n, "x%016llx", (unsigned long long)bits_of(v->d));
  else snprintf(out, n, "s%zu:%llu", v->sl, (unsigned long long)fnv(v->s, v->sl));
}
/* an independent writer / reader of String literals (the C escapes \a \b \f \n \r \t \v \\ \' \" \?), on a libc stream */
static const char ESC_BYTES[] = "\a\b\f\n\r\t\v\\\'\"\?"; static const char ESC_LETTERS[] = "abfnrtv\\'\"?";
static int ref_show_string(FILE* tw, const unsigned char* str, size_t n) {
  int tot = 0, r = fprintf(tw, "\""); if (r < 0) return -1; tot += r;
  for (size_t i = 0; i < n; i++) {
    const char* e = str[i] ? strchr(ESC_BYTES, str[i]) : NULL;
    r = e ? fprintf(tw, "\\%c", ESC_LETTERS[e - ESC_BYTES]) : fprintf(tw, "%c", str[i]);
    if (r < 0) return -1; tot += r;
  }
  r = fprintf(tw, "\""); if (r < 0) return -1;
  return tot + r;
}
/* parses a literal from a byte window; returns bytes consumed (0 = not a complete well-formed literal within the window) */
static size_t ref_look_window(const unsigned char* b, size_t n, unsigned char* out, size_t* outlen) {
  size_t i = 0, k = 0;
  if (n == 0 || b[0] != '"') return 0;
  for (i = 1; i < n; i++) {
    if (b[i] == '"') { *outlen = k; return i + 1; }
    if (b[i] == '\\') {
      if (i + 1 >= n) return 0;
      const char* e = b[i + 1] ? strchr(ESC_LETTERS, b[i + 1]) : NULL;
      if (!e) return 0;
      out[k++] = (unsigned char)ESC_BYTES[e - ESC_LETTERS]; i++;
    } else if (b[i] != 0) out[k++] = b[i];
  }
  return 0;
}
/* the round trip itself: what was printed where */
struct trec { int file; long off; char spec[8]; int kind; long long iv; unsigned char s[MAXSTRVAL + 1]; size_t sl; };
#define MAXTREC 512
static struct trec trecs[MAXTREC]; static int ntrec = 0;
static void trec_drop(int k, long from) {
  int j = 0;
  for (int i = 0; i < ntrec; i++) if (!(trecs[i].file == k && trecs[i].off >= from)) trecs[j++] = trecs[i];
  ntrec = j;
}
static int representable(const struct tspec* t, const struct tval* v, const unsigned char* sep, size_t seplen) {
  int term = seplen > 0 && (c_space(sep[0]) || strchr(",;:|/", sep[0]) != NULL);
  switch (t->kind) {
    case T_INT:
      if (!term) return 0;
      if (t->width == 64) return 1;
      if (t->sgn) return v->iv >= -(1LL << (t->width - 1)) && v->iv < (1LL << (t->width - 1));
      return v->iv >= 0 && v->iv < (1LL << t->width);
    case T_CHR: return v->iv >= -128 && v->iv <= 127;
    case T_SHOWI: return term;
    case T_STR:
      if (v->sl == 0 || !(seplen > 0 && c_space(sep[0]))) return 0;
      for (size_t i = 0; i < v->sl; i++) if (c_space(v->s[i])) return 0;
      return 1;
    case T_SHOWS: return 1;
    default: return 0;
  }
}
static void emit_t(int o, const char* op, const char* extra) {
  char st[96]; st_text(o, st, sizeof st);
  char cs[96];
  if (ncalls == 0) snprintf(cs, sizeof cs, "-");
  else if (calls_same) snprintf(cs, sizeof cs, "%s*%d", first_call, ncalls);
  else { snprintf(cs, sizeof cs, "mixed*%d", ncalls); X("sig=stale-handle line=%zu what=one print_to / scan_from made stdio calls on different streams or of different kinds (%s)", cur_line, callbuf); }
  O("%s exc=%s %s st=%s calls=%s live=%d", op, v_exc_name(r_exc), extra, st, cs, nlive);
  check_accounting();
}
static int twin_print(FILE* tw, const struct tspec* t, const struct tval* v) {
  switch (t->kind) {
    case T_INT: return t->width == 64 ? fprintf(tw, t->fmt, (long)v->iv) : fprintf(tw, t->fmt, (int)v->iv);
    case T_CHR: return fprintf(tw, "%c", (int)v->iv);
    case T_FLT: return fprintf(tw, t->fmt, v->d);
    case T_STR: return fprintf(tw, "%s", (const char*)v->s);
    case T_SHOWI: return fprintf(tw, "%li", (long)v->iv);
    case T_SHOWF: return fprintf(tw, "%f", v->d);
    default: return ref_show_string(tw, v->s, v->sl);
  }
}
/* libc's own conversion of the text at the stream / in the window into the C type the specification names.
   `src` = NULL: sscanf on the window `w`; otherwise fscanf on the stream.  Returns 1 when converted; *off = characters consumed. */
static int libc_scan(FILE* src, const char* w, const struct tspec* t, struct tval* out, int* off) {
  char f[32]; int r = 0; *off = 0;
#define SCAN1(fmtstr, ptr) (src ? fscanf(src, fmtstr, ptr, off) : sscanf(w, fmtstr, ptr, off))
  switch (t->kind) {
    case T_INT: {
      snprintf(f, sizeof f, "%s%%n", t->fmt);
      if (t->width == 8) { if (t->sgn) { signed char x = 0; r = SCAN1(f, &x); out->iv = (long long)x; } else { unsigned char x = 0; r = SCAN1(f, &x); out->iv = (long long)x; } }
      else if (t->width == 16) { if (t->sgn) { short x = 0; r = SCAN1(f, &x); out->iv = (long long)x; } else { unsigned short x = 0; r = SCAN1(f, &x); out->iv = (long long)x; } }
      else if (t->width == 32) { if (t->sgn) { int x = 0; r = SCAN1(f, &x); out->iv = (long long)x; } else { unsigned int x = 0; r = SCAN1(f, &x); out->iv = (long long)x; } }
      else { if (t->sgn) { long x = 0; r = SCAN1(f, &x); out->iv = (long long)x; } else { unsigned long x = 0; r = SCAN1(f, &x); out->iv = (long long)x; } }
      return r >= 1;
    }
    case T_CHR: { char x = 0; r = SCAN1("%c%n", &x); out->iv = (long long)x; return r >= 1; }
    case T_FLT: {
      snprintf(f, sizeof f, "%s%%n", t->fmt);
      if (t->wide) { double x = 0; r = SCAN1(f, &x); out->d = x; } else { float x = 0; r = SCAN1(f, &x); out->d = (double)x; }
      return r >= 1;
    }
    case T_SHOWI: { long x = 0; r = SCAN1("%li%n", &x); out->iv = (long long)x; return r >= 1; }
    case T_SHOWF: { double x = 0; r = SCAN1("%lf%n", &x); out->d = x; return r >= 1; }
    case T_STR: { out->s[0] = 0; r = SCAN1("%4100s%n", (char*)out->s); out->sl = r >= 1 ? strlen((char*)out->s) : 0; return r >= 1; }
    default: return 0;
  }
#undef SCAN1
}
/* 0: outside what both sides execute; 1: libc converts the text at the twin's position; 2: the file ends there (after white space) */
static int ts_supported(int o, const struct tspec* t) {
  FILE* tw = bk[o].twin; if (!tw) return 1;
  if (!m_read(bk[o].mode)) return 1;                      /* vfscanf answers EOF: FormatError, nothing consumed */
  long pos = __real_ftell(tw);
  char p[400]; path_of(bk[o].file, 1, p, sizeof p);
  int fd = open(p, O_RDONLY); if (fd < 0) return 0;
  static unsigned char b[TS_WINDOW + 8]; ssize_t n = pread(fd, b, TS_WINDOW, pos); close(fd);
  if (n < 0) n = 0;
  b[n] = 0;
  ssize_t ws = 0; while (ws < n && c_space(b[ws])) ws++;
  if (t->kind == T_CHR) return n > 0 ? 1 : 2;
  if (t->kind == T_SHOWS) {
    if (n == 0) return 2;
    static unsigned char tmp[TS_WINDOW + 8]; size_t tl; size_t used = ref_look_window(b, (size_t)n, tmp, &tl);
    return used > 0 && used < TS_LIMIT ? 1 : 0;
  }
  if (ws == n) return n < TS_LIMIT ? 2 : 0;               /* only white space up to the end of the file */
  if (t->kind == T_STR) {
    ssize_t e = ws; while (e < n && !c_space(b[e])) e++;
    if (e - ws > MAXWORD || e >= TS_LIMIT) return 0;
    return 1;
  }
  if (kind_is_flt(t->kind)) {
    ssize_t i = ws; if (i < n && (b[i] == '+' || b[i] == '-')) i++;
    if (i < n && strchr("iInN", b[i]) && b[i]) return 0;                        /* inf / nan */
    if (i + 1 < n && b[i] == '0' && (b[i + 1] == 'x' || b[i + 1] == 'X')) return 0;    /* hexadecimal floats */
  }
  struct tval v; int off = 0;
  if (!libc_scan(NULL, (const char*)b, t, &v, &off)) return 0;                  /* a matching failure in the middle of the text */
  return off < TS_LIMIT ? 1 : 0;
}
static void exec_tp(int o, char** tok, int nt) {
  struct tspec t; static struct tval v; unsigned char sep[16]; size_t seplen = 0; char* e; char ex[160];
  if (nt != 5 || !parse_tspec(tok[2], &t) || !parse_sep(tok[4], sep, &seplen)) { O("bad-op"); return; }
  memset(&v, 0, sizeof v);
  if (kind_is_int(t.kind)) {
    const char* q = tok[3]; if (*q == '-') q++;
    if (!*q || strlen(q) > 19) { O("bad-op"); return; }
    for (const char* z = q; *z; z++) if (*z < '0' || *z > '9') { O("bad-op"); return; }
    errno = 0; v.iv = strtoll(tok[3], &e, 10); if (*e || errno == ERANGE) { O("bad-op"); return; }
  } else if (kind_is_flt(t.kind)) {
    if (tok[3][0] != 'x' || strlen(tok[3]) != 17) { O("bad-op"); return; }
    for (const char* z = tok[3] + 1; *z; z++) if (!isxdigit((unsigned char)*z)) { O("bad-op"); return; }
    uint64_t u = strtoull(tok[3] + 1, &e, 16); if (*e) { O("bad-op"); return; }
    if (((u >> 52) & 0x7ff) == 0x7ff) { O("bad-op"); return; }
    memcpy(&v.d, &u, 8);
  } else {
    if (!parse_hex(tok[3], v.s, MAXSTRVAL, &v.sl)) { O("bad-op"); return; }
    for (size_t i = 0; i < v.sl; i++) if (v.s[i] == 0) { O("bad-op"); return; }
    v.s[v.sl] = 0;
  }
  int was_open = raw(o) != NULL;
  if (was_open && ((bk[o].last == L_READ && !__real_feof(raw(o))) || bk[o].file == F_FULL || __real_ftell(raw(o)) > POS_LIMIT)) { O("tp unsup"); return; }
  char fmt[40]; snprintf(fmt, sizeof fmt, "%s%s", t.fmt, (char*)sep);
  var a = kind_is_int(t.kind) ? $I(v.iv) : kind_is_flt(t.kind) ? $F(v.d) : $S((char*)v.s);
  begin_op(); trk = 1; V_TRY(r_exc, r_ret = print_to(objs[o], 0, fmt, a)); trk = 0;
  if (!refused_if_closed(o, "tp", was_open)) {
    FILE* tw = bk[o].twin;
    int x = twin_print(tw, &t, &v); int y = (x < 0 || !seplen) ? 0 : fprintf(tw, "%s", (char*)sep);
    expect_exc("tp", (x < 0 || y < 0) ? FormatError : NULL);
    if (!r_exc && r_ret != x + y) X("sig=ret-mismatch line=%zu what=print_to \"%s\" returned %lld, libc's fprintf on the twin wrote %d", cur_line, fmt, r_ret, x + y);
    if (m_write(bk[o].mode)) bk[o].last = L_WRITE;
    compare_stream(o, "tp");
    if (x >= 0 && y >= 0 && bk[o].file >= 0 && bk[o].file < NFILE) {
      long at = __real_ftell(tw) - (x + y);
      trec_drop(bk[o].file, at);
      if (representable(&t, &v, sep, seplen) && ntrec < MAXTREC) {
        struct trec* r = &trecs[ntrec++]; memset(r, 0, sizeof *r);
        r->file = bk[o].file; r->off = at; snprintf(r->spec, sizeof r->spec, "%s", t.name); r->kind = t.kind; r->iv = v.iv;
        memcpy(r->s, v.s, v.sl); r->sl = v.sl;
      }
    }
  }
  snprintf(ex, sizeof ex, "ret=%lld", r_exc ? -1LL : r_ret);
  emit_t(o, "tp", ex);
}
static void exec_ts(int o, char** tok, int nt) {
  struct tspec t; unsigned char sep[16]; size_t seplen = 0; char ex[200], vt[96];
  if (nt != 4 || !parse_tspec(tok[2], &t) || !parse_sep(tok[3], sep, &seplen)) { O("bad-op"); return; }
  int was_open = raw(o) != NULL;
  if (was_open && (bk[o].last == L_WRITE || bk[o].file == F_FULL)) { O("ts unsup"); return; }
  int sup = was_open ? ts_supported(o, &t) : 1;
  if (!sup) { O("ts unsup"); return; }
  char fmt[40]; snprintf(fmt, sizeof fmt, "%s%s", t.fmt, (char*)sep);
  static char pad[201]; if (!pad[0]) { memset(pad, '#', 200); pad[200] = 0; }
  var a; int heap = 0;
  if (kind_is_int(t.kind)) a = $I(-777);
  else if (kind_is_flt(t.kind)) a = $F(7.5);
  else { a = new(String, $S(pad)); heap = 1; strcpy(c_str(a), "?"); }
  begin_op(); trk = 1; V_TRY(r_exc, r_ret = scan_from(objs[o], 0, fmt, a)); trk = 0;
  static struct tval got, want; memset(&got, 0, sizeof got);
  if (kind_is_int(t.kind)) got.iv = c_int(a);
  else if (kind_is_flt(t.kind)) got.d = c_float(a);
  else { const char* cs = c_str(a); got.sl = strlen(cs); if (got.sl > TS_WINDOW) got.sl = TS_WINDOW; memcpy(got.s, cs, got.sl); }
  if (!refused_if_closed(o, "ts", was_open)) {
    FILE* tw = bk[o].twin;
    long before = __real_ftell(tw);
    int off = 0, ok;
    memset(&want, 0, sizeof want);
    if (t.kind == T_SHOWS) {
      /* the reference reader works on the window; the twin is then advanced by what it consumed */
      ok = 0;
      if (m_read(bk[o].mode) && sup == 1) {
        char p[400]; path_of(bk[o].file, 1, p, sizeof p);
        int fd = open(p, O_RDONLY); static unsigned char b[TS_WINDOW + 8]; ssize_t n = fd >= 0 ? pread(fd, b, TS_WINDOW, before) : 0; if (fd >= 0) close(fd);
        size_t used = ref_look_window(b, n > 0 ? (size_t)n : 0, want.s, &want.sl);
        if (used) { ok = 1; off = (int)used; for (size_t i = 0; i < used; i++) if (fgetc(tw) == EOF) break; }
      } else { int c = fgetc(tw); if (c != EOF) ungetc(c, tw); }
    } else ok = libc_scan(tw, NULL, &t, &want, &off);
    if (ok && seplen) { if (fscanf(tw, (char*)sep) < -1) {} }
    expect_exc("ts", ok ? NULL : FormatError);
    if (!r_exc && ok) {
      int same = kind_is_int(t.kind) ? got.iv == want.iv : kind_is_flt(t.kind) ? bits_of(got.d) == bits_of(want.d)
               : (got.sl == want.sl && memcmp(got.s, want.s, got.sl) == 0);
      if (!same) {
        char wt[96]; tval_text(&t, &got, vt, sizeof vt); tval_text(&t, &want, wt, sizeof wt);
        X("sig=text-value-mismatch line=%zu what=scan_from \"%s\" delivered %s into the object, libc's own fscanf of the same bytes into the C type of %%%s gives %s", cur_line, fmt, vt, t.name, wt);
      }
      if (r_ret != off + (long long)seplen) X("sig=ret-mismatch line=%zu what=scan_from \"%s\" returned %lld, libc consumed %d characters for the conversion and the literal has %zu", cur_line, fmt, r_ret, off, seplen);
      for (int i = 0; i < ntrec; i++) {
        struct trec* r = &trecs[i];
        if (r->file != bk[o].file || r->off != before || strcmp(r->spec, t.name) != 0) continue;
        int back = kind_is_int(t.kind) ? got.iv == r->iv : (got.sl == r->sl && memcmp(got.s, r->s, r->sl) == 0);
        if (!back) {
          tval_text(&t, &got, vt, sizeof vt);
          if (kind_is_int(t.kind)) X("sig=text-roundtrip line=%zu what=print_to wrote %lld with %%%s at offset %ld; scan_from with %%%s at that offset read back %s", cur_line, r->iv, t.name, r->off, t.name, vt);
          else X("sig=text-roundtrip line=%zu what=print_to wrote a string of %zu bytes with %%%s at offset %ld; scan_from read back %s", cur_line, r->sl, t.name, r->off, vt);
        }
        break;
      }
    }
    if (m_read(bk[o].mode)) bk[o].last = L_READ;
    compare_stream(o, "ts");
  }
  tval_text(&t, &got, vt, sizeof vt);
  snprintf(ex, sizeof ex, "val=%s ret=%lld", vt, r_exc ? -1LL : r_ret);
  if (heap) { var x2; V_TRY(x2, del(a)); }
  emit_t(o, "ts", ex);
}

/* ------------------------------------------------------------------------------------------ Process (popen / pclose) */
#define NPROC 4
#define NPSTACK 2
#define NPIN 4
#define C_TRUE 0
#define C_FALSE 1
#define C_CAT 10
#define PCAP 65536
static var* pobjs;
static struct { int cmd; char mode; long pos; unsigned char* w; size_t wlen; } pk[NPROC];      /* cmd = -1: closed */
static unsigned char* pin_data[NPIN]; static size_t pin_len[NPIN];
static int pin_with[NPROC];

static FILE* praw(int o) { return pobjs[o] ? ((struct Process*)pobjs[o])->proc : NULL; }
static int cmd_ok(int c) { return c == C_TRUE || c == C_FALSE || (c >= C_CAT && c < C_CAT + NPIN); }
static const char* PMODES[] = { "r", "w", "r+", "x", NULL };
static int pmode_ok(const char* m) { for (int i = 0; PMODES[i]; i++) if (!strcmp(PMODES[i], m)) return 1; return 0; }
static void cmd_text(int c, const char* mode, char* out, size_t n) {
  if (c == C_TRUE) snprintf(out, n, "true");
  else if (c == C_FALSE) snprintf(out, n, "false");
  else if (mode[0] == 'w') snprintf(out, n, "exec cat > '%s/q%d.bin'", tmpdir, c - C_CAT);
  else snprintf(out, n, "exec cat '%s/p%d.bin'", tmpdir, c - C_CAT);
}
static int pbusy(int c, int except) {
  if (c < C_CAT) return 0;
  for (int o = 0; o < NPROC; o++) if (o != except && pk[o].cmd == c) return 1;
  return 0;
}
static void write_input(int k) {
  char p[400]; snprintf(p, sizeof p, "%s/p%d.bin", tmpdir, k);
  FILE* f = __real_fopen(p, "wb"); if (!f) return;
  if (pin_len[k]) __real_fwrite(pin_data[k], 1, pin_len[k], f);
  __real_fclose(f);
}
static void pst_text(int o, char* out, size_t n) {
  if (!pobjs[o]) { snprintf(out, n, "none"); return; }
  FILE* fp = praw(o);
  if (!fp) { snprintf(out, n, "closed"); return; }
  int i = plive_index(fp);
  if (i < 0) { snprintf(out, n, "STALE"); return; }
  snprintf(out, n, "p%d:%d", plive_id[i], __real_feof(fp) ? 1 : 0);
}
static void check_paccounting(void) {
  for (int o = 0; o < NPROC; o++) {
    FILE* fp = praw(o); if (!fp) continue;
    if (plive_index(fp) < 0) { X("sig=stale-handle-kept line=%zu what=Process %d keeps a handle that is not open (pclose was already called for it)", cur_line, o); continue; }
    for (int q = 0; q < o; q++) if (praw(q) == fp) X("sig=stale-handle-kept line=%zu what=Process objects %d and %d hold the same handle", cur_line, q, o);
  }
  int unheld = 0;
  for (int i = 0; i < nplive; i++) { int h = 0; for (int o = 0; o < NPROC; o++) if (praw(o) == plive_fp[i]) h++; if (!h) unheld++; }
  if (unheld) X("sig=handle-leak line=%zu what=%d pipes are open that no Process object holds", cur_line, unheld);
}
static void pemit(int o, const char* op, const char* extra) {
  char st[64]; pst_text(o, st, sizeof st);
  O("%s exc=%s%s%s st=%s calls=%s plive=%d", op, v_exc_name(r_exc), extra[0] ? " " : "", extra, st, ncalls ? callbuf : "-", nplive);
  check_paccounting();
}
/* the command's verdict, from libc: does it end with a non-zero wait status? */
static int cmd_fails(int c) {
  if (c == C_TRUE || c == C_FALSE) { int st = system(c == C_TRUE ? "true" : "false"); return st != 0; }
  return 0;
}
/* the close path ran on an open Process (sclose, stop, with-exit, del, reopen): shadow bookkeeping + what the sink must hold */
static int pshadow_close_x(int o, const char* op, int sink_reused) {
  int c = pk[o].cmd; int fails = cmd_fails(c);
  if (c >= C_CAT && pk[o].mode == 'w' && !sink_reused) {
    char p[400]; snprintf(p, sizeof p, "%s/q%d.bin", tmpdir, c - C_CAT);
    FILE* f = __real_fopen(p, "rb"); size_t n = f ? __real_fread(buf2, 1, PCAP + 8, f) : 0; if (f) __real_fclose(f);
    if (n != pk[o].wlen || memcmp(buf2, pk[o].w, n) != 0)
      X("sig=file-content line=%zu what=after %s the sink of `cat` holds %zu bytes, %zu were written through the Process (or they differ)", cur_line, op, n, pk[o].wlen);
  }
  pk[o].cmd = -1; pk[o].pos = 0; pk[o].wlen = 0;
  return fails;
}
static int pshadow_close(int o, const char* op) { return pshadow_close_x(o, op, 0); }
static void pmust_be_closed(int o, const char* op) {
  if (pobjs[o] && praw(o) != NULL) X("sig=not-closed line=%zu what=after %s the Process still holds a handle", cur_line, op);
}
static void pmirror_open(int o, int c, const char* mode, const char* op, int was_open) {
  var want = NULL;
  /* a reopen for writing on the sink just closed: the new `cat >` has truncated it by now */
  if (was_open) { if (pshadow_close_x(o, op, c == pk[o].cmd && mode[0] == 'w')) want = IOError; }
  if (!want) {
    if (strcmp(mode, "r") && strcmp(mode, "w")) want = IOError;        /* popen: EINVAL */
    else { pk[o].cmd = c; pk[o].mode = mode[0]; pk[o].pos = 0; pk[o].wlen = 0; }
  }
  expect_exc(op, want);
  if (pobjs[o]) {
    if (want && praw(o) != NULL) X("sig=not-closed line=%zu what=%s failed but the Process holds a handle", cur_line, op);
    if (!want && praw(o) == NULL) X("sig=exc-mismatch line=%zu what=%s succeeded but the Process holds no handle", cur_line, op);
  }
}
static void pclose_like(int o, const char* op, int which) {       /* 0 sclose, 1 stop */
  int was_open = praw(o) != NULL;
  begin_op(); trk = 1;
  if (which == 0) V_TRY(r_exc, sclose(pobjs[o])); else V_TRY(r_exc, stop(pobjs[o]));
  trk = 0;
  if (!refused_if_closed(o, op, was_open)) expect_exc(op, pshadow_close(o, op) ? IOError : NULL);
  pmust_be_closed(o, op);
  pemit(o, op, "");
}
static void pwith_run(char** lines, size_t i, size_t end, int o, int leave, struct wctx* cx) {
  with (f in pobjs[o]) {
    trk = 0; cx->entered = 1;
    r_exc = NULL;
    if (ncalls) X("sig=with-init-calls line=%zu what=the init clause of with made the stdio calls (%s), expected none", cur_line, callbuf);
    pemit(o, "pwith-enter", "");
    with_depth++; pin_with[o]++;
    run_range(lines, i + 1, end);
    with_depth--; pin_with[o]--;
    if (leave == LV_THROW) throw(ValueError, "leaving the with block");
    begin_op(); cur_line = i + 1;
    if (leave == LV_BRK) break;
    if (leave == LV_RET) return;
    cx->hid = (praw(o) && plive_index(praw(o)) >= 0) ? plive_id[plive_index(praw(o))] : 0;
    trk = 1;
    if (leave == LV_CONT) continue;
  }
}
static void exec_pwith(char** lines, size_t* ip, size_t hi, size_t i, int o, char** tok, int nt) {
  char* e;
  if (nt != 4) { O("bad-op"); return; }
  const char* lvs = tok[2];
  int leave = !strcmp(lvs, "fall") ? LV_FALL : !strcmp(lvs, "cont") ? LV_CONT : !strcmp(lvs, "brk") ? LV_BRK : !strcmp(lvs, "throw") ? LV_THROW : !strcmp(lvs, "ret") ? LV_RET : -1;
  long n = strtol(tok[3], &e, 10);
  if (leave < 0 || *e || n < 0 || tok[3][0] == '-' || tok[3][0] == '+' || with_depth > MAXDEPTH) { O("bad-op"); return; }
  size_t end = i + 1 + (size_t)n; if (end > hi || end < i) end = hi;
  struct wctx cxs = { 0, 0 }; struct wctx* cx = &cxs;
  var wexc = NULL;
  cur_line = i + 1;
  begin_op(); trk = 1;
  V_TRY(wexc, pwith_run(lines, i, end, o, leave, cx));
  trk = 0;
  int hid = cx->hid;
  cur_line = i + 1; r_exc = wexc; *ip = end;
  if (!cx->entered) { X("sig=with-not-entered line=%zu what=the with block over a Process variable was not entered", cur_line); pemit(o, "pwith-enter", ""); return; }
  if (leave == LV_THROW || leave == LV_BRK || leave == LV_RET) {
    const char* how = leave == LV_THROW ? "an exception" : leave == LV_BRK ? "break" : "return";
    if (leave == LV_THROW) { calllen = 0; callbuf[0] = 0; ncalls = 0; }
    else if (r_exc || ncalls) X("sig=with-exit-calls line=%zu what=%s out of a with block raised %s and made the stdio calls (%s)", cur_line, how, v_exc_name(r_exc), ncalls ? callbuf : "-");
    if (praw(o) != NULL)
      X("sig=" KF_EARLY " line=%zu what=the with block was left by %s: stop_in did not run and the Process still holds an open stream", cur_line, how);
    pemit(o, leave == LV_THROW ? "pwith-abort" : leave == LV_BRK ? "pwith-break" : "pwith-return", "");
    return;
  }
  int was_open = pk[o].cmd >= 0;
  if (!refused_if_closed(o, "pwith-exit", was_open)) {
    expect_exc("pwith-exit", pshadow_close(o, "pwith-exit") ? IOError : NULL);
    char want[32]; snprintf(want, sizeof want, "pclose:p%d", hid);
    if (strcmp(callbuf, want) != 0)
      X("sig=with-exit-calls line=%zu what=leaving the with block made the stdio calls (%s), expected exactly %s", cur_line, ncalls ? callbuf : "-", want);
  }
  pmust_be_closed(o, "pwith-exit");
  pemit(o, "pwith-exit", "");
}

static int is_proc_op(const char* op) {
  static const char* P[] = { "pgen", "pnew", "pnew0", "pnew1", "popen", "pclose", "pstop", "pdel", "pwith", "pread", "pwrite", "peof", "ptell",
                             "pseek", "pflush", "pprint", "pscan", NULL };
  for (int i = 0; P[i]; i++) if (!strcmp(P[i], op)) return 1;
  return 0;
}
static void exec_proc(char** lines, size_t* ip, size_t hi, size_t i, const char* op, char** tok, int nt) {
  char ex[256]; ex[0] = 0; char* e;
  if (nt < 2) { O("bad-op"); return; }
  if (!strcmp(op, "pgen")) {
    if (nt != 4) { O("bad-op"); return; }
    long k = strtol(tok[1], &e, 10); if (*e || k < 0 || k >= NPIN) { O("bad-op"); return; }
    long long len = strtoll(tok[2], &e, 10); if (*e || len < 0 || len > PCAP) { O("bad-op"); return; }
    unsigned long long seed = strtoull(tok[3], &e, 10); if (*e) { O("bad-op"); return; }
    if (pbusy(C_CAT + (int)k, -1)) { O("pgen busy"); return; }
    for (long long j = 0; j < len; j++) pin_data[k][j] = gen_byte(seed, (uint64_t)j);
    pin_len[k] = (size_t)len; write_input((int)k);
    O("pgen %ld len=%lld h=%llu", k, len, (unsigned long long)fnv(pin_data[k], (size_t)len));
    return;
  }
  long ol = strtol(tok[1], &e, 10);
  if (*e || ol < 0 || ol >= NPROC) { O("bad-op"); return; }
  int o = (int)ol;
  if (!strcmp(op, "pnew") || !strcmp(op, "pnew0") || !strcmp(op, "pnew1")) {
    if (o < NPSTACK || pobjs[o]) { O("bad-op"); return; }
    if (op[4] == '0' || op[4] == '1') {
      if (nt != (op[4] == '0' ? 2 : 3)) { O("bad-op"); return; }
      begin_op(); trk = 1;
      if (op[4] == '0') V_TRY(r_exc, pobjs[o] = new(Process));
      else {
        long c = strtol(tok[2], &e, 10); if (*e || !cmd_ok((int)c)) { trk = 0; O("bad-op"); return; }
        char ct[500]; cmd_text((int)c, "r", ct, sizeof ct);
        V_TRY(r_exc, pobjs[o] = new(Process, $S(ct)));
      }
      trk = 0;
      if (r_exc) pobjs[o] = NULL;
      if (ncalls) X("sig=closed-not-refused line=%zu what=new(Process) with fewer than two arguments made the stdio calls (%s)", cur_line, callbuf);
      if (pobjs[o]) {
        X("sig=exc-mismatch line=%zu what=new(Process) with fewer than two arguments raised nothing (Process_New reads two)", cur_line);
        var x2; trk = 1; V_TRY(x2, del(pobjs[o])); trk = 0; pobjs[o] = NULL;
      }
      pemit(o, op, "");
      return;
    }
    if (nt != 4) { O("bad-op"); return; }
    long c = strtol(tok[2], &e, 10);
    if (*e || !cmd_ok((int)c) || !pmode_ok(tok[3])) { O("bad-op"); return; }
    if (pbusy((int)c, o)) { O("pnew busy"); return; }
    char ct[500]; cmd_text((int)c, tok[3], ct, sizeof ct);
    begin_op(); trk = 1; V_TRY(r_exc, pobjs[o] = new(Process, $S(ct), $S(tok[3]))); trk = 0;
    if (r_exc) pobjs[o] = NULL;
    pmirror_open(o, (int)c, tok[3], "pnew", 0);
    if (r_exc) pk[o].cmd = -1;
    pemit(o, "pnew", "");
    return;
  }
  if (!pobjs[o]) { O("bad-op"); return; }
  int was_open = praw(o) != NULL;
  int wr = was_open && pk[o].mode == 'w', rd = was_open && pk[o].mode == 'r';
  if (!strcmp(op, "pdel")) {
    if (o < NPSTACK || nt != 2 || pin_with[o] > 0) { O("bad-op"); return; }
    begin_op(); trk = 1; V_TRY(r_exc, del(pobjs[o])); trk = 0;
    pobjs[o] = NULL;
    int fails = was_open ? pshadow_close(o, "pdel") : 0;
    expect_exc("pdel", fails ? IOError : NULL);
    if (!was_open && ncalls != 0) X("sig=closed-not-refused line=%zu what=del of a closed Process made %d stdio calls (%s)", cur_line, ncalls, callbuf);
    pemit(o, "pdel", "");
    return;
  }
  if (!strcmp(op, "popen")) {
    if (nt != 4) { O("bad-op"); return; }
    long c = strtol(tok[2], &e, 10);
    if (*e || !cmd_ok((int)c) || !pmode_ok(tok[3])) { O("bad-op"); return; }
    if (pbusy((int)c, o)) { O("popen busy"); return; }
    char ct[500]; cmd_text((int)c, tok[3], ct, sizeof ct);
    begin_op(); trk = 1; V_TRY(r_exc, sopen(pobjs[o], $S(ct), $S(tok[3]))); trk = 0;
    pmirror_open(o, (int)c, tok[3], "popen", was_open);
    pemit(o, "popen", "");
    return;
  }
  if (!strcmp(op, "pclose")) { if (nt != 2) { O("bad-op"); return; } pclose_like(o, "pclose", 0); return; }
  if (!strcmp(op, "pstop")) { if (nt != 2) { O("bad-op"); return; } pclose_like(o, "pstop", 1); return; }
  if (!strcmp(op, "pwith")) { exec_pwith(lines, ip, hi, i, o, tok, nt); return; }
  if (!strcmp(op, "pseek")) {
    if (nt != 4) { O("bad-op"); return; }
    long long off = strtoll(tok[2], &e, 10); if (*e) { O("bad-op"); return; }
    int wh = !strcmp(tok[3], "set") ? SEEK_SET : !strcmp(tok[3], "cur") ? SEEK_CUR : !strcmp(tok[3], "end") ? SEEK_END : !strcmp(tok[3], "bad") ? 7 : -1;
    if (wh < 0) { O("bad-op"); return; }
    begin_op(); trk = 1; V_TRY(r_exc, sseek(pobjs[o], off, wh)); trk = 0;
    if (!refused_if_closed(o, "pseek", was_open)) expect_exc("pseek", IOError);       /* a pipe cannot seek */
    pemit(o, "pseek", "");
    return;
  }
  if (!strcmp(op, "ptell") || !strcmp(op, "pflush") || !strcmp(op, "peof")) {
    if (nt != 2) { O("bad-op"); return; }
    if (op[1] == 'f' && rd) { O("pflush unsup"); return; }
    begin_op(); trk = 1;
    if (op[1] == 't') V_TRY(r_exc, r_ret = (long long)stell(pobjs[o]));
    else if (op[1] == 'f') V_TRY(r_exc, sflush(pobjs[o]));
    else V_TRY(r_exc, r_ret = seof(pobjs[o]) ? 1 : 0);
    trk = 0;
    if (!refused_if_closed(o, op, was_open)) {
      if (op[1] == 't') expect_exc(op, IOError);
      else if (op[1] == 'f') expect_exc(op, NULL);
      else {
        expect_exc(op, NULL);
        int e2 = __real_feof(praw(o)) ? 1 : 0;
        if (!r_exc && r_ret != e2) X("sig=eof-mismatch line=%zu what=seof returned %lld, feof on the pipe %d", cur_line, r_ret, e2);
      }
    }
    if (op[1] != 'f') snprintf(ex, sizeof ex, "ret=%lld", r_exc ? -1LL : r_ret);
    pemit(o, op, ex);
    return;
  }
  if (!strcmp(op, "pread")) {
    if (nt != 3) { O("bad-op"); return; }
    long long size = strtoll(tok[2], &e, 10);
    if (*e || size < 0 || size > MAXIO) { O("bad-op"); return; }
    memset(buf1, 0xA5, (size_t)size);
    begin_op(); trk = 1; V_TRY(r_exc, r_ret = (long long)sread(pobjs[o], buf1, (size_t)size)); trk = 0;
    size_t got = 0;
    if (!refused_if_closed(o, "pread", was_open)) {
      /* reference: the bytes the command prints are the input file's */
      const unsigned char* inp = (rd && pk[o].cmd >= C_CAT) ? pin_data[pk[o].cmd - C_CAT] : NULL;
      size_t inlen = inp ? pin_len[pk[o].cmd - C_CAT] : 0;
      size_t left = inlen > (size_t)pk[o].pos ? inlen - (size_t)pk[o].pos : 0;
      size_t want_ret = (rd && size > 0 && (size_t)size <= left) ? 1 : 0;
      got = rd ? ((size_t)size <= left ? (size_t)size : left) : 0;
      expect_exc("pread", (wr && size != 0) ? IOError : NULL);
      if (!r_exc && (size_t)r_ret != want_ret) X("sig=ret-mismatch line=%zu what=sread on the pipe returned %lld, expected %zu", cur_line, r_ret, want_ret);
      if (got && memcmp(buf1, inp + pk[o].pos, got) != 0) X("sig=bytes-mismatch line=%zu what=the %zu bytes read through the Process differ from the bytes `cat` was given", cur_line, got);
      pk[o].pos += (long)got;
    }
    snprintf(ex, sizeof ex, "ret=%lld got=%zu h=%llu", r_exc ? -1LL : r_ret, got, (unsigned long long)fnv(buf1, got));
    pemit(o, "pread", ex);
    return;
  }
  if (!strcmp(op, "pwrite")) {
    if (nt != 4) { O("bad-op"); return; }
    long long len = strtoll(tok[2], &e, 10); if (*e || len < 0 || len > PCAP) { O("bad-op"); return; }
    unsigned long long seed = strtoull(tok[3], &e, 10); if (*e) { O("bad-op"); return; }
    if (wr && (pk[o].cmd < C_CAT || pk[o].wlen + (size_t)len > PCAP)) { O("pwrite unsup"); return; }
    for (long long j = 0; j < len; j++) buf1[j] = gen_byte(seed, (uint64_t)j);
    begin_op(); trk = 1; V_TRY(r_exc, r_ret = (long long)swrite(pobjs[o], buf1, (size_t)len)); trk = 0;
    if (!refused_if_closed(o, "pwrite", was_open)) {
      size_t want_ret = (wr && len > 0) ? 1 : 0;
      expect_exc("pwrite", (want_ret != 1 && len != 0) ? IOError : NULL);
      if (!r_exc && (size_t)r_ret != want_ret) X("sig=ret-mismatch line=%zu what=swrite on the pipe returned %lld, expected %zu", cur_line, r_ret, want_ret);
      if (wr && len > 0) { memcpy(pk[o].w + pk[o].wlen, buf1, (size_t)len); pk[o].wlen += (size_t)len; }
    }
    snprintf(ex, sizeof ex, "ret=%lld", r_exc ? -1LL : r_ret);
    pemit(o, "pwrite", ex);
    return;
  }
  if (!strcmp(op, "pprint")) {
    if (nt != 3) { O("bad-op"); return; }
    long long v = strtoll(tok[2], &e, 10); if (*e) { O("bad-op"); return; }
    if (rd || (wr && (pk[o].cmd < C_CAT || pk[o].wlen + 32 > PCAP))) { O("pprint unsup"); return; }
    begin_op(); trk = 1; V_TRY(r_exc, r_ret = print_to(pobjs[o], 0, "%$ ", $I(v))); trk = 0;
    if (!refused_if_closed(o, "pprint", was_open)) {
      int a = snprintf((char*)pk[o].w + pk[o].wlen, 32, "%li ", (long)v);
      expect_exc("pprint", NULL);
      if (!r_exc && r_ret != a) X("sig=ret-mismatch line=%zu what=print_to on the pipe returned %lld, sprintf wrote %d", cur_line, r_ret, a);
      pk[o].wlen += (size_t)a;
    }
    snprintf(ex, sizeof ex, "ret=%lld", r_exc ? -1LL : r_ret);
    pemit(o, "pprint", ex);
    return;
  }
  if (!strcmp(op, "pscan")) {
    if (nt != 2) { O("bad-op"); return; }
    if (was_open) { O("pscan unsup"); return; }
    var v = $I(-777);
    begin_op(); trk = 1; V_TRY(r_exc, r_ret = scan_from(pobjs[o], 0, "%$ ", v)); trk = 0;
    refused_if_closed(o, "pscan", 0);
    pemit(o, "pscan", "val=-777");
    return;
  }
  O("bad-op");
}

/* ------------------------------------------------------------------------------------------ drop: the collector closes
 * The third way a stream gets closed: an unreachable `new(File, …)` is swept (GC_Sweep → File_Del → File_Close).  The slot
 * is cleared by a helper that is not inlined (so that no copy of the pointer stays in the frames that remain), the stack
 * below is zeroed, then GC_Mark + GC_Sweep run with the interposition recording.  Oracle: the collection made exactly
 * the call `del` would have made — fclose of the handle the File held (none for a closed File) — and the handle is not
 * live afterwards (sig=collector-close).  A conservative collector may still see a stale word: then (I line
 * `drop-fallback`) the harness deletes the object itself so that the history stays comparable. */
static uintptr_t hidden_ptr;
#define HIDE_KEY ((uintptr_t)0x5A5A5A5A5A5A5A5AULL)
__attribute__((noinline, no_sanitize("address"))) static void scrub_stack(void) {
  volatile uint64_t sbuf[8192];
  for (size_t k = 0; k < 8192; k++) sbuf[k] = 0;
  __asm__ volatile("" ::: "memory");
}
__attribute__((noinline)) static void drop_state(int o, int* exists, int* sh, int* was_open, int* hid, int* full) {
  *exists = objs[o] != NULL; *sh = 0; *was_open = 0; *hid = 0; *full = 0;
  if (!*exists) return;
  *sh = shared_state(o);
  FILE* fp = raw(o); *was_open = fp != NULL;
  if (fp && live_index(fp) >= 0) *hid = live_id[live_index(fp)];
  *full = bk[o].file == F_FULL;
}
__attribute__((noinline)) static void drop_hide(int o) { hidden_ptr = (uintptr_t)objs[o] ^ HIDE_KEY; objs[o] = NULL; }
__attribute__((noinline)) static void force_gc(void) {
  struct GC* gc = GC_Current();
  scrub_stack();
  GC_Mark(gc);
  GC_Sweep(gc);
}
__attribute__((noinline)) static int handle_live(int hid) { for (int k = 0; k < nlive; k++) if (live_id[k] == hid) return 1; return 0; }
__attribute__((noinline)) static void drop_fallback(void) { var x = (var)(hidden_ptr ^ HIDE_KEY); var e2; V_TRY(e2, del(x)); if (e2 && !r_exc) r_exc = e2; }
static int n_drop = 0, n_drop_fallback = 0;
/* returns 1 when the line was a drop op (handled) */
static int exec_drop(char* line_copy) {
  char* tok[8]; int nt = 0;
  for (char* p = strtok(line_copy, " "); p && nt < 8; p = strtok(NULL, " ")) tok[nt++] = p;
  if (nt < 1 || strcmp(tok[0], "drop") != 0) return 0;
  if (nt < 2) { O("bad-op"); return 1; }
  char* e; long ol = strtol(tok[1], &e, 10);
  if (*e || ol < 0 || ol >= NOBJ) { O("bad-op"); return 1; }
  int o = (int)ol, exists, sh, was_open, hid, full;
  drop_state(o, &exists, &sh, &was_open, &hid, &full);
  if (!exists) { O("bad-op"); return 1; }
  if (sh) { O("drop unsup"); return 1; }
  if (o < NSTACK || nt != 2 || in_with[o] > 0) { O("bad-op"); return 1; }
  if (full) { O("drop unsup"); return 1; }
  drop_hide(o);
  begin_op(); trk = 1; V_TRY(r_exc, force_gc()); trk = 0;
  n_drop++;
  if (was_open && handle_live(hid) && ncalls == 0) {
    n_drop_fallback++;
    I("drop-fallback line=%zu the conservative collector still saw the object: deleted by the harness", cur_line);
    trk = 1; drop_fallback(); trk = 0;
  } else if (!was_open && ncalls == 0) {
    /* a closed File: whether or not it was swept there is nothing to see; release it if it was not (best effort, no effect on stdio) */
  }
  char want[32]; snprintf(want, sizeof want, "fclose:%d", hid);
  if (was_open ? strcmp(callbuf, want) != 0 : ncalls != 0)
    X("sig=collector-close line=%zu what=collecting an unreachable File made the stdio calls (%s), expected %s", cur_line, ncalls ? callbuf : "-", was_open ? want : "none");
  if (was_open && handle_live(hid)) X("sig=collector-close line=%zu what=the handle %d of a collected File is still open", cur_line, hid);
  hidden_ptr = 0;
  int rc = was_open ? twin_close(o) : 0;
  expect_exc("drop", rc != 0 ? IOError : NULL);
  emit(o, "drop", "");
  return 1;
}

static void exec_op(char** lines, size_t* ip, size_t hi) {
  size_t i = *ip; *ip = i + 1;
  cur_line = i + 1;
  char line[2048]; snprintf(line, sizeof line, "%s", lines[i]);
  if (strlen(lines[i]) >= sizeof line) { O("bad-op"); return; }
  if (!strncmp(line, "drop", 4)) { if (exec_drop(line)) return; snprintf(line, sizeof line, "%s", lines[i]); }
  char* tok[8]; int nt = 0;
  for (char* p = strtok(line, " "); p && nt < 8; p = strtok(NULL, " ")) tok[nt++] = p;
  if (nt == 0) { O("bad-op"); return; }
  const char* op = tok[0];
  char ex[256]; ex[0] = 0;

  if (is_proc_op(op)) { exec_proc(lines, ip, hi, i, op, tok, nt); return; }

  if (!strcmp(op, "dump") || !strcmp(op, "rm")) {
    if (nt != 2) { O("bad-op"); return; }
    char* e; long k = strtol(tok[1], &e, 10);
    if (*e || k < 0 || k >= NFILE) { O("bad-op"); return; }
    if (busy((int)k, -1)) { O("%s %ld busy", op, k); return; }
    char p1[400], p2[400]; path_of((int)k, 0, p1, sizeof p1); path_of((int)k, 1, p2, sizeof p2);
    if (!strcmp(op, "rm")) {
      int a = unlink(p1) == 0, b = unlink(p2) == 0;
      trec_drop((int)k, 0);
      if (a != b) X("sig=file-content line=%zu what=file %ld exists=%d but its twin exists=%d", cur_line, k, a, b);
      O("rm %ld ok=%d", k, a);
      return;
    }
    FILE* fa = __real_fopen(p1, "rb"); FILE* fb = __real_fopen(p2, "rb");
    if ((fa != NULL) != (fb != NULL)) X("sig=file-content line=%zu what=file %ld exists=%d but its twin exists=%d", cur_line, k, fa != NULL, fb != NULL);
    if (!fa) { if (fb) __real_fclose(fb); O("dump %ld absent", k); return; }
    size_t na = __real_fread(buf1, 1, MAXIO, fa), nb = fb ? __real_fread(buf2, 1, MAXIO, fb) : 0;
    __real_fclose(fa); if (fb) __real_fclose(fb);
    if (fb && (na != nb || memcmp(buf1, buf2, na) != 0))
      X("sig=file-content line=%zu what=file %ld written through File (%zu bytes) differs from the twin written through libc (%zu bytes)", cur_line, k, na, nb);
    O("dump %ld len=%zu h=%llu", k, na, (unsigned long long)fnv(buf1, na));
    return;
  }

  if (nt < 2) { O("bad-op"); return; }
  char* e; long ol = strtol(tok[1], &e, 10);
  if (*e || ol < 0 || ol >= NOBJ) { O("bad-op"); return; }
  int o = (int)ol;

  if (!strcmp(op, "new")) {
    if (o < NSTACK || objs[o] || (nt != 2 && nt != 4)) { O("bad-op"); return; }
    if (nt == 2) {
      begin_op(); trk = 1; V_TRY(r_exc, objs[o] = new(File)); trk = 0;
      if (r_exc) objs[o] = NULL;
      emit(o, "new", "");
      return;
    }
    long k = strtol(tok[2], &e, 10);
    if (*e || !file_ok((int)k) || !mode_ok(tok[3])) { O("bad-op"); return; }
    if (busy((int)k, o)) { O("new busy"); return; }
    if (k == F_FULL && !m_full_ok(tok[3])) { O("new unsup"); return; }
    char p[400]; path_of((int)k, 0, p, sizeof p);
    begin_op(); trk = 1; V_TRY(r_exc, objs[o] = new(File, $S(p), $S(tok[3]))); trk = 0;
    if (r_exc) objs[o] = NULL;       /* the half-built object is left to the collector; it holds no handle */
    mirror_open(o, (int)k, tok[3], "new", 0);
    if (r_exc && bk[o].twin) twin_close(o);
    emit(o, "new", "");
    return;
  }
  if (!strcmp(op, "new1")) {
    if (o < NSTACK || objs[o] || nt != 3) { O("bad-op"); return; }
    long k = strtol(tok[2], &e, 10);
    if (*e || !file_ok((int)k)) { O("bad-op"); return; }
    char p[400]; path_of((int)k, 0, p, sizeof p);
    begin_op(); trk = 1; V_TRY(r_exc, objs[o] = new(File, $S(p))); trk = 0;
    if (r_exc) objs[o] = NULL;
    if (ncalls) X("sig=closed-not-refused line=%zu what=new(File, path) with one argument made the stdio calls (%s)", cur_line, callbuf);
    if (objs[o]) {       /* it did not throw: whatever it opened has no twin — report and drop the object */
      X("sig=exc-mismatch line=%zu what=new(File, path) with one argument raised nothing (File_New reads a second argument)", cur_line);
      var x2; trk = 1; V_TRY(x2, del(objs[o])); trk = 0; objs[o] = NULL;
    }
    emit(o, "new1", "");
    return;
  }
  if (!strcmp(op, "withnew") || !strcmp(op, "withnew0") || !strcmp(op, "withcall")) {
    if (o < NSTACK || objs[o]) { O("bad-op"); return; }
    exec_with(lines, ip, hi, i, o, !strcmp(op, "withnew") ? WK_NEW : !strcmp(op, "withnew0") ? WK_NEW0 : WK_CALL, op, tok, nt);
    return;
  }
  if (!objs[o]) { O("bad-op"); return; }

  if (!strcmp(op, "copy")) {           /* copy <src> <dst>: File has no Copy instance, copy = assign(alloc(File), src) = memcpy */
    if (nt != 3) { O("bad-op"); return; }
    long dl = strtol(tok[2], &e, 10);
    if (*e || dl < NSTACK || dl >= NOBJ || objs[dl]) { O("bad-op"); return; }
    int dst = (int)dl;
    int src_open = raw(o) != NULL;
    begin_op(); trk = 1; V_TRY(r_exc, objs[dst] = copy(objs[o])); trk = 0;
    if (r_exc) objs[dst] = NULL;
    bk[dst].file = -1; bk[dst].twin = NULL; bk[dst].last = L_NONE; bk[dst].pending = 0;
    if (ncalls) X("sig=copy-calls line=%zu what=copy of a File made the stdio calls (%s)", cur_line, callbuf);
    if (r_exc) X("sig=exc-mismatch line=%zu what=copy of a File raised %s", cur_line, v_exc_name(r_exc));
    if (src_open && objs[dst] && raw(dst) == raw(o)) {
      int li = live_index(raw(o)); int id = li >= 0 ? live_id[li] : 0;
      if (li >= 0 && naliased < MAXLIVE) aliased_id[naliased++] = id;
      X("sig=" KF_ALIAS " line=%zu what=copy of an open File: objects %d and %d now hold the same FILE* (handle %d), one fopen will face two fcloses", cur_line, o, dst, id);
    } else if (objs[dst] && raw(dst) != NULL) X("sig=stale-handle-kept line=%zu what=the copy of a closed File holds a handle", cur_line);
    emit(dst, "copy", "");
    return;
  }
  if (!strcmp(op, "assign")) {         /* assign <dst> <src>: File has no Assign instance, assign = memcpy(dst, src, size) */
    if (nt != 3) { O("bad-op"); return; }
    long sl = strtol(tok[2], &e, 10);
    if (*e || sl < 0 || sl >= NOBJ || !objs[sl] || sl == o) { O("bad-op"); return; }
    int src = (int)sl;
    FILE* old = raw(o); int old_li = old ? live_index(old) : -1; int old_id = old_li >= 0 ? live_id[old_li] : 0;
    int src_open = raw(src) != NULL;
    begin_op(); trk = 1; V_TRY(r_exc, assign(objs[o], objs[src])); trk = 0;
    if (ncalls) X("sig=copy-calls line=%zu what=assign of a File made the stdio calls (%s)", cur_line, callbuf);
    if (r_exc) X("sig=exc-mismatch line=%zu what=assign of a File raised %s", cur_line, v_exc_name(r_exc));
    if (old) {                         /* the target was open: its handle is overwritten, not closed */
      twin_close(o);
      if (old_li >= 0 && holders(old) == 0) {
        if (nleaked < MAXLIVE) leaked_id[nleaked++] = old_id;
        X("sig=" KF_ALIAS " line=%zu what=assign onto an open File: handle %d is overwritten without fclose, no object holds it any more", cur_line, old_id);
      }
    }
    if (src_open && raw(o) == raw(src)) {
      int li = live_index(raw(src)); int id = li >= 0 ? live_id[li] : 0;
      if (li >= 0 && naliased < MAXLIVE) aliased_id[naliased++] = id;
      X("sig=" KF_ALIAS " line=%zu what=assign from an open File: objects %d and %d now hold the same FILE* (handle %d)", cur_line, src, o, id);
    } else if (!src_open && raw(o) != NULL) X("sig=stale-handle-kept line=%zu what=a File assigned from a closed File holds a handle", cur_line);
    emit(o, "assign", "");
    return;
  }
  { int sh = shared_state(o); if (sh) { exec_shared(o, sh, op, tok, nt); return; } }

  if (!strcmp(op, "del")) {
    if (o < NSTACK || nt != 2 || in_with[o] > 0) { O("bad-op"); return; }   /* deleting the subject of a running with-block: use after free */
    int was_open = raw(o) != NULL;
    begin_op(); trk = 1; V_TRY(r_exc, del(objs[o])); trk = 0;
    objs[o] = NULL;
    int rc = was_open ? twin_close(o) : 0;
    expect_exc("del", rc != 0 ? IOError : NULL);
    if (!was_open && ncalls != 0) X("sig=closed-not-refused line=%zu what=del of a closed File made %d stdio calls (%s)", cur_line, ncalls, callbuf);
    emit(o, "del", "");
    return;
  }
  if (!strcmp(op, "open")) {
    if (nt != 4) { O("bad-op"); return; }
    long k = strtol(tok[2], &e, 10);
    if (*e || !file_ok((int)k) || !mode_ok(tok[3])) { O("bad-op"); return; }
    if (busy((int)k, o)) { O("open busy"); return; }
    if (k == F_FULL && !m_full_ok(tok[3])) { O("open unsup"); return; }
    int was_open = raw(o) != NULL;
    char p[400]; path_of((int)k, 0, p, sizeof p);
    begin_op(); trk = 1; V_TRY(r_exc, sopen(objs[o], $S(p), $S(tok[3]))); trk = 0;
    mirror_open(o, (int)k, tok[3], "open", was_open);
    compare_stream(o, "open");
    emit(o, "open", "");
    return;
  }
  if (!strcmp(op, "close")) { if (nt != 2) { O("bad-op"); return; } do_close_like(o, "close", 0); return; }
  if (!strcmp(op, "stop")) { if (nt != 2) { O("bad-op"); return; } do_close_like(o, "stop", 1); return; }
  if (!strcmp(op, "with") || !strcmp(op, "withx") || !strcmp(op, "withv")) { exec_with(lines, ip, hi, i, o, WK_VAR, op, tok, nt); return; }
  if (!strcmp(op, "seek")) {
    if (nt != 4) { O("bad-op"); return; }
    long long off = strtoll(tok[2], &e, 10); if (*e) { O("bad-op"); return; }
    int wh = !strcmp(tok[3], "set") ? SEEK_SET : !strcmp(tok[3], "cur") ? SEEK_CUR : !strcmp(tok[3], "end") ? SEEK_END : !strcmp(tok[3], "bad") ? 7 : -1;
    if (wh < 0) { O("bad-op"); return; }
    int was_open = raw(o) != NULL;
    if (was_open && bk[o].file == F_FULL) { O("seek unsup"); return; }
    begin_op(); trk = 1; V_TRY(r_exc, sseek(objs[o], off, wh)); trk = 0;
    if (!refused_if_closed(o, "seek", was_open)) {
      int rc = __real_fseek(bk[o].twin, (long)off, wh);
      expect_exc("seek", rc != 0 ? IOError : NULL);
      if (rc == 0) bk[o].last = L_NONE;
      compare_stream(o, "seek");
    }
    emit(o, "seek", "");
    return;
  }
  if (!strcmp(op, "tell") || !strcmp(op, "flush") || !strcmp(op, "eof")) {
    if (nt != 2) { O("bad-op"); return; }
    int was_open = raw(o) != NULL;
    begin_op(); trk = 1;
    if (op[0] == 't') V_TRY(r_exc, r_ret = (long long)stell(objs[o]));
    else if (op[0] == 'f') V_TRY(r_exc, sflush(objs[o]));
    else V_TRY(r_exc, r_ret = seof(objs[o]) ? 1 : 0);
    trk = 0;
    if (!refused_if_closed(o, op, was_open)) {
      if (op[0] == 't') {
        long t2 = __real_ftell(bk[o].twin);
        expect_exc(op, t2 == -1 ? IOError : NULL);
        if (!r_exc && r_ret != t2) X("sig=tell-mismatch line=%zu what=stell returned %lld, ftell on the twin %ld", cur_line, r_ret, t2);
      } else if (op[0] == 'f') {
        int rc = __real_fflush(bk[o].twin);
        expect_exc(op, rc != 0 ? IOError : NULL);
        if (bk[o].last == L_WRITE) bk[o].last = L_NONE;
        if (bk[o].file == F_FULL) bk[o].pending = 0;
      } else {
        int e2 = __real_feof(bk[o].twin) ? 1 : 0;
        expect_exc(op, NULL);
        if (!r_exc && r_ret != e2) X("sig=eof-mismatch line=%zu what=seof returned %lld, feof on the twin %d", cur_line, r_ret, e2);
      }
      compare_stream(o, op);
    }
    if (op[0] != 'f') snprintf(ex, sizeof ex, "ret=%lld", r_exc ? -1LL : r_ret);
    emit(o, op, ex);
    return;
  }
  if (!strcmp(op, "read")) {
    if (nt != 3) { O("bad-op"); return; }
    long long size = strtoll(tok[2], &e, 10);
    if (*e || size < 0 || size > MAXIO) { O("bad-op"); return; }
    int was_open = raw(o) != NULL;
    if (was_open && (bk[o].last == L_WRITE || bk[o].file == F_FULL)) { O("read unsup"); return; }
    long before = was_open ? __real_ftell(raw(o)) : 0;
    memset(buf1, 0xA5, (size_t)size); memset(buf2, 0xA5, (size_t)size);
    begin_op(); trk = 1; V_TRY(r_exc, r_ret = (long long)sread(objs[o], buf1, (size_t)size)); trk = 0;
    size_t got = 0;
    if (!refused_if_closed(o, "read", was_open)) {
      size_t r2 = __real_fread(buf2, (size_t)size, 1, bk[o].twin);
      var want = (r2 != 1 && size != 0 && !__real_feof(bk[o].twin)) ? IOError : NULL;
      expect_exc("read", want);
      if (!r_exc && (size_t)r_ret != r2) X("sig=ret-mismatch line=%zu what=sread returned %lld, fread on the twin %zu", cur_line, r_ret, r2);
      long after = raw(o) && live_index(raw(o)) >= 0 ? __real_ftell(raw(o)) : before;
      got = after > before ? (size_t)(after - before) : 0;
      if (got > (size_t)size) got = (size_t)size;
      if (memcmp(buf1, buf2, (size_t)size) != 0) X("sig=bytes-mismatch line=%zu what=the %lld bytes read through File differ from those libc read from the twin", cur_line, size);
      if (size > 0 && m_read(bk[o].mode)) bk[o].last = L_READ;
      compare_stream(o, "read");
    }
    snprintf(ex, sizeof ex, "ret=%lld got=%zu h=%llu", r_exc ? -1LL : r_ret, got, (unsigned long long)fnv(buf1, got));
    emit(o, "read", ex);
    return;
  }
  if (!strcmp(op, "write")) {
    if (nt != 4) { O("bad-op"); return; }
    long long len = strtoll(tok[2], &e, 10); if (*e || len < 0 || len > MAXIO) { O("bad-op"); return; }
    unsigned long long seed = strtoull(tok[3], &e, 10); if (*e) { O("bad-op"); return; }
    for (long long j = 0; j < len; j++) buf1[j] = gen_byte(seed, (uint64_t)j);
    do_write(o, "write", (size_t)len);
    return;
  }
  if (!strcmp(op, "writehex")) {
    if (nt != 3) { O("bad-op"); return; }
    size_t len; if (!parse_hex(tok[2], buf1, MAXIO, &len)) { O("bad-op"); return; }
    do_write(o, "writehex", len);
    return;
  }
  if (!strcmp(op, "tp")) { exec_tp(o, tok, nt); return; }
  if (!strcmp(op, "ts")) { exec_ts(o, tok, nt); return; }
  if (!strcmp(op, "print")) {
    if (nt != 3) { O("bad-op"); return; }
    long long v = strtoll(tok[2], &e, 10); if (*e) { O("bad-op"); return; }
    int was_open = raw(o) != NULL;
    if (was_open && ((bk[o].last == L_READ && !__real_feof(raw(o))) || bk[o].file == F_FULL || __real_ftell(raw(o)) > POS_LIMIT)) { O("print unsup"); return; }
    begin_op(); trk = 1; V_TRY(r_exc, r_ret = print_to(objs[o], 0, "%$ ", $I(v))); trk = 0;
    if (!refused_if_closed(o, "print", was_open)) {
      int a = fprintf(bk[o].twin, "%li", (long)v); int b = a < 0 ? -1 : fprintf(bk[o].twin, " ");
      expect_exc("print", (a < 0 || b < 0) ? FormatError : NULL);
      if (!r_exc && r_ret != a + b) X("sig=ret-mismatch line=%zu what=print_to returned %lld, fprintf on the twin wrote %d", cur_line, r_ret, a + b);
      if (m_write(bk[o].mode)) { bk[o].last = L_WRITE; trec_drop(bk[o].file, 0); }
      compare_stream(o, "print");
    }
    snprintf(ex, sizeof ex, "ret=%lld", r_exc ? -1LL : r_ret);
    emit(o, "print", ex);
    return;
  }
  if (!strcmp(op, "scan")) {
    if (nt != 2) { O("bad-op"); return; }
    int was_open = raw(o) != NULL;
    if (was_open && (bk[o].last == L_WRITE || bk[o].file == F_FULL || !scan_supported(o))) { O("scan unsup"); return; }
    var v = $I(-777);
    begin_op(); trk = 1; V_TRY(r_exc, r_ret = scan_from(objs[o], 0, "%$ ", v)); trk = 0;
    r_val = c_int(v);
    if (!refused_if_closed(o, "scan", was_open)) {
      long tv = -777; int a = fscanf(bk[o].twin, "%li", &tv);
      if (a >= 1) { if (fscanf(bk[o].twin, " ") < -1) {} }
      expect_exc("scan", a < 1 ? FormatError : NULL);
      if (!r_exc && r_val != tv) X("sig=bytes-mismatch line=%zu what=scan_from read %lld, fscanf on the twin %ld", cur_line, r_val, tv);
      if (m_read(bk[o].mode)) bk[o].last = L_READ;
      compare_stream(o, "scan");
    }
    snprintf(ex, sizeof ex, "val=%lld", r_exc ? -777LL : r_val);
    emit(o, "scan", ex);
    return;
  }
  O("bad-op");
}

static void run_range(char** lines, size_t lo, size_t hi) {
  size_t i = lo;
  while (i < hi) {
    if (!strncmp(lines[i], "drop", 4)) scrub_stack();      /* the frame exec_op is about to use holds no word of an earlier op */
    exec_op(lines, &i, hi);
  }
}

static void rm_dir(const char* dir) {
  DIR* d = opendir(dir); if (!d) return;
  struct dirent* de; char p[700];
  while ((de = readdir(d))) { if (de->d_name[0] == '.') continue; snprintf(p, sizeof p, "%s/%s", dir, de->d_name); unlink(p); }
  closedir(d); rmdir(dir);
}
static void rm_tmpdir(void) { rm_dir(tmpdir); }
/* a run that died under a sanitizer never reached its atexit handler: sweep directories older than 15 minutes */
static void sweep_stale(const char* base) {
  DIR* d = opendir(base); if (!d) return;
  struct dirent* de; char p[600]; struct stat sb; time_t now = time(NULL);
  while ((de = readdir(d))) {
    if (strncmp(de->d_name, "verif_file_", 11) != 0) continue;
    snprintf(p, sizeof p, "%s/%s", base, de->d_name);
    if (stat(p, &sb) == 0 && S_ISDIR(sb.st_mode) && now - sb.st_mtime > 900) rm_dir(p);
  }
  closedir(d);
}

int main(int argc, char** argv) {
  v_init();
  if (argc < 2) { fprintf(stderr, "usage: h_file <opfile>\n"); return 2; }
  size_t nraw; char** rawl = v_read_lines(argv[1], &nraw);
  char** lines = malloc((nraw + 1) * sizeof(char*)); size_t n = 0;
  for (size_t i = 0; i < nraw; i++) if (!v_skippable(rawl[i])) lines[n++] = rawl[i];
  const char* base = getenv("TMPDIR");
  struct stat sb;
  if (stat("/dev/shm", &sb) == 0 && S_ISDIR(sb.st_mode) && access("/dev/shm", W_OK) == 0) base = "/dev/shm";
  if (!base || !*base) base = "/tmp";
  sweep_stale(base);
  snprintf(tmpdir, sizeof tmpdir, "%s/verif_file_XXXXXX", base);
  if (!mkdtemp(tmpdir)) { snprintf(tmpdir, sizeof tmpdir, "/tmp/verif_file_XXXXXX"); if (!mkdtemp(tmpdir)) { perror("mkdtemp"); return 2; } }
  atexit(rm_tmpdir);
  buf1 = malloc(MAXIO + 16); buf2 = malloc(MAXIO + 16);
  var objs_local[NOBJ];
  for (int o = 0; o < NOBJ; o++) { objs_local[o] = NULL; bk[o].file = -1; bk[o].twin = NULL; }
  objs_local[0] = $(File, NULL); objs_local[1] = $(File, NULL); objs_local[2] = $(File, NULL); objs_local[3] = $(File, NULL);
  objs = objs_local;
  var pobjs_local[NPROC];
  for (int o = 0; o < NPROC; o++) { pobjs_local[o] = NULL; pk[o].cmd = -1; pk[o].w = malloc(PCAP + 64); pk[o].wlen = 0; }
  pobjs_local[0] = $(Process, NULL); pobjs_local[1] = $(Process, NULL);
  pobjs = pobjs_local;
  for (int k = 0; k < NPIN; k++) { pin_data[k] = malloc(PCAP + 16); pin_len[k] = 0; write_input(k); }
  I("tmpdir=%s BUFSIZ=%d ops=%zu", tmpdir, BUFSIZ, n);

  run_range(lines, 0, n);

  /* end: delete the heap objects, close the stack objects, then every successful fopen must have been fclosed */
  cur_line = n + 1;
  for (int o = NOBJ - 1; o >= 0; o--) {
    if (!objs[o]) continue;
    begin_op(); trk = 1;
    if (o >= NSTACK) { V_TRY(r_exc, del(objs[o])); objs[o] = NULL; }
    else if (raw(o)) V_TRY(r_exc, sclose(objs[o]));
    trk = 0;
    twin_close(o);
  }
  for (int o = NPROC - 1; o >= 0; o--) {
    if (!pobjs[o]) continue;
    begin_op(); trk = 1;
    if (o >= NPSTACK) { V_TRY(r_exc, del(pobjs[o])); pobjs[o] = NULL; }
    else if (praw(o)) V_TRY(r_exc, sclose(pobjs[o]));
    trk = 0;
  }
  check_paccounting();
  if (n_popen_ok != n_pclose) X("sig=close-count line=%zu what=%d successful popen but %d pclose after everything was closed or deleted", cur_line, n_popen_ok, n_pclose);
  check_accounting();
  /* handles overwritten by assign stay open for ever; fcloses of dead handles are the second close of one fopen (both KF) */
  if (n_fopen_ok - nleaked != n_fclose) X("sig=close-count line=%zu what=%d successful fopen but %d fclose after everything was closed or deleted", cur_line, n_fopen_ok, n_fclose);
  if (nleaked || n_fclose_dead) X("sig=" KF_ALIAS " line=%zu what=%d successful fopen but %d calls of fclose (%d on a handle that was already closed, %d handles never closed) after everything was closed or deleted", cur_line, n_fopen_ok, n_fclose + n_fclose_dead, n_fclose_dead, nleaked);
  O("end fopen=%d fail=%d fclose=%d live=%d", n_fopen_ok, n_fopen_fail, n_fclose + n_fclose_dead, nlive);
  I("drops=%d drop_fallbacks=%d", n_drop, n_drop_fallback);
  O("pend popen=%d fail=%d pclose=%d plive=%d", n_popen_ok, n_popen_fail, n_pclose, nplive);
  for (int i = 0; i < ndead; i++) __real_fclose(dead_fp[i]);
  return 0;
}
