/* harness/h_own.c — engine `own` (C05): containers own their elements, each is finalised exactly once.
 *
 * Executes an op file on the real Array / List / Table / Tree / Box with a probe element type that owns a heap block
 * and carries a unique token; a global ledger records every construction, in-place assignment and destruction.
 *
 * Op file (containers are named 0..63):
 *   new c K            K in A L T R B C (Array, List, Table, Tree of probes; B = Array of Box, C = List of Box); A/L may be followed by the
 *                      element type (p = small probe, g = large probe), T/R by key and value type: Ag, Tpg, Rgp, ...
 *   newv c K p...      K in A L         constructor with initial elements           (Array_New / List_New)
 *   newm c K k v ...   K in T R         constructor with initial pairs              (Table_New / Tree_New)
 *   box c p            stand-alone Box owning a fresh probe
 *   push c p | append c p | pushat c i p | pop c | popat c i | set c i p | rem c p | resize c n | sort c | concatv c a...
 *   concat c d | assign c d | copy c d (c := copy(d)) | mset c k v | mrem c k | del c | bassign c d | bref c p
 *   (assign: within the sequence family, within the map family, and Array/List <- Table/Tree; bref: ref(box, new probe))
 *   read c             len / foreach / get / mem / hash / eq (deref for a Box): must not touch any element
 * Wrong-typed arguments: wherever a payload p / k / v stands above (push append pushat set rem mset mrem newv newm) the token
 * may be !I !S !F !T !N — an Int, a String, a Float, a Type object (Int), NULL passed where a probe element / key / value
 * is expected; the call must be refused (ValueError from `cast` resp. from the element's own Assign / Cmp, or the index
 * error that comes first) and must leave nothing behind (no element constructed that is not held, nothing finalised).
 *   concatv c a...     concat(c, tuple(a...)) for an Array / List of probes: the source is a Tuple of argument objects
 *   newv / newm with a wrong-typed argument run as construct_with(alloc(T), args) (what new_with does) so that the harness
 *   holds the half-built object when the constructor raises; it is deleted at once (what the collector would do later).
 * Not applicable (bad-op) to containers of Box: Box_Assign takes any object.
 * Aliased arguments: wherever a payload stands in push append pushat set rem mset mrem the token may be a REFERENCE to an object
 * stored in a container — @d[i] = get(d, i), @d.kK = the stored key object with payload K (found by iterating over d), @d.vK =
 * get(d, key K) — of the receiver itself (set(t, k, get(t, k)), rem(t, key_from_iteration), push(l, get(l, 0)), set(a, i, get(a, j)))
 * or of another container; the stored object itself is passed.  bad-op: a reference to nothing, a container of Box on either
 * side, an Array pushed an element of itself (KF-C04-push-own-element, C04's finding: read after realloc / memmove).
 * References also stand as OPERANDS of concatv (nodes of the receiving List itself included: List_Concat reads operand i when its
 * push runs; records of the receiving Array: bad-op, same C04 finding) and of newv / newm (objects stored in other containers);
 * they do not mix with wrong-typed operands; the same stored object twice among the operands of concatv is bad-op (the operands
 * travel in a Tuple: KF-C04-tuple-dup-iter).
 * Keys: Probe_Hash maps the payloads 1000..1175 to the boundary values of a 64-bit hash (BH[] below), all others to (pay % 16) * 37.
 * After the last line every remaining container is deleted (lowest name first), then `O end live=N` is printed.
 *
 * One `O` line per op (the Lean driver must print the same):
 *   O r=<ok|Exc> iss=[..] ret=[..] upd=[..] rawd=N live=N dig=D | c:K[..] ...
 * iss/ret/upd = sorted payloads of the elements constructed / destructed / assigned in place during the op,
 * rawd = destructor calls on zero-filled (never constructed) elements, live = constructed and not yet destructed,
 * dig = digest over the contents of all containers, then the containers the op touched (sequences in order, maps
 * sorted by key; sequence elements as payload@rank, rank = position of the element's identity among the identities in
 * that container, i.e. relative construction order; `_` = zero-filled element, `!` = Box pointing to a finalised
 * object, `-` = deleted).
 *
 * Direct oracle (X lines), independent of the Lean model: a payload-level reference of every container kept here
 * (plain arrays / association arrays) plus the token ledger:
 *   own-double-destruct   a token destructed twice            own-unknown-token  destruct of a token never issued
 *   own-corrupt           element/ledger/owned block disagree own-contents       contents differ from the reference
 *   own-len               len() differs from the walk         own-shared         one token in two places
 *   own-dead-contained    a contained element was finalised   own-raw-element    contained element never constructed
 *   own-live-count        live tokens != sum of lengths (leak, or finalised late/early)
 *   own-leak-at-end       live tokens after deleting every container
 *   own-crash             the child process died (ASan/UBSan/signal/timeout)
 *   own-list-pushat-leak  a refused List push_at left a constructed element behind (defect repaired by 4077d96)
 *   own-type-accepted     a call with a wrong-typed argument was not refused
 *   (own-dead-contained / own-raw-element / own-unknown-token are also raised by the element type itself when an Assign / Cmp READS
 *   its argument from a finalised element or from zero-filled memory: a container that finalises before it reads)
 * Known-finding signatures: own-box-assign-shallow (Box_Assign), own-box-ref-drops (Box_Ref: its own finding, KF-C05-box-ref-drops),
 * own-list-resize-raw, own-array-assign-partial, own-array-new-partial;
 * kf-c12-array-push-type (a finding recorded under C12: Array_Push / Push_At / Concat grow the array before the element's
 * type check; printed — and the oracle suspended — when a replay enters that territory, never generated for C05).
 * The whole file runs in a forked child with alarm(); the parent reports how the child ended.
 */
#include "common.h"
#include <errno.h>
#include <signal.h>

/* ------------------------------------------------------------------------------------------------ ledger */
enum { T_NONE = 0, T_LIVE, T_DEAD, T_LEAKED };
typedef struct { int64_t pay; int state; int heap; void* addr; uint64_t stamp; int where; } TokRec;
static TokRec* led; static size_t led_n, led_cap;      /* token serials 1..led_n */
static size_t n_live;                                 /* LIVE + LEAKED */
static size_t n_blocks;                               /* owned heap blocks outstanding */
static size_t cur_line;
static int mk_heap;                                   /* the next construction is a heap probe (Box pointee) */
static int oracle_on = 1;

typedef struct { int64_t* v; size_t n, cap; } Vec;
static void vpush(Vec* x, int64_t a) { if (x->n == x->cap) { x->cap = x->cap ? x->cap * 2 : 64; x->v = realloc(x->v, x->cap * sizeof(int64_t)); } x->v[x->n++] = a; }
static void vfit(Vec* d, size_t n) { while (d->n < n) vpush(d, 0); }
static int cmp_i64(const void* a, const void* b) { int64_t x = *(const int64_t*)a, y = *(const int64_t*)b; return (x > y) - (x < y); }
static Vec ev_iss, ev_ret, ev_upd; static size_t ev_rawd;

struct Probe { int64_t pay; uint64_t tok; int64_t* block; };
/* a second, larger element type: the owned pointer and the token lie beyond the first 16 bytes, guard words around the
   core — used as key or value next to the small probe so that byte-wise relocation (Table rehash / displacement /
   backward shift, Tree predecessor copy, Array memmove) of differently sized slots is exercised; a copy that moves
   only part of an element leaves a hybrid that the guards, the block and the ledger expose */
struct Big { int64_t id; int64_t pad; struct Probe c; int64_t tail; };
#define PAD_MAGIC 0x5A5A5A5A5A5A5A5ALL
#define TAIL_MAGIC 0x3C3C3C3C3C3C3C3CLL

static void Probe_New(var self, var args);
static void Probe_Del(var self);
static void Probe_Assign(var self, var obj);
static int Probe_Cmp(var self, var obj);
static uint64_t Probe_Hash(var self);
static void Big_New(var self, var args);
static void Big_Del(var self);
static void Big_Assign(var self, var obj);
static int Big_Cmp(var self, var obj);
static uint64_t Big_Hash(var self);

var Probe = Cello(Probe,
  Instance(New, Probe_New, Probe_Del),
  Instance(Assign, Probe_Assign),
  Instance(Cmp, Probe_Cmp),
  Instance(Hash, Probe_Hash));

var Big = Cello(Big,
  Instance(New, Big_New, Big_Del),
  Instance(Assign, Big_Assign),
  Instance(Cmp, Big_Cmp),
  Instance(Hash, Big_Hash));

/* the core of an element of either type (arguments may be of either type: the elements are convertible) */
static struct Probe* core_of(var obj) {
  if (type_of(obj) is Big) return &((struct Big*)obj)->c;
  return cast(obj, Probe);
}
static int big_guards_ok(struct Big* g) {
  if (g->c.tok == 0) return g->id == 0 && g->pad == 0 && g->tail == 0 && g->c.pay == 0 && g->c.block == NULL;
  return g->id == g->c.pay && g->pad == PAD_MAGIC && g->tail == (int64_t)(TAIL_MAGIC ^ (int64_t)g->c.tok);
}

static void core_assign(struct Probe* d, int64_t pay, var self) {
  if (d->tok == 0) {                                   /* zero-filled memory: construct */
    if (d->block != NULL || d->pay != 0) X("sig=own-corrupt line=%zu what=assign into memory that is neither zero-filled nor a constructed element", cur_line);
    if (led_n + 2 > led_cap) { led_cap = led_cap ? led_cap * 2 : 1024; led = realloc(led, led_cap * sizeof(TokRec)); }
    uint64_t t = ++led_n;
    led[t] = (TokRec){ pay, T_LIVE, mk_heap, mk_heap ? self : NULL, 0, -1 };
    d->tok = t; d->pay = pay;
    d->block = malloc(2 * sizeof(int64_t)); d->block[0] = pay; d->block[1] = (int64_t)t; n_blocks++;
    n_live++; vpush(&ev_iss, pay);
  } else {                                             /* the element's own assignment, in place */
    if (d->tok > led_n || led[d->tok].state != T_LIVE) { X("sig=own-dead-contained line=%zu what=assignment onto an element that is not live (token %llu)", cur_line, (unsigned long long)d->tok); return; }
    if (!d->block || d->block[0] != d->pay || d->block[1] != (int64_t)d->tok || led[d->tok].pay != d->pay)
      X("sig=own-corrupt line=%zu what=element %llu disagrees with its block/ledger before in-place assignment", cur_line, (unsigned long long)d->tok);
    free(d->block);
    d->block = malloc(2 * sizeof(int64_t)); d->block[0] = pay; d->block[1] = (int64_t)d->tok;
    d->pay = pay; led[d->tok].pay = pay;
    vpush(&ev_upd, pay);
  }
}

static void core_del(struct Probe* p) {
  if (p->tok == 0) {                                   /* destructor on zero-filled memory */
    ev_rawd++;
    if (p->block) X("sig=own-corrupt line=%zu what=zero-token element owns a block", cur_line);
    return;
  }
  if (p->tok > led_n || led[p->tok].state == T_NONE) { X("sig=own-unknown-token line=%zu what=destruct of token %llu that was never issued", cur_line, (unsigned long long)p->tok); return; }
  TokRec* r = &led[p->tok];
  if (r->state == T_DEAD) { X("sig=own-double-destruct line=%zu what=token %llu (payload %lld) destructed twice", cur_line, (unsigned long long)p->tok, (long long)r->pay); return; }
  if (!p->block || p->block[0] != p->pay || p->block[1] != (int64_t)p->tok || r->pay != p->pay)
    X("sig=own-corrupt line=%zu what=element %llu disagrees with its block/ledger at destruction", cur_line, (unsigned long long)p->tok);
  free(p->block); n_blocks--;
  r->state = T_DEAD; n_live--;
  vpush(&ev_ret, p->pay);
}

/* The object an Assign / Cmp READS (its argument): a fresh argument object of the harness (never constructed: token 0, marked
   by ARG_MARK in the field of the owned pointer), or a live element.  Anything else is a read of memory that holds no
   element: a finalised one (the container destructed it before it read it — e.g. the stored value passed back to set),
   or zero-filled bytes (destructed and zeroed, or never constructed). */
#define ARG_MARK ((int64_t*)(uintptr_t)0xA5A5A5A5A5A5A5A0ULL)
static void check_read(struct Probe* s, const char* by) {
  if (!oracle_on) return;
  if (s->tok == 0) {
    if (s->block != ARG_MARK) X("sig=own-raw-element line=%zu what=%s reads its argument from zero-filled memory: not an element (finalised and zeroed before it was read, or never constructed)", cur_line, by);
    return;
  }
  if (s->tok > led_n || led[s->tok].state == T_NONE) { X("sig=own-unknown-token line=%zu what=%s reads an argument carrying token %llu that was never issued", cur_line, by, (unsigned long long)s->tok); return; }
  if (led[s->tok].state == T_DEAD) X("sig=own-dead-contained line=%zu what=%s reads an element that has been finalised (token %llu, payload %lld): finalised while still in use", cur_line, by, (unsigned long long)s->tok, (long long)led[s->tok].pay);
}
static void Probe_Assign(var self, var obj) { struct Probe* src = core_of(obj); check_read(src, "assign"); core_assign(self, src->pay, self); }
static void Probe_New(var self, var args) { Probe_Assign(self, get(args, $I(0))); }
static void Probe_Del(var self) { core_del(self); }
static int Probe_Cmp(var self, var obj) {
  struct Probe* a = self; struct Probe* b = core_of(obj);
  check_read(b, "cmp");
  return (a->pay > b->pay) - (a->pay < b->pay);
}
/* Boundary values of a 64-bit hash (Lean: Cello.Own.Conc.bhTable, same order).  The payloads BH_BASE + BH_PER*b + r (r < BH_PER)
   hash to BH[b]: what Int_Hash gives for the keys -1, 0, 1, -2, INT64_MIN, INT64_MAX, INT64_MIN+1, 2^32, 2^32-1, 2^32+1, -2^32, 2^33,
   what Float_Hash (the bit pattern) gives for the quiet NaNs of both signs, +inf, 1.0 (-0.0 = the pattern of INT64_MIN, the
   all-ones NaN = the pattern of -1), and hashes that are 0 / nslots-1 / 1 modulo EVERY table size up to 1259 slots at once
   (BH_L = 5*11*23*53*101*197*389*683*1259).  Every other payload hashes to (pay % 16) * 37: six-fold clusters. */
#define BH_BASE 1000
#define BH_PER 8
#define BH_L 446221025714877545ULL
static const uint64_t BH[] = {
  0xFFFFFFFFFFFFFFFFULL, 0ULL, 1ULL, 0xFFFFFFFFFFFFFFFEULL, 0x8000000000000000ULL, 0x7FFFFFFFFFFFFFFFULL, 0x8000000000000001ULL,
  0x0000000100000000ULL, 0x00000000FFFFFFFFULL, 0x0000000100000001ULL, 0xFFFFFFFF00000000ULL, 0x0000000200000000ULL,
  0x7FF8000000000000ULL, 0xFFF8000000000000ULL, 0x7FF0000000000000ULL, 0x3FF0000000000000ULL,
  BH_L, BH_L - 1, BH_L + 1, 41 * BH_L, 41 * BH_L - 1, 2 * BH_L - 1 };
#define BH_N ((int64_t)(sizeof BH / sizeof BH[0]))
static uint64_t Probe_Hash(var self) {
  struct Probe* a = self;
  if (a->pay >= BH_BASE && a->pay < BH_BASE + BH_PER * BH_N) return BH[(a->pay - BH_BASE) / BH_PER];
  return (uint64_t)(a->pay % 16) * 37u;
}

static void Big_Assign(var self, var obj) {
  struct Big* g = self; struct Probe* src = core_of(obj); check_read(src, "assign"); int64_t pay = src->pay;
  if (!big_guards_ok(g)) X("sig=own-corrupt line=%zu what=guard words of a large element (token %llu) are damaged before assignment", cur_line, (unsigned long long)g->c.tok);
  core_assign(&g->c, pay, self);
  g->id = g->c.pay; g->pad = PAD_MAGIC; g->tail = (int64_t)(TAIL_MAGIC ^ (int64_t)g->c.tok);
}
static void Big_New(var self, var args) { Big_Assign(self, get(args, $I(0))); }
static void Big_Del(var self) {
  struct Big* g = self;
  if (!big_guards_ok(g)) X("sig=own-corrupt line=%zu what=guard words of a large element (token %llu) are damaged at destruction", cur_line, (unsigned long long)g->c.tok);
  core_del(&g->c);
}
static int Big_Cmp(var self, var obj) { return Probe_Cmp(&((struct Big*)self)->c, obj); }
static uint64_t Big_Hash(var self) { return Probe_Hash(&((struct Big*)self)->c); }

/* an argument object of either element type (like `$(Probe, pay, 0, NULL)`, but usable in loops) */
typedef struct { char mem[sizeof(struct Header) + sizeof(struct Big)]; } ArgBuf;
static var mk_arg_t(ArgBuf* b, int64_t pay, int big) {
  memset(b, 0, sizeof *b);
  if (big) { struct Big* g = header_init((struct Header*)b->mem, Big, AllocStack); g->c.pay = pay; g->id = pay; g->c.block = ARG_MARK; return g; }
  struct Probe* p = header_init((struct Header*)b->mem, Probe, AllocStack);
  p->pay = pay; p->block = ARG_MARK; return p;
}
static var mk_arg(ArgBuf* b, int64_t pay) { return mk_arg_t(b, pay, 0); }

/* ------------------------------------------------------------------------------------------------ containers */
#define NC 64
enum { K_NONE = 0, K_ARR = 'A', K_LST = 'L', K_TBL = 'T', K_TRE = 'R', K_BARR = 'B', K_BLST = 'C', K_CELL = 'X' };
typedef struct { int kind; int kt, vt; Vec a, b, seen; } Shadow;   /* kt/vt: element (key) / value type, 1 = Big */         /* reference: seq payloads in a (-1 = zero-filled); map keys a / values b */
static Shadow sh[NC];
static int is_seq(int k) { return k == K_ARR || k == K_LST || k == K_BARR || k == K_BLST; }
static int is_map(int k) { return k == K_TBL || k == K_TRE; }
static int is_boxseq(int k) { return k == K_BARR || k == K_BLST; }
static int is_boxk(int k) { return k == K_BARR || k == K_BLST || k == K_CELL; }
static int is_listlike(int k) { return k == K_LST || k == K_BLST; }

/* walked element: code 0 = zero-filled, 1 = dead pointee, pay+2 otherwise; tok = ledger token or 0 */
typedef struct { uint64_t tok; int64_t code; int64_t pos; } WEl;   /* pos: slot index (Table) / 2*depth + red (Tree) */
typedef struct { WEl* v; size_t n, cap; } WVec;
static int64_t wpos;                                  /* position recorded with the elements pushed next */
static void wpush(WVec* x, uint64_t tok, int64_t code) { if (x->n == x->cap) { x->cap = x->cap ? x->cap * 2 : 64; x->v = realloc(x->v, x->cap * sizeof(WEl)); } x->v[x->n].tok = tok; x->v[x->n].code = code; x->v[x->n].pos = wpos; x->n++; }

static void walk_probe(WVec* out, var item) {
  struct Probe* p = core_of(item);
  if (type_of(item) is Big && !big_guards_ok(item))
    X("sig=own-corrupt line=%zu what=guard words of a stored large element (token %llu) are damaged: the element was moved only in part", cur_line, (unsigned long long)p->tok);
  if (p->tok == 0) { wpush(out, 0, 0); return; }
  if (p->tok > led_n) { X("sig=own-corrupt line=%zu what=stored element carries token %llu that was never issued", cur_line, (unsigned long long)p->tok); wpush(out, 0, 1); return; }
  wpush(out, p->tok, p->pay + 2);
}
static void walk_box(WVec* out, var item) {
  struct Box* b = item;
  if (b->val == NULL) { wpush(out, 0, 0); return; }
  for (size_t t = led_n; t >= 1; t--) {                /* newest heap probe constructed at that address */
    if (led[t].heap && led[t].addr == b->val) {
      if (led[t].state == T_DEAD) wpush(out, t, 1); else wpush(out, t, led[t].pay + 2);
      return;
    }
  }
  wpush(out, 0, 1);
}
static void walk_tree(struct Tree* m, var node, WVec* out, size_t* guard, int64_t depth) {
  if (node == NULL || *guard == 0) return;
  (*guard)--;
  walk_tree(m, *Tree_Left(m, node), out, guard, depth + 1);
  wpos = 2 * depth + (Tree_Is_Red(m, node) ? 1 : 0);
  walk_probe(out, Tree_Key(m, node)); walk_probe(out, Tree_Val(m, node));
  walk_tree(m, *Tree_Right(m, node), out, guard, depth + 1);
}
static int cmp_pair(const void* a, const void* b) { const WEl* x = a; const WEl* y = b; return (x->code > y->code) - (x->code < y->code); }

/* white-box walk of container `h`; maps come out as k,v,k,v in storage order */
static void walk(int kind, var h, WVec* out) {
  out->n = 0;
  switch (kind) {
    case K_ARR: case K_BARR: { struct Array* a = h; for (size_t i = 0; i < a->nitems; i++) { if (kind == K_ARR) walk_probe(out, Array_Item(a, i)); else walk_box(out, Array_Item(a, i)); } break; }
    case K_LST: case K_BLST: { struct List* l = h; var it = l->head; size_t guard = l->nitems + 2; while (it && guard--) { if (kind == K_LST) walk_probe(out, it); else walk_box(out, it); it = *List_Next(l, it); } break; }
    case K_TBL: { struct Table* t = h; for (size_t i = 0; i < t->nslots; i++) if (Table_Key_Hash(t, i) != 0) { wpos = (int64_t)i; walk_probe(out, Table_Key(t, i)); walk_probe(out, Table_Val(t, i)); } break; }
    case K_TRE: { struct Tree* m = h; size_t guard = m->nitems + 2; walk_tree(m, m->root, out, &guard, 0); break; }
    case K_CELL: { struct Box* b = h; if (b->val) walk_box(out, b); break; }
  }
}

static uint64_t mix(uint64_t h, uint64_t x) { return (h ^ x) * 1099511628211ULL; }
static uint64_t pair_hash(int64_t k, int64_t v) { return mix(mix(0x9E3779B97F4A7C15ULL, (uint64_t)k), (uint64_t)v); }
#define LONG_LIST 48

static void print_vec(FILE* f, const char* name, Vec* x) {
  if (x->n) qsort(x->v, x->n, sizeof(int64_t), cmp_i64);
  if (x->n > LONG_LIST) {                              /* long lists are printed as count and digest */
    uint64_t h = 1469598103934665603ULL; for (size_t i = 0; i < x->n; i++) h = mix(h, (uint64_t)x->v[i]);
    fprintf(f, " %s=#%zu:%llu", name, x->n, (unsigned long long)h); return;
  }
  fprintf(f, " %s=[", name);
  for (size_t i = 0; i < x->n; i++) fprintf(f, i ? ",%lld" : "%lld", (long long)x->v[i]);
  fputc(']', f);
}
static void print_el(FILE* f, int64_t code) { if (code == 0) fputc('_', f); else if (code == 1) fputc('!', f); else fprintf(f, "%lld", (long long)(code - 2)); }

/* The concrete layout of a map with the identities in it — the Lean driver runs the same history on the slot-array model of
   Cello/Table.lean and the red-black model of Cello/RBTree.lean with token-valued records (Cello/OwnConc.lean) and prints the same:
     Table:  c~<nslots><slot:key@rank/val@rank,...>     Tree:  c~<depth colour:key@rank/val@rank,...>  (in-order, left to right)
   rank = position of the element's identity among the identities stored in this container (construction order), so a record
   that a rehash / displacement / backward shift / rotation / predecessor copy moved only in part, dropped or doubled shows. */
static void print_layout(int c, var h, WVec* w) {
  size_t n = w->n;
  int longf = n > LONG_LIST;
  uint64_t hd = 1469598103934665603ULL;
  if (sh[c].kind == K_TBL) { struct Table* t = h; if (longf) hd = mix(hd, (uint64_t)t->nslots); else fprintf(vout, " %d~%zu<", c, t->nslots); }
  else if (!longf) fprintf(vout, " %d~<", c);
  /* ranks: sort a copy of the tokens */
  uint64_t* ts = malloc((n + 1) * sizeof(uint64_t));
  for (size_t i = 0; i < n; i++) ts[i] = w->v[i].tok;
  for (size_t i = 1; i < n; i++) { uint64_t x = ts[i]; size_t j = i; while (j > 0 && ts[j-1] > x) { ts[j] = ts[j-1]; j--; } ts[j] = x; }
  for (size_t i = 0; i + 1 < n; i += 2) {
    size_t rk[2];
    for (int q = 0; q < 2; q++) { uint64_t x = w->v[i+q].tok; size_t lo = 0, hi = n; while (lo < hi) { size_t mid = (lo + hi) / 2; if (ts[mid] < x) lo = mid + 1; else hi = mid; } rk[q] = lo; }
    if (longf) { hd = mix(hd, (uint64_t)w->v[i].pos); hd = mix(hd, (uint64_t)w->v[i].code); hd = mix(hd, rk[0]); hd = mix(hd, (uint64_t)w->v[i+1].code); hd = mix(hd, rk[1]); continue; }
    if (i) fputc(',', vout);
    if (sh[c].kind == K_TBL) fprintf(vout, "%lld:", (long long)w->v[i].pos);
    else fprintf(vout, "%lld%c:", (long long)(w->v[i].pos / 2), (w->v[i].pos & 1) ? 'R' : 'B');
    print_el(vout, w->v[i].code); fprintf(vout, "@%zu/", rk[0]); print_el(vout, w->v[i+1].code); fprintf(vout, "@%zu", rk[1]);
  }
  free(ts);
  if (longf) fprintf(vout, " %d~#%llu", c, (unsigned long long)hd); else fputc('>', vout);
}

static WVec wk[NC];
static uint64_t wacc[NC], ref_h[NC]; static size_t ref_n[NC]; static int ref_ok[NC];
static uint64_t opno = 0;

static void kf(const char* sig, const char* what) {
  X("sig=%s line=%zu what=%s", sig, cur_line, what);
  if (oracle_on) I("oracle suspended after known-finding signature %s at line %zu", sig, cur_line);
  oracle_on = 0;
}

/* op context for classifying known findings */
static int ctx_op, ctx_kind, ctx_raised; static size_t ctx_oldlen, ctx_n;
enum { OP_OTHER = 0, OP_PUSHAT, OP_SET, OP_RESIZE, OP_COPYLIKE, OP_BASSIGN, OP_BREF };

static void check_and_print(var* H, const char* outcome, int t1, int t2) {
  opno++;
  /* walk every container */
  size_t contained = 0; uint64_t dig = 1469598103934665603ULL;
  int shared = 0, shared_box = 0, dead = 0, raw = 0, lenbad = -1, contbad = -1;
  for (int c = 0; c < NC; c++) {
    if (!sh[c].kind) continue;
    WVec* w = &wk[c]; walk(sh[c].kind, H[c], w);
    size_t n = is_map(sh[c].kind) ? w->n / 2 : w->n;
    dig = mix(dig, (uint64_t)c + 1); dig = mix(dig, (uint64_t)sh[c].kind); dig = mix(dig, n);
    uint64_t hc;
    if (is_map(sh[c].kind)) {                          /* order-independent: storage order is not part of the contents */
      hc = 0;
      for (size_t i = 0; i + 1 < w->n; i += 2) hc += pair_hash(w->v[i].code, w->v[i+1].code);
    } else { hc = 1469598103934665603ULL; for (size_t i = 0; i < w->n; i++) hc = mix(hc, (uint64_t)w->v[i].code); }
    dig = mix(dig, hc); wacc[c] = hc;
    for (size_t i = 0; i < w->n; i++) {
      uint64_t t = w->v[i].tok;
      if (w->v[i].code == 0) raw++;
      else if (w->v[i].code == 1) dead++;
      else {
        contained++;
        if (led[t].stamp == opno) { shared++; if (is_boxk(sh[c].kind)) shared_box++; }
        led[t].stamp = opno; led[t].where = c;
        if (led[t].state == T_DEAD) dead++;
        if (!is_boxk(sh[c].kind) && led[t].pay + 2 != w->v[i].code) X("sig=own-corrupt line=%zu what=container %d element token %llu payload differs from ledger", cur_line, c, (unsigned long long)t);
      }
    }
    if (sh[c].kind != K_CELL && len(H[c]) != n) lenbad = c;
    /* against the payload-level reference: always for the containers the op touched; for the others whenever their
       contents hash differs from the one that was checked last (their reference cannot have changed) */
    if (c != t1 && c != t2 && ref_ok[c] && ref_h[c] == hc && ref_n[c] == n) continue;
    int before = contbad;
    if (is_map(sh[c].kind)) {
      if (sh[c].a.n != n) contbad = c;
      else { vfit(&sh[c].seen, n); for (size_t i = 0; i < n; i++) {          /* reference pairs are kept sorted by key: binary search */
        int64_t kk = w->v[2*i].code - 2; size_t lo = 0, hi = n;
        while (lo < hi) { size_t mid = (lo + hi) / 2; if (sh[c].a.v[mid] < kk) lo = mid + 1; else hi = mid; }
        if (lo >= n || sh[c].a.v[lo] != kk || w->v[2*i+1].code != sh[c].b.v[lo] + 2 || (sh[c].seen.v[lo] == (int64_t)opno)) contbad = c;
        else sh[c].seen.v[lo] = (int64_t)opno;
      } }
    } else {
      if (sh[c].a.n != n) contbad = c;
      else for (size_t i = 0; i < n; i++) {
        int64_t want = sh[c].a.v[i] < 0 ? 0 : sh[c].a.v[i] + 2;
        if (w->v[i].code != want) contbad = c;
      }
    }
    ref_ok[c] = contbad == before; ref_h[c] = hc; ref_n[c] = n;
  }
  /* the observation */
  fprintf(vout, "O r=%s", outcome);
  print_vec(vout, "iss", &ev_iss); print_vec(vout, "ret", &ev_ret); print_vec(vout, "upd", &ev_upd);
  fprintf(vout, " rawd=%zu live=%zu dig=%llu |", ev_rawd, n_live, (unsigned long long)dig);
  int ts[2] = { t1, t2 };
  for (int k = 0; k < 2; k++) {
    int c = ts[k]; if (c < 0 || (k == 1 && t2 == t1)) continue;
    if (!sh[c].kind) { fprintf(vout, " %d:-", c); continue; }
    WVec* w = &wk[c];
    if (w->n > LONG_LIST) {
      if (is_map(sh[c].kind)) print_layout(c, H[c], w);
      fprintf(vout, " %d:%c#%zu:%llu", c, sh[c].kind, is_map(sh[c].kind) ? w->n / 2 : w->n, (unsigned long long)wacc[c]); continue;
    }
    if (is_map(sh[c].kind)) print_layout(c, H[c], w);      /* storage order, before the pairs are sorted for the contents dump */
    if (is_map(sh[c].kind) && w->n) qsort(w->v, w->n / 2, 2 * sizeof(WEl), cmp_pair);
    fprintf(vout, " %d:%c%c", c, sh[c].kind, is_map(sh[c].kind) ? '{' : '[');
    if (is_map(sh[c].kind)) for (size_t i = 0; i + 1 < w->n; i += 2) { if (i) fputc(',', vout); print_el(vout, w->v[i].code); fputc(':', vout); print_el(vout, w->v[i+1].code); }
    else for (size_t i = 0; i < w->n; i++) {
      /* payload@rank: rank of the element's identity among the identities in this container (construction order) —
         makes identity-level moves (sort with equal payloads, push_at/pop_at shifts) observable */
      if (i) fputc(',', vout); print_el(vout, w->v[i].code);
      if (w->v[i].code >= 2) { int rk = 0; for (size_t j = 0; j < w->n; j++) if (w->v[j].code >= 2 && w->v[j].tok < w->v[i].tok) rk++; fprintf(vout, "@%d", rk); }
    }
    fputc(is_map(sh[c].kind) ? '}' : ']', vout);
  }
  fputc('\n', vout);
  /* the direct oracle */
  if (!oracle_on) return;
  if (shared) {
    if (shared_box && (ctx_op == OP_COPYLIKE || ctx_op == OP_BASSIGN)) kf("own-box-assign-shallow", "Box_Assign copied the pointer: two containers hold the same pointee after copy/assign/concat");
    else X("sig=own-shared line=%zu what=%d element(s) are held in two places", cur_line, shared);
    if (!oracle_on) return;
  }
  if (raw) {
    if (ctx_op == OP_RESIZE && is_listlike(ctx_kind) && ctx_n > ctx_oldlen && !ctx_raised) kf("own-list-resize-raw", "List_Resize grew the list with zero-filled elements that were never constructed: len counts them, no element is live");
    else X("sig=own-raw-element line=%zu what=%d contained element(s) were never constructed", cur_line, raw);
    if (!oracle_on) return;
  }
  if (dead) X("sig=own-dead-contained line=%zu what=%d contained element(s) have been finalised", cur_line, dead);
  if (lenbad >= 0) X("sig=own-len line=%zu what=len() of container %d differs from the number of stored elements", cur_line, lenbad);
  if (contbad >= 0) X("sig=own-contents line=%zu what=contents of container %d differ from the reference", cur_line, contbad);
  if (n_live != contained) {
    if (ctx_op == OP_PUSHAT && ctx_kind == K_LST && ctx_raised && n_live == contained + 1)
      X("sig=own-list-pushat-leak line=%zu what=a refused push_at left a constructed element that is in no container (defect repaired by 4077d96)", cur_line);
    else if (ctx_op == OP_SET && is_boxseq(ctx_kind) && !ctx_raised && n_live == contained + 1)
      kf("own-box-assign-shallow", "Box_Assign overwrote the pointer of a stored Box: the replaced pointee was not finalised");
    else if (ctx_op == OP_BASSIGN && n_live == contained + 1)
      kf("own-box-assign-shallow", "Box_Assign overwrote the pointer of a Box: the replaced pointee was not finalised");
    else if (ctx_op == OP_BREF && n_live == contained + 1)
      kf("own-box-ref-drops", "Box_Ref overwrote the pointer of a Box that owned an object: the replaced pointee was not finalised (it stays live, owned by nothing)");
    else X("sig=own-live-count line=%zu what=%zu live elements but the containers hold %zu", cur_line, n_live, contained);
  }
}

/* ------------------------------------------------------------------------------------------------ reference ops */
static void vins(Vec* x, size_t i, int64_t a) { vpush(x, 0); memmove(x->v + i + 1, x->v + i, (x->n - 1 - i) * sizeof(int64_t)); x->v[i] = a; }
static void verase(Vec* x, size_t i) { memmove(x->v + i, x->v + i + 1, (x->n - 1 - i) * sizeof(int64_t)); x->n--; }
static void vcopy(Vec* d, Vec* s) { d->n = 0; for (size_t i = 0; i < s->n; i++) vpush(d, s->v[i]); }
static long mfind(Shadow* s, int64_t k) { for (size_t i = 0; i < s->a.n; i++) if (s->a.v[i] == k) return (long)i; return -1; }
static void mset_ref(Shadow* s, int64_t k, int64_t v) {
  long i = mfind(s, k);
  if (i >= 0) { s->b.v[i] = v; return; }
  size_t j = 0; while (j < s->a.n && s->a.v[j] < k) j++;
  vins(&s->a, j, k); vins(&s->b, j, v); vpush(&s->seen, 0);
}

/* ------------------------------------------------------------------------------------------------ parsing */
static int parse_int(const char* s, int64_t* out, int allow_neg) {
  const char* p = s; int neg = 0;
  if (*p == '-') { if (!allow_neg) return 0; neg = 1; p++; }
  size_t nd = 0; int64_t v = 0;
  while (*p >= '0' && *p <= '9') { v = v * 10 + (*p - '0'); p++; nd++; if (nd > 9) return 0; }
  if (*p || nd == 0) return 0;
  *out = neg ? -v : v; return 1;
}
#define MAXTOK 300
#define RN(e) ((e) ? v_exc_name(e) : "ok")

/* argument token: a payload, a wrong-typed object, or a REFERENCE to an object stored in a container:
     @d[i]   get(d, i): the record / node at position i of the Array / List d (negative: from the end)
     @d.kK   the stored key object with payload K of the Table / Tree d (found by iterating over d: what foreach yields)
     @d.vK   get(d, key K): the stored value object
   The stored object itself is passed to the call (a converted copy only where `cast` demands the exact type and the
   referenced object has the other element type).  Allowed in push append pushat set rem mset mrem; the receiver must be a
   container of probe elements; an Array is not pushed an element of itself (KF-C04-push-own-element: read after realloc /
   memmove) — all of these are bad-op, in the Lean model too. */
typedef struct { int wrong; int64_t pay; int isref; int rc; int sel; int64_t ix; var ptr; int tbig; } ArgTok;
static int parse_ref(const char* s, ArgTok* a) {
  const char* p = s; size_t nd = 0; int64_t c = 0;
  while (*p >= '0' && *p <= '9') { c = c * 10 + (*p - '0'); p++; nd++; if (nd > 2) return 0; }
  if (nd == 0) return 0;
  a->rc = (int)c; a->isref = 1; a->wrong = 0; a->pay = 0; a->ptr = NULL; a->tbig = 0;
  if (*p == '[') {
    char buf[16]; const char* q = strchr(p, ']');
    if (!q || q[1] || (size_t)(q - p - 1) >= sizeof buf) return 0;
    memcpy(buf, p + 1, (size_t)(q - p - 1)); buf[q - p - 1] = 0;
    a->sel = 'e'; return parse_int(buf, &a->ix, 1);
  }
  if (*p == '.' && (p[1] == 'k' || p[1] == 'v')) { a->sel = p[1]; return parse_int(p + 2, &a->ix, 0); }
  return 0;
}
static int parse_arg(const char* s, ArgTok* a) {
  a->isref = 0; a->ptr = NULL; a->rc = -1; a->sel = 0; a->ix = 0; a->tbig = 0;
  if (s[0] == '@') return parse_ref(s + 1, a);
  if (s[0] == '!') { if (!s[1] || s[2] || !strchr("ISFTN", s[1])) return 0; a->wrong = s[1]; a->pay = 0; return 1; }
  a->wrong = 0; return parse_int(s, &a->pay, 0);
}
static var W_INT, W_STR, W_FLT;                       /* live on child_main's frame */
static var wrong_obj(int code) {
  switch (code) { case 'I': return W_INT; case 'S': return W_STR; case 'F': return W_FLT; case 'T': return Int; default: return NULL; }
}
static void must_refuse(var exc, const char* what) {
  if (!exc && oracle_on) X("sig=own-type-accepted line=%zu what=%s with a wrong-typed argument was accepted", cur_line, what);
}
#define KF_ARRAY_GROWS "F15 (recorded under C12): the array made room (nitems, memmove, zero-filled / uninitialised records) before the element's own type check raised: len counts records that were never constructed"

/* kind token: A | L | T | R | B, optionally followed by the element types (p = small probe, g = large):
   one letter for A / L (element), two for T / R (key, value); none for B */
static int parse_kind(const char* s, const char* allowed, int* K, int* kt, int* vt) {
  if (!s[0] || !strchr(allowed, s[0])) return 0;
  *K = s[0]; *kt = *vt = 0;
  size_t n = strlen(s + 1);
  for (size_t i = 0; i < n; i++) if (s[1+i] != 'p' && s[1+i] != 'g') return 0;
  if (n == 0) return 1;
  if ((*K == 'A' || *K == 'L') && n == 1) { *kt = s[1] == 'g'; return 1; }
  if ((*K == 'T' || *K == 'R') && n == 2) { *kt = s[1] == 'g'; *vt = s[2] == 'g'; return 1; }
  return 0;
}
static var ty(int big) { return big ? Big : Probe; }

static int free_name(int64_t c) { return c >= 0 && c < NC && !sh[c].kind; }
static int used_name(int64_t c) { return c >= 0 && c < NC && sh[c].kind; }

static void reset_events(void) { ev_iss.n = ev_ret.n = ev_upd.n = 0; ev_rawd = 0; }

static void drop_shadow(int c) { sh[c].kind = 0; ref_ok[c] = 0; sh[c].a.n = sh[c].b.n = sh[c].seen.n = 0; }

static var mk_pointee(int64_t pay) { ArgBuf ab; mk_heap = 1; var p = new(Probe, mk_arg(&ab, pay)); mk_heap = 0; return p; }

/* ---- references to stored objects (aliased arguments) */
static var ref_elem(var h, int64_t i) { return get(h, $I(i)); }
static var ref_key(var h, int64_t k) { foreach (key in h) { if (core_of(key)->pay == k) return key; } return NULL; }
static var ref_val(var h, int64_t k, int kbig) { ArgBuf kb; return get(h, mk_arg_t(&kb, k, kbig)); }
/* Resolve a reference the way the caller of the library would (get / iteration) and — independently — in the payload-level
   reference of the harness: a->pay comes from the shadow, a->ptr from the library.  0 = designates nothing (bad op). */
static int bind_ref(var* H, ArgTok* a) {
  if (!a->isref) return 1;
  int d = a->rc; var exc = NULL;
  if (d < 0 || d >= NC || !sh[d].kind) return 0;
  if (a->sel == 'e') {
    if (sh[d].kind != K_ARR && sh[d].kind != K_LST) return 0;
    int64_t ln = (int64_t)sh[d].a.n, j = a->ix < 0 ? ln + a->ix : a->ix;
    if (j < 0 || j >= ln || sh[d].a.v[j] < 0) return 0;
    a->pay = sh[d].a.v[j]; a->tbig = sh[d].kt;
    V_TRY(exc, a->ptr = ref_elem(H[d], a->ix));
  } else {
    if (!is_map(sh[d].kind)) return 0;
    long j = mfind(&sh[d], a->ix);
    if (j < 0) return 0;
    if (a->sel == 'k') { a->pay = a->ix; a->tbig = sh[d].kt; V_TRY(exc, a->ptr = ref_key(H[d], a->ix)); }
    else { a->pay = sh[d].b.v[j]; a->tbig = sh[d].vt; V_TRY(exc, a->ptr = ref_val(H[d], a->ix, sh[d].kt)); }
  }
  if (exc || !a->ptr) {
    if (oracle_on) X("sig=own-contents line=%zu what=get / iteration does not deliver an element of container %d that the reference holds (%s)", cur_line, d, RN(exc));
    return 0;
  }
  if (core_of(a->ptr)->pay != a->pay && oracle_on)
    X("sig=own-contents line=%zu what=the stored object delivered by get / iteration on container %d has payload %lld, the reference has %lld", cur_line, d, (long long)core_of(a->ptr)->pay, (long long)a->pay);
  return 1;
}
/* the argument object of a call: a fresh stack object, or the stored object itself (`exact`: cast() demands this very type —
   a stored object of the other element type is passed as a converted copy) */
static var arg_obj(ArgTok* a, ArgBuf* b, int want_big, int exact) {
  if (!a->isref) return mk_arg_t(b, a->pay, want_big);
  if (exact && a->tbig != want_big) return mk_arg_t(b, core_of(a->ptr)->pay, want_big);
  return a->ptr;
}
/* an Array receiving an element of itself by push / push_at: KF-C04-push-own-element (not executed) */
static int own_array_push(ArgTok* a, int64_t c) { return a->isref && a->rc == (int)c && sh[c].kind == K_ARR; }

/* returns 0 = bad op */
static int run_op(var* H, char** tk, int nt) {
  int64_t c, d, i, p, n, k, v; var exc = NULL; ArgBuf ab, ab2;
  const char* op = tk[0];
  ctx_op = OP_OTHER; ctx_kind = 0; ctx_raised = 0; ctx_oldlen = 0; ctx_n = 0;
  reset_events();
  #define NUM(ix, var_, neg) (parse_int(tk[ix], &(var_), neg))
  if (!strcmp(op, "new")) {
    int K, kt, vt;
    if (nt != 3 || !NUM(1, c, 0) || !parse_kind(tk[2], "ALTRBC", &K, &kt, &vt) || !free_name(c)) return 0;
    switch (K) {
      case 'A': H[c] = new(Array, ty(kt)); break;
      case 'L': H[c] = new(List, ty(kt)); break;
      case 'T': H[c] = new(Table, ty(kt), ty(vt)); break;
      case 'R': H[c] = new(Tree, ty(kt), ty(vt)); break;
      case 'B': H[c] = new(Array, Box); break;
      case 'C': H[c] = new(List, Box); break;
    }
    sh[c].kind = K; sh[c].kt = kt; sh[c].vt = vt; check_and_print(H, "ok", (int)c, -1); return 1;
  }
  if (!strcmp(op, "newv") || !strcmp(op, "newm")) {
    int m = op[3] == 'm';
    int K, kt, vt;
    if (nt < 3 || !NUM(1, c, 0) || !parse_kind(tk[2], m ? "TR" : "AL", &K, &kt, &vt) || !free_name(c)) return 0;
    int na = nt - 3; if (m && na % 2) return 0;
    ArgTok* as = malloc((na + 1) * sizeof(ArgTok));
    int ngood = -1;                                    /* arguments before the first wrong-typed one (maps: whole pairs) */
    int nref = 0;
    for (int j = 0; j < na; j++) {
      if (!parse_arg(tk[3 + j], &as[j])) { free(as); return 0; }
      if (as[j].isref) nref++;
      if (as[j].wrong && ngood < 0) ngood = m ? (j / 2) * 2 : j;
    }
    /* operands that are stored objects of OTHER containers (the receiver does not exist yet): new(List, Probe, get(l, 0), get(t, k)).
       They do not mix with wrong-typed operands; every reference must designate an element. */
    if (nref && ngood >= 0) { free(as); return 0; }
    for (int j = 0; j < na; j++) if (as[j].isref && !bind_ref(H, &as[j])) { free(as); return 0; }
    ArgBuf* abs = malloc((na + 1) * sizeof(ArgBuf));
    var* items = malloc((na + 4) * sizeof(var));
    int q = 0; items[q++] = ty(kt); if (m) items[q++] = ty(vt);
    for (int j = 0; j < na; j++) items[q++] = as[j].wrong ? wrong_obj(as[j].wrong) : arg_obj(&as[j], &abs[j], m ? ((j % 2) ? vt : kt) : kt, m);
    items[q] = Terminal;
    var args = $(Tuple, items);
    var ctype = K == 'A' ? Array : K == 'L' ? List : K == 'T' ? Table : Tree;
    if (ngood < 0) {
      V_TRY(exc, H[c] = new_with(ctype, args));
      sh[c].kind = K; sh[c].kt = kt; sh[c].vt = vt;
      if (m) for (int j = 0; j + 1 < na; j += 2) mset_ref(&sh[c], as[j].pay, as[j+1].pay);
      else for (int j = 0; j < na; j++) vpush(&sh[c].a, as[j].pay);
    } else {
      /* a wrong-typed initial element / key / value: new_with = construct_with(alloc(T), args), done in two steps so that the
         half-built object is in hand when the constructor raises (the caller of new_with never gets it; it is registered
         with the collector, which finalises it at its next sweep: the harness does that at once) */
      var obj = alloc(ctype);
      V_TRY(exc, construct_with(obj, args));
      must_refuse(exc, "constructor");
      if (exc) {
        if (K == 'A') {
          /* Array_New set nitems = len(args) - 1 and malloc'ed before the loop: the record of the wrong element is zero-filled,
             the ones after it are uninitialised memory that Array_Del (run by the collector) will destruct */
          struct Array* a = obj;
          if (a->nitems == (size_t)na && a->data) {
            for (size_t r = (size_t)ngood + 1; r < a->nitems; r++) Array_Alloc(a, r);   /* make them destructible: zero-filled, as the model has them */
            kf("own-array-new-partial", "Array_New set nitems = number of initial elements and malloc'ed the records before any element exists; a wrong-typed element raised: the half-built array (finalised by the collector) counts records that were never constructed (one zero-filled, the rest uninitialised memory that Array_Del destructs)");
          }
        }
        var exc2; V_TRY(exc2, del(obj));
        if (exc2 && oracle_on) X("sig=own-corrupt line=%zu what=deleting the half-built container raised %s", cur_line, RN(exc2));
      } else {
        H[c] = obj; sh[c].kind = K; sh[c].kt = kt; sh[c].vt = vt;     /* accepted (already reported): keep it so that it is deleted at the end */
        if (m) for (int j = 0; j + 1 < ngood; j += 2) mset_ref(&sh[c], as[j].pay, as[j+1].pay);
        else for (int j = 0; j < ngood; j++) vpush(&sh[c].a, as[j].pay);
      }
    }
    free(as); free(abs); free(items);
    check_and_print(H, RN(exc), (int)c, -1); return 1;
  }
  if (!strcmp(op, "concatv")) {
    /* concat(c, tuple(args...)): Array_Concat reserves len(obj) records first, List_Concat pushes item by item */
    if (nt < 2 || !NUM(1, c, 0) || !used_name(c) || (sh[c].kind != K_ARR && sh[c].kind != K_LST)) return 0;
    int na = nt - 2;
    ArgTok* as = malloc((na + 1) * sizeof(ArgTok));
    int ngood = -1;
    int nref = 0, nown = 0;
    for (int j = 0; j < na; j++) {
      if (!parse_arg(tk[2 + j], &as[j])) { free(as); return 0; }
      if (as[j].isref) { nref++; if (as[j].rc == (int)c) nown++; }
      if (as[j].wrong && ngood < 0) ngood = j;
    }
    /* operands that are stored objects: concat(l, tuple(get(l, 0), get(t, k), ...)).  List_Concat pushes item by item — an operand
       that is a node of the receiving list is read when ITS push runs.  An Array is not concatenated records of itself
       (Array_Concat reads them after the realloc: KF-C04-push-own-element, bad-op here and in the model). */
    if (nref && (ngood >= 0 || (nown && sh[c].kind == K_ARR))) { free(as); return 0; }
    for (int j = 0; j < na; j++) if (as[j].isref && !bind_ref(H, &as[j])) { free(as); return 0; }
    /* the operands travel in a Tuple: one stored object twice and foreach over the Tuple never ends (Tuple_Iter_Next searches by
       pointer identity: KF-C04-tuple-dup-iter / KF-C11-tuple-dup) — bad-op here and in the model (`dupOperands`) */
    for (int j = 0; j < na; j++) for (int q = j + 1; q < na; q++)
      if (as[j].isref && as[q].isref && as[j].ptr == as[q].ptr) { free(as); return 0; }
    ArgBuf* abs = malloc((na + 1) * sizeof(ArgBuf));
    var* items = malloc((na + 2) * sizeof(var));
    for (int j = 0; j < na; j++) items[j] = as[j].wrong ? wrong_obj(as[j].wrong) : arg_obj(&as[j], &abs[j], sh[c].kt, 0);
    items[na] = Terminal;
    var src = $(Tuple, items);
    size_t oldn = sh[c].a.n;
    V_TRY(exc, concat(H[c], src));
    int g = ngood < 0 ? na : ngood;
    for (int j = 0; j < g; j++) vpush(&sh[c].a, as[j].pay);        /* the items before a wrong-typed one are constructed and stay */
    if (ngood >= 0) {
      must_refuse(exc, "concat");
      if (sh[c].kind == K_ARR && exc) {
        struct Array* a = H[c];
        if (a->nitems == oldn + (size_t)na) {
          for (size_t r = oldn + (size_t)g + 1; r < a->nitems; r++) Array_Alloc(a, r);   /* uninitialised after the realloc: zero-filled, as the model has them */
          for (int j = g; j < na; j++) vpush(&sh[c].a, -1);
          kf("kf-c12-array-push-type", KF_ARRAY_GROWS);
        }
      }
    } else if (exc && oracle_on) X("sig=own-contents line=%zu what=concat from a Tuple of well-typed elements raised %s", cur_line, RN(exc));
    free(as); free(abs); free(items);
    check_and_print(H, RN(exc), (int)c, -1); return 1;
  }
  if (!strcmp(op, "box")) {
    if (nt != 3 || !NUM(1, c, 0) || !NUM(2, p, 0) || !free_name(c)) return 0;
    var pt = mk_pointee(p);
    H[c] = new(Box, pt);
    sh[c].kind = K_CELL; vpush(&sh[c].a, p);
    check_and_print(H, "ok", (int)c, -1); return 1;
  }
  if (!strcmp(op, "push") || !strcmp(op, "append")) {
    ArgTok a1;
    if (nt != 3 || !NUM(1, c, 0) || !parse_arg(tk[2], &a1) || !used_name(c) || !is_seq(sh[c].kind)) return 0;
    int app = op[0] == 'a';
    if (a1.isref && (is_boxseq(sh[c].kind) || own_array_push(&a1, c) || !bind_ref(H, &a1))) return 0;
    p = a1.pay;
    if (a1.wrong) {
      /* List_Push: List_Alloc, then the element's assign raises: nothing linked.  Array_Push: the array has grown (F15) */
      if (is_boxseq(sh[c].kind)) return 0;
      var wo = wrong_obj(a1.wrong);
      if (app) V_TRY(exc, append(H[c], wo)); else V_TRY(exc, push(H[c], wo));
      must_refuse(exc, "push");
      if (sh[c].kind == K_ARR && exc && ((struct Array*)H[c])->nitems == sh[c].a.n + 1) { vpush(&sh[c].a, -1); kf("kf-c12-array-push-type", KF_ARRAY_GROWS); }
      check_and_print(H, RN(exc), (int)c, -1); return 1;
    }
    if (is_boxseq(sh[c].kind)) {
      var pt = mk_pointee(p);
      if (app) V_TRY(exc, append(H[c], $(Box, pt))); else V_TRY(exc, push(H[c], $(Box, pt)));
      if (exc) del(pt);
    } else {
      var ao = arg_obj(&a1, &ab, sh[c].kt, 0);
      if (app) V_TRY(exc, append(H[c], ao)); else V_TRY(exc, push(H[c], ao));
    }
    if (!exc) vpush(&sh[c].a, p);
    check_and_print(H, RN(exc), (int)c, -1); return 1;
  }
  if (!strcmp(op, "pushat")) {
    ArgTok a1;
    if (nt != 4 || !NUM(1, c, 0) || !NUM(2, i, 1) || !parse_arg(tk[3], &a1) || !used_name(c) || !is_seq(sh[c].kind)) return 0;
    if (a1.isref && (is_boxseq(sh[c].kind) || own_array_push(&a1, c) || !bind_ref(H, &a1))) return 0;
    p = a1.pay;
    size_t ln = sh[c].a.n; ctx_op = OP_PUSHAT; ctx_kind = sh[c].kind;
    if (a1.wrong) {
      /* the index check comes first in both; past it List_Push_At allocates a node and the element's assign raises (nothing
         linked), Array_Push_At has already moved the tail and zero-filled the record (F15) */
      if (is_boxseq(sh[c].kind)) return 0;
      ctx_op = OP_OTHER;
      V_TRY(exc, push_at(H[c], wrong_obj(a1.wrong), $I(i)));
      must_refuse(exc, "push_at");
      if (sh[c].kind == K_ARR && exc && ((struct Array*)H[c])->nitems == ln + 1) {
        int64_t j = i < 0 ? (int64_t)ln + 1 + i : i;
        if (j >= 0 && j <= (int64_t)ln) vins(&sh[c].a, (size_t)j, -1);
        kf("kf-c12-array-push-type", KF_ARRAY_GROWS);
      }
      check_and_print(H, RN(exc), (int)c, -1); return 1;
    }
    if (is_boxseq(sh[c].kind)) { var pt = mk_pointee(p); V_TRY(exc, push_at(H[c], $(Box, pt), $I(i))); if (exc) del(pt); }
    else V_TRY(exc, push_at(H[c], arg_obj(&a1, &ab, sh[c].kt, 0), $I(i)));
    /* reference: Array normalises against len+1 (the end is a valid position); List: 0 = head, otherwise the
       position of an existing element (normalised against len) */
    int64_t j; int okpos;
    if (!is_listlike(sh[c].kind)) { j = i < 0 ? (int64_t)ln + 1 + i : i; okpos = j >= 0 && j <= (int64_t)ln; }
    else if (i == 0) { j = 0; okpos = 1; }
    else { j = i < 0 ? (int64_t)ln + i : i; okpos = j >= 0 && j < (int64_t)ln; }
    if (okpos) vins(&sh[c].a, (size_t)j, p);
    ctx_raised = exc != NULL;
    if ((exc != NULL) == okpos && oracle_on) X("sig=own-contents line=%zu what=push_at outcome %s disagrees with the reference", cur_line, RN(exc));
    check_and_print(H, RN(exc), (int)c, -1); return 1;
  }
  if (!strcmp(op, "pop")) {
    if (nt != 2 || !NUM(1, c, 0) || !used_name(c) || !is_seq(sh[c].kind)) return 0;
    V_TRY(exc, pop(H[c]));
    if (sh[c].a.n) sh[c].a.n--;
    check_and_print(H, RN(exc), (int)c, -1); return 1;
  }
  if (!strcmp(op, "popat")) {
    if (nt != 3 || !NUM(1, c, 0) || !NUM(2, i, 1) || !used_name(c) || !is_seq(sh[c].kind)) return 0;
    V_TRY(exc, pop_at(H[c], $I(i)));
    int64_t ln = (int64_t)sh[c].a.n, j = i < 0 ? ln + i : i;
    if (j >= 0 && j < ln) verase(&sh[c].a, (size_t)j);
    check_and_print(H, RN(exc), (int)c, -1); return 1;
  }
  if (!strcmp(op, "set")) {
    ArgTok a1;
    if (nt != 4 || !NUM(1, c, 0) || !NUM(2, i, 1) || !parse_arg(tk[3], &a1) || !used_name(c) || !is_seq(sh[c].kind)) return 0;
    if (a1.isref && (is_boxseq(sh[c].kind) || !bind_ref(H, &a1))) return 0;
    p = a1.pay;
    if (a1.wrong) {
      /* bounds check, then assign onto the stored element: its Assign validates the argument before it touches itself */
      if (is_boxseq(sh[c].kind)) return 0;
      V_TRY(exc, set(H[c], $I(i), wrong_obj(a1.wrong)));
      must_refuse(exc, "set");
      check_and_print(H, RN(exc), (int)c, -1); return 1;
    }
    ctx_op = OP_SET; ctx_kind = sh[c].kind;
    if (is_boxseq(sh[c].kind)) { var pt = mk_pointee(p); V_TRY(exc, set(H[c], $I(i), $(Box, pt))); if (exc) del(pt); }
    else V_TRY(exc, set(H[c], $I(i), arg_obj(&a1, &ab, !sh[c].kt, 0)));   /* a fresh argument has the other element type: the elements are convertible */
    ctx_raised = exc != NULL;
    int64_t ln = (int64_t)sh[c].a.n, j = i < 0 ? ln + i : i;
    if (j >= 0 && j < ln) sh[c].a.v[j] = p;
    check_and_print(H, RN(exc), (int)c, -1); return 1;
  }
  if (!strcmp(op, "rem")) {
    ArgTok a1;
    if (nt != 3 || !NUM(1, c, 0) || !parse_arg(tk[2], &a1) || !used_name(c) || (sh[c].kind != K_ARR && sh[c].kind != K_LST)) return 0;
    if (a1.isref && !bind_ref(H, &a1)) return 0;
    p = a1.pay;
    if (a1.wrong) {
      /* eq(item, obj) on the first element raises (the element's Cmp casts its argument); an empty sequence has no such object */
      V_TRY(exc, rem(H[c], wrong_obj(a1.wrong)));
      must_refuse(exc, "rem");
      check_and_print(H, RN(exc), (int)c, -1); return 1;
    }
    V_TRY(exc, rem(H[c], arg_obj(&a1, &ab, sh[c].kt, 0)));
    for (size_t j = 0; j < sh[c].a.n; j++) if (sh[c].a.v[j] == p || (p == 0 && sh[c].a.v[j] < 0)) { verase(&sh[c].a, j); break; }
    check_and_print(H, RN(exc), (int)c, -1); return 1;
  }
  if (!strcmp(op, "resize")) {
    if (nt != 3 || !NUM(1, c, 0) || !NUM(2, n, 0) || !used_name(c) || !(is_seq(sh[c].kind) || is_map(sh[c].kind))) return 0;
    ctx_op = OP_RESIZE; ctx_kind = sh[c].kind; ctx_oldlen = sh[c].a.n; ctx_n = (size_t)n;
    V_TRY(exc, resize(H[c], (size_t)n));
    ctx_raised = exc != NULL;
    if (n == 0) { sh[c].a.n = sh[c].b.n = 0; }
    else if (is_seq(sh[c].kind)) {
      if ((size_t)n < sh[c].a.n) sh[c].a.n = (size_t)n;
      else if (is_listlike(sh[c].kind)) while (sh[c].a.n < (size_t)n) vpush(&sh[c].a, -1);
    }
    check_and_print(H, RN(exc), (int)c, -1); return 1;
  }
  if (!strcmp(op, "sort")) {
    if (nt != 2 || !NUM(1, c, 0) || !used_name(c) || sh[c].kind != K_ARR) return 0;
    V_TRY(exc, sort(H[c]));
    if (sh[c].a.n) qsort(sh[c].a.v, sh[c].a.n, sizeof(int64_t), cmp_i64);
    check_and_print(H, RN(exc), (int)c, -1); return 1;
  }
  if (!strcmp(op, "concat")) {
    if (nt != 3 || !NUM(1, c, 0) || !NUM(2, d, 0) || !used_name(c) || !used_name(d) || c == d) return 0;
    int kc = sh[c].kind, kd = sh[d].kind;
    int probe2 = (kc == K_ARR || kc == K_LST) && (kd == K_ARR || kd == K_LST);
    if (!probe2 && !(is_boxseq(kc) && is_boxseq(kd))) return 0;
    ctx_op = OP_COPYLIKE;
    V_TRY(exc, concat(H[c], H[d]));
    for (size_t j = 0; j < sh[d].a.n; j++) vpush(&sh[c].a, sh[d].a.v[j] < 0 ? 0 : sh[d].a.v[j]);
    check_and_print(H, RN(exc), (int)c, (int)d); return 1;
  }
  if (!strcmp(op, "assign")) {
    if (nt != 3 || !NUM(1, c, 0) || !NUM(2, d, 0) || !used_name(c) || !used_name(d)) return 0;
    int kc = sh[c].kind, kd = sh[d].kind, nk, cross = 0;
    if (c == d) { if (kc == K_CELL) return 0; nk = kc; }
    else if (is_seq(kc) && (kd == K_ARR || kd == K_LST)) nk = is_listlike(kc) ? K_LST : K_ARR;
    else if (is_seq(kc) && is_boxseq(kd)) nk = is_listlike(kc) ? K_BLST : K_BARR;
    else if (is_map(kc) && is_map(kd)) nk = kc;
    else if (is_seq(kc) && is_map(kd)) { nk = is_listlike(kc) ? K_LST : K_ARR; cross = 1; }   /* sequence <- map */
    else return 0;
    ctx_op = OP_COPYLIKE;
    V_TRY(exc, assign(H[c], H[d]));
    if (c == d) { }                                  /* `if (self is obj) return;` (fix a3140e4): nothing happens */
    else if (cross) {
      /* Array_Assign / List_Assign cleared the destination; `get(obj, $I(0))` raises when the map is not empty */
      size_t n = sh[d].a.n;
      sh[c].a.n = sh[c].b.n = 0;
      if (n > 0 && nk == K_ARR) {
        struct Array* a = H[c];
        if (exc != NULL && a->nitems == n) {
          kf("own-array-assign-partial", "Array_Assign set nitems = len(obj) and allocated the records before any element exists; get(obj, $I(0)) raised: len counts records that were never constructed (record 0 zero-filled, the others uninitialised memory)");
          for (size_t q = 0; q < n; q++) { Array_Alloc(a, q); vpush(&sh[c].a, -1); }   /* make the records walkable: zero-filled, as the model has them */
        } else if (oracle_on) X("sig=own-contents line=%zu what=assign of a non-empty map to an Array: outcome %s, %zu records", cur_line, RN(exc), a->nitems);
      } else if ((n > 0) != (exc != NULL) && oracle_on) X("sig=own-contents line=%zu what=assign of a map to a sequence: outcome %s disagrees with the reference", cur_line, RN(exc));
    }
    else { vcopy(&sh[c].a, &sh[d].a); vcopy(&sh[c].b, &sh[d].b); for (size_t j = 0; j < sh[c].a.n; j++) if (sh[c].a.v[j] < 0) sh[c].a.v[j] = 0; }
    sh[c].kind = nk; sh[c].kt = sh[d].kt; sh[c].vt = sh[d].vt;   /* *_Assign takes the element types of the source */
    check_and_print(H, RN(exc), (int)c, (int)d); return 1;
  }
  if (!strcmp(op, "copy")) {
    if (nt != 3 || !NUM(1, c, 0) || !NUM(2, d, 0) || !free_name(c) || !used_name(d)) return 0;
    ctx_op = OP_COPYLIKE;
    V_TRY(exc, H[c] = copy(H[d]));
    sh[c].kind = sh[d].kind; sh[c].kt = sh[d].kt; sh[c].vt = sh[d].vt; vcopy(&sh[c].a, &sh[d].a); vcopy(&sh[c].b, &sh[d].b);
    for (size_t j = 0; j < sh[c].a.n; j++) if (sh[c].a.v[j] < 0) sh[c].a.v[j] = 0;
    check_and_print(H, RN(exc), (int)c, (int)d); return 1;
  }
  if (!strcmp(op, "mset")) {
    ArgTok ka, va;
    if (nt != 4 || !NUM(1, c, 0) || !parse_arg(tk[2], &ka) || !parse_arg(tk[3], &va) || !used_name(c) || !is_map(sh[c].kind)) return 0;
    if ((ka.isref || va.isref) && (ka.wrong || va.wrong || !bind_ref(H, &ka) || !bind_ref(H, &va))) return 0;
    k = ka.pay; v = va.pay;
    if (ka.wrong || va.wrong) {
      /* Table_Set_Move / Tree_Set cast key and value before anything else: ValueError, nothing allocated, nothing assigned */
      var ko = ka.wrong ? wrong_obj(ka.wrong) : mk_arg_t(&ab, k, sh[c].kt);
      var vo = va.wrong ? wrong_obj(va.wrong) : mk_arg_t(&ab2, v, sh[c].vt);
      V_TRY(exc, set(H[c], ko, vo));
      must_refuse(exc, "set");
      check_and_print(H, RN(exc), (int)c, -1); return 1;
    }
    {
      /* with stored objects as arguments: the key / value object itself (set(t, k, get(t, k)), set(t, key_from_iteration, ...)) */
      var ko = arg_obj(&ka, &ab, sh[c].kt, 1); var vo = arg_obj(&va, &ab2, sh[c].vt, 1);
      V_TRY(exc, set(H[c], ko, vo));
    }
    mset_ref(&sh[c], k, v);
    check_and_print(H, RN(exc), (int)c, -1); return 1;
  }
  if (!strcmp(op, "mrem")) {
    ArgTok ka;
    if (nt != 3 || !NUM(1, c, 0) || !parse_arg(tk[2], &ka) || !used_name(c) || !is_map(sh[c].kind)) return 0;
    if (ka.isref && !bind_ref(H, &ka)) return 0;
    k = ka.pay;
    if (ka.wrong) {
      V_TRY(exc, rem(H[c], wrong_obj(ka.wrong)));                /* the key is cast before the lookup */
      must_refuse(exc, "rem");
      check_and_print(H, RN(exc), (int)c, -1); return 1;
    }
    V_TRY(exc, rem(H[c], arg_obj(&ka, &ab, sh[c].kt, 1)));
    long j = mfind(&sh[c], k);
    if (j >= 0) { verase(&sh[c].a, (size_t)j); verase(&sh[c].b, (size_t)j); }
    if ((exc != NULL) == (j >= 0) && oracle_on) X("sig=own-contents line=%zu what=rem outcome %s disagrees with the reference", cur_line, RN(exc));
    check_and_print(H, RN(exc), (int)c, -1); return 1;
  }
  if (!strcmp(op, "del")) {
    if (nt != 2 || !NUM(1, c, 0) || !used_name(c)) return 0;
    V_TRY(exc, del(H[c]));
    H[c] = NULL; drop_shadow((int)c);
    check_and_print(H, RN(exc), (int)c, -1); return 1;
  }
  if (!strcmp(op, "read")) {
    /* read-only entry points: no element may be constructed, assigned or finalised, nothing may change */
    if (nt != 2 || !NUM(1, c, 0) || !used_name(c)) return 0;
    int K = sh[c].kind; var h = H[c]; volatile int64_t sum = 0; size_t cnt = 0;
    if (K == K_ARR || K == K_LST) {
      V_TRY(exc, {
        size_t ln = len(h);
        foreach (it in h) { sum += core_of(it)->pay; cnt++; }
        if (ln) { sum += core_of(get(h, $I(0)))->pay; sum += core_of(get(h, $I(-1)))->pay; }
        sum += mem(h, mk_arg_t(&ab, 3, sh[c].kt)); sum += (int64_t)(hash(h) & 1); sum += eq(h, h);
        if (cnt != ln && oracle_on) X("sig=own-len line=%zu what=iteration yields %zu elements, len() is %zu", cur_line, cnt, ln);
      });
    } else if (is_boxseq(K)) {
      V_TRY(exc, {
        size_t ln = len(h);
        foreach (it in h) { var pt = deref(it); if (pt) cnt++; }
        if (ln) { (void)deref(get(h, $I(0))); }
        if (cnt != ln && oracle_on) X("sig=own-len line=%zu what=iteration yields %zu boxes, len() is %zu", cur_line, cnt, ln);
      });
    } else if (K == K_TBL || K == K_TRE) {
      V_TRY(exc, {
        size_t ln = len(h);
        foreach (key in h) { sum += core_of(key)->pay; sum += core_of(get(h, key))->pay; sum += mem(h, key); cnt++; }
        sum += mem(h, mk_arg_t(&ab, 17, sh[c].kt)); sum += (int64_t)(hash(h) & 1); sum += eq(h, h);
        if (sh[c].a.n) sum += core_of(get(h, mk_arg_t(&ab2, sh[c].a.v[0], sh[c].kt)))->pay;
        if (cnt != ln && oracle_on) X("sig=own-len line=%zu what=iteration yields %zu keys, len() is %zu", cur_line, cnt, ln);
      });
    } else {
      V_TRY(exc, (void)deref(h));
    }
    check_and_print(H, RN(exc), (int)c, -1); return 1;
  }
  if (!strcmp(op, "bref")) {
    if (nt != 3 || !NUM(1, c, 0) || !NUM(2, p, 0) || !used_name(c) || sh[c].kind != K_CELL) return 0;
    ctx_op = OP_BREF;
    var pt = mk_pointee(p);
    V_TRY(exc, ref(H[c], pt));
    sh[c].a.n = 0; vpush(&sh[c].a, p);
    check_and_print(H, RN(exc), (int)c, -1); return 1;
  }
  if (!strcmp(op, "bassign")) {
    if (nt != 3 || !NUM(1, c, 0) || !NUM(2, d, 0) || !used_name(c) || !used_name(d) || sh[c].kind != K_CELL || sh[d].kind != K_CELL) return 0;
    ctx_op = OP_BASSIGN;
    V_TRY(exc, assign(H[c], H[d]));
    vcopy(&sh[c].a, &sh[d].a);
    check_and_print(H, RN(exc), (int)c, (int)d); return 1;
  }
  return 0;
}

static int child_main(char** lines, size_t n) {
  var H[NC];                                           /* handles live on this stack frame: the collector scans it */
  memset(H, 0, sizeof H);
  W_INT = $I(41); W_STR = $S("wrong"); W_FLT = $F(1.5);
  size_t nops = 0, nbad = 0;
  for (size_t li = 0; li < n; li++) {
    char* l = lines[li];
    if (v_skippable(l)) continue;
    cur_line = li + 1;
    char* buf = strdup(l); char* tk[MAXTOK]; int nt = 0; int over = 0;
    for (char* t = strtok(buf, " "); t; t = strtok(NULL, " ")) { if (nt == MAXTOK) { over = 1; break; } tk[nt++] = t; }
    int ok = (!over && nt > 0) ? run_op(H, tk, nt) : 0;
    if (!ok) { O("bad-op"); nbad++; }
    nops++;
    free(buf);
  }
  /* delete what is left, lowest name first */
  cur_line = n + 1;
  for (int c = 0; c < NC; c++) {
    if (!sh[c].kind) continue;
    var exc; reset_events(); ctx_op = OP_OTHER;
    V_TRY(exc, del(H[c]));
    H[c] = NULL; drop_shadow(c);
    check_and_print(H, RN(exc), c, -1);
  }
  O("end live=%zu", n_live);
  if (oracle_on && n_live != 0) X("sig=own-leak-at-end line=%zu what=%zu element(s) still live after every container was deleted", cur_line, n_live);
  if (oracle_on && n_blocks != 0) X("sig=own-leak-at-end line=%zu what=%zu owned block(s) never freed", cur_line, n_blocks);
  I("ops=%zu bad=%zu tokens=%zu", nops, nbad, led_n);
  fflush(stdout);
  return 0;
}

int main(int argc, char** argv) {
  v_init();
  if (argc < 2) { fprintf(stderr, "usage: h_own <opfile>\n"); return 2; }
  size_t n; char** lines = v_read_lines(argv[1], &n);
  (void)len(current(Exception));
  fflush(stdout);
  pid_t pid = fork();
  if (pid < 0) { perror("fork"); return 2; }
  if (pid == 0) {
    alarm(100);
    int rc = child_main(lines, n);
    fflush(stdout);
    exit(rc);                                          /* runs Cello_Exit: the collector's teardown is part of the test */
  }
  int st = 0; waitpid(pid, &st, 0);
  if (WIFSIGNALED(st)) X("sig=own-crash line=0 what=child killed by signal %d%s", WTERMSIG(st), WTERMSIG(st) == SIGALRM ? " (timeout)" : "");
  else if (WEXITSTATUS(st) != 0) X("sig=own-crash line=0 what=child exited with status %d (97 = AddressSanitizer, 98 = UBSan)", WEXITSTATUS(st));
  return 0;
}
