/* harness/h_text.c — engine `text` (C15): show/look and print/scan round trips on the real library.
 *
 * op file (same grammar as lean/Driver/Text.lean):
 *   R <S|F> <start> <show|print> <item>...    write the items at position <start> of a String / of a File, read them back
 *       item ::= s=<hex>   String shown with show_to / "%$"       i=<dec>  Int with show_to / "%$"     f=<16 hex> Float (bits)
 *                I<mod><conv>=<dec>   Int under "%<mod><conv>", mod in {"",hh,h,l,ll,j,z,t,q}, conv in d i o u x X          (print mode only)
 *                F[l]<conv>=<16 hex>  Float under "%[l]<conv>", conv in f F e E g G                                         (print mode only)
 *                li=<dec> | ld=<dec> | lf=<16 hex>                 short for Ili= Ild= Flf=
 *                t=<hex>   literal separator (no NUL, no '%')      pc       a literal percent, "%%"     (print mode only)
 *                z=<hex>   text appended after the written items that is not read (last item only)
 *       mode show : every value by show_to / look_from, every separator by its own print_to_with / scan_from_with call
 *       mode print: ONE print_to_with and ONE scan_from_with call with the format string built from the items
 *       mode split: one print_to_with call PER ITEM (each continues at the position the previous one returned), ONE scan_from_with
 *       mode join : ONE print_to_with, one scan_from_with call PER ITEM                     (items as in print mode)
 *   K <S|F> <start> <s|i|f|ld|I<mod><conv>|F[l]<conv>> x=<hex>   read one value from the given text at <start> (look_from; scan_from with the specification)
 *
 *   W <S|F> <start> <0|1> <width> <mod><conv> <dec> [z=<hex>]   an Int written and read back with "%[0]<width><mod><conv>": a field width
 *                                          (and the 0 flag) inside the specification — OUTSIDE the property; correspondence, and the
 *                                          oracle only where the width is harmless (>= the text written, no zero padding under %i)
 *   L <S|F> <start> <kind> x=<hex>         as K, and measures the bytes still allocated by the scan_from_with calls afterwards (ASan
 *                                          malloc/free hooks): witness of the proposed finding KF-C15-scan-fmtbuf-leak
 *   T <S|F> <start> <kind> x=<hex>         as K, and the oracle looks at the target of a read that raised: witness of the proposed
 *                                          finding KF-C15-look-clobbers-target
 *
 * prints   O R w=<pos after writing> text=<written bytes> r=<pos after reading | exception> vals=<values read> tell=<ftell | ->
 *          O K r=<pos | exception> val=<value> tell=<ftell | ->
 *          O W w=<pos> text=<written bytes> r=<pos | exception> val=<value> tell=<ftell | ->
 *          O L r=<pos | exception> val=<value> tell=<ftell | -> leaked=<bytes>
 *          O T r=<pos | exception> val=<value> tell=<ftell | ->
 *          C contract=<0|1|2> (after every R observation) is the op inside the property's quantifier, as judged here: 1 yes; 2 yes except
 *                             that a Float which is not a float value goes through a floating specification without `l` (the territory
 *                             of known finding KF-C15-float-spec-narrow); 0 no
 * and X lines when the direct oracle (plain C comparison of what was written with what was read) sees the property violated
 * on an input inside the property's quantifier.  For an Int under a specification narrower than its value the oracle expects C's
 * conversion to the type the specification names. */
#include "common.h"
#include <math.h>
#include <inttypes.h>

#define MAXB 70000
#define MAXI 64

enum { I_STR, I_INT, I_FLT, I_ISPEC, I_FSPEC, I_LIT, I_PCT };
/* spec: the specification text ("%hhd", "%le"); conv: its conversion character; width: bits of the integer type the modifier names;
 * wide: the floating specification has the l modifier */
typedef struct { int kind; unsigned char* b; size_t n; int64_t iv; uint64_t bits; char spec[8]; char conv; int width; int wide; } Item;

static const char* IMODS[] = { "", "hh", "h", "l", "ll", "j", "z", "t", "q" };
static const int IWIDTH[] = { 32, 8, 16, 64, 64, 64, 64, 64, 64 };
/* "I<mod><conv>" / "F[l]<conv>" -> fills spec, conv, width / wide; returns the item kind or -1 */
static int parse_spec(const char* k, Item* it) {
  size_t n = strlen(k);
  if (k[0] == 'I' && n >= 2 && n <= 4 && strchr("diouxX", k[n-1])) {
    for (int m = 0; m < 9; m++) if (strlen(IMODS[m]) == n - 2 && strncmp(IMODS[m], k + 1, n - 2) == 0) {
      snprintf(it->spec, sizeof it->spec, "%%%s%c", IMODS[m], k[n-1]); it->conv = k[n-1]; it->width = IWIDTH[m]; return I_ISPEC; }
    return -1;
  }
  if (k[0] == 'F' && (n == 2 || (n == 3 && k[1] == 'l')) && strchr("fFeEgG", k[n-1])) {
    snprintf(it->spec, sizeof it->spec, "%%%s%c", n == 3 ? "l" : "", k[n-1]); it->conv = k[n-1]; it->wide = n == 3; return I_FSPEC; }
  return -1;
}
static int is_signed_conv(char c) { return c == 'd' || c == 'i'; }
/* C's conversion of n to the integer type of `width` bits, signed or unsigned, and back to int64_t */
static int64_t conv_int(int width, int sgn, int64_t n) {
  if (width == 64) return n;
  uint64_t mask = ((uint64_t)1 << width) - 1, low = (uint64_t)n & mask;
  if (sgn && (low >> (width - 1))) return (int64_t)(low | ~mask);
  return (int64_t)low;
}
static int is_float_value(double x) { volatile float f = (float)x; return isfinite(f) && (double)f == x; }

static int hexv(int c) { if (c >= '0' && c <= '9') return c - '0'; if (c >= 'a' && c <= 'f') return c - 'a' + 10; return -1; }
/* returns length or -1 */
static long unhex(const char* h, unsigned char* out, size_t cap) {
  size_t n = strlen(h); if (n % 2) return -1; if (n / 2 > cap) return -1;
  for (size_t i = 0; i < n; i += 2) { int a = hexv(h[i]), b = hexv(h[i+1]); if (a < 0 || b < 0) return -1; out[i/2] = (unsigned char)(a * 16 + b); }
  return (long)(n / 2);
}
static int has_byte(const unsigned char* b, size_t n, int c) { for (size_t i = 0; i < n; i++) if (b[i] == c) return 1; return 0; }

static int parse_i64(const char* s, int64_t* out) {
  int neg = 0; if (*s == '-') { neg = 1; s++; }
  size_t n = strlen(s); if (n == 0 || n > 19) return 0;
  uint64_t v = 0; for (size_t i = 0; i < n; i++) { if (s[i] < '0' || s[i] > '9') return 0; v = v * 10 + (uint64_t)(s[i] - '0'); }
  if (neg) { if (v > (uint64_t)1 << 63) return 0; *out = (int64_t)(0 - v); }
  else { if (v > (uint64_t)INT64_MAX) return 0; *out = (int64_t)v; }
  return 1;
}
static int parse_nat(const char* s, long* out) {
  size_t n = strlen(s); if (n == 0 || n > 6) return 0; long v = 0;
  for (size_t i = 0; i < n; i++) { if (s[i] < '0' || s[i] > '9') return 0; v = v * 10 + (s[i] - '0'); } *out = v; return 1;
}
static int parse_bits(const char* s, uint64_t* out) {
  if (strlen(s) != 16) return 0; uint64_t v = 0;
  for (int i = 0; i < 16; i++) { int a = hexv(s[i]); if (a < 0) return 0; v = v * 16 + (uint64_t)a; }
  if (((v >> 52) & 2047) == 2047) return 0;
  *out = v; return 1;
}
static double bits2d(uint64_t b) { double d; memcpy(&d, &b, 8); return d; }
static uint64_t d2bits(double d) { uint64_t b; memcpy(&b, &d, 8); return b; }

static void dump(char* out, const unsigned char* b, size_t n) {
  if (n <= 300) { for (size_t i = 0; i < n; i++) sprintf(out + 2*i, "%02x", b[i]); out[2*n] = 0; return; }
  uint64_t h = 14695981039346656037ULL; for (size_t i = 0; i < n; i++) { h ^= b[i]; h *= 1099511628211ULL; }
  sprintf(out, "#%zu:%016" PRIx64, n, h);
}

static char* toks[MAXI + 8]; static int ntok;
static void split(char* l) { ntok = 0; char* p = l; while (ntok < MAXI + 8) { toks[ntok++] = p; char* q = strchr(p, ' '); if (!q) break; *q = 0; p = q + 1; } }

static const char FILL[5] = { '"', '7', '\\', ' ', 'x' };
static char tmp_path[256];

/* ---- the objects under test -------------------------------------------------------------------------------------------- */
static var mk_val(Item* it) {
  switch (it->kind) {
    case I_STR: return new_raw(String, $S((char*)it->b));
    case I_INT: case I_ISPEC: return new_raw(Int, $I(it->iv));
    case I_FLT: case I_FSPEC: return new_raw(Float, $F(bits2d(it->bits)));
  }
  return NULL;
}
static var mk_target(int kind) {
  switch (kind) {
    case I_STR: return new_raw(String, $S("?"));
    case I_INT: case I_ISPEC: return new_raw(Int, $I(77));
    case I_FLT: case I_FSPEC: return new_raw(Float, $F(7.5));
  }
  return NULL;
}
static size_t fmt_of(Item* it, char* out) {   /* format text of one item; returns length */
  switch (it->kind) {
    case I_STR: case I_INT: case I_FLT: strcpy(out, "%$"); return 2;
    case I_ISPEC: case I_FSPEC: strcpy(out, it->spec); return strlen(it->spec);
    case I_PCT: strcpy(out, "%%"); return 2;
    default: memcpy(out, it->b, it->n); out[it->n] = 0; return it->n;
  }
}
static size_t val_dump(char* out, int kind, var v) {
  switch (kind) {
    case I_STR: { char* s = c_str(v); out[0] = 's'; out[1] = ':'; dump(out + 2, (unsigned char*)s, strlen(s)); break; }
    case I_INT: case I_ISPEC: sprintf(out, "i:%" PRId64, (int64_t)c_int(v)); break;
    default: sprintf(out, "f:%016" PRIx64, d2bits(c_float(v))); break;
  }
  return strlen(out);
}

static Item items[MAXI]; static int nitems;
static unsigned char zbuf[MAXB]; static long zlen;
static unsigned char pool[4 * MAXB]; static size_t pool_used;
static unsigned char textbuf[4 * MAXB];
static char outbuf[16 * MAXB];

/* the text libc itself writes for a numeric item (independent of the library under test); for a String only its first byte matters */
static void item_text(Item* n, char* out, size_t cap) {
  switch (n->kind) {
    case I_STR: snprintf(out, cap, "\""); break;
    case I_INT: snprintf(out, cap, "%li", (long)n->iv); break;
    case I_FLT: snprintf(out, cap, "%f", bits2d(n->bits)); break;
    case I_ISPEC: snprintf(out, cap, n->spec, n->iv); break;
    case I_FSPEC: snprintf(out, cap, n->spec, bits2d(n->bits)); break;
    case I_PCT: snprintf(out, cap, "%%"); break;
    default: out[0] = (char)n->b[0]; out[1] = 0;
  }
}
/* first byte of what follows item idx (for the contract check), -1 if nothing follows */
static int first_byte_after(int idx) {
  if (idx + 1 < nitems) { static char t[512]; item_text(&items[idx + 1], t, sizeof t); return (unsigned char)t[0]; }
  return zlen > 0 ? zbuf[0] : -1;
}
static int is_space(int c) { return c == ' ' || (c >= 9 && c <= 13); }
static int is_xdig(int c) { return (c >= '0' && c <= '9') || (c >= 'a' && c <= 'f') || (c >= 'A' && c <= 'F'); }
/* is the op inside the property's quantifier?  (independent restatement of the conditions on separators and on value ranges)
 * 1: yes; 2: yes but for Floats that are not float values under an l-less floating specification; 0: no.
 * *base: the separator conditions alone (the oracle then still knows what C's conversions must give) */
static int in_contract(int is_file, int* base) {
  int ok = 1, fits = 1, narrow_only = 1;
  for (int i = 0; i < nitems; i++) {
    int nb = first_byte_after(i); int digit = nb >= '0' && nb <= '9'; int xx = nb == 'x' || nb == 'X';
    Item* it = &items[i];
    switch (it->kind) {
      case I_INT: if (digit || (it->iv == 0 && xx)) ok = 0; break;
      case I_ISPEC: {
        int zero = conv_int(it->width, 0, it->iv) == 0;      /* the text written is "0" */
        if (it->conv == 'x' || it->conv == 'X') { if ((nb >= 0 && is_xdig(nb)) || (zero && xx)) ok = 0; }
        else if (it->conv == 'i') { if (digit || (zero && xx)) ok = 0; }
        else if (digit) ok = 0;
        if (conv_int(it->width, is_signed_conv(it->conv), it->iv) != it->iv) { fits = 0; narrow_only = 0; }
        break; }
      case I_FLT: if (digit || nb == 'e' || nb == 'E') ok = 0; break;
      case I_FSPEC:
        if (digit || nb == 'e' || nb == 'E') ok = 0;
        if ((it->conv == 'g' || it->conv == 'G') && (nb == '.' || xx)) ok = 0;
        if (!it->wide && !is_float_value(bits2d(it->bits))) fits = 0;
        break;
      case I_LIT: if (is_file && is_space(it->b[it->n - 1]) && nb >= 0 && is_space(nb)) ok = 0; break;
    }
  }
  *base = ok;
  return !ok ? 0 : fits ? 1 : narrow_only ? 2 : 0;
}

static FILE* raw_file(var f) { return ((struct File*)f)->file; }

/* format text of one item for a call of its own (modes split / join) */
static const char* item_fmt(Item* it) {
  switch (it->kind) {
    case I_STR: case I_INT: case I_FLT: return "%$";
    case I_ISPEC: case I_FSPEC: return it->spec;
    case I_PCT: return "%%";
    default: return (const char*)it->b;
  }
}

/* one print_to_with / scan_from_with call with at most one argument */
static int print_one(var out, int pos, const char* f, var v) {
  var one[2]; one[0] = v ? v : Terminal; one[1] = Terminal;
  return print_to_with(out, pos, f, $(Tuple, one));
}
static int scan_one(var inp, int pos, const char* f, var v) {
  var one[2]; one[0] = v ? v : Terminal; one[1] = Terminal;
  return scan_from_with(inp, pos, f, $(Tuple, one));
}

/* ---- allocations made and not released inside a window (op L): ASan's allocator hooks ------------------------------------- */
extern int __sanitizer_install_malloc_and_free_hooks(void (*malloc_hook)(const volatile void*, size_t), void (*free_hook)(const volatile void*));
#define TRK_MAX 4096
static volatile int trk_on = 0; static int trk_cnt = 0, trk_overflow = 0;
static const volatile void* trk_p[TRK_MAX]; static size_t trk_n[TRK_MAX];
static void trk_malloc(const volatile void* p, size_t n) {
  if (!trk_on) return;
  if (trk_cnt == TRK_MAX) { trk_overflow = 1; return; }
  trk_p[trk_cnt] = p; trk_n[trk_cnt] = n; trk_cnt++;
}
static void trk_free(const volatile void* p) {
  if (!trk_on) return;
  for (int i = trk_cnt - 1; i >= 0; i--) if (trk_p[i] == p) { trk_p[i] = trk_p[trk_cnt-1]; trk_n[i] = trk_n[trk_cnt-1]; trk_cnt--; return; }
}

static void op_R(int is_file, long start, int print_mode, size_t lineno) {
  var out = NULL; var exc = NULL;
  var vals[MAXI], targets[MAXI];
  for (int i = 0; i < nitems; i++) { vals[i] = mk_val(&items[i]); targets[i] = mk_target(items[i].kind); }
  char* fill = malloc((size_t)start + 1); for (long i = 0; i < start; i++) fill[i] = FILL[i % 5]; fill[start] = 0;
  if (is_file) {
    out = new_raw(File, $S(tmp_path), $S("w+b"));
    if (start) fwrite(fill, 1, (size_t)start, raw_file(out));
  } else out = new_raw(String, $S(fill));
  /* the format string and argument tuples of print mode */
  static char fmt[4 * MAXB]; size_t fl = 0;
  var pargs[MAXI + 1], sargs[MAXI + 1]; int na = 0;
  for (int i = 0; i < nitems; i++) { fl += fmt_of(&items[i], fmt + fl); if (vals[i]) { pargs[na] = vals[i]; sargs[na] = targets[i]; na++; } }
  pargs[na] = Terminal; sargs[na] = Terminal; fmt[fl] = 0;
  var ptuple = $(Tuple, pargs), stuple = $(Tuple, sargs);
  var none[1] = { Terminal }; var empty = $(Tuple, none);
  /* ---- write */
  volatile int wpos = (int)start;
  V_TRY(exc, {
    if (print_mode == 1 || print_mode == 3) wpos = print_to_with(out, (int)start, fmt, ptuple);
    else if (print_mode == 2) for (int i = 0; i < nitems; i++) {
      wpos = print_one(out, wpos, item_fmt(&items[i]), vals[i]);
    }
    else for (int i = 0; i < nitems; i++) {
      if (vals[i]) wpos = show_to(vals[i], out, wpos);
      else wpos = print_to_with(out, wpos, (char*)items[i].b, empty);
    }
  });
  if (exc) { O("R w=%s", v_exc_name(exc)); X("sig=C15-exception line=%zu what=writing raised %s", lineno, v_exc_name(exc)); goto done; }
  /* ---- what was written */
  size_t tlen = 0;
  if (is_file) {
    FILE* f = raw_file(out); fflush(f); long end = ftell(f);
    fseek(f, start, SEEK_SET); tlen = fread(textbuf, 1, sizeof textbuf - 1, f);
    if ((long)tlen != end - start) X("sig=C15-harness line=%zu what=short read of the temporary file", lineno);
    fseek(f, 0, SEEK_END); if (zlen) fwrite(zbuf, 1, (size_t)zlen, f); fflush(f);
  } else {
    char* s = c_str(out); size_t l = strlen(s);
    if (l < (size_t)start) { X("sig=C15-harness line=%zu what=sink shorter than the start position", lineno); tlen = 0; }
    else { tlen = l - (size_t)start; memcpy(textbuf, s + start, tlen); }
    if (zlen) append(out, $S((char*)zbuf));
  }
  /* ---- read back */
  volatile int rpos = (int)start; long tell = -1;
  if (is_file) sseek(out, start, SEEK_SET);
  V_TRY(exc, {
    if (print_mode == 1 || print_mode == 2) rpos = scan_from_with(out, (int)start, fmt, stuple);
    else if (print_mode == 3) for (int i = 0; i < nitems; i++) {
      rpos = scan_one(out, rpos, item_fmt(&items[i]), targets[i]);
    }
    else for (int i = 0; i < nitems; i++) {
      if (targets[i]) rpos = look_from(targets[i], out, rpos);
      else rpos = scan_from_with(out, rpos, (char*)items[i].b, empty);
    }
  });
  if (!exc && is_file) tell = ftell(raw_file(out));
  /* ---- observation */
  {
    char* p = outbuf; p += sprintf(p, "R w=%d text=", wpos); dump(p, textbuf, tlen); p += strlen(p);
    if (exc) p += sprintf(p, " r=%s vals=", v_exc_name(exc)); else p += sprintf(p, " r=%d vals=", rpos);
    int nv = 0;
    for (int i = 0; i < nitems; i++) if (targets[i]) { if (nv++) *p++ = ','; p += val_dump(p, items[i].kind, targets[i]); }
    if (!nv) *p++ = '-';
    if (tell >= 0) p += sprintf(p, " tell=%ld", tell); else p += sprintf(p, " tell=-");
    O("%s", outbuf);
  }
  /* ---- direct oracle: the property itself */
  {
    int base; int contract = in_contract(is_file, &base);
    fprintf(vout, "C contract=%d\n", contract);   /* cross-checked with the model's `inProperty` (the theorems' hypothesis) */
    if (base) {
      if ((size_t)(wpos - start) != tlen) X("sig=C15-write-count line=%zu what=writer returned position %d for %zu characters written at %ld", lineno, wpos, tlen, start);
      if (exc) X("sig=C15-exception line=%zu what=reading back raised %s", lineno, v_exc_name(exc));
      else {
        if (rpos != wpos) X("sig=C15-consumed line=%zu what=reader returned position %d, writer %d", lineno, rpos, wpos);
        if (is_file && tell != start + (long)tlen) X("sig=C15-consumed-file line=%zu what=stream at %ld after reading, %ld expected", lineno, tell, start + (long)tlen);
        for (int i = 0; i < nitems; i++) if (targets[i]) {
          switch (items[i].kind) {
            case I_STR: if (strcmp(c_str(targets[i]), (char*)items[i].b) != 0) X("sig=C15-value-string line=%zu what=item %d: String read back differs", lineno, i); break;
            case I_INT:
              if (c_int(targets[i]) != items[i].iv) X("sig=C15-value-int line=%zu what=item %d: wrote %" PRId64 " read %" PRId64, lineno, i, items[i].iv, (int64_t)c_int(targets[i])); break;
            case I_ISPEC: {
              /* the value written when the type the specification names can hold it; otherwise C's conversion to that type */
              int64_t want = conv_int(items[i].width, is_signed_conv(items[i].conv), items[i].iv);
              if (c_int(targets[i]) != want)
                X("sig=C15-value-int-spec line=%zu what=item %d: wrote %" PRId64 " with %s, read %" PRId64 ", expected %" PRId64, lineno, i, items[i].iv, items[i].spec, (int64_t)c_int(targets[i]), want);
              break; }
            default: {
              double x = bits2d(items[i].bits), y = c_float(targets[i]);
              const char* spec = items[i].kind == I_FSPEC ? items[i].spec : "%f";
              char cv = items[i].kind == I_FSPEC ? items[i].conv : 'f';
              /* equal to within the printed precision: the same text under the same specification; for six decimals also half a
               * unit of the sixth decimal plus the rounding of the reader (a double) */
              /* (into a float: both values are within half a unit of the text, C15_float_narrow_partial: 1e-6) */
              double tol = (items[i].kind == I_FSPEC && !items[i].wide) ? 1e-6 : 0.5e-6 + fabs(x) * 1.2e-16;
              char a[400], b[400]; snprintf(a, sizeof a, spec, x); snprintf(b, sizeof b, spec, y);
              int bad = strcmp(a, b) != 0 || ((cv == 'f' || cv == 'F') && !(fabs(x - y) <= tol));
              if (bad) {
                if (items[i].kind == I_FSPEC && !items[i].wide && !is_float_value(x))
                  X("sig=kf-c15-float-spec-narrow line=%zu what=item %d: wrote %.17g with %s, read %.17g (stored through a float)", lineno, i, x, spec, y);
                else X("sig=C15-value-float line=%zu what=item %d: wrote %.17g with %s read %.17g", lineno, i, x, spec, y);
              }
            }
          }
        }
      }
    }
  }
done:
  for (int i = 0; i < nitems; i++) { if (vals[i]) del_raw(vals[i]); if (targets[i]) del_raw(targets[i]); }
  if (out) del_raw(out);
  free(fill);
}

static void op_K(int probe, int is_file, long start, int kind, const char* spec, unsigned char* text, size_t n, size_t lineno) {
  var src = NULL; var exc = NULL; var target = mk_target(kind);
  if (is_file) { src = new_raw(File, $S(tmp_path), $S("w+b")); if (n) fwrite(text, 1, n, raw_file(src)); fflush(raw_file(src)); sseek(src, start, SEEK_SET); }
  else src = new_raw(String, $S((char*)text));
  volatile int rpos = (int)start; long tell = -1;
  if (probe == 1) { trk_cnt = 0; trk_overflow = 0; trk_on = 1; }
  V_TRY(exc, { if (spec) rpos = scan_from(src, (int)start, spec, target); else rpos = look_from(target, src, (int)start); });
  trk_on = 0;
  if (!exc && is_file) tell = ftell(raw_file(src));
  char* p = outbuf;
  if (exc) p += sprintf(p, "%c r=%s val=", "KLT"[probe], v_exc_name(exc)); else p += sprintf(p, "%c r=%d val=", "KLT"[probe], rpos);
  p += val_dump(p, kind, target);
  if (tell >= 0) p += sprintf(p, " tell=%ld", tell); else p += sprintf(p, " tell=-");
  if (probe == 2) {
    O("%s", outbuf);
    if (exc && kind == I_STR && strcmp(c_str(target), "?") != 0)
      X("sig=kf-c15-look-clobbers-target line=%zu what=look_from raised %s and left the target holding %zu byte(s) instead of its value", lineno, v_exc_name(exc), strlen(c_str(target)));
  } else if (probe == 1) {
    /* still allocated: everything but the buffers that legitimately outlive the call (the String target's, the exception message's) */
    size_t leaked = 0; int blocks = 0;
    const void* keep1 = kind == I_STR ? (const void*)((struct String*)target)->val : NULL;
    struct Exception* ex = current(Exception);
    const void* keep2 = ex && ex->msg ? (const void*)((struct String*)ex->msg)->val : NULL;
    for (int i = 0; i < trk_cnt; i++) if ((const void*)trk_p[i] != keep1 && (const void*)trk_p[i] != keep2) { leaked += trk_n[i]; blocks++; }
    p += sprintf(p, " leaked=%zu", leaked);
    O("%s", outbuf);
    if (trk_overflow) X("sig=C15-harness line=%zu what=allocation tracker overflow", lineno);
    if (leaked) X("sig=kf-c15-scan-fmtbuf-leak line=%zu what=the read raised %s and left %zu bytes in %d block(s) allocated (fmt_buf of scan_from_with)", lineno, exc ? v_exc_name(exc) : "nothing", leaked, blocks);
  } else O("%s", outbuf);
  del_raw(target); del_raw(src);
  (void)lineno;
}

/* a field width (and the 0 flag) inside an integer specification */
static void op_W(int is_file, long start, int zero, long width, Item* it, size_t lineno) {
  var out = NULL; var exc = NULL;
  char fmt[32]; snprintf(fmt, sizeof fmt, "%%%s%ld%s", zero ? "0" : "", width, it->spec + 1);
  var val = new_raw(Int, $I(it->iv)); var target = new_raw(Int, $I(77));
  char* fill = malloc((size_t)start + 1); for (long i = 0; i < start; i++) fill[i] = FILL[i % 5]; fill[start] = 0;
  if (is_file) { out = new_raw(File, $S(tmp_path), $S("w+b")); if (start) fwrite(fill, 1, (size_t)start, raw_file(out)); }
  else out = new_raw(String, $S(fill));
  volatile int wpos = (int)start;
  V_TRY(exc, { wpos = print_to(out, (int)start, fmt, val); });
  if (exc) { O("W w=%s", v_exc_name(exc)); X("sig=C15-exception line=%zu what=writing raised %s", lineno, v_exc_name(exc)); goto done; }
  size_t tlen = 0;
  if (is_file) {
    FILE* f = raw_file(out); fflush(f); fseek(f, start, SEEK_SET); tlen = fread(textbuf, 1, sizeof textbuf - 1, f);
    fseek(f, 0, SEEK_END); if (zlen) fwrite(zbuf, 1, (size_t)zlen, f); fflush(f);
  } else {
    char* s = c_str(out); size_t l = strlen(s);
    if (l >= (size_t)start) { tlen = l - (size_t)start; memcpy(textbuf, s + start, tlen); }
    if (zlen) append(out, $S((char*)zbuf));
  }
  volatile int rpos = (int)start; long tell = -1;
  if (is_file) sseek(out, start, SEEK_SET);
  V_TRY(exc, { rpos = scan_from(out, (int)start, fmt, target); });
  if (!exc && is_file) tell = ftell(raw_file(out));
  {
    char* p = outbuf; p += sprintf(p, "W w=%d text=", wpos); dump(p, textbuf, tlen); p += strlen(p);
    if (exc) p += sprintf(p, " r=%s val=", v_exc_name(exc)); else p += sprintf(p, " r=%d val=", rpos);
    p += val_dump(p, I_ISPEC, target);
    if (tell >= 0) p += sprintf(p, " tell=%ld", tell); else p += sprintf(p, " tell=-");
    O("%s", outbuf);
  }
  {
    /* the oracle speaks only where the width is harmless: at least the text libc writes without it, no zero padded under %i;
     * and what follows does not continue the number */
    char plain[64]; snprintf(plain, sizeof plain, it->spec, it->iv); size_t pl = strlen(plain);
    int nb = zlen > 0 ? zbuf[0] : -1; int digit = nb >= '0' && nb <= '9'; int xx = nb == 'x' || nb == 'X';
    int zerotext = conv_int(it->width, 0, it->iv) == 0; int cont;
    if (it->conv == 'x' || it->conv == 'X') cont = (nb >= 0 && is_xdig(nb)) || (zerotext && xx);
    else if (it->conv == 'i') cont = digit || (zerotext && xx);
    else cont = digit;
    int safe = width >= 1 && (size_t)width >= pl && !(zero && it->conv == 'i' && (size_t)width > pl);
    if (safe && !cont) {
      int64_t want = conv_int(it->width, is_signed_conv(it->conv), it->iv);
      if (exc) X("sig=C15-value-int-width line=%zu what=reading back with %s raised %s", lineno, fmt, v_exc_name(exc));
      else if (rpos != wpos || (size_t)(wpos - start) != tlen || (is_file && tell != start + (long)tlen))
        X("sig=C15-value-int-width line=%zu what=%s: writer returned %d, reader %d, %zu characters written", lineno, fmt, wpos, rpos, tlen);
      else if (c_int(target) != want)
        X("sig=C15-value-int-width line=%zu what=wrote %" PRId64 " with %s, read %" PRId64 ", expected %" PRId64, lineno, it->iv, fmt, (int64_t)c_int(target), want);
    }
  }
done:
  del_raw(val); del_raw(target); if (out) del_raw(out); free(fill);
}

int main(int argc, char** argv) {
  v_init();
  if (argc < 2) { fprintf(stderr, "usage: h_text <opfile>\n"); return 2; }
  size_t n; char** lines = v_read_lines(argv[1], &n);
  snprintf(tmp_path, sizeof tmp_path, "h_text_%ld.tmp", (long)getpid());
  size_t nR = 0, nK = 0, nW = 0;
  (void)current(Exception);   /* the thread's Exception object and its message String exist before any measured window */
  __sanitizer_install_malloc_and_free_hooks(trk_malloc, trk_free);
  for (size_t li = 0; li < n; li++) {
    char* l = lines[li];
    if (v_skippable(l)) continue;
    split(l);
    int bad = 0; long start = 0; int is_file = 0;
    if (ntok >= 3 && (strcmp(toks[1], "S") == 0 || strcmp(toks[1], "F") == 0) && parse_nat(toks[2], &start) && start <= 4096) is_file = toks[1][0] == 'F';
    else bad = 1;
    if (!bad && strcmp(toks[0], "R") == 0 && ntok >= 5 && ntok <= MAXI + 4) {
      int pm = strcmp(toks[3], "print") == 0 ? 1 : strcmp(toks[3], "split") == 0 ? 2 : strcmp(toks[3], "join") == 0 ? 3 : 0;
      if (!pm && strcmp(toks[3], "show") != 0) bad = 1;
      nitems = 0; zlen = 0; pool_used = 0; int seen_z = 0;
      for (int t = 4; t < ntok && !bad; t++) {
        char* tk = toks[t]; Item it; memset(&it, 0, sizeof it);
        if (seen_z) { bad = 1; break; }
        if (strcmp(tk, "pc") == 0) { if (!pm) bad = 1; it.kind = I_PCT; items[nitems++] = it; continue; }
        char* eq = strchr(tk, '='); if (!eq) { bad = 1; break; }
        *eq = 0; char* v = eq + 1;
        if (strcmp(tk, "s") == 0 || strcmp(tk, "t") == 0 || strcmp(tk, "z") == 0) {
          unsigned char* dst = pool + pool_used; long len = unhex(v, dst, MAXB - 1);
          if (len < 0 || pool_used + (size_t)len + 1 > sizeof pool || has_byte(dst, (size_t)len, 0)) { bad = 1; break; }
          dst[len] = 0; pool_used += (size_t)len + 1;
          if (tk[0] == 'z') { memcpy(zbuf, dst, (size_t)len + 1); zlen = len; seen_z = 1; continue; }
          it.b = dst; it.n = (size_t)len;
          if (tk[0] == 't') { if (len == 0 || has_byte(dst, (size_t)len, '%') || (nitems && items[nitems-1].kind == I_LIT)) { bad = 1; break; } it.kind = I_LIT; }
          else it.kind = I_STR;
        } else if (strcmp(tk, "i") == 0) { it.kind = I_INT; if (!parse_i64(v, &it.iv)) bad = 1; }
        else if (strcmp(tk, "f") == 0) { it.kind = I_FLT; if (!parse_bits(v, &it.bits)) bad = 1; }
        else {
          const char* key = strcmp(tk, "li") == 0 ? "Ili" : strcmp(tk, "ld") == 0 ? "Ild" : strcmp(tk, "lf") == 0 ? "Flf" : tk;
          it.kind = parse_spec(key, &it);
          if (!pm || it.kind < 0) bad = 1;
          else if (it.kind == I_ISPEC) { if (!parse_i64(v, &it.iv)) bad = 1; }
          else if (!parse_bits(v, &it.bits)) bad = 1;
        }
        if (!bad) items[nitems++] = it;
      }
      if (!bad && nitems == 0) bad = 1;
      if (!bad) { nR++; op_R(is_file, start, pm, li + 1); continue; }
    } else if (!bad && strcmp(toks[0], "W") == 0 && (ntok == 7 || ntok == 8)) {
      Item wit; memset(&wit, 0, sizeof wit); long width = 0; char key[16];
      snprintf(key, sizeof key, "I%.8s", toks[5]);
      if ((strcmp(toks[3], "0") != 0 && strcmp(toks[3], "1") != 0) || !parse_nat(toks[4], &width) || width < 1 || width > 40
          || parse_spec(key, &wit) != I_ISPEC || !parse_i64(toks[6], &wit.iv)) bad = 1;
      zlen = 0;
      if (!bad && ntok == 8) {
        if (strncmp(toks[7], "z=", 2) != 0) bad = 1;
        else { long len = unhex(toks[7] + 2, zbuf, 200); if (len < 0 || has_byte(zbuf, (size_t)len, 0)) bad = 1; else { zbuf[len] = 0; zlen = len; } }
      }
      if (!bad) { nW++; op_W(is_file, start, toks[3][0] == '1', width, &wit, li + 1); continue; }
    } else if (!bad && (strcmp(toks[0], "K") == 0 || strcmp(toks[0], "L") == 0 || strcmp(toks[0], "T") == 0) && ntok == 5) {
      Item kit; memset(&kit, 0, sizeof kit);
      int kind = strcmp(toks[3], "s") == 0 ? I_STR : strcmp(toks[3], "i") == 0 ? I_INT : strcmp(toks[3], "f") == 0 ? I_FLT
               : parse_spec(strcmp(toks[3], "ld") == 0 ? "Ild" : toks[3], &kit);
      if (kind < 0 || strncmp(toks[4], "x=", 2) != 0) bad = 1;
      long len = bad ? -1 : unhex(toks[4] + 2, pool, MAXB - 1);
      if (len < 0 || start > len || (!is_file && has_byte(pool, (size_t)len, 0))) bad = 1;
      if (!bad) { pool[len] = 0; nK++; op_K(toks[0][0] == 'L' ? 1 : toks[0][0] == 'T' ? 2 : 0, is_file, start, kind, kind == I_ISPEC || kind == I_FSPEC ? kit.spec : NULL, pool, (size_t)len, li + 1); continue; }
    } else bad = 1;
    O("bad-op");
  }
  unlink(tmp_path);
  I("roundtrips=%zu looks=%zu widths=%zu", nR, nK, nW);
  return 0;
}
