/* harness/h_text.c — engine `text` (C15): show/look and print/scan round trips on the real library.
 *
 * op file (same grammar as lean/Driver/Text.lean):
 *   R <S|F> <start> <show|print> <item>...    write the items at position <start> of a String / of a File, read them back
 *       item ::= s=<hex>   String shown with show_to / "%$"       i=<dec>  Int with show_to / "%$"     f=<16 hex> Float (bits)
 *                li=<dec> | ld=<dec> | lf=<16 hex>                 numeric specifications "%li" "%ld" "%lf"   (print mode only)
 *                t=<hex>   literal separator (no NUL, no '%')      pc       a literal percent, "%%"     (print mode only)
 *                z=<hex>   text appended after the written items that is not read (last item only)
 *       mode show : every value by show_to / look_from, every separator by its own print_to_with / scan_from_with call
 *       mode print: ONE print_to_with and ONE scan_from_with call with the format string built from the items
 *   K <S|F> <start> <s|i|f|ld> x=<hex>        read one value from the given text at <start> (look_from; "%ld" for ld)
 *
 * prints   O R w=<pos after writing> text=<written bytes> r=<pos after reading | exception> vals=<values read> tell=<ftell | ->
 *          O K r=<pos | exception> val=<value> tell=<ftell | ->
 *          C contract=<0|1>   (after every R observation) is the op inside the property's quantifier, as judged here
 * and X lines when the direct oracle (plain C comparison of what was written with what was read) sees the property violated
 * on an input inside the property's quantifier. */
#include "common.h"
#include <math.h>
#include <inttypes.h>

#define MAXB 70000
#define MAXI 64

enum { I_STR, I_INT, I_FLT, I_LI, I_LD, I_LF, I_LIT, I_PCT };
typedef struct { int kind; unsigned char* b; size_t n; int64_t iv; uint64_t bits; } Item;

static int hexv(int c) { if (c >= '0' && c <= '9') return c - '0'; if (c >= 'a' && c <= 'f') return c - 'a' + 10; return -1; }
/* returns length or -1 */
static long unhex(const char* h, unsigned char* out, size_t cap) {
  size_t n = strlen(h); if (n % 2) return -1; if (n / 2 > cap) return -1;
  for (size_t i = 0; i < n; i += 2) { int a = hexv(h[i]), b = hexv(h[i+1]); if (a < 0 || b < 0) return -1; out[i/2] = (unsigned char)(a * 16 + b); }
  return (long)(n / 2);
}
static int has_byte(const unsigned char* b, size_t n, int c) { for (size_t i = 0; i < n; i++) if (b[i] == c) return 1; return 0; }

static int parse_i64(const char* s, int64_t* out) {
  int neg = 0; if (*s == '-') { neg = 1; s++; }
  size_t n = strlen(s); if (n == 0 || n > 19) return 0;
  uint64_t v = 0; for (size_t i = 0; i < n; i++) { if (s[i] < '0' || s[i] > '9') return 0; v = v * 10 + (uint64_t)(s[i] - '0'); }
  if (neg) { if (v > (uint64_t)1 << 63) return 0; *out = (int64_t)(0 - v); }
  else { if (v > (uint64_t)INT64_MAX) return 0; *out = (int64_t)v; }
  return 1;
}
static int parse_nat(const char* s, long* out) {
  size_t n = strlen(s); if (n == 0 || n > 6) return 0; long v = 0;
  for (size_t i = 0; i < n; i++) { if (s[i] < '0' || s[i] > '9') return 0; v = v * 10 + (s[i] - '0'); } *out = v; return 1;
}
static int parse_bits(const char* s, uint64_t* out) {
  if (strlen(s) != 16) return 0; uint64_t v = 0;
  for (int i = 0; i < 16; i++) { int a = hexv(s[i]); if (a < 0) return 0; v = v * 16 + (uint64_t)a; }
  if (((v >> 52) & 2047) == 2047) return 0;
  *out = v; return 1;
}
static double bits2d(uint64_t b) { double d; memcpy(&d, &b, 8); return d; }
static uint64_t d2bits(double d) { uint64_t b; memcpy(&b, &d, 8); return b; }

static void dump(char* out, const unsigned char* b, size_t n) {
  if (n <= 300) { for (size_t i = 0; i < n; i++) sprintf(out + 2*i, "%02x", b[i]); out[2*n] = 0; return; }
  uint64_t h = 14695981039346656037ULL; for (size_t i = 0; i < n; i++) { h ^= b[i]; h *= 1099511628211ULL; }
  sprintf(out, "#%zu:%016" PRIx64, n, h);
}

static char* toks[MAXI + 8]; static int ntok;
static void split(char* l) { ntok = 0; char* p = l; while (ntok < MAXI + 8) { toks[ntok++] = p; char* q = strchr(p, ' '); if (!q) break; *q = 0; p = q + 1; } }

static const char FILL[5] = { '"', '7', '\\', ' ', 'x' };
static char tmp_path[256];

/* ---- the objects under test -------------------------------------------------------------------------------------------- */
static var mk_val(Item* it) {
  switch (it->kind) {
    case I_STR: return new_raw(String, $S((char*)it->b));
    case I_INT: case I_LI: case I_LD: return new_raw(Int, $I(it->iv));
    case I_FLT: case I_LF: return new_raw(Float, $F(bits2d(it->bits)));
  }
  return NULL;
}
static var mk_target(int kind) {
  switch (kind) {
    case I_STR: return new_raw(String, $S("?"));
    case I_INT: case I_LI: case I_LD: return new_raw(Int, $I(77));
    case I_FLT: case I_LF: return new_raw(Float, $F(7.5));
  }
  return NULL;
}
static size_t fmt_of(Item* it, char* out) {   /* format text of one item; returns length */
  switch (it->kind) {
    case I_STR: case I_INT: case I_FLT: strcpy(out, "%$"); return 2;
    case I_LI: strcpy(out, "%li"); return 3;
    case I_LD: strcpy(out, "%ld"); return 3;
    case I_LF: strcpy(out, "%lf"); return 3;
    case I_PCT: strcpy(out, "%%"); return 2;
    default: memcpy(out, it->b, it->n); out[it->n] = 0; return it->n;
  }
}
static size_t val_dump(char* out, int kind, var v) {
  switch (kind) {
    case I_STR: { char* s = c_str(v); out[0] = 's'; out[1] = ':'; dump(out + 2, (unsigned char*)s, strlen(s)); break; }
    case I_INT: case I_LI: case I_LD: sprintf(out, "i:%" PRId64, (int64_t)c_int(v)); break;
    default: sprintf(out, "f:%016" PRIx64, d2bits(c_float(v))); break;
  }
  return strlen(out);
}

static Item items[MAXI]; static int nitems;
static unsigned char zbuf[MAXB]; static long zlen;
static unsigned char pool[4 * MAXB]; static size_t pool_used;
static unsigned char textbuf[4 * MAXB];
static char outbuf[16 * MAXB];

#define DIGIT 1000   /* stands for `some decimal digit` */
/* first byte an item writes (for the contract check), -1 if nothing follows */
static int first_byte_after(int idx) {
  if (idx + 1 < nitems) {
    Item* n = &items[idx + 1];
    switch (n->kind) {
      case I_STR: return '"';
      case I_INT: case I_LI: case I_LD: return n->iv < 0 ? '-' : DIGIT;
      case I_FLT: case I_LF: return (n->bits >> 63) ? '-' : DIGIT;
      case I_PCT: return '%';
      default: return n->b[0];
    }
  }
  return zlen > 0 ? zbuf[0] : -1;
}
static int is_space(int c) { return c == ' ' || (c >= 9 && c <= 13); }
/* is the op inside the property's quantifier?  (independent restatement of the condition on separators) */
static int in_contract(int is_file, int* has_pct) {
  int ok = 1; *has_pct = 0;
  for (int i = 0; i < nitems; i++) {
    int nb = first_byte_after(i); int digit = nb == DIGIT || (nb >= '0' && nb <= '9');
    switch (items[i].kind) {
      case I_INT: case I_LI: if (digit || (items[i].iv == 0 && (nb == 'x' || nb == 'X'))) ok = 0; break;
      case I_LD: if (digit) ok = 0; break;
      case I_FLT: case I_LF: if (digit || nb == 'e' || nb == 'E') ok = 0; break;
      case I_LIT: if (is_file && is_space(items[i].b[items[i].n - 1]) && nb >= 0 && is_space(nb)) ok = 0; break;
      case I_PCT: *has_pct = 1; break;
    }
  }
  return ok;
}

static FILE* raw_file(var f) { return ((struct File*)f)->file; }

static void op_R(int is_file, long start, int print_mode, size_t lineno) {
  var out = NULL; var exc = NULL;
  var vals[MAXI], targets[MAXI];
  for (int i = 0; i < nitems; i++) { vals[i] = mk_val(&items[i]); targets[i] = mk_target(items[i].kind); }
  char* fill = malloc((size_t)start + 1); for (long i = 0; i < start; i++) fill[i] = FILL[i % 5]; fill[start] = 0;
  if (is_file) {
    out = new_raw(File, $S(tmp_path), $S("w+b"));
    if (start) fwrite(fill, 1, (size_t)start, raw_file(out));
  } else out = new_raw(String, $S(fill));
  /* the format string and argument tuples of print mode */
  static char fmt[4 * MAXB]; size_t fl = 0;
  var pargs[MAXI + 1], sargs[MAXI + 1]; int na = 0;
  for (int i = 0; i < nitems; i++) { fl += fmt_of(&items[i], fmt + fl); if (vals[i]) { pargs[na] = vals[i]; sargs[na] = targets[i]; na++; } }
  pargs[na] = Terminal; sargs[na] = Terminal; fmt[fl] = 0;
  var ptuple = $(Tuple, pargs), stuple = $(Tuple, sargs);
  var none[1] = { Terminal }; var empty = $(Tuple, none);
  /* ---- write */
  volatile int wpos = (int)start;
  V_TRY(exc, {
    if (print_mode) wpos = print_to_with(out, (int)start, fmt, ptuple);
    else for (int i = 0; i < nitems; i++) {
      if (vals[i]) wpos = show_to(vals[i], out, wpos);
      else wpos = print_to_with(out, wpos, (char*)items[i].b, empty);
    }
  });
  if (exc) { O("R w=%s", v_exc_name(exc)); X("sig=C15-exception line=%zu what=writing raised %s", lineno, v_exc_name(exc)); goto done; }
  /* ---- what was written */
  size_t tlen = 0;
  if (is_file) {
    FILE* f = raw_file(out); fflush(f); long end = ftell(f);
    fseek(f, start, SEEK_SET); tlen = fread(textbuf, 1, sizeof textbuf - 1, f);
    if ((long)tlen != end - start) X("sig=C15-harness line=%zu what=short read of the temporary file", lineno);
    fseek(f, 0, SEEK_END); if (zlen) fwrite(zbuf, 1, (size_t)zlen, f); fflush(f);
  } else {
    char* s = c_str(out); size_t l = strlen(s);
    if (l < (size_t)start) { X("sig=C15-harness line=%zu what=sink shorter than the start position", lineno); tlen = 0; }
    else { tlen = l - (size_t)start; memcpy(textbuf, s + start, tlen); }
    if (zlen) append(out, $S((char*)zbuf));
  }
  /* ---- read back */
  volatile int rpos = (int)start; long tell = -1;
  if (is_file) sseek(out, start, SEEK_SET);
  V_TRY(exc, {
    if (print_mode) rpos = scan_from_with(out, (int)start, fmt, stuple);
    else for (int i = 0; i < nitems; i++) {
      if (targets[i]) rpos = look_from(targets[i], out, rpos);
      else rpos = scan_from_with(out, rpos, (char*)items[i].b, empty);
    }
  });
  if (!exc && is_file) tell = ftell(raw_file(out));
  /* ---- observation */
  {
    char* p = outbuf; p += sprintf(p, "R w=%d text=", wpos); dump(p, textbuf, tlen); p += strlen(p);
    if (exc) p += sprintf(p, " r=%s vals=", v_exc_name(exc)); else p += sprintf(p, " r=%d vals=", rpos);
    int nv = 0;
    for (int i = 0; i < nitems; i++) if (targets[i]) { if (nv++) *p++ = ','; p += val_dump(p, items[i].kind, targets[i]); }
    if (!nv) *p++ = '-';
    if (tell >= 0) p += sprintf(p, " tell=%ld", tell); else p += sprintf(p, " tell=-");
    O("%s", outbuf);
  }
  /* ---- direct oracle: the property itself */
  {
    int has_pct; int contract = in_contract(is_file, &has_pct);
    fprintf(vout, "C contract=%d\n", contract); (void)has_pct;   /* cross-checked with the model's `contractOK` (the theorems' hypothesis) */
    if (contract) {
      if ((size_t)(wpos - start) != tlen) X("sig=C15-write-count line=%zu what=writer returned position %d for %zu characters written at %ld", lineno, wpos, tlen, start);
      if (exc) X("sig=C15-exception line=%zu what=reading back raised %s", lineno, v_exc_name(exc));
      else {
        if (rpos != wpos) X("sig=C15-consumed line=%zu what=reader returned position %d, writer %d", lineno, rpos, wpos);
        if (is_file && tell != start + (long)tlen) X("sig=C15-consumed-file line=%zu what=stream at %ld after reading, %ld expected", lineno, tell, start + (long)tlen);
        for (int i = 0; i < nitems; i++) if (targets[i]) {
          switch (items[i].kind) {
            case I_STR: if (strcmp(c_str(targets[i]), (char*)items[i].b) != 0) X("sig=C15-value-string line=%zu what=item %d: String read back differs", lineno, i); break;
            case I_INT: case I_LI: case I_LD:
              if (c_int(targets[i]) != items[i].iv) X("sig=C15-value-int line=%zu what=item %d: wrote %" PRId64 " read %" PRId64, lineno, i, items[i].iv, (int64_t)c_int(targets[i])); break;
            default: {
              double x = bits2d(items[i].bits), y = c_float(targets[i]);
              /* equal to within the printed precision: half a unit of the sixth decimal, plus the rounding of the reader */
              double tol = 0.5e-6 + fabs(x) * 1.2e-16;
              char a[400], b[400]; snprintf(a, sizeof a, "%f", x); snprintf(b, sizeof b, "%f", y);
              if (!(fabs(x - y) <= tol) || strcmp(a, b) != 0)
                X("sig=C15-value-float line=%zu what=item %d: wrote %.17g read %.17g", lineno, i, x, y);
            }
          }
        }
      }
    }
  }
done:
  for (int i = 0; i < nitems; i++) { if (vals[i]) del_raw(vals[i]); if (targets[i]) del_raw(targets[i]); }
  if (out) del_raw(out);
  free(fill);
}

static void op_K(int is_file, long start, int kind, unsigned char* text, size_t n, size_t lineno) {
  var src = NULL; var exc = NULL; var target = mk_target(kind);
  if (is_file) { src = new_raw(File, $S(tmp_path), $S("w+b")); if (n) fwrite(text, 1, n, raw_file(src)); fflush(raw_file(src)); sseek(src, start, SEEK_SET); }
  else src = new_raw(String, $S((char*)text));
  volatile int rpos = (int)start; long tell = -1;
  V_TRY(exc, { if (kind == I_LD) rpos = scan_from(src, (int)start, "%ld", target); else rpos = look_from(target, src, (int)start); });
  if (!exc && is_file) tell = ftell(raw_file(src));
  char* p = outbuf;
  if (exc) p += sprintf(p, "K r=%s val=", v_exc_name(exc)); else p += sprintf(p, "K r=%d val=", rpos);
  p += val_dump(p, kind, target);
  if (tell >= 0) p += sprintf(p, " tell=%ld", tell); else p += sprintf(p, " tell=-");
  O("%s", outbuf);
  del_raw(target); del_raw(src);
  (void)lineno;
}

int main(int argc, char** argv) {
  v_init();
  if (argc < 2) { fprintf(stderr, "usage: h_text <opfile>\n"); return 2; }
  size_t n; char** lines = v_read_lines(argv[1], &n);
  snprintf(tmp_path, sizeof tmp_path, "h_text_%ld.tmp", (long)getpid());
  size_t nR = 0, nK = 0;
  for (size_t li = 0; li < n; li++) {
    char* l = lines[li];
    if (v_skippable(l)) continue;
    split(l);
    int bad = 0; long start = 0; int is_file = 0;
    if (ntok >= 3 && (strcmp(toks[1], "S") == 0 || strcmp(toks[1], "F") == 0) && parse_nat(toks[2], &start) && start <= 4096) is_file = toks[1][0] == 'F';
    else bad = 1;
    if (!bad && strcmp(toks[0], "R") == 0 && ntok >= 5 && ntok <= MAXI + 4) {
      int pm = strcmp(toks[3], "print") == 0; if (!pm && strcmp(toks[3], "show") != 0) bad = 1;
      nitems = 0; zlen = 0; pool_used = 0; int seen_z = 0;
      for (int t = 4; t < ntok && !bad; t++) {
        char* tk = toks[t]; Item it; memset(&it, 0, sizeof it);
        if (seen_z) { bad = 1; break; }
        if (strcmp(tk, "pc") == 0) { if (!pm) bad = 1; it.kind = I_PCT; items[nitems++] = it; continue; }
        char* eq = strchr(tk, '='); if (!eq) { bad = 1; break; }
        *eq = 0; char* v = eq + 1;
        if (strcmp(tk, "s") == 0 || strcmp(tk, "t") == 0 || strcmp(tk, "z") == 0) {
          unsigned char* dst = pool + pool_used; long len = unhex(v, dst, MAXB - 1);
          if (len < 0 || pool_used + (size_t)len + 1 > sizeof pool || has_byte(dst, (size_t)len, 0)) { bad = 1; break; }
          dst[len] = 0; pool_used += (size_t)len + 1;
          if (tk[0] == 'z') { memcpy(zbuf, dst, (size_t)len + 1); zlen = len; seen_z = 1; continue; }
          it.b = dst; it.n = (size_t)len;
          if (tk[0] == 't') { if (len == 0 || has_byte(dst, (size_t)len, '%') || (nitems && items[nitems-1].kind == I_LIT)) { bad = 1; break; } it.kind = I_LIT; }
          else it.kind = I_STR;
        } else if (strcmp(tk, "i") == 0) { it.kind = I_INT; if (!parse_i64(v, &it.iv)) bad = 1; }
        else if (strcmp(tk, "li") == 0) { it.kind = I_LI; if (!pm || !parse_i64(v, &it.iv)) bad = 1; }
        else if (strcmp(tk, "ld") == 0) { it.kind = I_LD; if (!pm || !parse_i64(v, &it.iv)) bad = 1; }
        else if (strcmp(tk, "f") == 0) { it.kind = I_FLT; if (!parse_bits(v, &it.bits)) bad = 1; }
        else if (strcmp(tk, "lf") == 0) { it.kind = I_LF; if (!pm || !parse_bits(v, &it.bits)) bad = 1; }
        else bad = 1;
        if (!bad) items[nitems++] = it;
      }
      if (!bad && nitems == 0) bad = 1;
      if (!bad) { nR++; op_R(is_file, start, pm, li + 1); continue; }
    } else if (!bad && strcmp(toks[0], "K") == 0 && ntok == 5) {
      int kind = strcmp(toks[3], "s") == 0 ? I_STR : strcmp(toks[3], "i") == 0 ? I_INT : strcmp(toks[3], "f") == 0 ? I_FLT : strcmp(toks[3], "ld") == 0 ? I_LD : -1;
      if (kind < 0 || strncmp(toks[4], "x=", 2) != 0) bad = 1;
      long len = bad ? -1 : unhex(toks[4] + 2, pool, MAXB - 1);
      if (len < 0 || start > len || (!is_file && has_byte(pool, (size_t)len, 0))) bad = 1;
      if (!bad) { pool[len] = 0; nK++; op_K(is_file, start, kind, pool, (size_t)len, li + 1); continue; }
    } else bad = 1;
    O("bad-op");
  }
  unlink(tmp_path);
  I("roundtrips=%zu looks=%zu", nR, nK);
  return 0;
}
