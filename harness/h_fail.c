/* harness/h_fail.c — engine `fail` (C12): a failed operation is reported as an exception and changes nothing.
 *
 * Op file (see lean/Driver/Fail.lean for the same grammar):
 *   new <id> arr|lst <ty> <v>* | new <id> tup heap|stack <v>* | new <id> tab|tre <kty> <vty> (<k> <v>)* |
 *   new <id> str heap|stack|static s<text> | new <id> rng a b c | new <id> slc <base> a b c | new <id> zip <a> <b> |
 *   new <id> val heap|stack|static <v> |
 *   new <id> narr|nlst arr|lst|tab <c>*      an Array / List whose elements are Arrays / Lists / Tables of Int (c = c<int>.<int>…)
 *   new <id> junk dead|bad                   an object whose header carries the freed-object magic number / a foreign one
 *   get|set|mem|rem|push|pushat|pop|popat|resize|len|concat|append|assign|print|typeof|cast|dealloc|deallocelem <id|N> ...
 *   sort <id|N>                              sort(x) = sort_by(x, lt): Array and Tuple; a Tuple whose items are not of one type is the
 *                                            territory of finding KF-C12-sort-partial (a comparison raises after elements were exchanged)
 *   assignself <id|N>                        assign(x, x): the target is its own operand (String: no-op since fix 744a45f, also on
 *                                            stack / static Strings; Array/List/Table/Tree: `self is obj` guard; Int; Tuple).  Always
 *                                            probed in a forked child first.
 *   getk|getv <tab> <k>                      get(table, p) where p is an address inside the table's own slot array: the key object
 *                                            (getk) / the value object (getv) of the occupied slot that holds key k (bad-op when no
 *                                            slot holds k).  Since fix bc940bb Table_Get takes its address shortcut only for the key
 *                                            object of an occupied slot; any other address is an ordinary argument (cast, hash, probe):
 *                                            getv must behave exactly as get with a fresh copy of that value — ValueError when the
 *                                            value type is not the key type, KeyError when no such key is stored.
 * values: i<int> s<alnum*> p<int> N        types: int str plain
 *
 * For every op the harness
 *   1. asks an independent reference kept here in C (plain arrays; written from the documented behaviour, not from the
 *      Lean model) what the outcome must be: which exception, or the new contents;
 *   2. takes the canonical dump of the object through the public interface (len + get/iteration) and through the
 *      private structs, applies the op on the real library under V_TRY, and dumps again;
 *   3. prints `O <result> | <white-box dump>` (compared verbatim with the Lean model) and `X sig=…` whenever the
 *      direct oracle fails: wrong/missing/spurious exception (…-exc), a failed op that changed the object
 *      (c12-<kind>-<op>), a valid op whose result differs from the reference (…-ref), public and private view
 *      disagree (…-inconsistent), a crash in a forked probe (…-crash).
 * Known findings are reported with their own signatures (kf-c12-…).
 *   4. "left exactly as it was" is decided on the representation the caller can observe, not only on the sorted contents: before
 *      every op on a container / String a snapshot (`Rep`) is taken of (a) len, (b) the values read through get, (c) the order in
 *      which iteration yields the elements (keys), (d) the addresses get / iteration / c_str hand out (a reference obtained before a
 *      refused call must stay valid), and white-box (e) the capacity / slot count and the backing block.  When the op raises and
 *      the contents are what they were, the snapshots are compared: `X sig=c12-refused-reordered` (c), `sig=c12-refused-moved-storage`
 *      (d), `sig=c12-refused-capacity` (e), `sig=c12-refused-len` (a).  One reading is built in: a container that had no element
 *      storage at all (0 slots, NULL block, no elements: a Table emptied by resize(t, 0)) and acquires its first block during a
 *      refused call has lost nothing a caller could hold — reported as an `I` line (Table_Set allocates the first slot before
 *      Table_Set_Move casts; `C12_table_slots_refuted`).
 *      The O line of a Table carries `mv=1` when the op replaced the slot array (`t->data` differs from before the call:
 *      Table_Rehash allocates the new block before it frees the old one, Table_Clear leaves NULL), which the model predicts
 *      (`Tab.moves`).
 * Range/Slice `get` runs first in a forked child: a signed overflow in Range_Get (undefined behaviour, the defect repaired by
 * fix 81e7452) kills the child under UBSan and is reported as an ordinary violation (c12-range-get-crash).
 * A Range takes any int64 start / stop / step for which Range_Len itself does not overflow (range_len_ok). */
#include "common.h"
#include <inttypes.h>
#include <signal.h>

struct Plain { int64_t n; };
var Plain = Cello(Plain);

/* ------------------------------------------------------------------------------------------------ values */
typedef struct { char tag; int64_t i; char s[24]; } HVal;   /* tag: i s p N  Z(zeroed String slot)  ?(other) */

static int is_alnum_str(const char* s) { for (; *s; s++) if (!((*s >= '0' && *s <= '9') || (*s >= 'a' && *s <= 'z') || (*s >= 'A' && *s <= 'Z'))) return 0; return 1; }

static int parse_i64(const char* s, int64_t* out) {
  if (!*s) return 0;
  const char* p = s; int neg = 0; if (*p == '-') { neg = 1; p++; }
  if (!*p) return 0;
  unsigned __int128 v = 0; int nd = 0;
  for (; *p; p++) { if (*p < '0' || *p > '9') return 0; v = v * 10 + (unsigned)(*p - '0'); if (++nd > 20) return 0; }
  unsigned __int128 lim = neg ? ((unsigned __int128)1 << 63) : (((unsigned __int128)1 << 63) - 1);
  if (v > lim) return 0;
  *out = neg ? (int64_t)(-(__int128)v) : (int64_t)v;
  return 1;
}

static int parse_val(const char* t, HVal* v) {
  memset(v, 0, sizeof *v);
  if (strcmp(t, "N") == 0) { v->tag = 'N'; return 1; }
  if (t[0] == 'i') { v->tag = 'i'; return parse_i64(t + 1, &v->i); }
  if (t[0] == 'p') { v->tag = 'p'; return parse_i64(t + 1, &v->i) && v->i >= -1000000 && v->i <= 1000000; }
  if (t[0] == 's') { if (strlen(t + 1) > 16 || !is_alnum_str(t + 1)) return 0; v->tag = 's'; strcpy(v->s, t + 1); return 1; }
  return 0;
}
static int parse_ty(const char* t) { return strcmp(t, "int") == 0 ? 'i' : strcmp(t, "str") == 0 ? 's' : strcmp(t, "plain") == 0 ? 'p' : 0; }
static int parse_alloc(const char* t) { return strcmp(t, "heap") == 0 ? AllocHeap : strcmp(t, "stack") == 0 ? AllocStack : strcmp(t, "static") == 0 ? AllocStatic : 0; }
static const char* alloc_name(int a) { return a == AllocHeap ? "heap" : a == AllocStack ? "stack" : a == AllocStatic ? "static" : "data"; }
static int parse_nat(const char* t, long* out) { if (!*t) return 0; long v = 0; for (const char* p = t; *p; p++) { if (*p < '0' || *p > '9') return 0; v = v * 10 + (*p - '0'); if (v > 100000000) return 0; } *out = v; return 1; }
static int parse_small(const char* t, int64_t* out) { return parse_i64(t, out) && *out >= -1000000 && *out <= 1000000; }

static var ty_type(int ty) { return ty == 'i' ? Int : ty == 's' ? String : ty == 'p' ? Plain : NULL; }
static const char* type_label(var t) {
  if (t == Int) return "Int"; if (t == String) return "String"; if (t == Plain) return "Plain"; if (t == Ref) return "Ref";
  return "?";
}
static int val_has_ty(const HVal* v, int ty) { return v->tag == ty; }

/* a fresh heap object for a value (the collector is stopped: nothing is ever reclaimed behind our back) */
static var mk(const HVal* v) {
  switch (v->tag) {
    case 'i': return new(Int, $I(v->i));
    case 's': return new(String, $S((char*)v->s));
    case 'p': { struct Plain* p = alloc_raw(Plain); p->n = v->i; return p; }
    default: return NULL;
  }
}
static void rd(var o, HVal* v) {
  memset(v, 0, sizeof *v);
  if (o == NULL) { v->tag = 'N'; return; }
  var t = type_of(o);
  if (t == Int) { v->tag = 'i'; v->i = ((struct Int*)o)->val; }
  else if (t == String) { char* s = ((struct String*)o)->val; if (!s) v->tag = 'Z'; else { v->tag = 's'; snprintf(v->s, sizeof v->s, "%s", s); } }
  else if (t == Plain) { v->tag = 'p'; v->i = ((struct Plain*)o)->n; }
  else v->tag = '?';
}
static int val_text(const HVal* v, char* out) {
  switch (v->tag) {
    case 'i': return sprintf(out, "i%" PRId64, v->i);
    case 'p': return sprintf(out, "p%" PRId64, v->i);
    case 's': return sprintf(out, "s%s", v->s);
    case 'N': return sprintf(out, "N");
    case 'Z': return sprintf(out, "s<NULL>");
    default:  return sprintf(out, "?");
  }
}
static int val_eq(const HVal* a, const HVal* b) { return a->tag == b->tag && a->i == b->i && strcmp(a->s, b->s) == 0; }
static int key_cmp(const HVal* a, const HVal* b) {
  if (a->tag == 'i' && b->tag == 'i') return a->i < b->i ? -1 : a->i > b->i;
  return strcmp(a->s, b->s);
}

/* ------------------------------------------------------------------------------------------------ objects */
enum { K_NONE, K_ARR, K_LST, K_TUP, K_TAB, K_TRE, K_STR, K_RNG, K_SLC, K_ZIP, K_VAL, K_NARR, K_NLST, K_JUNK };
static const char* kind_name[] = { "none", "array", "list", "tuple", "table", "tree", "string", "range", "slice", "zip", "value", "narray", "nlist", "junk" };
#define NEST(h) ((h)->kind == K_NARR || (h)->kind == K_NLST)
#define CMAX 16
#define MAXNEST 64
typedef struct { int n; int64_t v[CMAX]; } CVal;            /* a container of Int (a Table maps each to itself) */
typedef struct { int n; CVal e[MAXNEST]; } NShadow;
#define MAXN 512
typedef struct {
  int n; HVal v[MAXN]; HVal k[MAXN];   /* sequences: v[0..n); maps: k[i] -> v[i]; strings: v[0].s is unused, text in str */
  char str[256];
} Shadow;
typedef struct {
  int kind; var obj; int alloc; int ty, kty, vty; int dead;
  int base, za, zb;                     /* slice base id, zip ids */
  int64_t r0, r1, r2;                   /* reference copy of a Range / Slice range */
  Shadow* sh;
  int ek; NShadow* nsh;                 /* nested container: element kind 'a' 'l' 't', reference contents */
  unsigned char junk_img[64];           /* junk object: image of header + body taken at construction */
  var data0;                            /* Table: `t->data` before the op being executed (at construction: the first block) */
} HObj;
#define NOBJ 64
static HObj objs[NOBJ];

/* container token: `c` followed by dot-separated ints (`c` alone: empty) */
static int parse_cval(const char* t, CVal* c) {
  memset(c, 0, sizeof *c);
  if (t[0] != 'c') return 0;
  t++; if (!*t) return 1;
  char buf[256]; if (strlen(t) >= sizeof buf) return 0; strcpy(buf, t);
  char* save; for (char* q = strtok_r(buf, ".", &save); q; q = strtok_r(NULL, ".", &save)) {
    if (c->n >= CMAX || !parse_small(q, &c->v[c->n])) return 0; c->n++; }
  /* "c1..2" or a trailing dot would be read differently by the two sides: refuse */
  if (strstr(t, "..") || t[0] == '.' || t[strlen(t) - 1] == '.') return 0;
  return 1;
}
static int parse_ek(const char* t) { return !strcmp(t, "arr") ? 'a' : !strcmp(t, "lst") ? 'l' : !strcmp(t, "tab") ? 't' : 0; }
static var ek_type(int ek) { return ek == 'a' ? Array : ek == 'l' ? List : Table; }
static const char* ek_label(int ek) { return ek == 'a' ? "Array" : ek == 'l' ? "List" : "Table"; }
/* a fresh heap container of the given kind holding the Ints of `c` */
static var mk_inner(int ek, const CVal* c) {
  var args = new(Tuple); push(args, Int); if (ek == 't') push(args, Int);
  for (int i = 0; i < c->n; i++) { push(args, new(Int, $I(c->v[i]))); if (ek == 't') push(args, new(Int, $I(c->v[i]))); }
  return new_with(ek_type(ek), args);
}
/* the reference reads a Table element as the sorted set of its keys */
static void cval_norm(int ek, CVal* c) {
  if (ek != 't') return;
  for (int i = 1; i < c->n; i++) { int64_t x = c->v[i]; int j = i - 1; while (j >= 0 && c->v[j] > x) { c->v[j+1] = c->v[j]; j--; } c->v[j+1] = x; }
  int m = 0; for (int i = 0; i < c->n; i++) if (m == 0 || c->v[m-1] != c->v[i]) c->v[m++] = c->v[i];
  c->n = m;
}

static var fake_obj(var type, size_t sz, int alloc) {
  char* m = calloc(1, sizeof(struct Header) + sz);
  return header_init(m, type, alloc);
}

/* ------------------------------------------------------------------------------------------------ dumps
 * A dump has three parts: head, extra (white-box only: capacity / scratch), tail.  O lines print head+extra+tail
 * from the private structs; the oracle compares head+tail obtained through the public interface. */
typedef struct { char head[128]; char extra[64]; char tail[8192]; } Dump;

static void pairs_sort(HVal* k, HVal* v, int n) {
  for (int i = 1; i < n; i++) { HVal kk = k[i], vv = v[i]; int j = i - 1;
    while (j >= 0 && key_cmp(&kk, &k[j]) < 0) { k[j+1] = k[j]; v[j+1] = v[j]; j--; } k[j+1] = kk; v[j+1] = vv; }
}
static void seq_tail(char* out, const HVal* v, int n) {
  char* p = out; *p++ = ' '; *p++ = '[';
  for (int i = 0; i < n; i++) { if (i) *p++ = ','; p += val_text(&v[i], p); if (p - out > 8000) break; }
  *p++ = ']'; *p = 0;
}
static void map_tail(char* out, HVal* k, HVal* v, int n) {
  pairs_sort(k, v, n);
  char* p = out; *p++ = ' '; *p++ = '{';
  for (int i = 0; i < n; i++) { if (i) *p++ = ','; p += val_text(&k[i], p); *p++ = ':'; p += val_text(&v[i], p); if (p - out > 8000) break; }
  *p++ = '}'; *p = 0;
}

static HVal tk[MAXN], tv[MAXN];
static int tree_walk(struct Tree* m, var node, int n) {
  if (!node || n >= MAXN) return n;
  n = tree_walk(m, *Tree_Left(m, node), n);
  if (n < MAXN) { rd(Tree_Key(m, node), &tk[n]); rd(Tree_Val(m, node), &tv[n]); n++; }
  return tree_walk(m, *Tree_Right(m, node), n);
}

/* one element of a nested container, from its private struct: `<type>(<items>)` / `<ktype>:<vtype>(<k:v>…)` */
static char* inner_wb(var e, int ek, char* p) {
  if (ek == 'a') { struct Array* a = e; p += sprintf(p, "%s(", type_label(a->type));
    for (size_t i = 0; i < a->nitems && i < CMAX + 2; i++) { HVal v; rd(Array_Item(a, i), &v); if (i) *p++ = ','; p += val_text(&v, p); } }
  else if (ek == 'l') { struct List* l = e; p += sprintf(p, "%s(", type_label(l->type)); int i = 0;
    for (var it = l->head; it && i < CMAX + 2; it = *List_Next(l, it), i++) { HVal v; rd(it, &v); if (i) *p++ = ','; p += val_text(&v, p); } }
  else { struct Table* t = e; p += sprintf(p, "%s:%s(", type_label(t->ktype), type_label(t->vtype)); int n = 0; HVal ks[CMAX + 2], vs[CMAX + 2];
    for (size_t i = 0; i < t->nslots && n < CMAX + 2; i++) if (Table_Key_Hash(t, i)) { rd(Table_Key(t, i), &ks[n]); rd(Table_Val(t, i), &vs[n]); n++; }
    pairs_sort(ks, vs, n);
    for (int i = 0; i < n; i++) { if (i) *p++ = ','; p += val_text(&ks[i], p); *p++ = ':'; p += val_text(&vs[i], p); } }
  *p++ = ')'; *p = 0; return p;
}
/* the same through the public interface: iter_type / key_type, len, get, iteration */
static char* inner_pub(var e, int ek, char* p, volatile int* ok) {
  if (ek == 't') {
    p += sprintf(p, "%s:%s(", type_label(key_type(e)), type_label(val_type(e))); int n = 0; HVal ks[CMAX + 2], vs[CMAX + 2];
    foreach (k in e) { if (n < CMAX + 2) { rd(k, &ks[n]); rd(get(e, k), &vs[n]); n++; } }
    if ((size_t)n != len(e)) *ok = 0;
    pairs_sort(ks, vs, n);
    for (int i = 0; i < n; i++) { if (i) *p++ = ','; p += val_text(&ks[i], p); *p++ = ':'; p += val_text(&vs[i], p); }
  } else {
    p += sprintf(p, "%s(", type_label(iter_type(e))); size_t n = len(e), m = 0;
    for (size_t i = 0; i < n && i < CMAX + 2; i++) { HVal v; rd(get(e, $I(i)), &v); if (i) *p++ = ','; p += val_text(&v, p); }
    foreach (it in e) { HVal a, b; rd(it, &a); if (m < n) { rd(get(e, $I(m)), &b); if (!val_eq(&a, &b)) *ok = 0; } m++; if (m > CMAX + 2) break; }
    if (m != n) *ok = 0;
  }
  *p++ = ')'; *p = 0; return p;
}

/* white-box dump from the private structs */
static void dump_wb(HObj* h, Dump* d) {
  d->head[0] = d->extra[0] = d->tail[0] = 0;
  switch (h->kind) {
    case K_NARR: { struct Array* a = h->obj; sprintf(d->head, "NA %s n=%zu", ek_label(h->ek), a->nitems); sprintf(d->extra, " cap=%zu", a->nslots);
      char* p = d->tail; *p++ = ' '; *p++ = '[';
      for (size_t i = 0; i < a->nitems && i < MAXNEST; i++) { if (i) *p++ = ';'; p = inner_wb(Array_Item(a, i), h->ek, p); }
      *p++ = ']'; *p = 0; break; }
    case K_NLST: { struct List* l = h->obj; sprintf(d->head, "NL %s n=%zu", ek_label(h->ek), l->nitems);
      char* p = d->tail; *p++ = ' '; *p++ = '['; int i = 0;
      for (var it = l->head; it && i < MAXNEST; it = *List_Next(l, it), i++) { if (i) *p++ = ';'; p = inner_wb(it, h->ek, p); }
      *p++ = ']'; *p = 0; break; }
    case K_JUNK: sprintf(d->head, "J %s", h->ek == 'd' ? "dead" : "bad"); break;
    case K_ARR: { struct Array* a = h->obj; int n = (int)a->nitems; if (n > MAXN) n = MAXN;
      sprintf(d->head, "A %s n=%zu", type_label(a->type), a->nitems); sprintf(d->extra, " cap=%zu", a->nslots);
      for (int i = 0; i < n; i++) rd(Array_Item(a, i), &tv[i]);
      seq_tail(d->tail, tv, n); break; }
    case K_LST: { struct List* l = h->obj; int n = 0;
      for (var it = l->head; it && n < MAXN; it = *List_Next(l, it)) rd(it, &tv[n++]);
      sprintf(d->head, "L %s n=%zu", type_label(l->type), l->nitems); seq_tail(d->tail, tv, n); break; }
    case K_TUP: { struct Tuple* t = h->obj; int n = 0;
      while (t->items && t->items[n] != Terminal && n < MAXN) { rd(t->items[n], &tv[n]); n++; }
      sprintf(d->head, "T %s n=%d", alloc_name((int)(intptr_t)header(h->obj)->alloc), n); seq_tail(d->tail, tv, n); break; }
    case K_TAB: { struct Table* t = h->obj; int n = 0;
      for (size_t i = 0; i < t->nslots && n < MAXN; i++) if (Table_Key_Hash(t, i)) { rd(Table_Key(t, i), &tk[n]); rd(Table_Val(t, i), &tv[n]); n++; }
      sprintf(d->head, "H %s %s n=%zu", type_label(t->ktype), type_label(t->vtype), t->nitems); sprintf(d->extra, " slots=%zu mv=%d", t->nslots, t->data != h->data0);
      map_tail(d->tail, tk, tv, n); break; }
    case K_TRE: { struct Tree* m = h->obj; int n = tree_walk(m, m->root, 0);
      sprintf(d->head, "R %s %s n=%zu", type_label(m->ktype), type_label(m->vtype), m->nitems); map_tail(d->tail, tk, tv, n); break; }
    case K_STR: { struct String* s = h->obj;
      sprintf(d->head, "S %s len=%zu", alloc_name((int)(intptr_t)header(h->obj)->alloc), strlen(s->val)); snprintf(d->tail, 4096, " \"%s\"", s->val); break; }
    case K_RNG: { struct Range* r = h->obj;
      sprintf(d->head, "G %" PRId64 " %" PRId64 " %" PRId64, r->start, r->stop, r->step); sprintf(d->extra, " val=%" PRId64, ((struct Int*)r->value)->val); break; }
    case K_SLC: { struct Slice* s = h->obj; struct Range* r = s->range;
      sprintf(d->head, "C %d %" PRId64 " %" PRId64 " %" PRId64, h->base, r->start, r->stop, r->step); sprintf(d->extra, " val=%" PRId64, ((struct Int*)r->value)->val); break; }
    case K_ZIP: sprintf(d->head, "Z %d %d", h->za, h->zb); break;
    case K_VAL: { HVal v; rd(h->obj, &v); char b[64]; val_text(&v, b); sprintf(d->head, "V %s %s", alloc_name((int)(intptr_t)header(h->obj)->alloc), b); break; }
  }
}

/* the same dump obtained through the public interface only: len, get, iteration.  Returns 0 when the interface itself
   raised (reported by the caller). */
static int dump_pub(HObj* h, Dump* d) {
  d->head[0] = d->extra[0] = d->tail[0] = 0;
  var exc = NULL; volatile int ok = 1;
  switch (h->kind) {
    case K_ARR: case K_LST: case K_TUP: {
      volatile size_t n = 0; volatile int m = 0;
      V_TRY(exc, {
        n = len(h->obj);
        for (size_t i = 0; i < n && i < MAXN; i++) rd(get(h->obj, $I(i)), &tv[i]);
        /* iteration must yield the same objects */
        foreach (it in h->obj) { HVal x; rd(it, &x); if (m < MAXN && !val_eq(&x, &tv[m])) ok = 0; m++; if (m > MAXN) break; }
        if ((size_t)m != n) ok = 0;
        /* negative indices address the same elements */
        for (size_t i = 0; i < n && i < MAXN; i++) { HVal x; rd(get(h->obj, $I(-(int64_t)(n - i))), &x); if (!val_eq(&x, &tv[i])) ok = 0; }
      });
      if (exc) return 0;
      if (h->kind == K_ARR) sprintf(d->head, "A %s n=%zu", type_label(iter_type(h->obj)), (size_t)n);
      else if (h->kind == K_LST) sprintf(d->head, "L %s n=%zu", type_label(iter_type(h->obj)), (size_t)n);
      else sprintf(d->head, "T %s n=%zu", alloc_name(h->alloc), (size_t)n);
      seq_tail(d->tail, tv, n > MAXN ? MAXN : (int)n);
      return ok; }
    case K_TAB: case K_TRE: {
      volatile size_t n = 0; volatile int m = 0;
      V_TRY(exc, {
        n = len(h->obj);
        foreach (key in h->obj) { if (m < MAXN) { rd(key, &tk[m]); var kc = mk(&tk[m]); rd(get(h->obj, kc), &tv[m]); if (!mem(h->obj, kc)) ok = 0; } m++; if (m > MAXN) break; }
        if ((size_t)m != n) ok = 0;
      });
      if (exc) return 0;
      sprintf(d->head, "%c %s %s n=%zu", h->kind == K_TAB ? 'H' : 'R', type_label(key_type(h->obj)), type_label(val_type(h->obj)), (size_t)n);
      map_tail(d->tail, tk, tv, m > MAXN ? MAXN : m);
      return ok; }
    case K_STR: {
      volatile size_t n = 0; char* volatile s = NULL;
      V_TRY(exc, { n = len(h->obj); s = c_str(h->obj); });
      if (exc) return 0;
      sprintf(d->head, "S %s len=%zu", alloc_name(h->alloc), (size_t)n); snprintf(d->tail, 4096, " \"%s\"", s);
      return strlen(s) == n; }
    case K_NARR: case K_NLST: {
      volatile size_t n = 0; volatile int m = 0; char* volatile p = d->tail;
      V_TRY(exc, {
        n = len(h->obj);
        if (type_of(h->obj) != (h->kind == K_NARR ? Array : List) || iter_type(h->obj) != ek_type(h->ek)) ok = 0;
        *p++ = ' '; *p++ = '[';
        for (size_t i = 0; i < n && i < MAXNEST; i++) { if (i) *p++ = ';'; p = inner_pub(get(h->obj, $I(i)), h->ek, p, &ok); }
        *p++ = ']'; *p = 0;
        foreach (it in h->obj) { if ((size_t)m < n && it != get(h->obj, $I(m))) ok = 0; m++; if (m > MAXNEST) break; }
        if ((size_t)m != n) ok = 0;
      });
      if (exc) return 0;
      sprintf(d->head, "%s %s n=%zu", h->kind == K_NARR ? "NA" : "NL", ek_label(h->ek), (size_t)n);
      return ok; }
    case K_JUNK: { Dump w; dump_wb(h, &w); strcpy(d->head, w.head);
      /* "changes nothing": the bytes of the junk object are what they were at construction */
      return memcmp((char*)h->obj - sizeof(struct Header), h->junk_img, sizeof(struct Header) + sizeof(struct Int)) == 0; }
    default: { Dump w; dump_wb(h, &w); strcpy(d->head, w.head); strcpy(d->tail, w.tail); return 1; }
  }
}

/* dump of the reference */
static void dump_ref(HObj* h, Dump* d) {
  d->head[0] = d->extra[0] = d->tail[0] = 0;
  Shadow* s = h->sh;
  switch (h->kind) {
    case K_ARR: sprintf(d->head, "A %s n=%d", type_label(ty_type(h->ty)), s->n); seq_tail(d->tail, s->v, s->n); break;
    case K_LST: sprintf(d->head, "L %s n=%d", type_label(ty_type(h->ty)), s->n); seq_tail(d->tail, s->v, s->n); break;
    case K_TUP: sprintf(d->head, "T %s n=%d", alloc_name(h->alloc), s->n); seq_tail(d->tail, s->v, s->n); break;
    case K_TAB: case K_TRE:
      sprintf(d->head, "%c %s %s n=%d", h->kind == K_TAB ? 'H' : 'R', type_label(ty_type(h->kty)), type_label(ty_type(h->vty)), s->n);
      map_tail(d->tail, s->k, s->v, s->n); break;
    case K_STR: sprintf(d->head, "S %s len=%zu", alloc_name(h->alloc), strlen(s->str)); snprintf(d->tail, 4096, " \"%s\"", s->str); break;
    case K_NARR: case K_NLST: { NShadow* ns = h->nsh;
      sprintf(d->head, "%s %s n=%d", h->kind == K_NARR ? "NA" : "NL", ek_label(h->ek), ns->n);
      char* p = d->tail; *p++ = ' '; *p++ = '[';
      for (int i = 0; i < ns->n; i++) { if (i) *p++ = ';';
        p += sprintf(p, h->ek == 't' ? "Int:Int(" : "Int(");
        for (int j = 0; j < ns->e[i].n; j++) { if (j) *p++ = ','; p += h->ek == 't' ? sprintf(p, "i%" PRId64 ":i%" PRId64, ns->e[i].v[j], ns->e[i].v[j]) : sprintf(p, "i%" PRId64, ns->e[i].v[j]); }
        *p++ = ')'; }
      *p++ = ']'; *p = 0; break; }
    default: { Dump w; dump_wb(h, &w); strcpy(d->head, w.head); strcpy(d->tail, w.tail); }
  }
}
/* re-read the reference from the real object (after a reported failure, so that one defect is reported once) */
static void nshadow_sync(HObj* h);
static void shadow_sync(HObj* h) {
  if (NEST(h)) { nshadow_sync(h); return; }
  Shadow* s = h->sh; if (!s) return;
  switch (h->kind) {
    case K_ARR: { struct Array* a = h->obj; s->n = (int)(a->nitems > MAXN ? MAXN : a->nitems); for (int i = 0; i < s->n; i++) rd(Array_Item(a, i), &s->v[i]); break; }
    case K_LST: { struct List* l = h->obj; s->n = 0; for (var it = l->head; it && s->n < MAXN; it = *List_Next(l, it)) rd(it, &s->v[s->n++]); break; }
    case K_TUP: { struct Tuple* t = h->obj; s->n = 0; while (t->items[s->n] != Terminal && s->n < MAXN) { rd(t->items[s->n], &s->v[s->n]); s->n++; } break; }
    case K_TAB: { struct Table* t = h->obj; s->n = 0; for (size_t i = 0; i < t->nslots && s->n < MAXN; i++) if (Table_Key_Hash(t, i)) { rd(Table_Key(t, i), &s->k[s->n]); rd(Table_Val(t, i), &s->v[s->n]); s->n++; } break; }
    case K_TRE: { struct Tree* m = h->obj; s->n = tree_walk(m, m->root, 0); memcpy(s->k, tk, sizeof(HVal) * s->n); memcpy(s->v, tv, sizeof(HVal) * s->n); break; }
    case K_STR: snprintf(s->str, sizeof s->str, "%s", ((struct String*)h->obj)->val); break;
  }
}
static void cval_read(var e, int ek, CVal* c) {
  c->n = 0;
  if (ek == 'a') { struct Array* a = e; for (size_t i = 0; i < a->nitems && c->n < CMAX; i++) { HVal v; rd(Array_Item(a, i), &v); c->v[c->n++] = v.i; } }
  else if (ek == 'l') { struct List* l = e; for (var it = l->head; it && c->n < CMAX; it = *List_Next(l, it)) { HVal v; rd(it, &v); c->v[c->n++] = v.i; } }
  else { struct Table* t = e; for (size_t i = 0; i < t->nslots && c->n < CMAX; i++) if (Table_Key_Hash(t, i)) { HVal v; rd(Table_Key(t, i), &v); c->v[c->n++] = v.i; } cval_norm('t', c); }
}
static void nshadow_sync(HObj* h) {
  NShadow* ns = h->nsh; ns->n = 0;
  if (h->kind == K_NARR) { struct Array* a = h->obj; for (size_t i = 0; i < a->nitems && ns->n < MAXNEST; i++) cval_read(Array_Item(a, i), h->ek, &ns->e[ns->n++]); }
  else { struct List* l = h->obj; for (var it = l->head; it && ns->n < MAXNEST; it = *List_Next(l, it)) cval_read(it, h->ek, &ns->e[ns->n++]); }
}

/* ------------------------------------------------------------------------------------------------ representation snapshot
 * What the caller of a refused operation can still hold and look at.  Through the public interface: (a) len, (b) the values
 * read through get, (c) the order in which iteration yields the elements (the keys of a Table / Tree), (d) the addresses that
 * iteration and get (c_str for a String) return — references handed out before the call.  White-box: (e) capacity / slot count
 * and the backing block (Array data, Table data, Tuple items, String val; first node of a List, root of a Tree). */
#if defined(__has_feature)
# if __has_feature(address_sanitizer)
#  include <sanitizer/asan_interface.h>
#  define V_FREED(p) ((p) != NULL && __asan_address_is_poisoned(p))
# endif
#endif
#ifndef V_FREED
# define V_FREED(p) 0
#endif
typedef struct {
  int ok;                                  /* the public interface answered while the snapshot was taken */
  size_t len; int n;                       /* len(); elements recorded (at most MAXN) */
  HVal itv[MAXN]; var itp[MAXN];           /* iteration order: value (key) and address of each element */
  HVal gv[MAXN]; var gp[MAXN];             /* get(i) / get(key i): value and address */
  int has_cap; size_t cap; var block;      /* white-box */
} Rep;
static Rep rep0, rep1;
static int rep_kind(int kind) { return kind == K_ARR || kind == K_LST || kind == K_TUP || kind == K_TAB || kind == K_TRE || kind == K_STR || kind == K_NARR || kind == K_NLST; }
static const char* cap_word(int kind) { return kind == K_TAB ? "slots" : "capacity"; }

static void rep_take(HObj* h, Rep* r) {
  r->ok = 0; r->len = 0; r->n = 0; r->has_cap = 0; r->cap = 0; r->block = NULL;
  if (!rep_kind(h->kind)) return;
  switch (h->kind) {
    case K_ARR: case K_NARR: { struct Array* a = h->obj; r->has_cap = 1; r->cap = a->nslots; r->block = a->data; break; }
    case K_TAB: { struct Table* t = h->obj; r->has_cap = 1; r->cap = t->nslots; r->block = t->data; break; }
    case K_TUP: r->block = ((struct Tuple*)h->obj)->items; break;
    case K_STR: r->block = ((struct String*)h->obj)->val; break;
    case K_LST: case K_NLST: r->block = ((struct List*)h->obj)->head; break;
    case K_TRE: r->block = ((struct Tree*)h->obj)->root; break;
  }
  var exc = NULL; volatile int n = 0; volatile size_t L = 0;
  if (h->kind == K_STR) {
    V_TRY(exc, { L = len(h->obj); r->gp[0] = r->itp[0] = c_str(h->obj); });
    memset(&r->itv[0], 0, sizeof(HVal)); memset(&r->gv[0], 0, sizeof(HVal)); n = 1;
  } else if (h->kind == K_TAB || h->kind == K_TRE) {
    V_TRY(exc, {
      L = len(h->obj);
      foreach (key in h->obj) {
        if (n < MAXN) { rd(key, &r->itv[n]); r->itp[n] = key; var kc = mk(&r->itv[n]); var v = get(h->obj, kc); rd(v, &r->gv[n]); r->gp[n] = v; }
        n++; if (n > MAXN) break; }
    });
  } else {
    V_TRY(exc, {
      L = len(h->obj);
      foreach (it in h->obj) { if (n < MAXN) { rd(it, &r->itv[n]); r->itp[n] = it; } n++; if (n > MAXN) break; }
      for (size_t i = 0; i < L && i < MAXN && i < (size_t)n; i++) { var e = get(h->obj, $I(i)); rd(e, &r->gv[i]); r->gp[i] = e; }
    });
  }
  r->len = L; r->n = n > MAXN ? MAXN : n; r->ok = exc == NULL;
}

/* compares the snapshots taken before and after an op that raised `got` and left the (sorted) contents alone; prints one X line
   per category that differs and returns their number */
static int rep_compare(HObj* h, const Rep* a, const Rep* b, const char* on, const char* got, int lineno, const char* kf) {
  const char* kn = kind_name[h->kind]; int nx = 0;
  const char* s_len = kf ? kf : "c12-refused-len", *s_ord = kf ? kf : "c12-refused-reordered", *s_adr = kf ? kf : "c12-refused-moved-storage", *s_cap = kf ? kf : "c12-refused-capacity";
  if (!a->ok || !b->ok) return 0;
  if (a->len != b->len || a->n != b->n) {
    X("sig=%s line=%d what=%s %s raised %s and len / the number of elements iteration yields changed: %zu / %d -> %zu / %d", s_len, lineno, kn, on, got, a->len, a->n, b->len, b->n);
    return 1; }
  int ord = -1, adr = -1, nadr = 0, freed = 0;
  for (int i = 0; i < a->n; i++) {
    if (ord < 0 && (!val_eq(&a->itv[i], &b->itv[i]) || !val_eq(&a->gv[i], &b->gv[i]))) ord = i;
    if (a->itp[i] != b->itp[i] || a->gp[i] != b->gp[i]) { if (adr < 0) adr = i; nadr++; if (V_FREED(a->itp[i]) || V_FREED(a->gp[i])) freed++; }
  }
  if (ord >= 0) {
    char x[64], y[64]; val_text(&a->itv[ord], x); val_text(&b->itv[ord], y);
    X("sig=%s line=%d what=%s %s raised %s: len and contents are what they were, but iteration now yields %s at position %d where it yielded %s before the call (n=%d)", s_ord, lineno, kn, on, got, y, ord, x, a->n);
    nx++; }
  if (adr >= 0) {
    char x[64]; val_text(h->kind == K_STR ? &a->gv[0] : &a->itv[adr], x);
    X("sig=%s line=%d what=%s %s raised %s and moved the element storage: %d of %d references returned by get / iteration before the call (first: position %d, %s) are not where the element is now%s", s_adr, lineno, kn, on, got, nadr, a->n, adr, h->kind == K_STR ? "c_str" : x, freed ? "; the old storage has been freed (use after free for whoever kept a reference)" : "");
    nx++; }
  if ((a->has_cap && a->cap != b->cap) || a->block != b->block) {
    if (a->has_cap && a->cap == 0 && a->block == NULL && a->len == 0)
      I("line=%d %s %s raised %s on an object without element storage and allocated its first block (%s 0 -> %zu)", lineno, kn, on, got, cap_word(h->kind), b->cap);
    else {
      char capt[80] = ""; if (a->has_cap) snprintf(capt, sizeof capt, "%s %zu -> %zu, ", cap_word(h->kind), a->cap, b->cap);
      X("sig=%s line=%d what=%s %s raised %s and replaced the backing store: %sblock %s%s", s_cap, lineno, kn, on, got, capt,
        a->block != b->block ? "reallocated" : "kept", a->block != b->block && V_FREED(a->block) ? " (old block freed)" : "");
      nx++; }
  }
  return nx;
}

/* ------------------------------------------------------------------------------------------------ ops */
enum { OP_GET, OP_SET, OP_MEM, OP_REM, OP_PUSH, OP_PUSHAT, OP_POP, OP_POPAT, OP_RESIZE, OP_LEN, OP_CONCAT, OP_APPEND, OP_ASSIGN,
       OP_PRINT, OP_TYPEOF, OP_CAST, OP_DEALLOC, OP_DEALLOCELEM, OP_GETK, OP_GETV, OP_SORT, OP_ASSIGNSELF, OP_NOPS };
static const char* op_name[] = { "get", "set", "mem", "rem", "push", "pushat", "pop", "popat", "resize", "len", "concat", "append", "assign",
       "print", "typeof", "cast", "dealloc", "deallocelem", "getk", "getv", "sort", "assignself" };
typedef struct {
  int code; HVal a, b; long n;
  int src_cont; CVal cv;           /* set / push / pushat on a nested container: the source is a container token */
  int src_id;                      /* concat: object id, or -1 when `a` is the (scalar) source */
  int nfmt; char fkind[16]; char ftext[16][20]; int nargs; HVal args[16];
  char tname[24];
} Op;

static const char* E_IOOB = "IndexOutOfBoundsError", *E_KEY = "KeyError", *E_VALUE = "ValueError", *E_TYPE = "TypeError",
  *E_CLASS = "ClassError", *E_FORMAT = "FormatError", *E_RES = "ResourceError";

static int parse_op(int code, char** w, int nw, Op* op) {   /* w: tokens after the object id */
  memset(op, 0, sizeof *op); op->code = code; op->src_id = -1;
  switch (code) {
    case OP_PUSH: case OP_APPEND:
      if (nw == 1 && w[0][0] == 'c') { op->src_cont = 1; return parse_cval(w[0], &op->cv); }
      return nw == 1 && parse_val(w[0], &op->a);
    case OP_GET: case OP_MEM: case OP_REM: case OP_POPAT: case OP_ASSIGN: case OP_GETK: case OP_GETV:
      return nw == 1 && parse_val(w[0], &op->a);
    case OP_SET:                                                                             /* a = key, b = value */
      if (nw == 2 && w[1][0] == 'c') { op->src_cont = 1; return parse_val(w[0], &op->a) && parse_cval(w[1], &op->cv); }
      return nw == 2 && parse_val(w[0], &op->a) && parse_val(w[1], &op->b);
    case OP_PUSHAT:                                                                          /* b = value, a = key */
      if (nw == 2 && w[0][0] == 'c') { op->src_cont = 1; return parse_cval(w[0], &op->cv) && parse_val(w[1], &op->a); }
      return nw == 2 && parse_val(w[0], &op->b) && parse_val(w[1], &op->a);
    case OP_POP: case OP_LEN: case OP_TYPEOF: case OP_DEALLOC: case OP_SORT: case OP_ASSIGNSELF: return nw == 0;
    case OP_RESIZE: return nw == 1 && parse_nat(w[0], &op->n) && op->n <= 64;
    case OP_DEALLOCELEM: return nw == 1 && parse_nat(w[0], &op->n);
    case OP_CAST: if (nw != 1 || strlen(w[0]) > 20) return 0; strcpy(op->tname, w[0]); return 1;
    case OP_CONCAT: {
      if (nw != 1) return 0; long id;
      if (parse_nat(w[0], &id)) { if (id >= NOBJ) return 0; op->src_id = (int)id; return 1; }
      return parse_val(w[0], &op->a); }
    case OP_PRINT: {
      if (nw < 2 || !parse_nat(w[0], &op->n) || op->n > 64) return 0;
      int i = 1;
      for (; i < nw && strcmp(w[i], "|") != 0; i++) {
        if (op->nfmt >= 16) return 0;
        if (strcmp(w[i], "D") == 0 || strcmp(w[i], "S") == 0 || strcmp(w[i], "Q") == 0) op->fkind[op->nfmt++] = w[i][0];
        else if (w[i][0] == 'L' && strlen(w[i]) >= 2 && strlen(w[i]) <= 17 && is_alnum_str(w[i] + 1)) { op->fkind[op->nfmt] = 'L'; strcpy(op->ftext[op->nfmt], w[i] + 1); op->nfmt++; }
        else return 0;
      }
      if (i >= nw) return 0;     /* the `|` is mandatory */
      for (i++; i < nw; i++) { if (op->nargs >= 16 || !parse_val(w[i], &op->args[op->nargs]) || op->args[op->nargs].tag == 'p') return 0; op->nargs++; }
      return 1; }
  }
  return 0;
}

static var type_by_name(const char* n) {
  if (!strcmp(n, "Int")) return Int; if (!strcmp(n, "String")) return String; if (!strcmp(n, "Array")) return Array;
  if (!strcmp(n, "List")) return List; if (!strcmp(n, "Tuple")) return Tuple; if (!strcmp(n, "Table")) return Table;
  if (!strcmp(n, "Tree")) return Tree; if (!strcmp(n, "Range")) return Range; if (!strcmp(n, "Slice")) return Slice;
  if (!strcmp(n, "Zip")) return Zip; if (!strcmp(n, "Plain")) return Plain; if (!strcmp(n, "Float")) return Float;
  return NULL;
}
static const char* obj_type_name(HObj* h) {
  switch (h->kind) { case K_ARR: return "Array"; case K_LST: return "List"; case K_TUP: return "Tuple"; case K_TAB: return "Table";
    case K_TRE: return "Tree"; case K_STR: return "String"; case K_RNG: return "Range"; case K_SLC: return "Slice"; case K_ZIP: return "Zip";
    case K_VAL: return h->ty == 'i' ? "Int" : "Plain";
    case K_NARR: return "Array"; case K_NLST: return "List"; }
  return "?";
}

/* ------------------------------------------------------------------------------------------------ reference semantics
 * ref_apply computes, on the reference state, what the documented behaviour of the op is: returns the name of the
 * exception that must be raised (NULL = must succeed); on success updates the reference contents and fills `ret`.
 * `from_assign` is set when the failure is the element assignment of an Array push (territory of finding F15). */
typedef struct { char text[256]; int from_assign; int no_expectation; int fail_seg; } RefOut;   /* fail_seg: print — the format item at which the reference refuses (-1: none) */

static const char* ref_index(int n, const HVal* k, int* idx) {       /* index outside [-n, n) */
  if (k->tag == 'N') return E_VALUE;
  if (k->tag != 'i') return E_CLASS;
  __int128 i = k->i; if (i < -(__int128)n || i >= n) return E_IOOB;
  *idx = (int)(i < 0 ? n + i : i); return NULL;
}
static const char* ref_assign(int ty, const HVal* v) {               /* element of the wrong type */
  if (v->tag == 'N') return E_VALUE;
  if (v->tag == ty) return NULL;
  return ty == 'p' ? E_TYPE : E_CLASS;
}
static const char* ref_eq(const HVal* self, const HVal* obj, int* res) {
  if (self->tag == 'N') return E_VALUE;
  if (obj->tag == 'N') return E_VALUE;
  if (self->tag != obj->tag) return self->tag == 'p' ? E_TYPE : E_CLASS;
  *res = val_eq(self, obj); return NULL;
}
static const char* ref_find(Shadow* s, const HVal* obj, int self_is_elem, int* at) {
  *at = -1;
  for (int i = 0; i < s->n; i++) { int r = 0; const char* e = self_is_elem ? ref_eq(&s->v[i], obj, &r) : ref_eq(obj, &s->v[i], &r); if (e) return e; if (r) { *at = i; return NULL; } }
  return NULL;
}
static void sh_insert(Shadow* s, int i, const HVal* v) { if (s->n >= MAXN) return; memmove(&s->v[i+1], &s->v[i], sizeof(HVal) * (s->n - i)); s->v[i] = *v; s->n++; }
static void sh_remove(Shadow* s, int i) { memmove(&s->v[i], &s->v[i+1], sizeof(HVal) * (s->n - i - 1)); s->n--; }
static int map_find(Shadow* s, const HVal* k) { for (int i = 0; i < s->n; i++) if (val_eq(&s->k[i], k)) return i; return -1; }
static const char* ref_cast(int ty, const HVal* v) { return v->tag == ty ? NULL : E_VALUE; }
static int nonheap(HObj* h) { return h->alloc == AllocStack || h->alloc == AllocStatic; }
static HVal zero_of(int ty) { HVal z; memset(&z, 0, sizeof z); z.tag = (char)ty; return z; }

/* number of elements of range(start, stop, step), from the definition: the values start, start+|step|, … below stop
   (a negative step enumerates the same count downwards from stop-1); step 0 has none.  128-bit arithmetic: exact for
   every int64 triple. */
static __int128 ref_range_len(int64_t start, int64_t stop, int64_t step) {
  if (step == 0 || stop <= start) return 0;
  __int128 width = (__int128)stop - start, s = step > 0 ? (__int128)step : -(__int128)step;
  return (width + s - 1) / s;                      /* ceil(width / |step|) */
}
/* Range_Len computes ((stop-1) - start) / ±step + 1 in int64_t: the triples for which none of that overflows */
static int range_len_ok(int64_t start, int64_t stop, int64_t step) {
  if (step == 0 || stop <= start) return 1;
  if ((__int128)stop - 1 - start > INT64_MAX) return 0;
  if (step == INT64_MIN) return 0;
  return ref_range_len(start, stop, step) <= INT64_MAX;
}
static int range_small(int64_t a, int64_t b, int64_t c) { return a >= -1000000 && a <= 1000000 && b >= -1000000 && b <= 1000000 && c >= -1000000 && c <= 1000000; }
/* documented: an index outside [-len, len) raises IndexOutOfBoundsError — for every range (step 0: every index) and every
   int64 index; inside, element number i (from the end when negative) */
static const char* ref_range_get(int64_t start, int64_t stop, int64_t step, const HVal* k, int64_t* out) {
  if (k->tag == 'N') return E_VALUE; if (k->tag != 'i') return E_CLASS;
  __int128 L = ref_range_len(start, stop, step); __int128 i = k->i;
  if (i < -L || i >= L) return E_IOOB;
  if (i < 0) i += L;
  *out = step > 0 ? (int64_t)(start + (__int128)step * i) : (int64_t)((__int128)stop - 1 + (__int128)step * i);
  return NULL;
}
static Shadow* seq_shadow(int id) { HObj* b = &objs[id]; return (b->kind == K_ARR || b->kind == K_LST || b->kind == K_TUP) ? b->sh : NULL; }

static const char* ref_print(HObj* h, Op* op, RefOut* out) {
  /* String sink: every segment needs a heap String; a directive needs an argument of the right type */
  if (h->kind != K_STR) { if (op->nfmt == 0) { strcpy(out->text, "0"); return NULL; } return E_CLASS; }
  char buf[512]; size_t bl = 0; int ai = 0; buf[0] = 0;
  for (int i = 0; i < op->nfmt; i++) {
    char seg[64] = ""; out->fail_seg = i;
    if (op->fkind[i] == 'L') strcpy(seg, op->ftext[i]);
    else {
      if (ai >= op->nargs) return E_FORMAT;
      HVal* a = &op->args[ai++];
      if (op->fkind[i] == 'D') { if (a->tag == 'N') return E_VALUE; if (a->tag != 'i') return E_CLASS; sprintf(seg, "%" PRId64, a->i); }
      else if (op->fkind[i] == 'S') { if (a->tag == 'N') return E_VALUE; if (a->tag != 's') return E_CLASS; strcpy(seg, a->s); }
      else { if (a->tag == 'i') sprintf(seg, "%" PRId64, a->i); else if (a->tag == 's') sprintf(seg, "\"%s\"", a->s); else strcpy(seg, "<NULL>"); }
    }
    if (nonheap(h)) return E_VALUE;
    bl += (size_t)snprintf(buf + bl, sizeof buf - bl, "%s", seg);
  }
  out->fail_seg = -1;
  if (op->nfmt == 0) { sprintf(out->text, "%ld", op->n); return NULL; }
  Shadow* s = h->sh; s->str[op->n] = 0; snprintf(s->str + op->n, sizeof s->str - op->n, "%s", buf);
  sprintf(out->text, "%zu", (size_t)op->n + bl);
  return NULL;
}

/* `lt` on two values of one kind: Int numerically, String by strcmp, Plain by memcmp of the struct (what the generic cmp does) */
static int ref_lt(const HVal* a, const HVal* b) {
  if (a->tag == 'i') return a->i < b->i;
  if (a->tag == 's') return strcmp(a->s, b->s) < 0;
  return memcmp(&a->i, &b->i, sizeof a->i) < 0;
}
static int ref_homogeneous(Shadow* s) {
  for (int i = 0; i < s->n; i++) if (s->v[i].tag != s->v[0].tag || (s->v[i].tag != 'i' && s->v[i].tag != 's' && s->v[i].tag != 'p')) return 0;
  return 1;
}

static const char* ref_apply(HObj* h, Op* op, RefOut* out) {
  Shadow* s = h->sh; int idx = 0, at = -1; const char* e;
  out->text[0] = 0; out->from_assign = 0; out->no_expectation = 0; out->fail_seg = -1;
  if (h->kind == K_JUNK) return E_VALUE;     /* Type_Of refuses the header before anything else is looked at */
  if (op->code == OP_SORT) {
    /* documented: Array and Tuple are sortable; the items end up in ascending order.  Items that cannot be compared with one another:
       some exception (which one depends on the pair met first) — and, C12, the container as it was */
    if (h->kind != K_ARR && h->kind != K_TUP) return E_CLASS;
    if (s->n < 2) return NULL;
    if (!ref_homogeneous(s)) { out->no_expectation = 1; return NULL; }
    for (int i = 1; i < s->n; i++) { HVal x = s->v[i]; int j = i - 1; while (j >= 0 && ref_lt(&x, &s->v[j])) { s->v[j+1] = s->v[j]; j--; } s->v[j+1] = x; }
    return NULL;
  }
  if (op->code == OP_ASSIGNSELF)             /* an object assigned to itself stays what it is; a Tuple off the heap cannot be (re)allocated */
    return h->kind == K_TUP && nonheap(h) ? E_VALUE : NULL;
  if (op->code == OP_TYPEOF) { strcpy(out->text, obj_type_name(h)); return NULL; }
  if (op->code == OP_CAST) return strcmp(op->tname, obj_type_name(h)) == 0 ? NULL : E_VALUE;
  if (op->code == OP_DEALLOC || op->code == OP_DEALLOCELEM) return E_RES;
  if (op->code == OP_PRINT) return ref_print(h, op, out);
  switch (h->kind) {
    case K_ARR: case K_LST: case K_TUP: {
      int typed = h->kind != K_TUP;
      switch (op->code) {
        case OP_GET: if ((e = ref_index(s->n, &op->a, &idx))) return e; val_text(&s->v[idx], out->text); return NULL;
        case OP_SET: if ((e = ref_index(s->n, &op->a, &idx))) return e;
          if (typed && (e = ref_assign(h->ty, &op->b))) return e; s->v[idx] = op->b; return NULL;
        case OP_MEM: if ((e = ref_find(s, &op->a, 1, &at))) return e; strcpy(out->text, at >= 0 ? "true" : "false"); return NULL;
        case OP_REM: if ((e = ref_find(s, &op->a, h->kind != K_TUP, &at))) return e;
          if (at < 0) return E_VALUE; if (h->kind == K_TUP && nonheap(h)) return E_VALUE; sh_remove(s, at); return NULL;
        case OP_PUSH: case OP_APPEND:
          if (h->kind == K_TUP) { if (nonheap(h)) return E_VALUE; sh_insert(s, s->n, &op->a); return NULL; }
          if ((e = ref_assign(h->ty, &op->a))) { out->from_assign = 1; return e; } sh_insert(s, s->n, &op->a); return NULL;
        case OP_PUSHAT:   /* a = key, b = value */
          if (h->kind == K_ARR) {          /* positions 0..n, negative counted from n+1 */
            if (op->a.tag == 'N') return E_VALUE; if (op->a.tag != 'i') return E_CLASS;
            __int128 i = op->a.i; if (i < -(__int128)(s->n + 1) || i > s->n) return E_IOOB; idx = (int)(i < 0 ? s->n + 1 + i : i);
            if ((e = ref_assign(h->ty, &op->b))) { out->from_assign = 1; return e; } sh_insert(s, idx, &op->b); return NULL; }
          if (h->kind == K_LST) {          /* the position first (0, or an existing position; fix 4077d96), then the element */
            if (op->a.tag == 'N') return E_VALUE; if (op->a.tag != 'i') return E_CLASS;
            if (op->a.i == 0) idx = 0; else if ((e = ref_index(s->n, &op->a, &idx))) return e;
            if ((e = ref_assign(h->ty, &op->b))) return e;
            sh_insert(s, idx, &op->b); return NULL; }
          if ((e = ref_index(s->n, &op->a, &idx))) return e; if (nonheap(h)) return E_VALUE; sh_insert(s, idx, &op->b); return NULL;
        case OP_POP: if (s->n == 0) return E_IOOB; if (h->kind == K_TUP && nonheap(h)) return E_VALUE; s->n--; return NULL;
        case OP_POPAT: if ((e = ref_index(s->n, &op->a, &idx))) return e; if (h->kind == K_TUP && nonheap(h)) return E_VALUE; sh_remove(s, idx); return NULL;
        case OP_RESIZE:
          if (h->kind == K_TUP) { if (nonheap(h)) return E_VALUE; if (op->n < s->n) { s->n = (int)op->n; return NULL; } return E_FORMAT; }
          if (op->n < s->n) s->n = (int)op->n;
          else if (h->kind == K_LST) { HVal z = zero_of(h->ty); while (s->n < op->n) s->v[s->n++] = z; }
          return NULL;
        case OP_LEN: sprintf(out->text, "%d", s->n); return NULL;
        case OP_CONCAT: {
          Shadow* src = op->src_id >= 0 ? seq_shadow(op->src_id) : NULL;
          if (op->src_id < 0) {            /* a source that is not a sequence */
            if (op->a.tag == 'N') return E_VALUE;
            if (h->kind == K_TUP && op->a.tag == 's' && nonheap(h)) return E_VALUE;
            return E_CLASS; }
          if (h->kind == K_TUP) { if (nonheap(h)) return E_VALUE; for (int i = 0; i < src->n; i++) sh_insert(s, s->n, &src->v[i]); return NULL; }
          for (int i = 0; i < src->n; i++) if ((e = ref_assign(h->ty, &src->v[i]))) { out->from_assign = 1; return e; }
          { HVal tmp[MAXN]; int m = src->n; memcpy(tmp, src->v, sizeof(HVal) * m); for (int i = 0; i < m; i++) sh_insert(s, s->n, &tmp[i]); }
          return NULL; }
        case OP_ASSIGN:                    /* from an object that is not iterable */
          if (op->a.tag == 'N') return E_VALUE;
          if (h->kind == K_LST && op->a.tag == 's' && op->a.s[0] == 0) { out->no_expectation = 1; return NULL; }
          return E_CLASS;
      }
      return E_CLASS; }
    case K_NARR: case K_NLST: {
      /* documented: the index is validated, then the element is assigned from the source — which must be a container; a source
         that is not raises (NULL: ValueError, anything else: ClassError) and nothing changes */
      NShadow* ns = h->nsh; const HVal* srcv = op->code == OP_SET || op->code == OP_PUSHAT ? &op->b : &op->a;
      const char* bad_src = op->src_cont ? NULL : srcv->tag == 'N' ? E_VALUE : E_CLASS;
      CVal cv = op->cv; cval_norm(h->ek, &cv);
      switch (op->code) {
        case OP_GET: if ((e = ref_index(ns->n, &op->a, &idx))) return e; sprintf(out->text, "%d", ns->e[idx].n); return NULL;
        case OP_SET: if ((e = ref_index(ns->n, &op->a, &idx))) return e;
          if (bad_src) { out->from_assign = 1; return bad_src; } ns->e[idx] = cv; return NULL;
        case OP_PUSH: case OP_APPEND:
          if (bad_src) { out->from_assign = 1; return bad_src; } if (ns->n < MAXNEST) ns->e[ns->n++] = cv; return NULL;
        case OP_PUSHAT:
          if (op->a.tag == 'N') return E_VALUE; if (op->a.tag != 'i') return E_CLASS;
          if (h->kind == K_NARR) { __int128 i = op->a.i; if (i < -(__int128)(ns->n + 1) || i > ns->n) return E_IOOB; idx = (int)(i < 0 ? ns->n + 1 + i : i); }
          else if (op->a.i == 0) idx = 0; else if ((e = ref_index(ns->n, &op->a, &idx))) return e;
          if (bad_src) { out->from_assign = 1; return bad_src; }
          if (ns->n < MAXNEST) { memmove(&ns->e[idx + 1], &ns->e[idx], sizeof(CVal) * (ns->n - idx)); ns->e[idx] = cv; ns->n++; } return NULL;
        case OP_POP: if (ns->n == 0) return E_IOOB; ns->n--; return NULL;
        case OP_POPAT: if ((e = ref_index(ns->n, &op->a, &idx))) return e;
          memmove(&ns->e[idx], &ns->e[idx + 1], sizeof(CVal) * (ns->n - idx - 1)); ns->n--; return NULL;
        case OP_RESIZE: if (op->n < ns->n) ns->n = (int)op->n; return NULL;
        case OP_LEN: sprintf(out->text, "%d", ns->n); return NULL;
      }
      return E_CLASS; }
    case K_TAB: case K_TRE:
      switch (op->code) {
        case OP_GET: if ((e = ref_cast(h->kty, &op->a))) return e; if ((at = map_find(s, &op->a)) < 0) return E_KEY; val_text(&s->v[at], out->text); return NULL;
        /* an argument that lives inside the table is an argument like any other: the key object finds its own value; the value
           object is looked up as a key — of the wrong type (ValueError), absent (KeyError) or the key of some pair */
        case OP_GETK: if ((at = map_find(s, &op->a)) < 0) { out->no_expectation = 1; return NULL; } val_text(&s->v[at], out->text); return NULL;
        case OP_GETV: { if ((at = map_find(s, &op->a)) < 0) { out->no_expectation = 1; return NULL; } HVal v = s->v[at];
          if ((e = ref_cast(h->kty, &v))) return e; if ((at = map_find(s, &v)) < 0) return E_KEY; val_text(&s->v[at], out->text); return NULL; }
        case OP_MEM: if ((e = ref_cast(h->kty, &op->a))) return e; strcpy(out->text, map_find(s, &op->a) >= 0 ? "true" : "false"); return NULL;
        case OP_SET: if ((e = ref_cast(h->kty, &op->a))) return e; if ((e = ref_cast(h->vty, &op->b))) return e;
          at = map_find(s, &op->a); if (at < 0) { if (s->n >= MAXN) return NULL; at = s->n++; } s->k[at] = op->a; s->v[at] = op->b; return NULL;
        case OP_REM: if ((e = ref_cast(h->kty, &op->a))) return e; if ((at = map_find(s, &op->a)) < 0) return E_KEY;
          s->k[at] = s->k[s->n-1]; s->v[at] = s->v[s->n-1]; s->n--; return NULL;
        case OP_RESIZE: if (op->n == 0) { s->n = 0; return NULL; } if (h->kind == K_TRE) return E_FORMAT; if (op->n < s->n) return E_FORMAT; return NULL;
        case OP_LEN: sprintf(out->text, "%d", s->n); return NULL;
        case OP_ASSIGN: return op->a.tag == 'N' ? E_VALUE : E_CLASS;
      }
      return E_CLASS;
    case K_STR:
      switch (op->code) {
        case OP_MEM: if (op->a.tag == 'N') return E_VALUE; strcpy(out->text, (op->a.tag == 's' && strstr(s->str, op->a.s)) ? "true" : "false"); return NULL;
        case OP_REM: { if (op->a.tag == 'N') return E_VALUE; if (op->a.tag != 's') return E_CLASS;   /* no C string to look for (fix e60e6ec) */
          char* p = strstr(s->str, op->a.s); if (!p) return E_VALUE; size_t l = strlen(op->a.s); memmove(p, p + l, strlen(p + l) + 1); return NULL; }
        case OP_RESIZE: if (nonheap(h)) return E_VALUE; if ((size_t)op->n < strlen(s->str)) s->str[op->n] = 0; return NULL;
        case OP_LEN: sprintf(out->text, "%zu", strlen(s->str)); return NULL;
        case OP_CONCAT: case OP_APPEND:
          if (nonheap(h)) return E_VALUE;
          if (op->code == OP_CONCAT && op->src_id >= 0) return E_CLASS;
          if (op->a.tag == 'N') return E_VALUE; if (op->a.tag != 's') return E_CLASS;
          strncat(s->str, op->a.s, sizeof s->str - strlen(s->str) - 1); return NULL;
        case OP_ASSIGN: if (op->a.tag == 'N') return E_VALUE; if (op->a.tag != 's') return E_CLASS; if (nonheap(h)) return E_VALUE; strcpy(s->str, op->a.s); return NULL;
      }
      return E_CLASS;
    case K_RNG: case K_SLC:
      switch (op->code) {
        case OP_GET: { int64_t x = 0; if ((e = ref_range_get(h->r0, h->r1, h->r2, &op->a, &x))) return e;
          if (h->kind == K_RNG) { sprintf(out->text, "i%" PRId64, x); return NULL; }
          Shadow* b = seq_shadow(h->base); HVal k = { 'i', x, "" }; if ((e = ref_index(b->n, &k, &idx))) return e; val_text(&b->v[idx], out->text); return NULL; }
        case OP_LEN: sprintf(out->text, "%" PRId64, (int64_t)ref_range_len(h->r0, h->r1, h->r2)); return NULL;
        case OP_MEM: if (h->kind == K_RNG) { out->no_expectation = 1; return NULL; } return E_CLASS;
        case OP_ASSIGN: return E_VALUE;
      }
      return E_CLASS;
    case K_ZIP:
      switch (op->code) {
        case OP_GET: { Shadow* a = seq_shadow(h->za), *b = seq_shadow(h->zb); int i1 = 0, i2 = 0;
          if ((e = ref_index(a->n, &op->a, &i1))) return e; if ((e = ref_index(b->n, &op->a, &i2))) return e;
          char x[64], y[64]; val_text(&a->v[i1], x); val_text(&b->v[i2], y); sprintf(out->text, "(%s,%s)", x, y); return NULL; }
        case OP_LEN: { Shadow* a = seq_shadow(h->za), *b = seq_shadow(h->zb); sprintf(out->text, "%d", a->n < b->n ? a->n : b->n); return NULL; }
        case OP_ASSIGN: return E_VALUE;
      }
      return E_CLASS;
    case K_VAL:
      if (op->code == OP_ASSIGN) { if ((e = ref_assign(h->ty, &op->a))) return e; return NULL; }
      return E_CLASS;
  }
  return E_CLASS;
}

/* ------------------------------------------------------------------------------------------------ the real call */
static void ret_val(var r, char* out) {
  if (r && type_of(r) == Tuple) {      /* Zip_Get returns its tuple of current values */
    struct Tuple* t = r; char* p = out; *p++ = '(';
    for (int i = 0; t->items[i] != Terminal && i < 8; i++) { HVal v; rd(t->items[i], &v); if (i) *p++ = ','; p += val_text(&v, p); }
    *p++ = ')'; *p = 0; return; }
  HVal v; rd(r, &v); val_text(&v, out);
}

/* the occupied slot of the real table whose key reads as `k` (-1: none) */
static long slot_of(var table, const HVal* k) {
  struct Table* t = table;
  for (size_t i = 0; i < t->nslots; i++) if (Table_Key_Hash(t, i)) { HVal x; rd(Table_Key(t, i), &x); if (val_eq(&x, k)) return (long)i; }
  return -1;
}

static size_t n_msg;
/* executes the op on the real library; fills `res` with "ok[:value]"; returns the raised exception or NULL */
static var do_call(var target, HObj* h, Op* op, char* res) {
  var exc = NULL; char val[300] = "";
  var A = mk(&op->a), B = mk(&op->b);
  if (op->src_cont && h) { var c = mk_inner(h->ek, &op->cv); if (op->code == OP_SET || op->code == OP_PUSHAT) B = c; else A = c; }
  switch (op->code) {
    case OP_GET:
      if (h && NEST(h)) { V_TRY(exc, { var r = get(target, A); sprintf(val, "%zu", len(r)); }); break; }   /* the element, observed through its length */
      V_TRY(exc, { var r = get(target, A); ret_val(r, val); }); break;
    case OP_GETK: case OP_GETV: {      /* the argument is the key / value object inside the slot array itself */
      long i = slot_of(target, &op->a); if (i < 0) break;
      var p = op->code == OP_GETK ? Table_Key((struct Table*)target, (size_t)i) : Table_Val((struct Table*)target, (size_t)i);
      V_TRY(exc, { var r = get(target, p); ret_val(r, val); }); break; }
    case OP_SET: V_TRY(exc, set(target, A, B)); break;
    case OP_MEM: V_TRY(exc, { bool r = mem(target, A); strcpy(val, r ? "true" : "false"); }); break;
    case OP_REM: V_TRY(exc, rem(target, A)); break;
    case OP_PUSH: V_TRY(exc, push(target, A)); break;
    case OP_PUSHAT: V_TRY(exc, push_at(target, B, A)); break;
    case OP_POP: V_TRY(exc, pop(target)); break;
    case OP_POPAT: V_TRY(exc, pop_at(target, A)); break;
    case OP_RESIZE: V_TRY(exc, resize(target, (size_t)op->n)); break;
    case OP_LEN: V_TRY(exc, { size_t n = len(target); sprintf(val, "%zu", n); }); break;
    case OP_CONCAT: { var src = op->src_id >= 0 ? objs[op->src_id].obj : A; V_TRY(exc, concat(target, src)); break; }
    case OP_APPEND: V_TRY(exc, append(target, A)); break;
    case OP_ASSIGN: V_TRY(exc, assign(target, A)); break;
    case OP_TYPEOF: V_TRY(exc, { var t = type_of(target); strcpy(val, c_str(t)); }); break;
    case OP_CAST: { var t = type_by_name(op->tname); V_TRY(exc, cast(target, t)); break; }
    case OP_DEALLOC: V_TRY(exc, dealloc(target)); break;
    case OP_SORT: V_TRY(exc, sort(target)); break;
    case OP_ASSIGNSELF: V_TRY(exc, assign(target, target)); break;
    case OP_DEALLOCELEM: V_TRY(exc, { var e = get(target, $I(op->n)); dealloc(e); }); break;
    case OP_PRINT: {
      char fmt[512] = ""; var args = new(Tuple);
      for (int i = 0; i < op->nfmt; i++) strcat(fmt, op->fkind[i] == 'L' ? op->ftext[i] : op->fkind[i] == 'D' ? "%li" : op->fkind[i] == 'S' ? "%s" : "%$");
      for (int i = 0; i < op->nargs; i++) push(args, mk(&op->args[i]));
      V_TRY(exc, { int p = print_to_with(target, (int)op->n, fmt, args); sprintf(val, "%d", p); });
      break; }
  }
  if (!exc) { if (val[0]) sprintf(res, "ok:%s", val); else strcpy(res, "ok"); }
  else {
    sprintf(res, "raised:%s", v_exc_name(exc));
    /* the MESSAGE of an index / empty-pop refusal of a sequence (extension round): `current(Exception)->msg` as `exception_throw`
       formatted it — the model renders the format and the arguments of the throw site extracted from the source */
    if (exc == IndexOutOfBoundsError && h && !NEST(h) && (h->kind == K_ARR || h->kind == K_LST || h->kind == K_TUP)) {
      struct Exception* e = current(Exception);
      snprintf(res + strlen(res), 200, " msg=%s", e->msg ? c_str(e->msg) : "(null)");
      n_msg++;
    }
  }
  return exc;
}

/* runs the call in a forked child first; returns 1 when the child died (crash / sanitizer report / timeout) */
static int probe_crashes(var target, HObj* h, Op* op) {
  fflush(stdout);
  pid_t pid = fork();
  if (pid == 0) {
    int dn = open("/dev/null", 1); if (dn >= 0) { dup2(dn, 1); dup2(dn, 2); }
    alarm(10); char res[400]; do_call(target, h, op, res); _exit(0);
  }
  int st = 0; waitpid(pid, &st, 0);
  return !(WIFEXITED(st) && WEXITSTATUS(st) == 0);
}

/* ------------------------------------------------------------------------------------------------ construction */
static Shadow* new_shadow(void) { return calloc(1, sizeof(Shadow)); }

static int do_new(int id, char** w, int nw, int lineno) {   /* w: tokens after the id */
  if (nw < 1) return 0;
  HObj h; memset(&h, 0, sizeof h); h.alloc = AllocHeap; h.base = h.za = h.zb = -1;
  const char* kind = w[0]; w++; nw--;
  HVal vals[MAXN];
  if (!strcmp(kind, "arr") || !strcmp(kind, "lst")) {
    if (nw < 1 || !(h.ty = parse_ty(w[0]))) return 0;
    int n = nw - 1; if (n > 200) return 0;
    for (int i = 0; i < n; i++) if (!parse_val(w[1+i], &vals[i]) || !val_has_ty(&vals[i], h.ty)) return 0;
    var args = new(Tuple); push(args, ty_type(h.ty)); for (int i = 0; i < n; i++) push(args, mk(&vals[i]));
    h.kind = !strcmp(kind, "arr") ? K_ARR : K_LST;
    h.obj = new_with(h.kind == K_ARR ? Array : List, args);
    h.sh = new_shadow(); h.sh->n = n; memcpy(h.sh->v, vals, sizeof(HVal) * n);
  } else if (!strcmp(kind, "tup")) {
    if (nw < 1 || !(h.alloc = parse_alloc(w[0])) || h.alloc == AllocStatic) return 0;
    int n = nw - 1; if (n > 200) return 0;
    for (int i = 0; i < n; i++) if (!parse_val(w[1+i], &vals[i]) || vals[i].tag == 'N') return 0;
    h.kind = K_TUP;
    if (h.alloc == AllocHeap) { var args = new(Tuple); for (int i = 0; i < n; i++) push(args, mk(&vals[i])); h.obj = new_with(Tuple, args); }
    else { struct Tuple* t = fake_obj(Tuple, sizeof(struct Tuple), AllocStack); t->items = malloc(sizeof(var) * (n + 1));
      for (int i = 0; i < n; i++) t->items[i] = mk(&vals[i]); t->items[n] = Terminal; h.obj = t; }
    h.sh = new_shadow(); h.sh->n = n; memcpy(h.sh->v, vals, sizeof(HVal) * n);
  } else if (!strcmp(kind, "tab") || !strcmp(kind, "tre")) {
    if (nw < 2 || !(h.kty = parse_ty(w[0])) || !(h.vty = parse_ty(w[1])) || h.kty == 'p' || h.vty == 'p') return 0;
    int n = nw - 2; if (n % 2 || n > 200) return 0;
    for (int i = 0; i < n; i++) if (!parse_val(w[2+i], &vals[i]) || !val_has_ty(&vals[i], i % 2 ? h.vty : h.kty)) return 0;
    var args = new(Tuple); push(args, ty_type(h.kty)); push(args, ty_type(h.vty)); for (int i = 0; i < n; i++) push(args, mk(&vals[i]));
    h.kind = !strcmp(kind, "tab") ? K_TAB : K_TRE;
    h.obj = new_with(h.kind == K_TAB ? Table : Tree, args);
    h.sh = new_shadow();
    for (int i = 0; i < n; i += 2) { int at = map_find(h.sh, &vals[i]); if (at < 0) at = h.sh->n++; h.sh->k[at] = vals[i]; h.sh->v[at] = vals[i+1]; }
  } else if (!strcmp(kind, "str")) {
    HVal v; if (nw != 2 || !(h.alloc = parse_alloc(w[0])) || !parse_val(w[1], &v) || v.tag != 's') return 0;
    h.kind = K_STR;
    if (h.alloc == AllocHeap) h.obj = new(String, $S(v.s));
    else { struct String* s = fake_obj(String, sizeof(struct String), h.alloc); s->val = calloc(1, 64); strcpy(s->val, v.s); h.obj = s; }
    h.sh = new_shadow(); strcpy(h.sh->str, v.s);
  } else if (!strcmp(kind, "rng")) {
    if (nw != 3 || !parse_i64(w[0], &h.r0) || !parse_i64(w[1], &h.r1) || !parse_i64(w[2], &h.r2) || !range_len_ok(h.r0, h.r1, h.r2)) return 0;
    h.kind = K_RNG; h.obj = new(Range, $I(h.r0), $I(h.r1), $I(h.r2));
  } else if (!strcmp(kind, "slc")) {
    long b; int64_t a0, a1, a2;
    if (nw != 4 || !parse_nat(w[0], &b) || b >= NOBJ || !seq_shadow((int)b) || objs[b].dead || !parse_small(w[1], &a0) || !parse_small(w[2], &a1) || !parse_small(w[3], &a2)) return 0;
    h.kind = K_SLC; h.base = (int)b; h.obj = new(Slice, objs[b].obj, $I(a0), $I(a1), $I(a2));
    /* reference copy of the clamped bounds: negative counts from the end, then clamp into [0, n] */
    { int64_t n = seq_shadow((int)b)->n; int64_t s0 = a0 < 0 ? n + a0 : a0, s1 = a1 < 0 ? n + a1 : a1;
      struct Range* r = ((struct Slice*)h.obj)->range; h.r0 = r->start; h.r1 = r->stop; h.r2 = r->step;
      /* documented clamp: below 0 → 0, above n → n (fix a67379b); a difference is reported as information */
      int64_t d0 = s0 < 0 ? 0 : s0 > n ? n : s0, d1 = s1 < 0 ? 0 : s1 > n ? n : s1;
      if (d0 != h.r0 || d1 != h.r1) I("line=%d slice bounds clamp differently from the documented rule: got %" PRId64 "..%" PRId64 " documented %" PRId64 "..%" PRId64, lineno, h.r0, h.r1, d0, d1); }
  } else if (!strcmp(kind, "zip")) {
    long a, b; if (nw != 2 || !parse_nat(w[0], &a) || !parse_nat(w[1], &b) || a >= NOBJ || b >= NOBJ || !seq_shadow((int)a) || !seq_shadow((int)b) || objs[a].dead || objs[b].dead) return 0;
    h.kind = K_ZIP; h.za = (int)a; h.zb = (int)b; h.obj = new(Zip, objs[a].obj, objs[b].obj);
  } else if (!strcmp(kind, "narr") || !strcmp(kind, "nlst")) {
    if (nw < 1 || !(h.ek = parse_ek(w[0]))) return 0;
    int n = nw - 1; if (n > 20) return 0;
    h.kind = !strcmp(kind, "narr") ? K_NARR : K_NLST; h.nsh = calloc(1, sizeof(NShadow));
    var args = new(Tuple); push(args, ek_type(h.ek));
    for (int i = 0; i < n; i++) { CVal c; if (!parse_cval(w[1 + i], &c)) return 0; push(args, mk_inner(h.ek, &c)); cval_norm(h.ek, &c); h.nsh->e[i] = c; }
    h.nsh->n = n;
    h.obj = new_with(h.kind == K_NARR ? Array : List, args);
  } else if (!strcmp(kind, "junk")) {
    if (nw != 1 || (strcmp(w[0], "dead") && strcmp(w[0], "bad"))) return 0;
    h.kind = K_JUNK; h.ek = w[0][0];
    struct Int* x = fake_obj(Int, sizeof(struct Int), AllocHeap); x->val = 7;
    header(x)->magic = h.ek == 'd' ? (var)0xDeadCe110 : (var)0x1234;      /* what dealloc leaves behind / not Cello's magic number */
    h.obj = x; memcpy(h.junk_img, (char*)x - sizeof(struct Header), sizeof(struct Header) + sizeof(struct Int));
  } else if (!strcmp(kind, "val")) {
    HVal v; if (nw != 2 || !(h.alloc = parse_alloc(w[0])) || !parse_val(w[1], &v) || (v.tag != 'i' && v.tag != 'p')) return 0;
    h.kind = K_VAL; h.ty = v.tag;
    if (h.alloc == AllocHeap) h.obj = mk(&v);
    else if (v.tag == 'i') { struct Int* x = fake_obj(Int, sizeof(struct Int), h.alloc); x->val = v.i; h.obj = x; }
    else { struct Plain* x = fake_obj(Plain, sizeof(struct Plain), h.alloc); x->n = v.i; h.obj = x; }
  } else return 0;
  if (h.kind == K_TAB) h.data0 = ((struct Table*)h.obj)->data;
  objs[id] = h;
  return 1;
}

/* ------------------------------------------------------------------------------------------------ exclusions shared with the driver */
static size_t real_len(HObj* h) {
  switch (h->kind) {
    case K_ARR: return ((struct Array*)h->obj)->nitems;
    case K_LST: return ((struct List*)h->obj)->nitems;
    case K_TUP: { struct Tuple* t = h->obj; size_t n = 0; while (t->items && t->items[n] != Terminal) n++; return n; }
    case K_TAB: return ((struct Table*)h->obj)->nitems;
    case K_TRE: return ((struct Tree*)h->obj)->nitems;
    case K_NARR: return ((struct Array*)h->obj)->nitems;
    case K_NLST: return ((struct List*)h->obj)->nitems;
  }
  return 0;
}
static int excluded(HObj* h, Op* op) {
  if (op->code == OP_GETK || op->code == OP_GETV) return h->kind != K_TAB || slot_of(h->obj, &op->a) < 0;   /* a slot of this Table must hold the key */
  if (op->src_cont && !NEST(h)) return 1;                      /* container tokens are sources for nested containers only */
  if (op->code == OP_ASSIGNSELF)                               /* the kinds whose self-assignment the model describes */
    return !(h->kind == K_STR || h->kind == K_ARR || h->kind == K_LST || h->kind == K_TAB || h->kind == K_TRE || h->kind == K_TUP || (h->kind == K_VAL && h->ty == 'i'));
  if (NEST(h)) {
    const HVal* srcv = op->code == OP_SET || op->code == OP_PUSHAT ? &op->b : &op->a;
    switch (op->code) {
      case OP_SET: case OP_PUSH: case OP_APPEND: case OP_PUSHAT:
        if (!op->src_cont && srcv->tag != 'i' && srcv->tag != 'p' && srcv->tag != 'N') return 1;
        return (op->code != OP_SET) && real_len(h) >= 24;
      case OP_GET: case OP_POP: case OP_POPAT: case OP_LEN: case OP_TYPEOF: case OP_CAST: return op->code == OP_CAST && !type_by_name(op->tname);
      case OP_RESIZE: return h->kind == K_NLST && (size_t)op->n > real_len(h);      /* a List is not grown: zeroed containers */
      default: return 1;                                     /* mem / rem / concat / assign / print / dealloc: not modelled */
    }
  }
  if (h->kind == K_JUNK) {
    if (op->code == OP_PRINT || op->code == OP_DEALLOCELEM) return 1;   /* an empty format returns before Type_Of is reached */
    if (op->code == OP_CAST) return !type_by_name(op->tname);
    if (op->code == OP_CONCAT && op->src_id >= 0) return !seq_shadow(op->src_id) || objs[op->src_id].dead;
    return 0;
  }
  if (op->code == OP_PRINT) {
    if (h->kind == K_STR) return (size_t)op->n > strlen(((struct String*)h->obj)->val);
    if (op->nfmt == 0 || op->fkind[0] == 'L') return 0;
    return 1; }
  if ((h->kind == K_SLC || h->kind == K_ZIP) && op->code == OP_MEM) return 1;
  if (h->kind == K_RNG && op->code == OP_MEM && !range_small(h->r0, h->r1, h->r2)) return 1;   /* Range_Mem: small fields only */
  if (h->kind == K_LST && op->code == OP_RESIZE && h->ty == 's' && (size_t)op->n > ((struct List*)h->obj)->nitems) return 1;
  if (op->code == OP_DEALLOC && h->alloc == AllocHeap) return 1;
  if (op->code == OP_DEALLOCELEM) {
    if (h->kind == K_ARR) return (size_t)op->n >= ((struct Array*)h->obj)->nitems;
    if (h->kind == K_LST) return (size_t)op->n >= ((struct List*)h->obj)->nitems;
    return 1; }
  if (op->code == OP_CAST && !type_by_name(op->tname)) return 1;
  if (op->code == OP_CONCAT && op->src_id >= 0 && (!seq_shadow(op->src_id) || objs[op->src_id].dead)) return 1;
  /* a Tuple copies the pointers of the source's items: only another Tuple (whose items are objects of their own) */
  if (op->code == OP_CONCAT && op->src_id >= 0 && h->kind == K_TUP && objs[op->src_id].kind != K_TUP) return 1;
  /* the histories keep containers small */
  if (op->code == OP_CONCAT && op->src_id >= 0 && (h->kind == K_ARR || h->kind == K_LST || h->kind == K_TUP) && real_len(h) + real_len(&objs[op->src_id]) > 200) return 1;
  if ((h->kind == K_TAB || h->kind == K_TRE) && op->code == OP_SET && real_len(h) >= 300) return 1;
  if ((h->kind == K_ARR || h->kind == K_LST || h->kind == K_TUP) && (op->code == OP_PUSH || op->code == OP_APPEND || op->code == OP_PUSHAT) && real_len(h) >= 300) return 1;
  return 0;
}
static int bases_ok(HObj* h) {
  if (h->kind == K_SLC) return seq_shadow(h->base) && !objs[h->base].dead;
  if (h->kind == K_ZIP) return seq_shadow(h->za) && !objs[h->za].dead && seq_shadow(h->zb) && !objs[h->zb].dead;
  return 1;
}
static int poisons_nest(HObj* h, Op* op, int failed, int from_assign) {
  /* abandoned after a set / Array push / push_at whose *source* was refused (the index was fine): territory of the assign and F15
     findings.  A List push that fails leaves the list as it was. */
  if (!failed || !from_assign) return 0;
  if (op->code == OP_SET) return 1;
  return h->kind == K_NARR && (op->code == OP_PUSH || op->code == OP_APPEND || op->code == OP_PUSHAT);
}
static int poisons(HObj* h, Op* op, int raised, int from_assign) {
  int cont = h->kind == K_ARR || h->kind == K_LST || h->kind == K_TAB || h->kind == K_TRE;
  if (cont && op->code == OP_ASSIGN) return 1;
  /* an Array of String whose push / push_at was refused at the element assignment holds a String without buffer (F15); a push_at
     refused for its *position* has touched nothing and the history goes on */
  if (h->kind == K_ARR && h->ty == 's' && raised && (op->code == OP_PUSH || op->code == OP_APPEND || (op->code == OP_PUSHAT && from_assign))) return 1;
  if (h->kind == K_ARR && op->code == OP_CONCAT && raised) return 1;
  return 0;
}

/* ------------------------------------------------------------------------------------------------ main loop */
static size_t n_ops, n_raised, n_x, n_crashed, exc_count[16];
static const char* exc_names[] = { "IndexOutOfBoundsError", "KeyError", "ValueError", "TypeError", "ClassError", "FormatError", "ResourceError", "other" };

static void count_exc(const char* name) { for (int i = 0; i < 7; i++) if (!strcmp(name, exc_names[i])) { exc_count[i]++; return; } exc_count[7]++; }

static void run_line(char* l, int lineno) {
  char* w[64]; int nw = 0; char* save;
  static char buf[4096]; snprintf(buf, sizeof buf, "%s", l);
  for (char* t = strtok_r(buf, " ", &save); t && nw < 64; t = strtok_r(NULL, " ", &save)) w[nw++] = t;
  if (nw < 2) { O("bad-op"); return; }
  if (!strcmp(w[0], "new")) {
    long id; if (nw < 3 || !parse_nat(w[1], &id) || id >= NOBJ || objs[id].kind != K_NONE || !do_new((int)id, w + 2, nw - 2, lineno)) { O("bad-op"); return; }
    Dump d; dump_wb(&objs[id], &d); O("new | %s%s%s", d.head, d.extra, d.tail);
    Dump p; if (!dump_pub(&objs[id], &p) || strcmp(p.head, d.head) || strcmp(p.tail, d.tail)) { X("sig=c12-%s-inconsistent line=%d what=after construction the public interface shows `%s%s`, the representation `%s%s`", kind_name[objs[id].kind], lineno, p.head, p.tail, d.head, d.tail); n_x++; }
    return;
  }
  int code = -1; for (int i = 0; i < OP_NOPS; i++) if (!strcmp(w[0], op_name[i])) code = i;
  if (code < 0) { O("bad-op"); return; }
  Op op;
  if (!strcmp(w[1], "N")) {
    /* a call on the NULL object: Type_Of(NULL) must raise ValueError before anything happens */
    if (code == OP_PRINT || code == OP_DEALLOCELEM || code == OP_GETK || code == OP_GETV || !parse_op(code, w + 2, nw - 2, &op) || (code == OP_CONCAT && op.src_id >= 0) || (code == OP_CAST && !type_by_name(op.tname))) { O("bad-op"); return; }
    char res[400]; var exc = do_call(NULL, NULL, &op, res);
    n_ops++; if (exc) { n_raised++; count_exc(v_exc_name(exc)); }
    O("%s | -", res);
    if (exc != ValueError) { X("sig=c12-null-%s-exc line=%d what=call on NULL: expected ValueError, got %s", op_name[code], lineno, res); n_x++; }
    return;
  }
  long id; if (!parse_nat(w[1], &id) || id >= NOBJ || objs[id].kind == K_NONE || objs[id].dead) { O("bad-op"); return; }
  HObj* h = &objs[id];
  if (!bases_ok(h) || !parse_op(code, w + 2, nw - 2, &op) || (code == OP_CONCAT && op.src_id == (int)id) || excluded(h, &op)) { O("bad-op"); return; }
  const char* kn = kind_name[h->kind]; const char* on = op_name[code];

  /* 1. before: public dump */
  Dump pub0, pub1, wb1, ref1;
  int pub0_ok = dump_pub(h, &pub0);
  rep_take(h, &rep0);
  if (h->kind == K_TAB) h->data0 = ((struct Table*)h->obj)->data;
  /* 2. reference */
  RefOut ro; const char* want = ref_apply(h, &op, &ro);
  /* 3. the real call.  Whatever the reference expects to fail (and Range/Slice get, whose index arithmetic can overflow)
        runs first in a forked child: a call that dies is reported, and not repeated in this process. */
  char res[400]; var exc = NULL; int crashed = 0;
  int risky = want != NULL || ro.no_expectation || ((h->kind == K_RNG || h->kind == K_SLC) && code == OP_GET) || code == OP_ASSIGNSELF;
  if (risky && probe_crashes(h->obj, h, &op)) { crashed = 1; strcpy(res, "ub"); n_crashed++; }
  else exc = do_call(h->obj, h, &op, res);
  n_ops++; if (exc) { n_raised++; count_exc(v_exc_name(exc)); }
  int dies = NEST(h) ? poisons_nest(h, &op, exc != NULL || crashed, ro.from_assign) : poisons(h, &op, exc != NULL || crashed, ro.from_assign);
  /* 4. after */
  if (dies) { O("%s | dead", res); }
  else { dump_wb(h, &wb1); O("%s | %s%s%s", res, wb1.head, wb1.extra, wb1.tail); }

  /* ---- direct oracle ---- */
  const char* got = exc ? v_exc_name(exc) : NULL;
  if (crashed) {
    int cont = h->kind == K_ARR || h->kind == K_LST || h->kind == K_TUP || h->kind == K_TAB || h->kind == K_TRE;
    const HVal* nsrc = code == OP_SET || code == OP_PUSHAT ? &op.b : &op.a;
    if (NEST(h) && ro.from_assign && !op.src_cont && nsrc->tag != 'N')
      X("sig=kf-c12-foreach-noniter line=%d what=%s %s with a source that is not a container: the element's assign runs `foreach` over an object without Iter (the call dies) instead of raising %s", lineno, kn, on, want ? want : "ClassError");
    else if (cont && op.a.tag != 'N' && op.a.tag != 0 && ((code == OP_CONCAT && op.src_id < 0) || code == OP_ASSIGN))
      X("sig=kf-c12-foreach-noniter line=%d what=%s %s from an object without Iter: `foreach` reads through a NULL instance pointer (the call dies) instead of raising %s", lineno, kn, on, want ? want : "ClassError");
    else
      X("sig=c12-%s-%s-crash line=%d what=the call dies (signal / sanitizer report) instead of %s%s", kn, on, lineno, want ? "raising " : "completing", want ? want : "");
    n_x++; if (dies) h->dead = 1; return; }
  /* (a) the exception */
  if (!ro.no_expectation) {
    if (want && !got) {
      X("sig=c12-%s-%s-exc line=%d what=invalid argument not reported: expected %s, got %s", kn, on, lineno, want, res);
      n_x++; if (h->sh || h->nsh) shadow_sync(h);
    } else if (!want && got) {
      X("sig=c12-%s-%s-exc line=%d what=valid operation raised %s", kn, on, lineno, got); n_x++; if (h->sh || h->nsh) shadow_sync(h);
    } else if (want && got && strcmp(want, got) != 0) {
      X("sig=c12-%s-%s-exc line=%d what=wrong exception: documented %s, raised %s", kn, on, lineno, want, got); n_x++;
    } else if (!want && !got && ro.text[0]) {
      char exp[300]; snprintf(exp, sizeof exp, "ok:%s", ro.text);
      if (strcmp(exp, res) != 0) { X("sig=c12-%s-%s-ref line=%d what=result %s, reference %s", kn, on, lineno, res, exp); n_x++; }
    }
  }
  if (dies) {
    /* the object is abandoned; what happened to it is still checked through `len` */
    if (got && NEST(h)) {
      Dump after; int ok2 = dump_pub(h, &after);
      if (ok2 && (strcmp(pub0.head, after.head) || strcmp(pub0.tail, after.tail))) {
        const char* sig = code == OP_SET ? "kf-c12-assign-clears" : "kf-c12-array-push-type";
        X("sig=%s line=%d what=%s %s raised %s and changed the object: `%s%s` -> `%s%s`", sig, lineno, kn, on, got, pub0.head, pub0.tail, after.head, after.tail); n_x++; }
    } else if (got && (h->kind == K_ARR || h->kind == K_LST || h->kind == K_TAB || h->kind == K_TRE) && code == OP_ASSIGN) {
      var e2 = NULL; volatile size_t n = 0; V_TRY(e2, n = len(h->obj));
      char before[64]; snprintf(before, sizeof before, "%s", pub0.head);
      if (!e2 && h->sh && (int)n != h->sh->n) { X("sig=kf-c12-assign-clears line=%d what=%s assign raised %s but the target was cleared first: `%s` now has len %zu", lineno, kn, got, before, (size_t)n); n_x++; }
    } else if (got && h->kind == K_ARR) {
      var e2 = NULL; volatile size_t n = 0; V_TRY(e2, n = len(h->obj));
      if (!e2 && h->sh && (int)n != h->sh->n) { X("sig=kf-c12-array-push-type line=%d what=array %s raised %s and left len %zu (was %d)", lineno, on, got, (size_t)n, h->sh->n); n_x++; }
    }
    h->dead = 1; return;
  }
  /* (b)/(c) the state */
  int pub1_ok = dump_pub(h, &pub1);
  if (!pub0_ok || !pub1_ok || strcmp(pub1.head, wb1.head) || strcmp(pub1.tail, wb1.tail)) {
    X("sig=c12-%s-inconsistent line=%d what=public interface shows `%s%s`, representation `%s%s`", kn, lineno, pub1.head, pub1.tail, wb1.head, wb1.tail); n_x++; }
  if (got) {
    if (strcmp(pub0.head, pub1.head) || strcmp(pub0.tail, pub1.tail)) {
      const char* sig = NULL;
      if (h->kind == K_ARR && ro.from_assign && (code == OP_PUSH || code == OP_APPEND || code == OP_PUSHAT || code == OP_CONCAT)) sig = "kf-c12-array-push-type";
      if (h->kind == K_STR && code == OP_PRINT) sig = "kf-c12-print-partial";
      if (h->kind == K_LST && code == OP_CONCAT) sig = "kf-c12-list-concat-partial";
      if ((h->kind == K_TUP || h->kind == K_ARR) && code == OP_SORT) sig = "kf-c12-sort-partial";
      if (sig) X("sig=%s line=%d what=%s %s raised %s and changed the object: `%s%s` -> `%s%s`", sig, lineno, kn, on, got, pub0.head, pub0.tail, pub1.head, pub1.tail);
      else X("sig=c12-%s-%s line=%d what=%s raised and the object changed: `%s%s` -> `%s%s`", kn, on, lineno, got, pub0.head, pub0.tail, pub1.head, pub1.tail);
      n_x++; if (h->sh || h->nsh) shadow_sync(h);
    } else if (pub0_ok && pub1_ok) {
      /* (c)/(d)/(e) the contents are what they were: is the representation the caller can observe? */
      rep_take(h, &rep1);
      /* F29: a print_to refused after its first segment has run String_Format_To (realloc) for the segments before it — also when
         the text written happens to equal the text it replaced */
      const char* kf = h->kind == K_STR && code == OP_PRINT && ro.fail_seg > 0 ? "kf-c12-print-partial" : NULL;
      n_x += (size_t)rep_compare(h, &rep0, &rep1, on, got, lineno, kf);
    }
  }
  if (h->sh || h->nsh) {
    dump_ref(h, &ref1);
    if (strcmp(ref1.head, pub1.head) || strcmp(ref1.tail, pub1.tail)) {
      X("sig=c12-%s-%s-ref line=%d what=after the op the object is `%s%s`, the reference `%s%s`", kn, on, lineno, pub1.head, pub1.tail, ref1.head, ref1.tail);
      n_x++; shadow_sync(h); }
  }
}

int main(int argc, char** argv) {
  v_init();
  if (argc < 2) { fprintf(stderr, "usage: h_fail <opfile>\n"); return 2; }
  stop(current(GC));          /* objects are referenced from harness tables only: never collect */
  size_t n; char** lines = v_read_lines(argv[1], &n);
  for (size_t li = 0; li < n; li++) {
    if (v_skippable(lines[li])) continue;
    run_line(lines[li], (int)li + 1);
  }
  I("ops=%zu raised=%zu died-in-probe=%zu oracle-failures=%zu", n_ops, n_raised, n_crashed, n_x);
  I("refusal-messages-compared=%zu", n_msg);
  for (int i = 0; i < 8; i++) if (exc_count[i]) I("exc %s=%zu", exc_names[i], exc_count[i]);
  return 0;
}
