/* harness/h_exn.c — engine `exn` (C07): runs try/throw/catch program trees on the real macros.
 *
 * op file: one program per line, `P <sexp>` with
 *   program ::= (s N) | (t K) | (n) | (m K) | (r) | (q P P) | (c P (K*) P) | (f P) | (d N P)
 *     (s N)        statement N
 *     (t K)        throw(kind K, "kind %i", $I(K))
 *     (n)          throw(NULL, "null")                          — outside the object domain of C07
 *     (m K)        throw(kind K, "kind %i")  (too few arguments) — outside the object domain of C07
 *     (r)          throw(x, "re") where x is the variable bound by the innermost enclosing handler (top level: TypeError)
 *     (q P P)      P; P
 *     (c P (K*) P) try { P } catch (e in K*) { P }              — filter arity 0…4
 *     (f P)        P in a callee frame;  (d N P)  P called through N frames
 * or `L a b c f1 f2 f3` (three lexically nested blocks in one C function).
 * Filters may name one object several times (kinds are taken modulo NKINDS): since fix a0ef2da exception_catch walks its
 * filter by index, so such a filter terminates and matches by membership like any other.
 * Each program runs in a forked child under alarm() (an uncaught exception exits the process, an overflow of the jump
 * buffer array aborts it; before fix a0ef2da a filter that listed an object twice made exception_catch loop for ever —
 * that now shows as end=hang, which the oracle reports as an ordinary violation).  The child streams
 * its events through a pipe; the parent prints
 *   O trace=<events> end=<normal|fatal|abort|hang|signal|other> depth=<len(current(Exception)) after, or - >
 * and checks the direct oracle (a reference interpreter of structured exceptions, written here independently of the
 * Lean model) plus: exit status is EXIT_FAILURE and stderr carries the "Uncaught" diagnostic for an escaping exception;
 * beyond EXCEPTION_MAX_DEPTH: abort with the overflow message and nothing of the body run. */
#include "common.h"
#include <errno.h>
#include <sys/resource.h>

enum { STMT, THROW, THROWNULL, THROWBAD, RETHROW, SEQ, TRY, CALL, DEEP };
#define MAXFILT 4
typedef struct Node { int kind; int n; int filt[MAXFILT]; int nfilt; struct Node *a, *b; } Node;

static const char* cur;
static void skipws(void) { while (*cur == ' ') cur++; }
static int is_digit(void) { return *cur >= '0' && *cur <= '9'; }
static int parse_num(void) { int v = 0; skipws(); while (is_digit()) { v = v*10 + (*cur - '0'); cur++; } return v; }
static Node* parse_node(void) {
  skipws();
  if (*cur != '(') return NULL;
  cur++; skipws();
  char k = *cur++; Node* n = calloc(1, sizeof(Node));
  switch (k) {
    case 's': skipws(); if (!is_digit()) return NULL; n->kind = STMT; n->n = parse_num(); break;
    case 't': skipws(); if (!is_digit()) return NULL; n->kind = THROW; n->n = parse_num(); break;
    case 'm': skipws(); if (!is_digit()) return NULL; n->kind = THROWBAD; n->n = parse_num(); break;
    case 'n': n->kind = THROWNULL; break;
    case 'r': n->kind = RETHROW; break;
    case 'q': n->kind = SEQ; n->a = parse_node(); n->b = parse_node(); if (!n->a || !n->b) return NULL; break;
    case 'f': n->kind = CALL; n->a = parse_node(); if (!n->a) return NULL; break;
    case 'd': skipws(); if (!is_digit()) return NULL; n->kind = DEEP; n->n = parse_num(); if (n->n > 4096) return NULL;
      n->a = parse_node(); if (!n->a) return NULL; break;
    case 'c':
      n->kind = TRY; n->a = parse_node(); if (!n->a) return NULL;
      skipws(); if (*cur != '(') return NULL; cur++;
      for (;;) { skipws(); if (*cur == ')') { cur++; break; } if (!is_digit()) return NULL;
        if (n->nfilt >= MAXFILT) return NULL; n->filt[n->nfilt++] = parse_num(); }
      n->b = parse_node(); if (!n->b) return NULL; break;
    default: return NULL;
  }
  skipws(); if (*cur != ')') return NULL; cur++;
  return n;
}

#define NKINDS 6
static var kind_obj(int k) {
  switch (k % NKINDS) {
    case 0: return TypeError; case 1: return ValueError; case 2: return KeyError;
    case 3: return IOError;   case 4: return FormatError; default: return BusyError;
  }
}
static int kind_index(var e) { for (int k = 0; k < NKINDS; k++) if (kind_obj(k) == e) return k; return 99; }

static int evfd = 1;
static void emit(char c, int n) { char b[32]; int l = snprintf(b, sizeof b, "%c%d,", c, n); if (write(evfd, b, l) < 0) {} }

static void run(Node* n, var x);
__attribute__((noinline)) static void run_call(Node* n, var x) { volatile int pad[16]; pad[0] = n->kind; run(n, x); (void)pad; }
__attribute__((noinline)) static void run_deep(int k, Node* n, var x) {
  volatile int pad[8]; pad[0] = k;
  if (k <= 0) run(n, x); else run_deep(k - 1, n, x);
  (void)pad;
}

/* every throw in a function of its own: the macro's tuple()/$I() temporaries stay out of the recursive frames */
__attribute__((noinline)) static void do_throw(int k) { throw(kind_obj(k), "kind %i", $I(k)); }
__attribute__((noinline)) static void do_throw_null(void) { throw(NULL, "null"); }
__attribute__((noinline)) static void do_throw_bad(int k) { throw(kind_obj(k), "kind %i"); }
__attribute__((noinline)) static void do_rethrow(var x) { throw(x, "re"); }

/* the real macros; one function — ONE try site — per filter arity, re-entered recursively through run(): the same site
   is active several times at once whenever blocks of equal arity nest. */
__attribute__((noinline)) static void run_try0(Node* n, var x) { try { run(n->a, x); } catch (e) { emit('h', kind_index(e)); run(n->b, e); } }
__attribute__((noinline)) static void run_try1(Node* n, var x) { try { run(n->a, x); } catch (e in kind_obj(n->filt[0])) { emit('h', kind_index(e)); run(n->b, e); } }
__attribute__((noinline)) static void run_try2(Node* n, var x) { try { run(n->a, x); } catch (e in kind_obj(n->filt[0]), kind_obj(n->filt[1])) { emit('h', kind_index(e)); run(n->b, e); } }
__attribute__((noinline)) static void run_try3(Node* n, var x) { try { run(n->a, x); } catch (e in kind_obj(n->filt[0]), kind_obj(n->filt[1]), kind_obj(n->filt[2])) { emit('h', kind_index(e)); run(n->b, e); } }
__attribute__((noinline)) static void run_try4(Node* n, var x) { try { run(n->a, x); } catch (e in kind_obj(n->filt[0]), kind_obj(n->filt[1]), kind_obj(n->filt[2]), kind_obj(n->filt[3])) { emit('h', kind_index(e)); run(n->b, e); } }

static void run(Node* n, var x) {
  switch (n->kind) {
    case STMT: emit('s', n->n); break;
    case THROW: do_throw(n->n); break;
    case THROWNULL: do_throw_null(); break;
    case THROWBAD: do_throw_bad(n->n); break;
    case RETHROW: do_rethrow(x); break;
    case SEQ: run(n->a, x); run(n->b, x); break;
    case CALL: run_call(n->a, x); break;
    case DEEP: run_deep(n->n, n->a, x); break;
    case TRY:
      switch (n->nfilt) {
        case 0: run_try0(n, x); break; case 1: run_try1(n, x); break; case 2: run_try2(n, x); break;
        case 3: run_try3(n, x); break; default: run_try4(n, x); break;
      }
      break;
  }
}

/* lexically nested blocks inside ONE function (the interpreter above nests dynamically): a fixed 3-level shape whose
   behaviour is selected by the three throw kinds (or -1 = no throw) and filters; expressed to the model as the
   equivalent program tree by the generator (op `L a b c f1 f2 f3`). */
static void run_lexical(int a, int b, int c, int f1, int f2, int f3) {
  try {
    emit('s', 1);
    try {
      emit('s', 2);
      try {
        emit('s', 3);
        if (a >= 0) throw(kind_obj(a), "a");
        emit('s', 4);
      } catch (e in kind_obj(f3)) { emit('h', kind_index(e)); if (b >= 0) throw(kind_obj(b), "b"); emit('s', 5); }
      emit('s', 6);
    } catch (e in kind_obj(f2)) { emit('h', kind_index(e)); if (c >= 0) throw(kind_obj(c), "c"); emit('s', 7); }
    emit('s', 8);
  } catch (e in kind_obj(f1)) { emit('h', kind_index(e)); emit('s', 9); }
  emit('s', 10);
}

/* ---- direct oracle: reference interpreter (structured exceptions), independent of the Lean model ----
   Exceptions are kinds 0…NKINDS-1; a filter matches an exception iff it is empty or lists it (any number of times).
   Besides the reference outcome it records where the nesting would exceed EXCEPTION_MAX_DEPTH. */
static char obuf[1 << 16]; static size_t olen;
static long o_over_at;   /* trace length at the first such point, -1 = never */
static int o_stop;
static void oemit(char c, int n) { if (!o_stop) olen += snprintf(obuf + olen, sizeof obuf - olen, "%c%d,", c, n); }
static int oeval(Node* n, int x, size_t depth) { /* returns -1 = completed, else the escaping kind */
  if (o_stop) return -1;
  switch (n->kind) {
    case STMT: oemit('s', n->n); return -1;
    case THROW: case THROWBAD: return n->n % NKINDS;
    case THROWNULL: return -1;  /* not judged: see out_of_domain() */
    case RETHROW: return x;
    case SEQ: { int r = oeval(n->a, x, depth); if (r >= 0 || o_stop) return r; return oeval(n->b, x, depth); }
    case CALL: case DEEP: return oeval(n->a, x, depth);
    case TRY: {
      if (depth >= EXCEPTION_MAX_DEPTH) { if (o_over_at < 0) o_over_at = (long)olen; o_stop = 1; return -1; }
      int r = oeval(n->a, x, depth + 1); if (r < 0 || o_stop) return -1;
      int m = n->nfilt == 0; for (int i = 0; i < n->nfilt; i++) if (n->filt[i] % NKINDS == r) m = 1;
      if (!m) return r;
      oemit('h', r); return oeval(n->b, r, depth);
    }
  }
  return -1;
}
static int out_of_domain(Node* n) {
  if (!n) return 0;
  if (n->kind == THROWNULL || n->kind == THROWBAD) return 1;
  return out_of_domain(n->a) || out_of_domain(n->b);
}
static int has_dup_filter(Node* n) {
  if (!n) return 0;
  if (n->kind == TRY) for (int i = 0; i < n->nfilt; i++) for (int j = 0; j < i; j++) if (n->filt[i] % NKINDS == n->filt[j] % NKINDS) return 1;
  return has_dup_filter(n->a) || has_dup_filter(n->b);
}

static void strip_comma(char* s) { size_t l = strlen(s); if (l && s[l-1] == ',') s[l-1] = 0; }

int main(int argc, char** argv) {
  v_init();
  if (argc < 2) { fprintf(stderr, "usage: h_exn <opfile>\n"); return 2; }
  size_t n; char** lines = v_read_lines(argv[1], &n);
  size_t nprog = 0, n_ood = 0, n_dup = 0, n_over = 0;
  /* room for EXCEPTION_MAX_DEPTH recursive activations of the interpreter under ASan (the main thread's stack grows on demand) */
  { struct rlimit rl; if (getrlimit(RLIMIT_STACK, &rl) == 0) { rlim_t want = (rlim_t)256 << 20;
      if (rl.rlim_max != RLIM_INFINITY && want > rl.rlim_max) want = rl.rlim_max;
      if (rl.rlim_cur == RLIM_INFINITY || rl.rlim_cur < want) { rl.rlim_cur = want; setrlimit(RLIMIT_STACK, &rl); } } }
  /* make sure the main thread's Exception object exists before forking */
  (void)len(current(Exception));
  for (size_t li = 0; li < n; li++) {
    char* l = lines[li];
    if (v_skippable(l)) continue;
    Node* prog = NULL; int lex[6]; int is_lex = 0;
    if (l[0] == 'P' && l[1] == ' ') { cur = l + 2; prog = parse_node(); skipws(); if (prog && *cur) prog = NULL; }
    static char lexbuf[1024];
    if (l[0] == 'L' && l[1] == ' ' && sscanf(l + 2, "%d %d %d %d %d %d", &lex[0], &lex[1], &lex[2], &lex[3], &lex[4], &lex[5]) == 6) {
      char A[32] = "", B[32] = "", C[32] = "";
      #define OPT(buf, k, tag) do { if (k >= 0) snprintf(buf, sizeof buf, "(q (t %d) (s %d))", k, tag); else snprintf(buf, sizeof buf, "(s %d)", tag); } while (0)
      OPT(A, lex[0], 4); OPT(B, lex[1], 5); OPT(C, lex[2], 7);
      snprintf(lexbuf, sizeof lexbuf,
        "(q (c (q (s 1) (q (c (q (s 2) (q (c (q (s 3) %s) (%d) %s) (s 6))) (%d) %s) (s 8))) (%d) (s 9)) (s 10))",
        A, lex[5], B, lex[4], C, lex[3]);
      cur = lexbuf; prog = parse_node(); is_lex = 1;
    }
    if (!prog) { O("bad-op"); continue; }
    nprog++;
    int dupf = has_dup_filter(prog);
    int ev[2], er[2];
    if (pipe(ev) || pipe(er)) { perror("pipe"); return 2; }
    fflush(stdout);
    pid_t pid = fork();
    if (pid == 0) {
      close(ev[0]); close(er[0]); evfd = ev[1];
      dup2(er[1], 2);
      alarm(dupf ? 2 : 20);
      size_t d0 = len(current(Exception));
      if (is_lex) run_lexical(lex[0], lex[1], lex[2], lex[3], lex[4], lex[5]); else run(prog, kind_obj(0));
      size_t d1 = len(current(Exception));
      char b[64]; int bl = snprintf(b, sizeof b, "|%zu|%zu", d0, d1); if (write(evfd, b, bl) < 0) {}
      _exit(0);
    }
    close(ev[1]); close(er[1]);
    static char tbuf[1 << 16]; size_t tl = 0; ssize_t r;
    while ((r = read(ev[0], tbuf + tl, sizeof tbuf - 1 - tl)) > 0) tl += r;
    tbuf[tl] = 0; close(ev[0]);
    static char ebuf[1 << 14]; size_t el = 0;
    while ((r = read(er[0], ebuf + el, sizeof ebuf - 1 - el)) > 0) el += r;
    ebuf[el] = 0; close(er[0]);
    int st = 0; waitpid(pid, &st, 0);
    char* bar = strchr(tbuf, '|'); char depth[32] = "-"; size_t d0 = 0, d1 = 0; int completed = 0;
    if (bar) { *bar = 0; if (sscanf(bar + 1, "%zu|%zu", &d0, &d1) == 2) { completed = 1; snprintf(depth, sizeof depth, "%zu", d1); } }
    strip_comma(tbuf);
    const char* end;
    if (WIFSIGNALED(st)) end = WTERMSIG(st) == SIGABRT ? "abort" : WTERMSIG(st) == SIGALRM ? "hang" : "signal";
    else if (completed && WEXITSTATUS(st) == 0) end = "normal";
    else if (!completed && WEXITSTATUS(st) == EXIT_FAILURE) end = "fatal";
    else end = "other";
    O("trace=%s end=%s depth=%s", tbuf, end, depth);
    /* oracle */
    if (completed && d0 != d1) X("sig=exn-depth line=%zu what=nesting depth %zu before, %zu after", li + 1, d0, d1);
    if (out_of_domain(prog)) {
      /* throw(NULL) / malformed message: outside the object domain the property speaks about; the behaviour is modelled
         (correspondence), refuted in Lean (C07_throw_null_refuted, C07_bad_message_refuted), not judged here */
      n_ood++; continue;
    }
    olen = 0; obuf[0] = 0; o_over_at = -1; o_stop = 0;
    int esc = oeval(prog, 0, 0);
    if (o_over_at >= 0) {
      /* the nesting does not fit: exception_try must abort at that block, nothing after the events so far */
      n_over++;
      obuf[o_over_at] = 0; strip_comma(obuf);
      if (strcmp(end, "abort") != 0 || strcmp(obuf, tbuf) != 0 || !strstr(ebuf, "Exception Buffer Overflow"))
        X("sig=exn-overflow line=%zu what=nesting beyond EXCEPTION_MAX_DEPTH: want abort with the overflow message after [%s], got end=%s after [%s]", li + 1, obuf, end, tbuf);
      continue;
    }
    static char full[1 << 16]; memcpy(full, obuf, olen + 1); strip_comma(full);
    if (dupf) n_dup++;
    if (strcmp(end, "hang") == 0) {
      X("sig=exn-hang line=%zu what=the program did not end within the time limit%s (events so far [%s]); block structure wants [%s] end=%s", li + 1,
        dupf ? " — a catch filter names one object twice: exception_catch must walk it to its end and match by membership" : "", tbuf, full, esc < 0 ? "normal" : "fatal");
      continue;
    }
    if (strcmp(full, tbuf) != 0) X("sig=exn-trace line=%zu what=handlers/statements differ from block structure: got [%s] want [%s]", li + 1, tbuf, full);
    if (esc < 0 && strcmp(end, "normal") != 0) X("sig=exn-end line=%zu what=program without escaping exception ended %s", li + 1, end);
    if (esc >= 0 && strcmp(end, "fatal") != 0) X("sig=exn-end line=%zu what=uncaught exception did not terminate with failure status (ended %s)", li + 1, end);
    if (esc >= 0 && !strstr(ebuf, "Uncaught")) X("sig=exn-diag line=%zu what=no diagnostic for uncaught exception", li + 1);
  }
  I("programs=%zu out_of_domain=%zu dup_filter=%zu overflow=%zu", nprog, n_ood, n_dup, n_over);
  return 0;
}
