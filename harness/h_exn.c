/* harness/h_exn.c — engine `exn` (C07): runs try/throw/catch program trees on the real macros.
 *
 * op file: one program per line, `P <sexp>` with
 *   program ::= (s N) | (t K) | (g N) | (k N) | (n) | (m K) | (r) | (q P P) | (c P (K*) P) | (f P) | (d N P)
 *     (k N)        raise(signal N % 6 of SIGABRT SIGFPE SIGILL SIGINT SIGSEGV SIGTERM) with exception_signals() installed; each signal at
 *                  most once per program (a second raise of a signal is finding KF-C07-signal-once: op S)
 *     (s N)        statement N
 *     (t K)        throw(kind K, "kind %i", $I(K))
 *     (g N)        a library function raises inside the body: N even get(Table, missing key) -> KeyError, N odd rem(Array, absent) -> ValueError
 *     (n)          throw(NULL, "null")                          — outside the object domain of C07
 *     (m K)        throw(kind K, "kind %i")  (too few arguments) — outside the object domain of C07
 *     (r)          throw(x, "re") where x is the variable bound by the innermost enclosing handler (top level: TypeError)
 *     (q P P)      P; P
 *     (c P (K*) P) try { P } catch (e in K*) { P }              — filter arity 0…4
 *     (f P)        P in a callee frame;  (d N P)  P called through N frames
 * or `L a b c f1 f2 f3` (three lexically nested blocks in one C function),
 * or `S mode n1 n2 …` (a history of try { raise(sig) } catch blocks in one thread), `E k shape len` (the report of an uncaught exception),
 * or `A` (the documented accessors exception_object() / exception_message(): defined or not; finding KF-C07-accessors-undefined).
 * Kinds K < 100 are the library's Type objects TypeError … BusyError (K modulo 6); kinds 100 + j are objects that are NOT
 * Types (j modulo 7): the heap Strings "A", "B", "A" (a second object), "TypeError", the heap Ints 5, 7, 5 (a second object).
 * exception_catch compares a filter entry with the pending object by eq = the Cmp instance of the ENTRY: entries and
 * exceptions of comparable types behave by block structure with "lists" = equal value (judged by the oracle); an entry that
 * cannot be compared with the arriving exception makes eq raise ValueError / ClassError inside exception_catch — finding
 * KF-C07-filter-eq-raises, oracle signature exn-filter-eq-raises (witness corpus/kf_c07_filter_eq_raises.ops; not generated).
 * Filters may name one object several times (kinds are taken modulo NKINDS): since fix a0ef2da exception_catch walks its
 * filter by index, so such a filter terminates and matches by membership like any other.
 * Each program runs in a forked child under alarm() (an uncaught exception exits the process, an overflow of the jump
 * buffer array aborts it; before fix a0ef2da a filter that listed an object twice made exception_catch loop for ever —
 * that now shows as end=hang, which the oracle reports as an ordinary violation).  The child streams
 * its events through a pipe; the parent prints
 *   O trace=<events> end=<normal|fatal|abort|hang|signal|other> depth=<len(current(Exception)) after, or - >
 * and checks the direct oracle (a reference interpreter of structured exceptions, written here independently of the
 * Lean model) plus: exit status is EXIT_FAILURE and stderr carries the "Uncaught" diagnostic for an escaping exception.
 * THE REFERENCE INTERPRETER HAS NO CAPACITY: every program whose try-nesting (number of blocks open at the same time,
 * lexical or dynamic) stays within the property's nesting bound C07_NEST_BOUND = 2048 — a number fixed HERE, deliberately
 * not the EXCEPTION_MAX_DEPTH of the source under test — must behave by block structure; a tree whose jump-buffer stack
 * was shrunk (seeded change c07_j: 64) aborts such a program with "Exception Buffer Overflow" and the oracle reports
 * exn-end / exn-trace on it. Nesting beyond the bound is outside the property's quantifier: there the oracle accepts the
 * reference behaviour (a larger stack) or a clean overflow abort (the message on stderr, SIGABRT, and the events so far a
 * prefix of the reference trace) and reports anything else (a crash, a wrong trace) as exn-overflow. */
#include "common.h"
#include <errno.h>
#include <sys/resource.h>

/* the nesting bound of property C07 (Lean: Cello.Exn.nestBound): NOT taken from the source under test */
#define C07_NEST_BOUND 2048

enum { STMT, THROW, THROWNULL, THROWBAD, RETHROW, SEQ, TRY, CALL, DEEP, LIBRAISE, SIGRAISE };
static int allow_sig_filter; /* filter entries 200 + j (the signal exception objects): only in the programs op `S` builds */
#define MAXFILT 4
typedef struct Node { int kind; int n; int filt[MAXFILT]; int nfilt; struct Node *a, *b; } Node;

static const char* cur;
static void skipws(void) { while (*cur == ' ') cur++; }
static int is_digit(void) { return *cur >= '0' && *cur <= '9'; }
static int parse_num(void) { int v = 0; skipws(); while (is_digit()) { v = v*10 + (*cur - '0'); cur++; } return v; }
static Node* parse_node(void) {
  skipws();
  if (*cur != '(') return NULL;
  cur++; skipws();
  char k = *cur++; Node* n = calloc(1, sizeof(Node));
  switch (k) {
    case 's': skipws(); if (!is_digit()) return NULL; n->kind = STMT; n->n = parse_num(); break;
    case 't': skipws(); if (!is_digit()) return NULL; n->kind = THROW; n->n = parse_num(); break;
    case 'm': skipws(); if (!is_digit()) return NULL; n->kind = THROWBAD; n->n = parse_num(); break;
    case 'g': skipws(); if (!is_digit()) return NULL; n->kind = LIBRAISE; n->n = parse_num(); break;
    case 'k': skipws(); if (!is_digit()) return NULL; n->kind = SIGRAISE; n->n = parse_num(); break;
    case 'n': n->kind = THROWNULL; break;
    case 'r': n->kind = RETHROW; break;
    case 'q': n->kind = SEQ; n->a = parse_node(); n->b = parse_node(); if (!n->a || !n->b) return NULL; break;
    case 'f': n->kind = CALL; n->a = parse_node(); if (!n->a) return NULL; break;
    case 'd': skipws(); if (!is_digit()) return NULL; n->kind = DEEP; n->n = parse_num(); if (n->n > 4096) return NULL;
      n->a = parse_node(); if (!n->a) return NULL; break;
    case 'c':
      n->kind = TRY; n->a = parse_node(); if (!n->a) return NULL;
      skipws(); if (*cur != '(') return NULL; cur++;
      for (;;) { skipws(); if (*cur == ')') { cur++; break; } if (!is_digit()) return NULL;
        if (n->nfilt >= MAXFILT) return NULL; n->filt[n->nfilt++] = parse_num(); if (n->filt[n->nfilt-1] >= 200 && !allow_sig_filter) return NULL; }
      n->b = parse_node(); if (!n->b) return NULL; break;
    default: return NULL;
  }
  skipws(); if (*cur != ')') return NULL; cur++;
  return n;
}

#define NKINDS 6
#define NEXTRA 7
#define IDX_CLASSERR 6          /* ClassError: never named by a program, raised by c_str / c_int on an object without the class */
#define IDX_EXTRA0 7            /* index of extra object j = 7 + j (Lean: address 8 + j) */
#define NSIGS 6
#define IDX_SIG0 14             /* index of the exception object of signal j = 14 + j (Lean: address 15 + j, Cello.Exn.sigObj) */
static const int sig_num[NSIGS] = { SIGABRT, SIGFPE, SIGILL, SIGINT, SIGSEGV, SIGTERM };
static var sig_exc(int j) { switch (j % NSIGS) { case 0: return ProgramAbortedError; case 1: return DivisionByZeroError; case 2: return IllegalInstructionError;
    case 3: return ProgramInterruptedError; case 4: return SegmentationError; default: return ProgramTerminationError; } }
static var extra_obj[NEXTRA];
static void make_extras(void) {
  extra_obj[0] = new_root(String, $S("A")); extra_obj[1] = new_root(String, $S("B")); extra_obj[2] = new_root(String, $S("A"));
  extra_obj[3] = new_root(String, $S("TypeError"));
  extra_obj[4] = new_root(Int, $I(5)); extra_obj[5] = new_root(Int, $I(7)); extra_obj[6] = new_root(Int, $I(5));
}
static var kind_obj(int k) {
  if (k >= 200) return sig_exc(k - 200);
  if (k >= 100) return extra_obj[(k - 100) % NEXTRA];
  switch (k % NKINDS) {
    case 0: return TypeError; case 1: return ValueError; case 2: return KeyError;
    case 3: return IOError;   case 4: return FormatError; default: return BusyError;
  }
}
/* by IDENTITY: the two Strings "A" have different indices, so the trace says which object the handler bound */
static int kind_index(var e) {
  for (int k = 0; k < NKINDS; k++) if (kind_obj(k) == e) return k;
  if (e == ClassError) return IDX_CLASSERR;
  for (int j = 0; j < NEXTRA; j++) if (extra_obj[j] == e) return IDX_EXTRA0 + j;
  for (int j = 0; j < NSIGS; j++) if (sig_exc(j) == e) return IDX_SIG0 + j;
  return 99;
}
static int canon(int k) { return k >= 200 ? IDX_SIG0 + (k - 200) % NSIGS : k >= 100 ? IDX_EXTRA0 + (k - 100) % NEXTRA : k % NKINDS; }

/* the oracle's own table of what these objects are (class T = Type / S = String / I = Int; text or number) */
static const char o_cls[IDX_SIG0 + NSIGS] = { 'T','T','T','T','T','T','T', 'S','S','S','S', 'I','I','I', 'T','T','T','T','T','T' };
static const char* o_text[IDX_SIG0 + NSIGS] = { "TypeError","ValueError","KeyError","IOError","FormatError","BusyError","ClassError", "A","B","A","TypeError", 0,0,0,
  "ProgramAbortedError","DivisionByZeroError","IllegalInstructionError","ProgramInterruptedError","SegmentationError","ProgramTerminationError" };
/* the oracle's own copy of what a signal becomes (documentation of exception_signals + the messages of Exception_Signal) */
static const char* o_sig_msg[NSIGS] = { "Program Aborted", "Division by Zero", "Illegal Instruction", "Program Interrupted", "Segmentation fault", "Program Terminated" };
static const long o_num[IDX_SIG0 + NSIGS] = { 0,0,0,0,0,0,0, 0,0,0,0, 5,7,5, 0,0,0,0,0,0 };
/* entry a lists exception e: equal value */
static int o_lists(int a, int e) {
  if (o_cls[a] == 'I' || o_cls[e] == 'I') return o_cls[a] == o_cls[e] && o_num[a] == o_num[e];
  return strcmp(o_text[a], o_text[e]) == 0;
}
/* the Cmp instance of an entry of class a can look at an exception of class e */
static int o_comparable(int a, int e) {
  char ca = o_cls[a], ce = o_cls[e];
  return (ca == 'T' && ce == 'T') || (ca == 'S' && (ce == 'S' || ce == 'T')) || (ca == 'I' && ce == 'I');
}
/* how "%$" shows the object in the diagnostic */
static void o_shown(int e, char* buf, size_t n) {
  if (o_cls[e] == 'I') snprintf(buf, n, "%ld", o_num[e]); else if (o_cls[e] == 'S') snprintf(buf, n, "\"%s\"", o_text[e]); else snprintf(buf, n, "%s", o_text[e]);
}

/* the message of throw number k: three shapes (plain; a %$ argument and a literal %; longer than any fixed small buffer) */
#define FILLER "0123456789abcdefghijklmnopqrstuvwxyzABCDEFGHIJKLMNOPQRSTUVWXYZ-0123456789abcdefghijklmnopqrstuvwxyzABCDEFGHIJKLMNOPQRSTUVWXYZ-0123456789abcdefghijklmnopqrstuvwxyzABCDEFGHIJKLMNOPQRSTUVWXYZ-0123456789abcdefghijklmnopqrstuvwxyzABCDEFGHIJKLMNOPQRSTUVWXYZ-0123456789abcdefghijklmnopqrstuvwxyzABCDEFGHIJKLMNOPQRSTUVWXYZ"
static int o_plain_msgs;   /* op L: the throws are inline in run_lexical, always the plain shape */
static void expected_msg(int k, char* buf, size_t n) {
  switch (o_plain_msgs ? 0 : k % 3) {
    case 0: snprintf(buf, n, "kind %d", k); break;
    case 1: snprintf(buf, n, "\"obj\" is kind %d (100%%)", k); break;
    default: snprintf(buf, n, "kind %d %s end", k, FILLER); break;
  }
}

static int evfd = 1;
static void emit(char c, int n) { char b[32]; int l = snprintf(b, sizeof b, "%c%d,", c, n); if (write(evfd, b, l) < 0) {} }

static void run(Node* n, var x);
__attribute__((noinline)) static void run_call(Node* n, var x) { volatile int pad[16]; pad[0] = n->kind; run(n, x); (void)pad; }
__attribute__((noinline)) static void run_deep(int k, Node* n, var x) {
  volatile int pad[8]; pad[0] = k;
  if (k <= 0) run(n, x); else run_deep(k - 1, n, x);
  (void)pad;
}

/* every throw in a function of its own: the macro's tuple()/$I() temporaries stay out of the recursive frames */
__attribute__((noinline)) static void do_throw(int k) {
  switch (k % 3) {
    case 0: throw(kind_obj(k), "kind %i", $I(k)); break;
    case 1: throw(kind_obj(k), "%$ is kind %i (100%%)", $S("obj"), $I(k)); break;
    default: throw(kind_obj(k), "kind %i %s end", $I(k), $S(FILLER)); break;
  }
}
/* an exception raised by a library function (other frames between the throw and the try block, the library's own message) */
static var lib_table, lib_array;
__attribute__((noinline)) static void do_lib_raise(int k) {
  if (k % 2 == 0) (void)get(lib_table, $S("zz")); else rem(lib_array, $I(42));
}
/* raise(sig) with exception_signals() installed (done at the start of the child): Exception_Signal throws from inside raise */
__attribute__((noinline)) static void do_sig_raise(int k) { raise(sig_num[k % NSIGS]); }
/* op E: the three message shapes with a chosen length of the %s argument */
static char fillbuf[60001];
static void make_fill(size_t n) { for (size_t i = 0; i < n; i++) fillbuf[i] = (char)('a' + i % 26); fillbuf[n] = 0; }
__attribute__((noinline)) static void do_throw_shape(int k, int shape, size_t n) {
  switch (shape % 3) {
    case 0: throw(kind_obj(k), "kind %i", $I(k)); break;
    case 1: throw(kind_obj(k), "%$ is kind %i (100%%)", $S("obj"), $I(k)); break;
    default: make_fill(n); throw(kind_obj(k), "kind %i %s end", $I(k), $S(fillbuf)); break;
  }
}
__attribute__((noinline)) static void do_throw_null(void) { throw(NULL, "null"); }
__attribute__((noinline)) static void do_throw_bad(int k) { throw(kind_obj(k), "kind %i"); }
__attribute__((noinline)) static void do_rethrow(var x) { throw(x, "re"); }

/* the real macros; one function — ONE try site — per filter arity, re-entered recursively through run(): the same site
   is active several times at once whenever blocks of equal arity nest. */
__attribute__((noinline)) static void run_try0(Node* n, var x) { try { run(n->a, x); } catch (e) { emit('h', kind_index(e)); run(n->b, e); } }
__attribute__((noinline)) static void run_try1(Node* n, var x) { try { run(n->a, x); } catch (e in kind_obj(n->filt[0])) { emit('h', kind_index(e)); run(n->b, e); } }
__attribute__((noinline)) static void run_try2(Node* n, var x) { try { run(n->a, x); } catch (e in kind_obj(n->filt[0]), kind_obj(n->filt[1])) { emit('h', kind_index(e)); run(n->b, e); } }
__attribute__((noinline)) static void run_try3(Node* n, var x) { try { run(n->a, x); } catch (e in kind_obj(n->filt[0]), kind_obj(n->filt[1]), kind_obj(n->filt[2])) { emit('h', kind_index(e)); run(n->b, e); } }
__attribute__((noinline)) static void run_try4(Node* n, var x) { try { run(n->a, x); } catch (e in kind_obj(n->filt[0]), kind_obj(n->filt[1]), kind_obj(n->filt[2]), kind_obj(n->filt[3])) { emit('h', kind_index(e)); run(n->b, e); } }

static void run(Node* n, var x) {
  switch (n->kind) {
    case STMT: emit('s', n->n); break;
    case THROW: do_throw(n->n); break;
    case THROWNULL: do_throw_null(); break;
    case LIBRAISE: do_lib_raise(n->n); break;
    case SIGRAISE: do_sig_raise(n->n); break;
    case THROWBAD: do_throw_bad(n->n); break;
    case RETHROW: do_rethrow(x); break;
    case SEQ: run(n->a, x); run(n->b, x); break;
    case CALL: run_call(n->a, x); break;
    case DEEP: run_deep(n->n, n->a, x); break;
    case TRY:
      switch (n->nfilt) {
        case 0: run_try0(n, x); break; case 1: run_try1(n, x); break; case 2: run_try2(n, x); break;
        case 3: run_try3(n, x); break; default: run_try4(n, x); break;
      }
      break;
  }
}

/* lexically nested blocks inside ONE function (the interpreter above nests dynamically): a fixed 3-level shape whose
   behaviour is selected by the three throw kinds (or -1 = no throw) and filters; expressed to the model as the
   equivalent program tree by the generator (op `L a b c f1 f2 f3`). */
static void run_lexical(int a, int b, int c, int f1, int f2, int f3) {
  try {
    emit('s', 1);
    try {
      emit('s', 2);
      try {
        emit('s', 3);
        if (a >= 0) throw(kind_obj(a), "kind %i", $I(a));
        emit('s', 4);
      } catch (e in kind_obj(f3)) { emit('h', kind_index(e)); if (b >= 0) throw(kind_obj(b), "kind %i", $I(b)); emit('s', 5); }
      emit('s', 6);
    } catch (e in kind_obj(f2)) { emit('h', kind_index(e)); if (c >= 0) throw(kind_obj(c), "kind %i", $I(c)); emit('s', 7); }
    emit('s', 8);
  } catch (e in kind_obj(f1)) { emit('h', kind_index(e)); emit('s', 9); }
  emit('s', 10);
}

/* ---- direct oracle: reference interpreter (structured exceptions), independent of the Lean model ----
   Exceptions are object indices; a filter matches an exception iff it is empty or lists it (any number of times).
   The interpreter has NO capacity: it only records the largest number of try blocks that were open at the same time. */
static char obuf[1 << 18]; static size_t olen;
static size_t o_maxnest; /* largest number of simultaneously open try blocks on the reference run */
static int o_clash;      /* a filter walk of the reference run reached an entry that cannot be compared with the exception */
static char o_msg[1024]; /* the message of the last throw the reference run executed = what the record must hold at the end */
static void oemit(char c, int n) { if (olen + 32 < sizeof obuf) olen += snprintf(obuf + olen, sizeof obuf - olen, "%c%d,", c, n); }
static int oeval(Node* n, int x, size_t depth) { /* returns -1 = completed, else the escaping object's index */
  switch (n->kind) {
    case STMT: oemit('s', n->n); return -1;
    case THROW: expected_msg(n->n, o_msg, sizeof o_msg); return canon(n->n);
    case THROWBAD: return canon(n->n);
    case LIBRAISE:
      if (n->n % 2 == 0) { snprintf(o_msg, sizeof o_msg, "Key \"zz\" not in Table!"); return 2; }
      snprintf(o_msg, sizeof o_msg, "Object 42 not in Array!"); return 1;
    case SIGRAISE: snprintf(o_msg, sizeof o_msg, "%s", o_sig_msg[n->n % NSIGS]); return IDX_SIG0 + n->n % NSIGS;  /* block structure: a raised signal IS a throw */
    case THROWNULL: return -1;  /* not judged: see out_of_domain() */
    case RETHROW: snprintf(o_msg, sizeof o_msg, "re"); return x;
    case SEQ: { int r = oeval(n->a, x, depth); if (r >= 0) return r; return oeval(n->b, x, depth); }
    case CALL: case DEEP: return oeval(n->a, x, depth);
    case TRY: {
      if (depth + 1 > o_maxnest) o_maxnest = depth + 1;
      int r = oeval(n->a, x, depth + 1); if (r < 0) return -1;
      int m = n->nfilt == 0;
      for (int i = 0; i < n->nfilt && !m; i++) {
        int a = canon(n->filt[i]);
        if (!o_comparable(a, r)) o_clash = 1;   /* territory of KF-C07-filter-eq-raises; block structure still asks: equal value? */
        if (o_lists(a, r)) m = 1;
      }
      if (!m) return r;
      oemit('h', r); return oeval(n->b, r, depth);
    }
  }
  return -1;
}
/* `got` is `want` cut at an event boundary */
static int is_event_prefix(const char* got, const char* want) {
  size_t l = strlen(got);
  return strncmp(got, want, l) == 0 && (want[l] == 0 || want[l] == ',' || l == 0);
}
static int out_of_domain(Node* n) {
  if (!n) return 0;
  if (n->kind == THROWNULL || n->kind == THROWBAD) return 1;
  return out_of_domain(n->a) || out_of_domain(n->b);
}
static int has_dup_filter(Node* n) {
  if (!n) return 0;
  if (n->kind == TRY) for (int i = 0; i < n->nfilt; i++) for (int j = 0; j < i; j++) if (canon(n->filt[i]) == canon(n->filt[j])) return 1;
  return has_dup_filter(n->a) || has_dup_filter(n->b);
}

/* the signals a program raises: count per signal */
static void count_sigs(Node* n, int* cnt) { if (!n) return; if (n->kind == SIGRAISE) cnt[n->n % NSIGS]++; count_sigs(n->a, cnt); count_sigs(n->b, cnt); }

/* op `A`: the accessors the documentation names. Declared in Cello.h; weak here, so that the harness links when no source
   file defines them (their address is then NULL). */
#pragma weak exception_object
#pragma weak exception_message
static void accessor_probe(size_t line) {
  var (*volatile fo)(void) = exception_object; var (*volatile fm)(void) = exception_message;
  O("accessors object=%s message=%s", fo ? "defined" : "undefined", fm ? "defined" : "undefined");
  if (!fo || !fm) {
    X("sig=exn-accessor-undefined line=%zu what=exception_object / exception_message are declared in Cello.h and documented in Exception.c but defined nowhere: a program calling them does not link; a handler cannot read the thrown message", line);
    return;
  }
  int ok_obj = 0, ok_msg = 0;
  try { throw(KeyError, "probe %i", $I(7)); } catch (e) { ok_obj = fo() == e && e == KeyError; var m = fm(); ok_msg = m && strcmp(c_str(m), "probe 7") == 0; }
  if (!ok_obj) X("sig=exn-accessor-wrong line=%zu what=exception_object() in a handler is not the thrown object", line);
  if (!ok_msg) X("sig=exn-accessor-wrong line=%zu what=exception_message() in a handler is not the thrown message", line);
}

/* op `E k shape len`: throw(kind k, message of the given shape, %s argument of `len` characters) at top level, uncaught
   (k = 200 + j: exception_signals(); raise(signal j)); prints the whole report Exception_Error wrote and the exit status;
   the oracle builds the expected report on its own. */
static size_t d_shape[3], d_sig, d_long;
static void diag_op(const char* args, size_t line) {
  int k, shape; long n; static char rep_[1 << 17]; static char want[1 << 17]; static char msg[1 << 16];
  if (sscanf(args, "%d %d %ld", &k, &shape, &n) != 3 || k < 0 || shape < 0 || shape > 2 || n < 0 || n > 60000) { O("bad-op"); return; }
  int er[2]; if (pipe(er)) { perror("pipe"); exit(2); }
  fflush(stdout);
  pid_t pid = fork();
  if (pid == 0) {
    close(er[0]); dup2(er[1], 2); alarm(20);
    if (k >= 200) { exception_signals(); raise(sig_num[(k - 200) % NSIGS]); } else do_throw_shape(k, shape, (size_t)n);
    _exit(0);
  }
  close(er[1]); size_t el = 0; ssize_t r;
  while ((r = read(er[0], rep_ + el, sizeof rep_ - 1 - el)) > 0) el += r;
  rep_[el] = 0; close(er[0]);
  int st = 0; waitpid(pid, &st, 0);
  const char* end = WIFSIGNALED(st) ? (WTERMSIG(st) == SIGABRT ? "abort" : WTERMSIG(st) == SIGALRM ? "hang" : "signal") : WEXITSTATUS(st) == EXIT_FAILURE ? "fatal" : "other";
  char stat[16]; if (WIFEXITED(st)) snprintf(stat, sizeof stat, "%d", WEXITSTATUS(st)); else snprintf(stat, sizeof stat, "-");
  static char esc[2048]; size_t eo = 0;
  for (size_t i = 0; i < el && i < 400; i++) { char c = rep_[i]; if (c == '\n') { esc[eo++] = '\\'; esc[eo++] = 'n'; } else if (c == '\t') { esc[eo++] = '\\'; esc[eo++] = 't'; } else esc[eo++] = c; }
  esc[eo] = 0;
  O("diag end=%s status=%s len=%zu text=%s", end, stat, el, esc);
  /* oracle */
  char shown[64]; int idx = canon(k); o_shown(idx, shown, sizeof shown);
  if (k >= 200) { snprintf(msg, sizeof msg, "%s", o_sig_msg[(k - 200) % NSIGS]); d_sig++; }
  else if (shape == 0) { snprintf(msg, sizeof msg, "kind %d", k); }
  else if (shape == 1) { snprintf(msg, sizeof msg, "\"obj\" is kind %d (100%%)", k); }
  else { size_t o = snprintf(msg, sizeof msg, "kind %d ", k); for (long i = 0; i < n; i++) msg[o++] = (char)('a' + i % 26); snprintf(msg + o, sizeof msg - o, " end"); if (n > 1024) d_long++; }
  if (k < 200) d_shape[shape]++;
  snprintf(want, sizeof want, "\n!!\t\n!!\tUncaught %s\n!!\t\n!!\t\t %s\n!!\t\n", shown, msg);
  if (strcmp(end, "fatal") != 0) X("sig=exn-end line=%zu what=uncaught exception did not terminate with failure status (ended %s, status %s)", line, end, stat);
  else if (strcmp(want, rep_) != 0) {
    size_t d = 0; while (want[d] && want[d] == rep_[d]) d++;
    X("sig=exn-diag line=%zu what=the report of the uncaught exception is not `<empty line> / Uncaught <object> / <message>` framed by `!!` lines: first difference at byte %zu of %zu (want %zu bytes)", line, d, el, strlen(want));
  }
}

static void strip_comma(char* s) { size_t l = strlen(s); if (l && s[l-1] == ',') s[l-1] = 0; }

int main(int argc, char** argv) {
  v_init();
  if (argc < 2) { fprintf(stderr, "usage: h_exn <opfile>\n"); return 2; }
  size_t n; char** lines = v_read_lines(argv[1], &n);
  size_t n_diag = 0, n_hist = 0, n_sigprog = 0;
  size_t nprog = 0, n_ood = 0, n_dup = 0, n_over = 0, n_clash = 0, n_deep = 0, max_nest = 0;
  /* room for C07_NEST_BOUND (and a few more) recursive activations of the interpreter — run() + run_tryN() with its jmp_buf,
     plus the callee frames of (f …) / (d N …) at every level — under ASan (the main thread's stack grows on demand) */
  { struct rlimit rl; if (getrlimit(RLIMIT_STACK, &rl) == 0) { rlim_t want = (rlim_t)256 << 20;
      if (rl.rlim_max != RLIM_INFINITY && want > rl.rlim_max) want = rl.rlim_max;
      if (rl.rlim_cur == RLIM_INFINITY || rl.rlim_cur < want) { rl.rlim_cur = want; setrlimit(RLIMIT_STACK, &rl); } } }
  /* make sure the main thread's Exception object exists before forking */
  (void)len(current(Exception));
  make_extras();
  lib_table = new_root(Table, String, Int); set(lib_table, $S("a"), $I(1));
  lib_array = new_root(Array, Int, $I(1), $I(2));
  for (size_t li = 0; li < n; li++) {
    char* l = lines[li];
    if (v_skippable(l)) continue;
    if (strcmp(l, "A") == 0) { accessor_probe(li + 1); continue; }
    Node* prog = NULL; int lex[6]; int is_lex = 0; int is_hist = 0;
    if (l[0] == 'E' && l[1] == ' ') { diag_op(l + 2, li + 1); n_diag++; continue; }
    if (l[0] == 'P' && l[1] == ' ') { cur = l + 2; prog = parse_node(); skipws(); if (prog && *cur) prog = NULL; }
    static char lexbuf[1024];
    if (l[0] == 'S' && l[1] == ' ') {
      /* a history of `try { raise(sig n_i); s1 } catch (e in F) { s2 }` in ONE thread, then s9; mode 0: catch-all, 1: the signal's
         own exception object, 2: TypeError (does not list it) */
      int mode = -1, ns = 0, sg[12], off = 0, adv = 0; const char* q = l + 2;
      if (sscanf(q, "%d%n", &mode, &adv) == 1 && mode >= 0 && mode <= 2) { q += adv;
        while (ns < 12 && sscanf(q, " %d%n", &sg[ns], &adv) == 1 && sg[ns] >= 0) { q += adv; ns++; }
        while (*q == ' ') q++;
        if (ns >= 1 && *q == 0) {
          static char hb[2048]; hb[0] = 0;
          for (int i = 0; i < ns; i++) { char f[16] = ""; if (mode == 1) snprintf(f, sizeof f, "%d", 200 + sg[i] % NSIGS); else if (mode == 2) snprintf(f, sizeof f, "0");
            off += snprintf(hb + off, sizeof hb - off, "(q (c (q (k %d) (s 1)) (%s) (s 2)) ", sg[i], f); }
          off += snprintf(hb + off, sizeof hb - off, "(s 9)"); for (int i = 0; i < ns; i++) off += snprintf(hb + off, sizeof hb - off, ")");
          allow_sig_filter = 1; cur = hb; prog = parse_node(); allow_sig_filter = 0; is_hist = 1; n_hist++;
        } }
    }
    if (l[0] == 'L' && l[1] == ' ' && sscanf(l + 2, "%d %d %d %d %d %d", &lex[0], &lex[1], &lex[2], &lex[3], &lex[4], &lex[5]) == 6) {
      char A[32] = "", B[32] = "", C[32] = "";
      #define OPT(buf, k, tag) do { if (k >= 0) snprintf(buf, sizeof buf, "(q (t %d) (s %d))", k, tag); else snprintf(buf, sizeof buf, "(s %d)", tag); } while (0)
      OPT(A, lex[0], 4); OPT(B, lex[1], 5); OPT(C, lex[2], 7);
      snprintf(lexbuf, sizeof lexbuf,
        "(q (c (q (s 1) (q (c (q (s 2) (q (c (q (s 3) %s) (%d) %s) (s 6))) (%d) %s) (s 8))) (%d) (s 9)) (s 10))",
        A, lex[5], B, lex[4], C, lex[3]);
      cur = lexbuf; prog = parse_node(); is_lex = 1;
    }
    int sigcnt[NSIGS] = {0}, uses_sig = 0, sig_repeated = 0;
    if (prog) { count_sigs(prog, sigcnt); for (int j = 0; j < NSIGS; j++) { if (sigcnt[j]) uses_sig = 1; if (sigcnt[j] > 1) sig_repeated = 1; } }
    /* a `(k N)` leaf means "the signal is delivered": one signal twice in a program is op S's business */
    if (prog && sig_repeated && !is_hist) prog = NULL;
    if (!prog) { O("bad-op"); continue; }
    if (uses_sig) n_sigprog++;
    nprog++;
    int dupf = has_dup_filter(prog);
    int ev[2], er[2];
    if (pipe(ev) || pipe(er)) { perror("pipe"); return 2; }
    fflush(stdout);
    pid_t pid = fork();
    if (pid == 0) {
      close(ev[0]); close(er[0]); evfd = ev[1];
      dup2(er[1], 2);
      alarm(dupf ? 2 : 20);
      if (uses_sig) exception_signals();
      size_t d0 = len(current(Exception));
      if (is_lex) run_lexical(lex[0], lex[1], lex[2], lex[3], lex[4], lex[5]); else run(prog, kind_obj(0));
      size_t d1 = len(current(Exception));
      char b[64]; int bl = snprintf(b, sizeof b, "|%zu|%zu", d0, d1); if (write(evfd, b, bl) < 0) {}
      _exit(0);
    }
    close(ev[1]); close(er[1]);
    static char tbuf[1 << 18]; size_t tl = 0; ssize_t r;
    while ((r = read(ev[0], tbuf + tl, sizeof tbuf - 1 - tl)) > 0) tl += r;
    tbuf[tl] = 0; close(ev[0]);
    static char ebuf[1 << 17]; size_t el = 0;
    while ((r = read(er[0], ebuf + el, sizeof ebuf - 1 - el)) > 0) el += r;
    ebuf[el] = 0; close(er[0]);
    int st = 0; waitpid(pid, &st, 0);
    char* bar = strchr(tbuf, '|'); char depth[32] = "-"; size_t d0 = 0, d1 = 0; int completed = 0;
    if (bar) { *bar = 0; if (sscanf(bar + 1, "%zu|%zu", &d0, &d1) == 2) { completed = 1; snprintf(depth, sizeof depth, "%zu", d1); } }
    strip_comma(tbuf);
    const char* end;
    if (WIFSIGNALED(st)) end = WTERMSIG(st) == SIGABRT ? "abort" : WTERMSIG(st) == SIGALRM ? "hang" : "signal";
    else if (completed && WEXITSTATUS(st) == 0) end = "normal";
    else if (!completed && WEXITSTATUS(st) == EXIT_FAILURE) end = "fatal";
    else end = "other";
    O("trace=%s end=%s depth=%s", tbuf, end, depth);
    /* oracle */
    if (completed && d0 != d1) X("sig=exn-depth line=%zu what=nesting depth %zu before, %zu after", li + 1, d0, d1);
    if (out_of_domain(prog)) {
      /* throw(NULL) / malformed message: outside the object domain the property speaks about; the behaviour is modelled
         (correspondence), refuted in Lean (C07_throw_null_refuted, C07_bad_message_refuted), not judged here */
      n_ood++; continue;
    }
    olen = 0; obuf[0] = 0; o_maxnest = 0; o_clash = 0; o_msg[0] = 0; o_plain_msgs = is_lex;
    int esc = oeval(prog, 0, 0);
    if (o_maxnest > max_nest) max_nest = o_maxnest;
    if (o_maxnest >= 65) n_deep++;
    static char full[1 << 18]; memcpy(full, obuf, olen + 1); strip_comma(full);
    if (o_maxnest > C07_NEST_BOUND) {
      /* nesting beyond the property's bound: not judged by block structure. Either the jump-buffer stack of the tree under
         test is larger and the program behaves by the reference, or exception_try refuses a block cleanly: the overflow
         message, abort(), nothing of that block run — the events so far are a prefix of the reference trace. */
      n_over++;
      int by_ref = strcmp(full, tbuf) == 0 && (esc < 0 ? strcmp(end, "normal") == 0 : strcmp(end, "fatal") == 0);
      int clean = strcmp(end, "abort") == 0 && strstr(ebuf, "Exception Buffer Overflow") && is_event_prefix(tbuf, full);
      if (!o_clash && !by_ref && !clean)
        X("sig=exn-overflow line=%zu what=try-nesting %zu beyond the bound %d: want the reference behaviour or a clean abort with the overflow message after a prefix of [%.300s], got end=%s after [%.300s]", li + 1, o_maxnest, C07_NEST_BOUND, full, end, tbuf);
      continue;
    }
    if (sig_repeated) {
      /* territory of KF-C07-signal-once: the second raise of a signal whose first occurrence left Exception_Signal by longjmp */
      if (strcmp(full, tbuf) != 0 || (esc < 0) != (strcmp(end, "normal") == 0) || (esc >= 0 && strcmp(end, "fatal") != 0))
        X("sig=exn-signal-once line=%zu what=a signal raised a second time in one thread did not become an exception (it stays blocked after Exception_Signal left its handler by longjmp): got [%s] end=%s, every raise a throw wants [%s] end=%s", li + 1, tbuf, end, full, esc < 0 ? "normal" : "fatal");
      continue;
    }
    if (dupf) n_dup++;
    if (o_clash) {
      /* territory of KF-C07-filter-eq-raises: eq(entry, exception) raises inside exception_catch. Every departure from
         block structure on such a program carries that signature (a repaired exception_catch prints nothing here). */
      n_clash++;
      if (strcmp(full, tbuf) != 0 || (esc < 0) != (strcmp(end, "normal") == 0) || (esc >= 0 && strcmp(end, "fatal") != 0))
        X("sig=exn-filter-eq-raises line=%zu what=a filter entry cannot be compared with the arriving exception: eq raised inside exception_catch and replaced it: got [%s] end=%s, block structure wants [%s] end=%s", li + 1, tbuf, end, full, esc < 0 ? "normal" : "fatal");
      else if (esc >= 0) {
        char shown[64]; o_shown(esc, shown, sizeof shown); static char want[128]; snprintf(want, sizeof want, "Uncaught %s\n", shown);
        if (!strstr(ebuf, want)) X("sig=exn-filter-eq-raises line=%zu what=uncaught exception: the diagnostic does not name the thrown object %s (eq raised inside exception_catch)", li + 1, shown);
      }
      continue;
    }
    if (strcmp(end, "hang") == 0) {
      X("sig=exn-hang line=%zu what=the program did not end within the time limit%s (events so far [%s]); block structure wants [%s] end=%s", li + 1,
        dupf ? " — a catch filter names one object twice: exception_catch must walk it to its end and match by membership" : "", tbuf, full, esc < 0 ? "normal" : "fatal");
      continue;
    }
    if (strcmp(end, "abort") == 0 && strstr(ebuf, "Exception Buffer Overflow")) {
      /* the capacity of the jump-buffer stack was reached by a program whose nesting is within the property's bound */
      X("sig=exn-capacity line=%zu what=try-nesting %zu (within the bound %d) overflowed the jump-buffer stack: exception_try aborted with `Exception Buffer Overflow` after [%.300s]; block structure wants [%.300s] end=%s", li + 1, o_maxnest, C07_NEST_BOUND, tbuf, full, esc < 0 ? "normal" : "fatal");
      continue;
    }
    if (strcmp(full, tbuf) != 0) X("sig=exn-trace line=%zu what=handlers/statements differ from block structure: got [%.2000s] want [%.2000s]", li + 1, tbuf, full);
    if (esc < 0 && strcmp(end, "normal") != 0) X("sig=exn-end line=%zu what=program without escaping exception ended %s", li + 1, end);
    if (esc >= 0 && strcmp(end, "fatal") != 0) X("sig=exn-end line=%zu what=uncaught exception did not terminate with failure status (ended %s)", li + 1, end);
    if (esc >= 0 && strcmp(end, "fatal") == 0) {
      /* the diagnostic: "!!\tUncaught <the escaping object>" and "!!\t\t <the message of the throw that raised it>" */
      char shown[64]; o_shown(esc, shown, sizeof shown);
      static char want[1200];
      snprintf(want, sizeof want, "!!\tUncaught %s\n", shown);
      if (!strstr(ebuf, "Uncaught")) X("sig=exn-diag line=%zu what=no diagnostic for uncaught exception", li + 1);
      else if (!strstr(ebuf, want)) X("sig=exn-diag line=%zu what=the diagnostic of the uncaught exception does not name the escaping object %s", li + 1, shown);
      snprintf(want, sizeof want, "!!\t\t %s\n", o_msg);
      if (!strstr(ebuf, want)) X("sig=exn-diag-msg line=%zu what=the diagnostic of the uncaught exception does not carry the message of the throw that raised it (want `%s`)", li + 1, o_msg);
    }
  }
  I("diag_ops=%zu diag_shapes=%zu/%zu/%zu diag_signal=%zu diag_long=%zu sig_histories=%zu programs_with_signals=%zu", n_diag, d_shape[0], d_shape[1], d_shape[2], d_sig, d_long, n_hist, n_sigprog);
  I("programs=%zu out_of_domain=%zu dup_filter=%zu beyond_bound=%zu clash=%zu nest65plus=%zu max_nest=%zu", nprog, n_ood, n_dup, n_over, n_clash, n_deep, max_nest);
  return 0;
}
