/* harness/h_exn.c — engine `exn` (C07): runs try/throw/catch program trees on the real macros.
 *
 * op file: one program per line, `P <sexp>` with  program ::= (s N) | (t N) | (q P P) | (c P (N*) P) | (f P)
 * Each program runs in a forked child (an uncaught exception exits the process).  The child streams its events
 * through a pipe; the parent prints
 *   O trace=<events> end=<normal|fatal|abort|signal> depth=<len(current(Exception)) after, or - >
 * and checks the direct oracle (a reference interpreter of structured exceptions, written here independently of the
 * Lean model) plus: exit status is EXIT_FAILURE and stderr carries the "Uncaught" diagnostic for an escaping exception. */
#include "common.h"
#include <errno.h>

enum { STMT, THROW, SEQ, TRY, CALL };
typedef struct Node { int kind; int n; int filt[8]; int nfilt; struct Node *a, *b; } Node;

static const char* cur;
static void skipws(void) { while (*cur == ' ') cur++; }
static int parse_num(void) { int v = 0; skipws(); while (*cur >= '0' && *cur <= '9') { v = v*10 + (*cur - '0'); cur++; } return v; }
static Node* parse_node(void) {
  skipws();
  if (*cur != '(') return NULL;
  cur++; skipws();
  char k = *cur++; Node* n = calloc(1, sizeof(Node));
  switch (k) {
    case 's': n->kind = STMT; n->n = parse_num(); break;
    case 't': n->kind = THROW; n->n = parse_num(); break;
    case 'q': n->kind = SEQ; n->a = parse_node(); n->b = parse_node(); if (!n->a || !n->b) return NULL; break;
    case 'f': n->kind = CALL; n->a = parse_node(); if (!n->a) return NULL; break;
    case 'c':
      n->kind = TRY; n->a = parse_node(); if (!n->a) return NULL;
      skipws(); if (*cur != '(') return NULL; cur++;
      for (;;) { skipws(); if (*cur == ')') { cur++; break; } if (*cur < '0' || *cur > '9') return NULL;
        if (n->nfilt >= 8) return NULL; n->filt[n->nfilt++] = parse_num(); }
      n->b = parse_node(); if (!n->b) return NULL; break;
    default: return NULL;
  }
  skipws(); if (*cur != ')') return NULL; cur++;
  return n;
}

#define NKINDS 6
static var kind_obj(int k) {
  switch (k % NKINDS) {
    case 0: return TypeError; case 1: return ValueError; case 2: return KeyError;
    case 3: return IOError;   case 4: return FormatError; default: return BusyError;
  }
}
static int kind_index(var e) { for (int k = 0; k < NKINDS; k++) if (kind_obj(k) == e) return k; return 99; }

static int evfd = 1;
static void emit(char c, int n) { char b[32]; int l = snprintf(b, sizeof b, "%c%d,", c, n); if (write(evfd, b, l) < 0) {} }

static void run(Node* n);
__attribute__((noinline)) static void run_call(Node* n) { volatile int pad[16]; pad[0] = n->kind; run(n); (void)pad; }

/* the real macros; one arm per filter arity */
static void run_try(Node* n) {
  switch (n->nfilt) {
    case 0: try { run(n->a); } catch (e) { emit('h', kind_index(e)); run(n->b); } break;
    case 1: try { run(n->a); } catch (e in kind_obj(n->filt[0])) { emit('h', kind_index(e)); run(n->b); } break;
    case 2: try { run(n->a); } catch (e in kind_obj(n->filt[0]), kind_obj(n->filt[1])) { emit('h', kind_index(e)); run(n->b); } break;
    case 3: try { run(n->a); } catch (e in kind_obj(n->filt[0]), kind_obj(n->filt[1]), kind_obj(n->filt[2])) { emit('h', kind_index(e)); run(n->b); } break;
    default: try { run(n->a); } catch (e in kind_obj(n->filt[0]), kind_obj(n->filt[1]), kind_obj(n->filt[2]), kind_obj(n->filt[3])) { emit('h', kind_index(e)); run(n->b); } break;
  }
}

static void run(Node* n) {
  switch (n->kind) {
    case STMT: emit('s', n->n); break;
    case THROW: throw(kind_obj(n->n), "kind %i", $I(n->n)); break;
    case SEQ: run(n->a); run(n->b); break;
    case CALL: run_call(n->a); break;
    case TRY: run_try(n); break;
  }
}

/* lexically nested blocks inside ONE function (the interpreter above nests dynamically): a fixed 3-level shape whose
   behaviour is selected by the three throw kinds (or -1 = no throw) and filters; expressed to the model as the
   equivalent program tree by the generator (op `L a b c f1 f2 f3`). */
static void run_lexical(int a, int b, int c, int f1, int f2, int f3) {
  try {
    emit('s', 1);
    try {
      emit('s', 2);
      try {
        emit('s', 3);
        if (a >= 0) throw(kind_obj(a), "a");
        emit('s', 4);
      } catch (e in kind_obj(f3)) { emit('h', kind_index(e)); if (b >= 0) throw(kind_obj(b), "b"); emit('s', 5); }
      emit('s', 6);
    } catch (e in kind_obj(f2)) { emit('h', kind_index(e)); if (c >= 0) throw(kind_obj(c), "c"); emit('s', 7); }
    emit('s', 8);
  } catch (e in kind_obj(f1)) { emit('h', kind_index(e)); emit('s', 9); }
  emit('s', 10);
}

/* ---- direct oracle: reference interpreter (structured exceptions), independent of the Lean model ---- */
static char obuf[1 << 16]; static size_t olen;
static void oemit(char c, int n) { olen += snprintf(obuf + olen, sizeof obuf - olen, "%c%d,", c, n); }
static int oeval(Node* n) { /* returns -1 = completed, else the escaping kind */
  switch (n->kind) {
    case STMT: oemit('s', n->n); return -1;
    case THROW: return n->n % NKINDS;
    case SEQ: { int r = oeval(n->a); if (r >= 0) return r; return oeval(n->b); }
    case CALL: return oeval(n->a);
    case TRY: {
      int r = oeval(n->a); if (r < 0) return -1;
      int m = n->nfilt == 0; for (int i = 0; i < n->nfilt; i++) if (n->filt[i] % NKINDS == r) m = 1;
      if (!m) return r;
      oemit('h', r); return oeval(n->b);
    }
  }
  return -1;
}

static void strip_comma(char* s) { size_t l = strlen(s); if (l && s[l-1] == ',') s[l-1] = 0; }

int main(int argc, char** argv) {
  v_init();
  if (argc < 2) { fprintf(stderr, "usage: h_exn <opfile>\n"); return 2; }
  size_t n; char** lines = v_read_lines(argv[1], &n);
  size_t nprog = 0;
  /* make sure the main thread's Exception object exists before forking */
  (void)len(current(Exception));
  for (size_t li = 0; li < n; li++) {
    char* l = lines[li];
    if (v_skippable(l)) continue;
    Node* prog = NULL; int lex[6]; int is_lex = 0;
    if (l[0] == 'P' && l[1] == ' ') { cur = l + 2; prog = parse_node(); skipws(); if (prog && *cur) prog = NULL; }
    static char lexbuf[1024];
    if (l[0] == 'L' && l[1] == ' ' && sscanf(l + 2, "%d %d %d %d %d %d", &lex[0], &lex[1], &lex[2], &lex[3], &lex[4], &lex[5]) == 6) {
      char A[32] = "", B[32] = "", C[32] = "";
      #define OPT(buf, k, tag) do { if (k >= 0) snprintf(buf, sizeof buf, "(q (t %d) (s %d))", k, tag); else snprintf(buf, sizeof buf, "(s %d)", tag); } while (0)
      OPT(A, lex[0], 4); OPT(B, lex[1], 5); OPT(C, lex[2], 7);
      snprintf(lexbuf, sizeof lexbuf,
        "(q (c (q (s 1) (q (c (q (s 2) (q (c (q (s 3) %s) (%d) %s) (s 6))) (%d) %s) (s 8))) (%d) (s 9)) (s 10))",
        A, lex[5], B, lex[4], C, lex[3]);
      cur = lexbuf; prog = parse_node(); is_lex = 1;
    }
    if (!prog) { O("bad-op"); continue; }
    nprog++;
    int ev[2], er[2];
    if (pipe(ev) || pipe(er)) { perror("pipe"); return 2; }
    fflush(stdout);
    pid_t pid = fork();
    if (pid == 0) {
      close(ev[0]); close(er[0]); evfd = ev[1];
      dup2(er[1], 2);
      alarm(20);
      size_t d0 = len(current(Exception));
      if (is_lex) run_lexical(lex[0], lex[1], lex[2], lex[3], lex[4], lex[5]); else run(prog);
      size_t d1 = len(current(Exception));
      char b[64]; int bl = snprintf(b, sizeof b, "|%zu|%zu", d0, d1); if (write(evfd, b, bl) < 0) {}
      _exit(0);
    }
    close(ev[1]); close(er[1]);
    static char tbuf[1 << 16]; size_t tl = 0; ssize_t r;
    while ((r = read(ev[0], tbuf + tl, sizeof tbuf - 1 - tl)) > 0) tl += r;
    tbuf[tl] = 0; close(ev[0]);
    static char ebuf[1 << 14]; size_t el = 0;
    while ((r = read(er[0], ebuf + el, sizeof ebuf - 1 - el)) > 0) el += r;
    ebuf[el] = 0; close(er[0]);
    int st = 0; waitpid(pid, &st, 0);
    char* bar = strchr(tbuf, '|'); char depth[32] = "-"; size_t d0 = 0, d1 = 0; int completed = 0;
    if (bar) { *bar = 0; if (sscanf(bar + 1, "%zu|%zu", &d0, &d1) == 2) { completed = 1; snprintf(depth, sizeof depth, "%zu", d1); } }
    strip_comma(tbuf);
    const char* end;
    if (WIFSIGNALED(st)) end = WTERMSIG(st) == SIGABRT ? "abort" : "signal";
    else if (completed && WEXITSTATUS(st) == 0) end = "normal";
    else if (!completed && WEXITSTATUS(st) == EXIT_FAILURE) end = "fatal";
    else end = "other";
    O("trace=%s end=%s depth=%s", tbuf, end, depth);
    /* oracle */
    olen = 0; obuf[0] = 0; int esc = oeval(prog); strip_comma(obuf);
    if (strcmp(obuf, tbuf) != 0) X("sig=exn-trace line=%zu what=handlers/statements differ from block structure: got [%s] want [%s]", li + 1, tbuf, obuf);
    if (esc < 0 && strcmp(end, "normal") != 0) X("sig=exn-end line=%zu what=program without escaping exception ended %s", li + 1, end);
    if (esc >= 0 && strcmp(end, "fatal") != 0) X("sig=exn-end line=%zu what=uncaught exception did not terminate with failure status (ended %s)", li + 1, end);
    if (esc >= 0 && !strstr(ebuf, "Uncaught")) X("sig=exn-diag line=%zu what=no diagnostic for uncaught exception", li + 1);
    if (completed && d0 != d1) X("sig=exn-depth line=%zu what=nesting depth %zu before, %zu after", li + 1, d0, d1);
  }
  I("programs=%zu", nprog);
  return 0;
}
