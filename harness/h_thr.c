/* harness/h_thr.c — engine `thr` (C13): threads are isolated; join publishes; Mutex excludes.
 *
 * op file (shared with lean/Driver/Thr.lean):
 *   M sched|free      sched: the events are executed by real Cello threads in exactly the order of the file (a baton is
 *                     passed from event to event);  free: every thread executes its own events in order, concurrently,
 *                     with schedule noise (yields / spins at op boundaries, inside malloc/calloc and the pthread calls)
 *   N <workers>       worker threads 1..N (Thread objects are created up front); tid 0 is the main thread
 *   S <seed>          seed of the noise generators
 *   <tid> <op> …      one event
 *   newthr U         the executing thread makes worker U's Thread object the documented way, `var x = new(Thread, f)`, and
 *                    keeps it in a variable of its own stack frame (it replaces the raw one made up front); in `gc` lines
 *                    the token TU stands for that variable (kept on the stack / dropped)
 *   pubo K | rdo U   store a pointer to the own object K in a Ref of the joiner | dereference what thread U stored
 *   kf NAME          run the reproducer of a known finding in a forked child (mark-foreign-tls); `kf walk-quiet` is its control: the
 *                    maker of `x = new(Thread, f)` collects many times while the worker runs WITHOUT writing its table: must be undisturbed
 *   call U K [K2]    `call(thread_U, objK [, objK2])`: like `spawn U`, the caller's own objects K (K2) are the arguments
 *   rdarg I          the thread function reads argument I of its call (`get(args, $I(I))`) and uses the object
 *   wthrow M         `try { with (x in mutex_M) { throw } } catch {}`: the section of M is left by an exception — the jump skips
 *                    stop_in, the Mutex stays locked by this thread (a later `unlock M` releases it)
 * events: spawn U | join U | begin | end | new K | newroot K | newx K (destructor does try/throw/catch) | del U K | gc K* | churn N | tset KEY U K | tget KEY |
 *         tmem KEY | trem KEY | x <exception program> | lookup TY CLS | pub V | perr FN ERRNO | work KIND SEED N |
 *         lock M | unlock M | trylock M | enter M | leave M | winc M C | ld C | st C | rd U
 * Output: one `O <index> <tid> <op> <outcome>` per event, in file order (printed at the end).  In free mode the outcome
 * of a synchronisation event is printed as `sync` (it depends on the schedule); local outcomes are printed as they are.
 *
 * Direct oracle (X lines), independent of the Lean model:
 *   c13-foreign-fin    destructor ledger keyed by owner: an object finalised by another thread's collector, or twice
 *   c13-lost-object    an object that is reachable (held on the owner's stack / in its TLS / root) was finalised or damaged
 *   c13-teardown-leak  after a thread's teardown a non-root object of its registry is not finalised
 *   c13-overlap        in-section flag: two threads inside sections of one Mutex (lock / trylock / with)
 *   c13-counter        plain counter incremented only inside sections lost an update
 *   c13-trylock        trylock did not report whether it acquired
 *   c13-join-early     join returned before the thread function (and the teardown) had finished (also: join(current(Thread)) returned
 *                      normally instead of raising — the defect repaired by 484991f)
 *   c13-join-stale     value written by the thread is not what the joiner reads right after join
 *   c13-digest         a workload computed another result than when it runs alone
 *   c13-tls-value      a thread-local value read back is not the object that was stored by this thread
 *   c13-exn-trace      handlers/statements of an exception program differ from its block structure
 *   c13-cache          type_instance through the shared cache differs from the declaration
 *   c13-errmap         pthread error code translated to another exception than documented
 *   c13-wrapper        a Cello lock/unlock/trylock/join did not map 1:1 onto the pthread primitive of that object
 *   c13-arg-value      an argument read back in the thread function is not the object that was handed over
 *   c13-walk-disturbed the control of kf-c13-mark-foreign-tls failed: a thread that only allocates was disturbed although the table walked was not being written
 * Known findings (X lines with a `kf-` signature; generated cases stay out of their territory):
 *   kf-c13-thread-arg-collected    an object handed to a thread as an argument was finalised by its owner's collector while the thread
 *                                  uses it (Thread_Call keeps a raw copy of the tuple, Thread_Mark presents t->tls only)
 *   kf-c13-mark-foreign-tls        the mark phase of a thread that holds `new(Thread, f)` of a running thread walks that thread's
 *                                  thread-local table while it is being rewritten (forked child: exception out of `new`, or memory error)
 *   kf-c13-join-result-finalised   after join(U) the object U allocated and handed to the joiner has been finalised by U's teardown
 * A run that makes no progress for 15 s (deadlock) or exceeds 45 s prints where every thread is stuck and exits with
 * status 142; a crash of any thread (e.g. a destructor running without the thread's exception record) kills the process:
 * both are reported by the runner as a crash of the case.
 */
#include "common.h"
#include <pthread.h>
#include <sched.h>
#include <errno.h>
#include <signal.h>
#include <stdatomic.h>
#include <stdint.h>

#define MAXT 65
#define MAXK 512
#define MAXM 16
#define MAXC 16
#define GARB (-1)

/* ------------------------------------------------------------------------------------------- probe types */
struct ProbeA { int owner; int k; uint64_t canary; };
struct ProbeB { int x; };
struct ProbeC { int x; };
#define CANARY 0xC0FFEE1234567890ULL

static __thread int my_tid = 0;
static int free_mode = 0;

static atomic_int led_fin[MAXT][MAXK];      /* times finalised */
static atomic_int led_by[MAXT][MAXK];       /* finaliser tid + 1 */
static atomic_long garb_alloc[MAXT], garb_fin[MAXT];

static pthread_mutex_t xmu = PTHREAD_MUTEX_INITIALIZER;
int __real_pthread_mutex_lock(pthread_mutex_t*);
int __real_pthread_mutex_unlock(pthread_mutex_t*);
int __real_pthread_mutex_trylock(pthread_mutex_t*);
int __real_pthread_join(pthread_t, void**);
int __real_pthread_create(pthread_t*, const pthread_attr_t*, void* (*)(void*), void*);
int __real_pthread_kill(pthread_t, int);
void* __real_malloc(size_t);
void* __real_calloc(size_t, size_t);

static void XX(const char* fmt, ...) {
  char b[1024]; va_list va; va_start(va, fmt); int n = snprintf(b, sizeof b, "X "); n += vsnprintf(b + n, sizeof b - n - 2, fmt, va); va_end(va);
  b[n] = '\n'; b[n+1] = 0;
  __real_pthread_mutex_lock(&xmu); fputs(b, stdout); fflush(stdout); __real_pthread_mutex_unlock(&xmu);
}

static void ProbeA_Del(var self) {
  struct ProbeA* p = self;
  if (p->canary != CANARY) { XX("sig=c13-lost-object line=0 what=finalising an object whose canary is damaged"); return; }
  if (p->owner != my_tid) XX("sig=c13-foreign-fin line=0 what=object %d.%d finalised by the collector of thread %d", p->owner, p->k, my_tid);
  if (p->k == GARB) { atomic_fetch_add(&garb_fin[p->owner], 1); }
  else {
    int c = atomic_fetch_add(&led_fin[p->owner][p->k], 1);
    if (c != 0) XX("sig=c13-foreign-fin line=0 what=object %d.%d finalised %d times", p->owner, p->k, c + 1);
    atomic_store(&led_by[p->owner][p->k], my_tid + 1);
  }
  p->canary = 0xDEADDEADDEADDEADULL;
}
/* ProbeX: same layout; its destructor enters a try block, throws and catches (needs the thread's Exception record) */
struct ProbeX { int owner; int k; uint64_t canary; };
static void ProbeX_Del(var self) {
  volatile int caught = 0;
  try { throw(ValueError, "in the destructor of %i", $I(((struct ProbeX*)self)->k)); } catch (e in ValueError) { caught = 1; }
  if (!caught) XX("sig=c13-exn-trace line=0 what=exception thrown in a destructor was not caught there");
  ProbeA_Del(self);
}
static int ProbeB_Cmp(var a, var b) { return 0; }
static uint64_t ProbeB_Hash(var a) { return 7; }
static void ProbeB_New(var self, var args) {}
static int ProbeC_Cmp(var a, var b) { return 0; }
static size_t ProbeC_Len(var a) { return 3; }
static void ProbeC_Assign(var a, var b) {}

var ProbeA = Cello(ProbeA, Instance(New, NULL, ProbeA_Del));
var ProbeX = Cello(ProbeX, Instance(New, NULL, ProbeX_Del));
var ProbeB = Cello(ProbeB, Instance(New, ProbeB_New, NULL), Instance(Cmp, ProbeB_Cmp), Instance(Hash, ProbeB_Hash));
var ProbeC = Cello(ProbeC, Instance(Cmp, ProbeC_Cmp), Instance(Len, ProbeC_Len), Instance(Assign, ProbeC_Assign));

/* the declaration, written down independently (oracle of `lookup`) : classes 0 New 1 Cmp 2 Hash 3 Len 4 Mark 5 Assign 6 Size 7 Alloc */
static const int declared[3][8] = { {1,0,0,0,0,0,0,0}, {1,1,1,0,0,0,0,0}, {0,1,0,1,0,1,0,0} };
static var probe_type(int i) { return i == 0 ? ProbeA : i == 1 ? ProbeB : ProbeC; }
static var probe_class(int i) {
  switch (i) { case 0: return New; case 1: return Cmp; case 2: return Hash; case 3: return Len; case 4: return Mark;
               case 5: return Assign; case 6: return Size; default: return Alloc; }
}

/* ------------------------------------------------------------------------------------------- events */
enum { OP_SPAWN, OP_JOIN, OP_BEGIN, OP_END, OP_NEW, OP_NEWROOT, OP_NEWX, OP_DEL, OP_GC, OP_CHURN, OP_TSET, OP_TGET, OP_TMEM, OP_TREM,
       OP_X, OP_LOOKUP, OP_PUB, OP_PERR, OP_WORK, OP_NEWTHR, OP_PUBO, OP_KF, OP_LOCK, OP_UNLOCK, OP_TRYLOCK, OP_ENTER, OP_LEAVE, OP_WINC, OP_LD, OP_ST, OP_RD, OP_RDO, OP_CALL, OP_RDARG, OP_WTHROW, OP_BAD };
static const char* opname[] = { "spawn", "join", "begin", "end", "new", "newroot", "newx", "del", "gc", "churn", "tset", "tget", "tmem", "trem",
       "x", "lookup", "pub", "perr", "work", "newthr", "pubo", "kf", "lock", "unlock", "trylock", "enter", "leave", "winc", "ld", "st", "rd", "rdo", "call", "rdarg", "wthrow", "bad" };
static int is_sync(int op) { return op == OP_SPAWN || op == OP_JOIN || (op >= OP_LOCK && op <= OP_WTHROW); }

enum { STMT, THROW, SEQ, TRY, CALL };
typedef struct Node { int kind; int n; int filt[8]; int nfilt; struct Node *a, *b; } Node;

typedef struct Evt {
  int tid, op, line; long a, b, c; char key[64]; int nks; int* ks; int nts; int* ts; Node* prog; char* out;
} Evt;
static Evt* ev; static size_t nev;
static int nworkers = 0;
static uint64_t noise_seed = 1;

/* ------------------------------------------------------------------------------------------- exception programs (as h_exn.c) */
static const char* cur;
static void skipws(void) { while (*cur == ' ') cur++; }
static int parse_num(void) { int v = 0; skipws(); while (*cur >= '0' && *cur <= '9') { v = v*10 + (*cur - '0'); cur++; } return v; }
static Node* parse_node(void) {
  skipws();
  if (*cur != '(') return NULL;
  cur++; skipws();
  char k = *cur++; Node* n = calloc(1, sizeof(Node));
  switch (k) {
    case 's': n->kind = STMT; skipws(); if (*cur < '0' || *cur > '9') return NULL; n->n = parse_num(); break;
    case 't': n->kind = THROW; skipws(); if (*cur < '0' || *cur > '9') return NULL; n->n = parse_num(); break;
    case 'q': n->kind = SEQ; n->a = parse_node(); n->b = parse_node(); if (!n->a || !n->b) return NULL; break;
    case 'f': n->kind = CALL; n->a = parse_node(); if (!n->a) return NULL; break;
    case 'c':
      n->kind = TRY; n->a = parse_node(); if (!n->a) return NULL;
      skipws(); if (*cur != '(') return NULL; cur++;
      for (;;) { skipws(); if (*cur == ')') { cur++; break; } if (*cur < '0' || *cur > '9') return NULL;
        if (n->nfilt >= 8) return NULL; n->filt[n->nfilt++] = parse_num(); }
      n->b = parse_node(); if (!n->b) return NULL; break;
    default: return NULL;
  }
  skipws(); if (*cur != ')') return NULL; cur++;
  return n;
}
#define NKINDS 6
static var kind_obj(int k) {
  switch (k % NKINDS) {
    case 0: return TypeError; case 1: return ValueError; case 2: return KeyError;
    case 3: return IOError;   case 4: return FormatError; default: return BusyError;
  }
}
static int kind_index(var e) { for (int k = 0; k < NKINDS; k++) if (kind_obj(k) == e) return k; return 99; }

typedef struct { char* b; size_t len, cap; } Buf;
static void bemit(Buf* o, char c, int n) { if (o->len + 24 < o->cap) o->len += snprintf(o->b + o->len, o->cap - o->len, "%c%d,", c, n); }
static void xrun(Node* n, Buf* o);
__attribute__((noinline)) static void xrun_call(Node* n, Buf* o) { volatile int pad[16]; pad[0] = n->kind; xrun(n, o); (void)pad; }
static void xrun_try(Node* n, Buf* o) {
  switch (n->nfilt) {
    case 0: try { xrun(n->a, o); } catch (e) { bemit(o, 'h', kind_index(e)); xrun(n->b, o); } break;
    case 1: try { xrun(n->a, o); } catch (e in kind_obj(n->filt[0])) { bemit(o, 'h', kind_index(e)); xrun(n->b, o); } break;
    case 2: try { xrun(n->a, o); } catch (e in kind_obj(n->filt[0]), kind_obj(n->filt[1])) { bemit(o, 'h', kind_index(e)); xrun(n->b, o); } break;
    case 3: try { xrun(n->a, o); } catch (e in kind_obj(n->filt[0]), kind_obj(n->filt[1]), kind_obj(n->filt[2])) { bemit(o, 'h', kind_index(e)); xrun(n->b, o); } break;
    default: try { xrun(n->a, o); } catch (e in kind_obj(n->filt[0]), kind_obj(n->filt[1]), kind_obj(n->filt[2]), kind_obj(n->filt[3])) { bemit(o, 'h', kind_index(e)); xrun(n->b, o); } break;
  }
}
static void noise(void);
static void xrun(Node* n, Buf* o) {
  switch (n->kind) {
    case STMT: bemit(o, 's', n->n); if (free_mode) noise(); break;
    case THROW: throw(kind_obj(n->n), "kind %i", $I(n->n)); break;
    case SEQ: xrun(n->a, o); xrun(n->b, o); break;
    case CALL: xrun_call(n->a, o); break;
    case TRY: xrun_try(n, o); break;
  }
}
/* reference interpreter of structured exceptions (oracle) */
static int oeval(Node* n, Buf* o) {
  switch (n->kind) {
    case STMT: bemit(o, 's', n->n); return -1;
    case THROW: return n->n % NKINDS;
    case SEQ: { int r = oeval(n->a, o); if (r >= 0) return r; return oeval(n->b, o); }
    case CALL: return oeval(n->a, o);
    case TRY: {
      int r = oeval(n->a, o); if (r < 0) return -1;
      int m = n->nfilt == 0; for (int i = 0; i < n->nfilt; i++) if (n->filt[i] % NKINDS == r) m = 1;
      if (!m) return r;
      bemit(o, 'h', r); return oeval(n->b, o);
    }
  }
  return -1;
}
static void strip_comma(char* s) { size_t l = strlen(s); if (l && s[l-1] == ',') s[l-1] = 0; }

/* ------------------------------------------------------------------------------------------- noise + pthread wrappers */
static __thread uint64_t nrng = 0;
static uint64_t nrand(void) {
  if (nrng == 0) nrng = (noise_seed * 0x9E3779B97F4A7C15ULL) ^ ((uint64_t)(my_tid + 1) * 0xBF58476D1CE4E5B9ULL) ^ 0x1234567;
  nrng ^= nrng << 13; nrng ^= nrng >> 7; nrng ^= nrng << 17; return nrng;
}
static void noise(void) {
  uint64_t r = nrand();
  switch (r & 15) {
    case 0: case 1: sched_yield(); break;
    case 2: { volatile int s = 0; for (int i = 0; i < (int)((r >> 8) & 1023); i++) s += i; break; }
    case 3: if (((r >> 8) & 31) == 0) usleep(20 + ((r >> 16) & 127)); break;
    default: break;
  }
}

static void malloc_noise_off(void);
enum { FN_NONE, FN_LOCK, FN_TRYLOCK, FN_UNLOCK, FN_JOIN, FN_CREATE, FN_STOP };
static __thread int tl_cello_sync = 0;            /* the current pthread call is made by a Cello operation under test */
static __thread int tl_inject_fn = FN_NONE, tl_inject_err = 0;
static __thread int tl_prim_calls = 0;            /* primitive calls seen during the current Cello operation */
static __thread void* tl_prim_target = NULL;      /* first argument of the last primitive call */
static __thread int tl_prim_fn = FN_NONE;
static atomic_long prim_total[7];

int __wrap_pthread_mutex_lock(pthread_mutex_t* m) {
  if (!tl_cello_sync) return __real_pthread_mutex_lock(m);
  tl_prim_calls++; tl_prim_target = m; tl_prim_fn = FN_LOCK; atomic_fetch_add(&prim_total[FN_LOCK], 1);
  if (tl_inject_fn == FN_LOCK) { tl_inject_fn = FN_NONE; return tl_inject_err; }
  if (free_mode) noise();
  return __real_pthread_mutex_lock(m);
}
int __wrap_pthread_mutex_trylock(pthread_mutex_t* m) {
  if (!tl_cello_sync) return __real_pthread_mutex_trylock(m);
  tl_prim_calls++; tl_prim_target = m; tl_prim_fn = FN_TRYLOCK; atomic_fetch_add(&prim_total[FN_TRYLOCK], 1);
  if (tl_inject_fn == FN_TRYLOCK) { tl_inject_fn = FN_NONE; return tl_inject_err; }
  if (free_mode) noise();
  return __real_pthread_mutex_trylock(m);
}
int __wrap_pthread_mutex_unlock(pthread_mutex_t* m) {
  if (!tl_cello_sync) return __real_pthread_mutex_unlock(m);
  tl_prim_calls++; tl_prim_target = m; tl_prim_fn = FN_UNLOCK; atomic_fetch_add(&prim_total[FN_UNLOCK], 1);
  if (tl_inject_fn == FN_UNLOCK) { tl_inject_fn = FN_NONE; return tl_inject_err; }
  if (free_mode) noise();
  return __real_pthread_mutex_unlock(m);
}
static __thread pthread_t tl_join_target;
int __wrap_pthread_join(pthread_t t, void** r) {
  if (!tl_cello_sync) return __real_pthread_join(t, r);
  tl_prim_calls++; tl_join_target = t; tl_prim_fn = FN_JOIN; atomic_fetch_add(&prim_total[FN_JOIN], 1);
  if (tl_inject_fn == FN_JOIN) { tl_inject_fn = FN_NONE; return tl_inject_err; }
  return __real_pthread_join(t, r);
}
/* extension round: pthread_create under Thread_Call and pthread_kill under Thread_Stop.  Only calls made by a Cello operation
   under test (`perr create E` / `perr stop E`) are counted; an injected result replaces the primitive (no thread is made, no
   signal is sent: the default action of SIGINT ends the whole process) */
int __wrap_pthread_create(pthread_t* t, const pthread_attr_t* a, void* (*f)(void*), void* arg) {
  if (!tl_cello_sync) return __real_pthread_create(t, a, f, arg);
  tl_prim_calls++; tl_prim_target = arg; tl_prim_fn = FN_CREATE; atomic_fetch_add(&prim_total[FN_CREATE], 1);
  if (tl_inject_fn == FN_CREATE) { tl_inject_fn = FN_NONE; return tl_inject_err; }
  return __real_pthread_create(t, a, f, arg);
}
static __thread int tl_kill_sig = 0;
int __wrap_pthread_kill(pthread_t t, int sig) {
  if (!tl_cello_sync) return __real_pthread_kill(t, sig);
  tl_prim_calls++; tl_join_target = t; tl_kill_sig = sig; tl_prim_fn = FN_STOP; atomic_fetch_add(&prim_total[FN_STOP], 1);
  if (tl_inject_fn == FN_STOP) { tl_inject_fn = FN_NONE; return tl_inject_err; }
  return __real_pthread_kill(t, sig);
}
static int malloc_noise = 0;
static void malloc_noise_off(void) { malloc_noise = 0; }
void* __wrap_malloc(size_t n) { if (malloc_noise && (nrand() & 255) == 0) sched_yield(); return __real_malloc(n); }
void* __wrap_calloc(size_t a, size_t b) { if (malloc_noise && (nrand() & 127) == 0) sched_yield(); return __real_calloc(a, b); }

/* ------------------------------------------------------------------------------------------- shared harness state */
enum { PH_UNBORN, PH_READY, PH_RUNNING, PH_DONE };
static atomic_int phase[MAXT];
static int was_joined[MAXT];
static var thread_obj[MAXT];              /* Thread objects: raw (new_raw, no collector meets them) unless made by `newthr` */
static int managed[MAXT];                 /* thread_obj[u] is `new(Thread, f)` made by thread managed[u]-1, held in that thread's frame */
static int wrapper_gone[MAXT];            /* that Thread object has been finalised (by a collection / the teardown of its maker) */
static atomic_int entered[MAXT];          /* the thread function of u has been entered (the prologue of Thread_Init_Run is over) */
static int pubo_t[MAXT], pubo_k[MAXT];    /* what thread t stored into the joiner's Ref: object pubo_t.pubo_k (pubo_k < 0: nothing) */
static var pubo_ref[MAXT];                /* the Ref itself (raw) */
static var tid_obj[MAXT];                 /* raw Int carrying the tid to the thread function */
static int arg_n[MAXT], arg_t[MAXT][2], arg_k[MAXT][2];   /* the objects handed to thread u by the `call` of its current run */
static __thread var my_args;              /* the argument tuple the thread function was given (args[0] = tid_obj, then the objects) */
static var pub_obj[MAXT];                 /* raw Int written by thread t (`pub`), read by others (`rd`) */
static long last_pub[MAXT];               /* last value thread t's program publishes */
static var mutex_obj[MAXM];               /* raw Mutex objects */
static var scratch_mutex[MAXT];
static var scratch_thread[MAXT];
static _Atomic(var) objs[MAXT][MAXK];     /* named objects */
static char used[MAXT][MAXK], alive[MAXT][MAXK], isroot[MAXT][MAXK];
static volatile int insec[MAXM];          /* in-section flag: tid+1 of the thread inside */
static volatile long counter[MAXC];       /* plain shared counters */
static atomic_long counter_expected[MAXC];
static volatile long ldreg[MAXT];
static int shadow_holder[MAXM];           /* sched mode only: tid+1 */
static ssize_t end_idx[MAXT];               /* the `end` event of the current / last run of thread t */
static size_t next_ev[MAXT];                /* free mode: where the next run of Thread object t continues in the file */

/* baton */
static pthread_mutex_t bm = PTHREAD_MUTEX_INITIALIZER;
static pthread_cond_t bc = PTHREAD_COND_INITIALIZER;
static size_t turn = 0;
static int shutting_down = 0;

static pthread_key_t exit_key;
static void advance_locked(void);

static void set_out(Evt* e, const char* fmt, ...) {
  char b[8192]; va_list va; va_start(va, fmt); vsnprintf(b, sizeof b, fmt, va); va_end(va);
  free(e->out); e->out = strdup(b);
}

/* cumulative ledger of thread t as printed: named serials finalised (sorted) and garbage count */
static void ledger_text(int t, char* b, size_t cap) {
  size_t n = snprintf(b, cap, "fin=["); int first = 1;
  for (int k = 0; k < MAXK; k++) if (atomic_load(&led_fin[t][k]) > 0) { n += snprintf(b + n, cap - n, "%s%d", first ? "" : ",", k); first = 0; }
  snprintf(b + n, cap - n, "] garbage=%ld", atomic_load(&garb_fin[t]));
}

static void check_alive(int t, var* held, int line, const char* when) {
  for (int k = 0; k < MAXK; k++) if (alive[t][k]) {
    struct ProbeA* p = atomic_load(&objs[t][k]);
    if (atomic_load(&led_fin[t][k]) != 0 || p->canary != CANARY || p->owner != t || p->k != k)
      XX("sig=c13-lost-object line=%d what=object %d.%d (reachable: %s) was finalised or damaged %s", line, t, k,
         isroot[t][k] ? "root" : held[k] ? "on the stack" : "thread-local storage", when);
  }
}

/* after thread t's teardown: every non-root object of its registry must be finalised (by t), roots never */
static void check_teardown(int t, int line) {
  for (int k = 0; k < MAXK; k++) if (used[t][k]) {
    int c = atomic_load(&led_fin[t][k]);
    if (!isroot[t][k] && c != 1) XX("sig=c13-teardown-leak line=%d what=after the teardown of thread %d its object %d.%d was finalised %d times", line, t, t, k, c);
    if (c > 0 && atomic_load(&led_by[t][k]) != t + 1) XX("sig=c13-foreign-fin line=%d what=object %d.%d finalised by thread %d", line, t, k, atomic_load(&led_by[t][k]) - 1);
  }
  if (atomic_load(&garb_fin[t]) != atomic_load(&garb_alloc[t]))
    XX("sig=c13-teardown-leak line=%d what=after the teardown of thread %d only %ld of its %ld unreferenced objects were finalised", line, t, atomic_load(&garb_fin[t]), atomic_load(&garb_alloc[t]));
}

/* ------------------------------------------------------------------------------------------- workloads (digest oracle) */
#define MIX(h, v) ((h) = ((h) ^ (uint64_t)(v)) * 0x100000001b3ULL)
static uint64_t wrand(uint64_t* s) { *s ^= *s << 13; *s ^= *s >> 7; *s ^= *s << 17; return *s; }

static uint64_t work_containers(uint64_t seed, int n) {
  uint64_t s = seed * 2654435761ULL + 12345, h = 1469598103934665603ULL;
  var t = new(Table, Int, Int); var tr = new(Tree, Int, Int); var a = new(Array, Int); var l = new(List, String);
  for (int i = 0; i < n; i++) {
    uint64_t r = wrand(&s); int64_t key = (int64_t)((r >> 8) % 97); int64_t val = (int64_t)((r >> 20) % 1000);
    switch (r % 9) {
      case 0: case 1: set(t, $I(key), $I(val)); set(tr, $I(key), $I(val + 1)); break;
      case 2: if (mem(t, $I(key))) { MIX(h, c_int(get(t, $I(key)))); MIX(h, c_int(get(tr, $I(key)))); } else MIX(h, 77); break;
      case 3: if (mem(t, $I(key))) { rem(t, $I(key)); rem(tr, $I(key)); } MIX(h, len(t)); MIX(h, len(tr)); break;
      case 4: push(a, $I(val)); MIX(h, len(a)); break;
      case 5: if (len(a) > 0) { MIX(h, c_int(get(a, $I(len(a) - 1)))); pop(a); } break;
      case 6: { char b[32]; snprintf(b, sizeof b, "s%d", (int)val); push(l, $S(b)); if (len(l) > 20) pop_at(l, $I(0)); MIX(h, len(l)); break; }
      case 7: { volatile int got = 0; try { get(t, $I(1000 + key)); } catch (e in KeyError) { got = 1; } MIX(h, got); break; }
      case 8: if (len(a) > 1) { sort(a); MIX(h, c_int(get(a, $I(0)))); } break;
    }
    if ((i & 31) == 0) {
      foreach (k in tr) { MIX(h, c_int(k)); MIX(h, c_int(get(tr, k))); }
      uint64_t sum = 0; foreach (k in t) { sum += (uint64_t)c_int(k) * 31 + (uint64_t)c_int(get(t, k)); } MIX(h, sum);
      foreach (x in l) { MIX(h, hash(x)); }
      if (free_mode) noise();
    }
  }
  MIX(h, len(t)); MIX(h, len(tr)); MIX(h, len(a)); MIX(h, len(l));
  del(t); del(tr); del(a); del(l);
  return h;
}

static uint64_t work_alloc(uint64_t seed, int n) {
  uint64_t s = seed * 40503 + 977, h = 1469598103934665603ULL;
  var ring[48]; int64_t expect[48]; memset(ring, 0, sizeof ring);
  var strs[16]; size_t slen[16]; memset(strs, 0, sizeof strs);
  for (int i = 0; i < n; i++) {
    uint64_t r = wrand(&s); int j = (int)(r % 48);
    if (ring[j]) { if (c_int(ring[j]) != expect[j]) MIX(h, 0xBAD); MIX(h, c_int(ring[j])); }
    expect[j] = (int64_t)(r >> 16); ring[j] = new(Int, $I(expect[j]));
    if ((r >> 9) % 3 == 0) {
      int q = (int)((r >> 12) % 16);
      if (strs[q]) { if (len(strs[q]) != slen[q]) MIX(h, 0xBAD2); MIX(h, hash(strs[q])); }
      char b[64]; int bl = snprintf(b, sizeof b, "str-%llu-%d", (unsigned long long)(r >> 24), i); strs[q] = new(String, $S(b)); slen[q] = (size_t)bl;
    }
    /* garbage that is dropped at once */
    var g = new(Array, Int, $I(i), $I(i + 1), $I(i + 2)); MIX(h, len(g));
    if ((i & 63) == 0 && free_mode) noise();
  }
  for (int j = 0; j < 48; j++) if (ring[j]) { if (c_int(ring[j]) != expect[j]) MIX(h, 0xBAD); MIX(h, c_int(ring[j])); }
  return h;
}

static void deep_throw(int d, int kind, uint64_t* h) {
  if (d == 0) { throw(kind_obj(kind), "deep %i", $I(kind)); return; }
  if (d % 3 == 0) {
    try { deep_throw(d - 1, kind, h); } catch (e in kind_obj(d)) { MIX(*h, 1000 + d); MIX(*h, kind_index(e)); MIX(*h, len(current(Exception))); }
  } else deep_throw(d - 1, kind, h);
  MIX(*h, d);
}
static uint64_t work_exceptions(uint64_t seed, int n) {
  uint64_t s = seed * 7919 + 31, h = 1469598103934665603ULL;
  for (int i = 0; i < n; i++) {
    uint64_t r = wrand(&s); int kind = (int)(r % NKINDS); int d = (int)((r >> 8) % 24);
    try { deep_throw(d, kind, &h); MIX(h, 5); } catch (e) { MIX(h, 2000 + kind_index(e)); MIX(h, len(current(Exception))); }
    MIX(h, len(current(Exception)));
    if ((i & 15) == 0 && free_mode) noise();
  }
  return h;
}

static uint64_t work_tls(uint64_t seed, int n) {
  uint64_t s = seed * 104729 + 7, h = 1469598103934665603ULL;
  var me = current(Thread); int64_t expect[24]; char present[24]; memset(present, 0, sizeof present);
  for (int i = 0; i < n; i++) {
    uint64_t r = wrand(&s); int j = (int)(r % 24); char key[16]; snprintf(key, sizeof key, "w%d", j);
    switch ((r >> 8) % 4) {
      case 0: case 1: expect[j] = (int64_t)(r >> 20); set(me, $S(key), new(Int, $I(expect[j]))); present[j] = 1; break;   /* only TLS refers to it */
      case 2: if (present[j]) { var v = get(me, $S(key)); if (c_int(v) != expect[j]) MIX(h, 0xBAD3); MIX(h, c_int(v)); } else MIX(h, mem(me, $S(key))); break;
      case 3: if (present[j]) { rem(me, $S(key)); present[j] = 0; } MIX(h, mem(me, $S(key))); break;
    }
    var g = new(String, $S("garbage to make the collector run")); MIX(h, len(g));
    if ((i & 31) == 0 && free_mode) noise();
  }
  for (int j = 0; j < 24; j++) if (present[j]) { char key[16]; snprintf(key, sizeof key, "w%d", j); var v = get(me, $S(key)); if (c_int(v) != expect[j]) MIX(h, 0xBAD3); MIX(h, c_int(v)); rem(me, $S(key)); }
  return h;
}

static uint64_t do_work(int kind, uint64_t seed, int n) {
  switch (kind % 4) { case 0: return work_containers(seed, n); case 1: return work_alloc(seed, n); case 2: return work_exceptions(seed, n); default: return work_tls(seed, n); }
}
typedef struct { long kind, seed, n; uint64_t digest; } Solo;
static Solo* solo; static size_t nsolo;
static uint64_t solo_digest(long kind, long seed, long n) {
  for (size_t i = 0; i < nsolo; i++) if (solo[i].kind == kind && solo[i].seed == seed && solo[i].n == n) return solo[i].digest;
  return 0;
}

/* ------------------------------------------------------------------------------------------- Cello sync operations, checked 1:1 */
static const char* errname_doc(int fn, int err) {   /* the documented translation, written down independently */
  switch (fn) {
    case FN_LOCK: return err == EINVAL ? "ValueError" : err == EDEADLK ? "ResourceError" : "ok";
    case FN_TRYLOCK: return err == EBUSY ? "0" : err == EINVAL ? "ValueError" : "1";
    case FN_UNLOCK: return err == EINVAL ? "ValueError" : err == EPERM ? "ResourceError" : "ok";
    case FN_JOIN: return err == EINVAL ? "ValueError" : err == ESRCH ? "ValueError" : err == EDEADLK ? "ResourceError" : "ok";
    case FN_CREATE: return err == EINVAL ? "ValueError" : err == EAGAIN ? "OutOfMemoryError" : err == EBUSY ? "BusyError" : "ok";
    case FN_STOP: return err == EINVAL ? "ValueError" : err == ESRCH ? "ValueError" : "ok";
  }
  return "?";
}
static void prim_begin(void) { tl_cello_sync = 1; tl_prim_calls = 0; tl_prim_target = NULL; tl_prim_fn = FN_NONE; }
static void prim_end(int fn, void* target, int line) {
  tl_cello_sync = 0;
  if (tl_prim_calls != 1 || tl_prim_fn != fn || (target && tl_prim_target != target))
    XX("sig=c13-wrapper line=%d what=Cello operation made %d primitive calls (kind %d, expected one of kind %d on the object's own pthread object)", line, tl_prim_calls, tl_prim_fn, fn);
}
static void* mutex_prim(var m) { return &((struct Mutex*)m)->mutex; }

static void c_lock(var m, int line) { prim_begin(); lock(m); prim_end(FN_LOCK, mutex_prim(m), line); }
static void c_unlock(var m, int line) { prim_begin(); unlock(m); prim_end(FN_UNLOCK, mutex_prim(m), line); }
static bool c_trylock(var m, int line) { prim_begin(); bool r = trylock(m); prim_end(FN_TRYLOCK, mutex_prim(m), line); return r; }
static var c_enter(var m, int line) { prim_begin(); var r = start_in(m); prim_end(FN_LOCK, mutex_prim(m), line); return r; }
static void c_leave(var m, int line) { prim_begin(); stop_in(m); prim_end(FN_UNLOCK, mutex_prim(m), line); }

static __thread int ldvalid = 0;                /* free mode: counter+1 whose value this thread has loaded inside the current section */
static __thread char holds[MAXM];              /* free mode: this thread really holds Mutex m */
static void sec_enter(int m, int line) {
  holds[m] = 1;
  if (insec[m] != 0) XX("sig=c13-overlap line=%d what=thread %d entered a section of Mutex %d while thread %d is inside", line, my_tid, m, insec[m] - 1);
  insec[m] = my_tid + 1;
}
static void sec_leave(int m, int line) {
  if (insec[m] != my_tid + 1) XX("sig=c13-overlap line=%d what=thread %d leaving a section of Mutex %d finds thread %d inside", line, my_tid, m, insec[m] - 1);
  insec[m] = 0; holds[m] = 0; ldvalid = 0;
}

/* an own object that was reachable only through thread-local storage and has just lost that reference is garbage from now
   on: a collection may finalise it at any time (the op files never name it again) */
static void tls_dropped(int me, var old, var* held) {
  if (!old) return;
  for (int k = 0; k < MAXK; k++) if (alive[me][k] && atomic_load(&objs[me][k]) == old) {
    if (held[k] || isroot[me][k]) return;
    struct Thread* th = current(Thread);
    foreach (key in th->tls) { if (deref(get(th->tls, key)) == old) return; }
    alive[me][k] = 0; return;
  }
}
static var tls_peek(const char* key) {
  struct Thread* th = current(Thread);
  return mem(th->tls, $S((char*)key)) ? deref(get(th->tls, $S((char*)key))) : NULL;
}

/* ------------------------------------------------------------------------------------------- collector-managed Thread objects */
#define HTHR(held) ((held) + MAXK)              /* the part of the thread's frame that holds its `var x = new(Thread, f)` variables */
static var worker_fn;                                  /* $(Function, worker), lives in main's frame */
static int is_live(int u) { int ph = atomic_load(&phase[u]); return ph == PH_READY || ph == PH_RUNNING; }
/* would a sweep by `me` that keeps only the Thread objects in `keep` free the Thread object of a live thread?  (Thread_Del frees
   that thread's table under it: not executed, outcome `ub`) */
static int sweep_kills_live(int me, const int* keep, int nkeep) {
  for (int u = 1; u < MAXT; u++) if (managed[u] == me + 1 && !wrapper_gone[u] && is_live(u)) {
    int k = 0; for (int i = 0; i < nkeep; i++) if (keep[i] == u) k = 1;
    if (!k) return 1;
  }
  return 0;
}

/* known finding KF-C13-mark-foreign-tls, in a forked child (the race ends in an exception out of `new`, or in a memory error) */
static volatile int kf_halt = 0;
static var kf_storm(var args) {
  var me = current(Thread); char key[32];
  while (!kf_halt) {
    for (int i = 0; i < 200 && !kf_halt; i++) { snprintf(key, sizeof key, "k%d", i); set(me, $S(key), $I(i)); }
    for (int i = 0; i < 200 && !kf_halt; i++) { snprintf(key, sizeof key, "k%d", i); rem(me, $S(key)); }
  }
  return NULL;
}
static void kf_mark_foreign_tls(int line) {
  fflush(stdout);
  pid_t pid = fork();
  if (pid == 0) {
    signal(SIGALRM, SIG_DFL); alarm(10);   /* a child that hangs after the race (both threads inside an error report) dies before the parent's watchdog fires */
    int devnull = open("/dev/null", 1); if (devnull >= 0) dup2(devnull, 2);
    malloc_noise_off();
    var x = new(Thread, $(Function, kf_storm));        /* the documented usage: a collector-managed Thread object in a stack variable */
    call(x);
    volatile int diverted = 0; time_t t0 = time(NULL);
    try {
      while (time(NULL) - t0 < 6) for (int i = 0; i < 20000; i++) { var o = new(Int, $I(i)); (void)o; }
    } catch (e) { diverted = 1; }
    kf_halt = 1;
    if (diverted) _exit(3);
    join(x);
    _exit(0);
  }
  int st = 0; waitpid(pid, &st, 0);
  if (WIFEXITED(st) && WEXITSTATUS(st) == 0) I("kf mark-foreign-tls: not reproduced in this run (6 s)");
  else if (WIFEXITED(st) && WEXITSTATUS(st) == 3)
    XX("sig=kf-c13-mark-foreign-tls line=%d what=main only allocates; its mark phase reached `x = new(Thread, f)` and walked the worker's thread-local table while the worker was rewriting it: an exception came out of `new` in main", line);
  else
    XX("sig=kf-c13-mark-foreign-tls line=%d what=main only allocates; its mark phase reached `x = new(Thread, f)` and walked the worker's thread-local table while the worker was rewriting it: memory error (%s %d)", line,
       WIFSIGNALED(st) ? "signal" : "exit status", WIFSIGNALED(st) ? WTERMSIG(st) : WEXITSTATUS(st));
}

/* control of KF-C13-mark-foreign-tls (audit2 item 2a): the same shape, but the worker does not write its table while main
   collects — it sets one thread-local value before main starts and then only allocates in its own collector.  The walk is
   read-only for the walker: main must compute its solo result. */
static volatile int wq_ready = 0;
static var wq_worker(var args) {
  var me = current(Thread);
  set(me, $S("once"), $I(7));
  wq_ready = 1;
  long n = 0;
  while (!kf_halt) { var o = new(Int, $I(n)); (void)o; n++; if ((n & 1023) == 0) sched_yield(); }
  return NULL;
}
static void kf_walk_quiet(int line) {
  fflush(stdout);
  pid_t pid = fork();
  if (pid == 0) {
    signal(SIGALRM, SIG_DFL); alarm(12);
    int devnull = open("/dev/null", 1); if (devnull >= 0) dup2(devnull, 2);
    malloc_noise_off();
    var x = new(Thread, $(Function, wq_worker));
    call(x);
    while (!wq_ready) sched_yield();
    volatile int diverted = 0; volatile long long sum = 0; volatile long done = 0; time_t t0 = time(NULL);
    /* at most 5 s (the parent's progress watchdog allows 15): on a loaded machine fewer allocations are made */
    try { for (long i = 0; i < 120000 && (i % 1000 != 0 || time(NULL) - t0 < 5); i++) { var o = new(Int, $I(i)); sum += c_int(o); done = i + 1; } } catch (e) { diverted = 1; }
    kf_halt = 1;
    if (diverted) _exit(3);
    if (sum != (long long)(done - 1) * (long long)done / 2) _exit(4);
    join(x);
    _exit(0);
  }
  int st = 0; waitpid(pid, &st, 0);
  if (WIFSIGNALED(st) && WTERMSIG(st) == SIGALRM) I("kf walk-quiet: inconclusive (the child did not finish within 12 s on this machine)");
  else if (!(WIFEXITED(st) && WEXITSTATUS(st) == 0))
    XX("sig=c13-walk-disturbed line=%d what=main holds `x = new(Thread, f)` and only allocates while the worker (one thread-local value, set before) allocates in its own collector: main was disturbed (%s %d)", line,
       WIFSIGNALED(st) ? "signal" : "exit status", WIFSIGNALED(st) ? WTERMSIG(st) : WEXITSTATUS(st));
}

/* ------------------------------------------------------------------------------------------- one local operation */
static void exec_local(Evt* e, var* held) {
  int me = my_tid;
  switch (e->op) {
    case OP_NEWTHR: {
      int u = (int)e->a;
      if (u <= 0 || u > nworkers || u == me || atomic_load(&phase[u]) != PH_UNBORN || managed[u]) { set_out(e, "bad"); break; }
      var old = thread_obj[u];
      HTHR(held)[u] = new(Thread, worker_fn);            /* registered with this thread's collector; the pointer lives in this thread's frame */
      thread_obj[u] = HTHR(held)[u]; managed[u] = me + 1;
      if (old) del_raw(old);
      set_out(e, "ok"); break; }
    case OP_PUBO: {
      int k = (int)e->a; var p = atomic_load(&objs[me][k]);
      pubo_t[me] = me; pubo_k[me] = k;
      if (p) ref(pubo_ref[me], p);
      set_out(e, "ok"); break; }
    case OP_KF:
      if (!strcmp(e->key, "mark-foreign-tls")) kf_mark_foreign_tls(e->line);
      if (!strcmp(e->key, "walk-quiet")) kf_walk_quiet(e->line);
      set_out(e, "done"); break;
    case OP_BEGIN: {
      var th = current(Thread);
      if (th != thread_obj[me]) XX("sig=c13-tls-value line=%d what=current(Thread) in thread %d is not its Thread object", e->line, me);
      set_out(e, "begun depth=%zu gc=%d exc=%d", len(current(Exception)), (int)mem(th, $S("__GC")), (int)mem(th, $S("__Exception")));
      break; }
    case OP_NEW: case OP_NEWROOT: case OP_NEWX: {
      int k = (int)e->a;
      if (k < 0 || k >= MAXK || used[me][k]) { set_out(e, "bad"); break; }
      struct ProbeA* p = e->op == OP_NEW ? new(ProbeA) : e->op == OP_NEWX ? new(ProbeX) : new_root(ProbeA);
      p->owner = me; p->k = k; p->canary = CANARY;
      held[k] = p; used[me][k] = 1; alive[me][k] = 1; isroot[me][k] = e->op == OP_NEWROOT; atomic_store(&objs[me][k], (var)p);
      set_out(e, "ok"); break; }
    case OP_DEL: {
      int u = (int)e->a, k = (int)e->b;
      if (u < 0 || u >= MAXT || k < 0 || k >= MAXK) { set_out(e, "fin=0"); break; }
      var p = atomic_load(&objs[u][k]);
      if (u == me) {
        if (!alive[me][k]) { set_out(e, "fin=0"); break; }
        int before = atomic_load(&led_fin[me][k]);
        held[k] = NULL; alive[me][k] = 0;
        del(p);
        set_out(e, "fin=%d", atomic_load(&led_fin[me][k]) - before);
      } else {
        int before = p ? atomic_load(&led_fin[u][k]) : 0;
        if (p) del(p);                       /* looked up in the caller's registry only: the pointer is never dereferenced */
        if (p && !free_mode && atomic_load(&led_fin[u][k]) != before)
          XX("sig=c13-foreign-fin line=%d what=del by thread %d finalised object %d.%d of another thread", e->line, me, u, k);
        set_out(e, "fin=0");
      }
      break; }
    case OP_GC: {
      if (sweep_kills_live(me, e->ts, e->nts)) { set_out(e, "ub"); break; }     /* would free the Thread object of a live thread: not executed */
      struct GC* gc = current(GC);
      for (int u = 1; u < MAXT; u++) if (HTHR(held)[u]) { int keep = 0; for (int i = 0; i < e->nts; i++) if (e->ts[i] == u) keep = 1; if (!keep) HTHR(held)[u] = NULL; }
      for (int k = 0; k < MAXK; k++) if (held[k]) { int keep = 0; for (int i = 0; i < e->nks; i++) if (e->ks[i] == k) keep = 1; if (!keep) held[k] = NULL; }
      /* GC_Mark with the conservative stack scan replaced by the given set */
      if (gc->nitems != 0) {
        mark(current(Thread), gc, (void(*)(var,void*))GC_Mark_And_Recurse);
        for (size_t i = 0; i < gc->nslots; i++) {
          if (gc->entries[i].hash == 0 || gc->entries[i].marked) continue;
          if (gc->entries[i].root) { gc->entries[i].marked = true; GC_Recurse(gc, gc->entries[i].ptr); }
        }
        for (int i = 0; i < e->nks; i++) { int k = e->ks[i]; if (k >= 0 && k < MAXK && alive[me][k]) GC_Mark_Item(gc, atomic_load(&objs[me][k])); }
        /* the Thread objects this thread keeps in stack variables: GC_Mark_Item -> GC_Recurse -> Thread_Mark -> that thread's table */
        for (int i = 0; i < e->nts; i++) { int u = e->ts[i]; if (u > 0 && u < MAXT && HTHR(held)[u] && managed[u] == me + 1 && !wrapper_gone[u]) GC_Mark_Item(gc, HTHR(held)[u]); }
      }
      GC_Sweep(gc);
      for (int u = 1; u < MAXT; u++) if (managed[u] == me + 1 && !wrapper_gone[u] && !HTHR(held)[u]) wrapper_gone[u] = 1;   /* finalised: Thread_Del */
      /* what must have survived: the given set, thread-local values, roots */
      for (int k = 0; k < MAXK; k++) if (alive[me][k] && !held[k] && !isroot[me][k]) {
        /* not on the stack: alive only if thread-local storage refers to it */
        int intls = 0; struct Thread* th = current(Thread);
        foreach (key in th->tls) { if (deref(get(th->tls, key)) == atomic_load(&objs[me][k])) intls = 1; }
        if (!intls) alive[me][k] = 0;
      }
      check_alive(me, held, e->line, "by a collection of its own thread");
      char b[4096]; ledger_text(me, b, sizeof b); set_out(e, "%s", b);
      break; }
    case OP_CHURN: {
      for (long i = 0; i < e->a; i++) {
        struct ProbeA* p = new(ProbeA); p->owner = me; p->k = GARB; p->canary = CANARY; atomic_fetch_add(&garb_alloc[me], 1);
        if (i % 3 == 0) { var x = new(Int, $I(i)); (void)x; }
        if (i % 7 == 0) { var x = new(String, $S("churn")); (void)x; }
        if (free_mode && (i & 15) == 0) noise();
      }
      check_alive(me, held, e->line, "by a collection during churn");
      set_out(e, "ok"); break; }
    case OP_TSET: {
      int u = (int)e->a, k = (int)e->b; var p = (u >= 0 && u < MAXT && k >= 0 && k < MAXK) ? atomic_load(&objs[u][k]) : NULL;
      if (!p) { set_out(e, "bad"); break; }
      var old = tls_peek(e->key);
      set(current(Thread), $S(e->key), p); if (old != p) tls_dropped(me, old, held); set_out(e, "ok"); break; }
    case OP_TGET: {
      var exc; var r = NULL; V_TRY(exc, r = get(current(Thread), $S(e->key)));
      if (exc) { set_out(e, "%s", v_exc_name(exc)); break; }
      struct ProbeA* p = r; int found = 0;
      for (int u = 0; u < MAXT && !found; u++) for (int k = 0; k < MAXK; k++) if (atomic_load(&objs[u][k]) == r) { found = 1; break; }
      if (!found || p->canary != CANARY) { XX("sig=c13-tls-value line=%d what=thread %d read key %s: not an object stored by it", e->line, me, e->key); set_out(e, "val=?"); break; }
      set_out(e, "val=%d.%d", p->owner, p->k); break; }
    case OP_TMEM: set_out(e, "%d", (int)mem(current(Thread), $S(e->key))); break;
    case OP_TREM: { var exc; var old = tls_peek(e->key); V_TRY(exc, rem(current(Thread), $S(e->key))); if (!exc) tls_dropped(me, old, held); set_out(e, "%s", exc ? v_exc_name(exc) : "ok"); break; }
    case OP_X: {
      char tb[4096], ob[4096]; Buf t = { tb, 0, sizeof tb }, o = { ob, 0, sizeof ob }; tb[0] = ob[0] = 0;
      size_t d0 = len(current(Exception));
      try { xrun(e->prog, &t); } catch (ex) { bemit(&t, 'h', kind_index(ex)); bemit(&t, 's', 999); }
      size_t d1 = len(current(Exception));
      int esc = oeval(e->prog, &o); if (esc >= 0) { bemit(&o, 'h', esc); bemit(&o, 's', 999); }
      strip_comma(tb); strip_comma(ob);
      if (strcmp(tb, ob) != 0) XX("sig=c13-exn-trace line=%d what=thread %d: handlers/statements [%s] differ from the block structure [%s]", e->line, me, tb, ob);
      if (d0 != d1) XX("sig=c13-exn-trace line=%d what=thread %d: nesting depth %zu before, %zu after", e->line, me, d0, d1);
      set_out(e, "trace=%s end=normal depth=%zu", tb, d1); break; }
    case OP_LOOKUP: {
      int ty = (int)e->a, cl = (int)e->b; if (ty < 0 || ty > 2 || cl < 0 || cl > 7) { set_out(e, "0"); break; }
      int r = type_instance(probe_type(ty), probe_class(cl)) != NULL;
      if (r != declared[ty][cl]) XX("sig=c13-cache line=%d what=type_instance(type %d, class %d) = %d, declared %d", e->line, ty, cl, r, declared[ty][cl]);
      set_out(e, "%d", r); break; }
    case OP_PUB: assign(pub_obj[me], $I(e->a)); set_out(e, "ok"); break;
    case OP_PERR: {
      int fn = (int)e->a, err = (int)e->b; var exc = NULL; volatile int res = -1;
      tl_inject_fn = fn; tl_inject_err = err; prim_begin();
      switch (fn) {
        case FN_LOCK: V_TRY(exc, lock(scratch_mutex[me])); break;
        case FN_TRYLOCK: V_TRY(exc, res = trylock(scratch_mutex[me])); break;
        case FN_UNLOCK: V_TRY(exc, unlock(scratch_mutex[me])); break;
        case FN_JOIN: ((struct Thread*)scratch_thread[me])->thread = pthread_self(); V_TRY(exc, join(scratch_thread[me])); break;
        case FN_CREATE: V_TRY(exc, call(scratch_thread[me], tid_obj[me])); break;
        case FN_STOP: ((struct Thread*)scratch_thread[me])->thread = pthread_self(); V_TRY(exc, stop(scratch_thread[me])); break;
      }
      prim_end(fn, fn == FN_CREATE ? scratch_thread[me] : fn == FN_JOIN || fn == FN_STOP ? NULL : mutex_prim(scratch_mutex[me]), e->line); tl_inject_fn = FN_NONE;
      if (fn == FN_CREATE) {
        /* Thread_Call made the raw copy of the argument tuple before pthread_create: it stays with the Thread object when the call fails */
        struct Thread* st = scratch_thread[me];
        if (st->args is NULL) XX("sig=c13-wrapper line=%d what=Thread_Call did not keep a copy of the argument tuple", e->line);
        else { del_raw(st->args); st->args = NULL; }
        if (st->is_running) XX("sig=c13-wrapper line=%d what=a Thread object whose pthread_create was replaced is marked running", e->line);
      }
      if (fn == FN_STOP && (!pthread_equal(tl_join_target, pthread_self()) || tl_kill_sig != SIGINT)) XX("sig=c13-wrapper line=%d what=stop signalled another pthread or sent signal %d", e->line, tl_kill_sig);
      char b[64];
      if (exc) snprintf(b, sizeof b, "%s", v_exc_name(exc)); else if (fn == FN_TRYLOCK) snprintf(b, sizeof b, "%d", res); else snprintf(b, sizeof b, "ok");
      if (strcmp(b, errname_doc(fn, err)) != 0) XX("sig=c13-errmap line=%d what=primitive %d failing with errno %d gives %s, documented %s", e->line, fn, err, b, errname_doc(fn, err));
      set_out(e, "%s", b); break; }
    case OP_WORK: {
      uint64_t d = do_work((int)e->a, (uint64_t)e->b, (int)e->c), s0 = solo_digest(e->a, e->b, e->c);
      if (d != s0) XX("sig=c13-digest line=%d what=thread %d workload kind=%ld seed=%ld n=%ld computed %016llx, alone %016llx", e->line, me, e->a, e->b, e->c, (unsigned long long)d, (unsigned long long)s0);
      check_alive(me, held, e->line, "during a workload");
      set_out(e, "ok"); break; }
    default: set_out(e, "bad"); break;
  }
}

/* ------------------------------------------------------------------------------------------- thread start / exit */
static var worker(var args);

static void do_spawn(int u) {
  arg_n[u] = 0;
  call(thread_obj[u], tid_obj[u]);
}
/* `spawn U` or `call U K [K2]`: the caller's own objects are the arguments (Thread_Call copies the tuple: the pointers) */
static void do_spawn_ev(Evt* e, int u) {
  int me = my_tid;
  if (e->op != OP_CALL) { do_spawn(u); return; }
  arg_n[u] = e->nks;
  for (int i = 0; i < e->nks; i++) { arg_t[u][i] = me; arg_k[u][i] = e->ks[i]; }
  var a0 = atomic_load(&objs[me][e->ks[0]]);
  if (e->nks == 1) call(thread_obj[u], tid_obj[u], a0);
  else { var a1 = atomic_load(&objs[me][e->ks[1]]); call(thread_obj[u], tid_obj[u], a0, a1); }
}
static int call_args_ok(Evt* e) {
  if (e->op != OP_CALL) return 1;
  for (int i = 0; i < e->nks; i++) if (!used[my_tid][e->ks[i]]) return 0;
  return 1;
}
/* the thread function reads argument i of its call and uses the object */
static void exec_rdarg(Evt* e) {
  int me = my_tid, i = (int)e->a;
  if (i >= arg_n[me]) { set_out(e, "noval"); return; }
  int ot = arg_t[me][i], ok = arg_k[me][i];
  if (atomic_load(&led_fin[ot][ok]) > 0) {
    /* the pointer is not dereferenced: the ledger says the object is dead */
    if (isroot[ot][ok]) XX("sig=c13-lost-object line=%d what=thread %d uses argument %d of its call, the root object %d.%d: it has been finalised (by the collector of thread %d)", e->line, me, i, ot, ok, atomic_load(&led_by[ot][ok]) - 1);
    else XX("sig=kf-c13-thread-arg-collected line=%d what=thread %d uses argument %d of its call, object %d.%d: it has been finalised by the collector of thread %d while the thread holds it (Thread_Call keeps a raw copy of the tuple, nothing marks through t->args)", e->line, me, i, ot, ok, atomic_load(&led_by[ot][ok]) - 1);
    set_out(e, "dangling=%d.%d", ot, ok); return; }
  struct ProbeA* p = get(my_args, $I(i + 1));
  if ((var)p != atomic_load(&objs[ot][ok]) || p->canary != CANARY || p->owner != ot || p->k != ok)
    XX("sig=c13-arg-value line=%d what=thread %d: argument %d of its call does not read back as object %d.%d", e->line, me, i, ot, ok);
  set_out(e, "val=%d.%d", ot, ok);
}
/* `try { with (x in m) { throw } } catch {}`: returns 1 when the Mutex is still locked afterwards (the jump skipped stop_in) */
static int exec_wthrow(int m) {
  volatile int caught = 0;
  tl_cello_sync = 1;
  try { with (x in mutex_obj[m]) { throw(ValueError, "leaving the section of Mutex %i by an exception", $I(m)); } } catch (ex) { caught = 1; }
  tl_cello_sync = 0;
  pthread_mutex_t* pm = mutex_prim(mutex_obj[m]);
  if (__real_pthread_mutex_trylock(pm) == 0) { __real_pthread_mutex_unlock(pm); return 0; }
  return 1;
}

/* runs as a pthread key destructor: after Thread_Init_Run (and so the teardown) has returned */
static void on_thread_exit(void* v) {
  int t = (int)(intptr_t)v - 1;
  __real_pthread_mutex_lock(&bm);
  char b[4096]; ledger_text(t, b, sizeof b);
  if (end_idx[t] >= 0) { set_out(&ev[end_idx[t]], "%s", b); check_teardown(t, ev[end_idx[t]].line); }
  for (int k = 0; k < MAXK; k++) if (alive[t][k] && !isroot[t][k]) alive[t][k] = 0;   /* finalised by the teardown */
  for (int u = 1; u < MAXT; u++) if (managed[u] == t + 1) wrapper_gone[u] = 1;        /* … and so were the Thread objects it made */
  atomic_store(&phase[t], PH_DONE);
  if (!free_mode && end_idx[t] >= 0) {
    /* hand the baton on */
    advance_locked();
  }
  pthread_cond_broadcast(&bc);
  __real_pthread_mutex_unlock(&bm);
}

static int runnable(Evt* e) {
  int ph = atomic_load(&phase[e->tid]);
  return (ph == PH_RUNNING && e->op != OP_BEGIN) || (ph == PH_READY && e->op == OP_BEGIN);
}
static void advance_locked(void) {
  turn++;
  while (turn < nev && !runnable(&ev[turn])) { set_out(&ev[turn], "dead"); turn++; }
  pthread_cond_broadcast(&bc);
}

/* sched mode: nobody is inside a section of Mutex m (shadow state), so the pthread mutex must be free: probe it with the
   raw primitive before a Cello operation that would otherwise wait for ever */
static int mutex_really_free(int m, int line) {
  pthread_mutex_t* pm = mutex_prim(mutex_obj[m]);
  if (__real_pthread_mutex_trylock(pm) != 0) {
    XX("sig=c13-overlap line=%d what=Mutex %d is still locked although every section of it has been left", line, m);
    return 0;
  }
  __real_pthread_mutex_unlock(pm);
  return 1;
}

/* sched mode: execute one synchronisation event (the baton is held: the shadow state is consistent) */
static void exec_sync_sched(Evt* e) {
  int me = my_tid;
  switch (e->op) {
    case OP_SPAWN: case OP_CALL: {
      int u = (int)e->a;
      int ph = (u > 0 && u <= nworkers) ? atomic_load(&phase[u]) : -1;
      if (!call_args_ok(e)) { set_out(e, "bad"); break; }
      if (ph >= 0 && wrapper_gone[u]) { set_out(e, "ub"); break; }      /* call on a finalised Thread object: not executed */
      if (!(ph == PH_UNBORN || (ph == PH_DONE && was_joined[u]))) { set_out(e, "bad"); break; }
      was_joined[u] = 0; end_idx[u] = -1;                   /* a joined Thread object may be called again */
      atomic_store(&entered[u], 0);
      atomic_store(&phase[u], PH_READY); do_spawn_ev(e, u);
      /* a collector-managed Thread object: its maker's collections walk this thread's table, which the prologue of
         Thread_Init_Run writes (__GC, __Exception): wait until the prologue is over before the next event runs */
      if (managed[u]) while (!atomic_load(&entered[u])) sched_yield();
      set_out(e, "spawned"); break; }
    case OP_JOIN: {
      int u = (int)e->a;
      if (u <= 0 || u > nworkers) { set_out(e, "nothread"); break; }
      if (wrapper_gone[u]) { set_out(e, "ub"); break; }                 /* join on a finalised Thread object: not executed */
      if (u == me) {
        /* join(current(Thread)): pthread_join(self) = EDEADLK, for which Thread_Join raises ResourceError */
        var exc = NULL; prim_begin(); V_TRY(exc, join(thread_obj[u])); prim_end(FN_JOIN, NULL, e->line);
        if (!exc) {
          XX("sig=c13-join-early line=%d what=join(current(Thread)) in thread %d returned while the thread function is still running", e->line, me);
          set_out(e, "early"); break; }
        if (strcmp(v_exc_name(exc), "ResourceError") != 0) XX("sig=c13-errmap line=%d what=join(current(Thread)) raised %s, documented ResourceError", e->line, v_exc_name(exc));
        set_out(e, "%s", v_exc_name(exc)); break; }
      int ph = atomic_load(&phase[u]);
      if (ph == PH_UNBORN) { prim_begin(); join(thread_obj[u]); tl_cello_sync = 0;
        if (tl_prim_calls != 0) XX("sig=c13-wrapper line=%d what=join of a Thread that was never called reached pthread_join", e->line);
        set_out(e, "nothread"); break; }
      if (ph != PH_DONE) { set_out(e, "blocked"); break; }
      if (was_joined[u]) { set_out(e, "ub"); break; }
      prim_begin(); join(thread_obj[u]); prim_end(FN_JOIN, NULL, e->line); was_joined[u] = 1;
      if (!pthread_equal(tl_join_target, ((struct Thread*)thread_obj[u])->thread)) XX("sig=c13-wrapper line=%d what=join waited for another pthread", e->line);
      set_out(e, "joined"); break; }
    case OP_LOCK: case OP_ENTER: {
      int m = (int)e->a % MAXM;
      if (shadow_holder[m]) { set_out(e, "blocked"); break; }
      if (!mutex_really_free(m, e->line)) { set_out(e, "blocked"); break; }
      if (e->op == OP_LOCK) c_lock(mutex_obj[m], e->line); else c_enter(mutex_obj[m], e->line);
      shadow_holder[m] = me + 1; sec_enter(m, e->line); set_out(e, "acquired"); break; }
    case OP_TRYLOCK: {
      int m = (int)e->a % MAXM; bool r = c_trylock(mutex_obj[m], e->line);
      if (r != (shadow_holder[m] == 0)) XX("sig=c13-trylock line=%d what=trylock of Mutex %d returned %d while %s", e->line, m, (int)r, shadow_holder[m] ? "it is held" : "it is free");
      if (r) { if (shadow_holder[m] == 0) sec_enter(m, e->line); shadow_holder[m] = shadow_holder[m] ? shadow_holder[m] : me + 1; }
      set_out(e, "tried=%d", (int)r); break; }
    case OP_UNLOCK: case OP_LEAVE: {
      int m = (int)e->a % MAXM;
      if (shadow_holder[m] != me + 1) { set_out(e, "ub"); break; }
      sec_leave(m, e->line); shadow_holder[m] = 0;
      if (e->op == OP_UNLOCK) c_unlock(mutex_obj[m], e->line); else c_leave(mutex_obj[m], e->line);
      set_out(e, "released"); break; }
    case OP_WINC: {
      int m = (int)e->a % MAXM, c = (int)e->b % MAXC;
      if (shadow_holder[m]) { set_out(e, "blocked"); break; }
      if (!mutex_really_free(m, e->line)) { set_out(e, "blocked"); break; }
      tl_cello_sync = 1;
      with (x in mutex_obj[m]) { sec_enter(m, e->line); long v = counter[c]; ldreg[me] = v; counter[c] = v + 1; sec_leave(m, e->line); }
      tl_cello_sync = 0;
      atomic_fetch_add(&counter_expected[c], 1);
      set_out(e, "n=%ld", counter[c]); break; }
    case OP_LD: { int c = (int)e->a % MAXC; ldreg[me] = counter[c]; set_out(e, "n=%ld", ldreg[me]); break; }
    case OP_ST: { int c = (int)e->a % MAXC; counter[c] = ldreg[me] + 1; set_out(e, "n=%ld", counter[c]); break; }
    case OP_RD: { int u = (int)e->a; if (u < 0 || u >= MAXT || !pub_obj[u]) { set_out(e, "n=0"); break; } set_out(e, "n=%ld", (long)c_int(pub_obj[u])); break; }
    case OP_RDO: {
      int u = (int)e->a;
      if (u < 0 || u >= MAXT || pubo_k[u] < 0) { set_out(e, "noval"); break; }
      int ot = pubo_t[u], ok = pubo_k[u];
      if (atomic_load(&led_fin[ot][ok]) > 0) {
        /* the pointer is not dereferenced here: the ledger says the object is dead */
        if (isroot[ot][ok]) XX("sig=c13-lost-object line=%d what=thread %d reads the root object %d.%d thread %d handed over: it has been finalised (by the collector of thread %d)", e->line, me, ot, ok, u, atomic_load(&led_by[ot][ok]) - 1);
        else XX("sig=kf-c13-join-result-finalised line=%d what=thread %d reads the object %d.%d thread %d handed over: it has been finalised (by the collector of thread %d)", e->line, me, ot, ok, u, atomic_load(&led_by[ot][ok]) - 1);
        set_out(e, "dangling=%d.%d", ot, ok); break; }
      struct ProbeA* p = atomic_load(&objs[ot][ok]);
      if (p && (deref(pubo_ref[u]) != (var)p || p->canary != CANARY)) XX("sig=c13-join-stale line=%d what=the pointer thread %d published does not read back as its object %d.%d", e->line, u, ot, ok);
      set_out(e, "val=%d.%d", ot, ok); break; }
    case OP_RDARG: exec_rdarg(e); break;
    case OP_WTHROW: {
      int m = (int)e->a % MAXM;
      if (shadow_holder[m]) { set_out(e, "blocked"); break; }
      if (!mutex_really_free(m, e->line)) { set_out(e, "blocked"); break; }
      if (!exec_wthrow(m)) { set_out(e, "released-by-throw"); break; }
      shadow_holder[m] = me + 1; sec_enter(m, e->line); set_out(e, "acquired"); break; }
    default: set_out(e, "bad"); break;
  }
}

/* free mode: execute one synchronisation event for real.  A trylock that fails simply leaves `holds[m]` clear: the
   matching unlock and the counter accesses guarded by that Mutex are then left out by this thread */
static void exec_sync_free(Evt* e) {
  int me = my_tid;
  set_out(e, "sync");
  switch (e->op) {
    case OP_SPAWN: case OP_CALL: {
      int u = (int)e->a;
      if (u <= 0 || u > nworkers) break;
      if (!call_args_ok(e)) break;
      __real_pthread_mutex_lock(&bm);
      int ph = atomic_load(&phase[u]); int can = ph == PH_UNBORN || (ph == PH_DONE && was_joined[u]);
      if (wrapper_gone[u]) can = 0;
      if (can) { was_joined[u] = 0; end_idx[u] = -1; atomic_store(&entered[u], 0); atomic_store(&phase[u], PH_READY); }
      __real_pthread_mutex_unlock(&bm);
      if (can) do_spawn_ev(e, u);
      break; }
    case OP_JOIN: {
      int u = (int)e->a;
      if (u <= 0 || u > nworkers) break;
      if (wrapper_gone[u]) break;
      if (u == me) {
        /* join(current(Thread)) never blocks: pthread_join(self) = EDEADLK -> ResourceError */
        var exc = NULL; prim_begin(); V_TRY(exc, join(thread_obj[u])); prim_end(FN_JOIN, NULL, e->line);
        if (!exc) XX("sig=c13-join-early line=%d what=join(current(Thread)) in thread %d returned while the thread function is still running", e->line, me);
        else if (strcmp(v_exc_name(exc), "ResourceError") != 0) XX("sig=c13-errmap line=%d what=join(current(Thread)) raised %s, documented ResourceError", e->line, v_exc_name(exc));
        break; }
      __real_pthread_mutex_lock(&bm); int can = atomic_load(&phase[u]) != PH_UNBORN && !was_joined[u]; if (can) was_joined[u] = 1; __real_pthread_mutex_unlock(&bm);
      if (!can) break;
      prim_begin(); join(thread_obj[u]); prim_end(FN_JOIN, NULL, e->line);
      /* join has returned: the function and the teardown must be over, and what the thread wrote must be visible */
      if (atomic_load(&phase[u]) != PH_DONE) XX("sig=c13-join-early line=%d what=join(thread %d) returned before the thread had finished", e->line, u);
      else { check_teardown(u, e->line); }
      if (end_idx[u] >= 0 && (long)c_int(pub_obj[u]) != ev[end_idx[u]].c) XX("sig=c13-join-stale line=%d what=after join(thread %d) its published value reads %ld, last written %ld", e->line, u, (long)c_int(pub_obj[u]), ev[end_idx[u]].c);
      if (pubo_k[u] >= 0) {
        int ot = pubo_t[u], ok = pubo_k[u]; struct ProbeA* p = atomic_load(&objs[ot][ok]);
        if (atomic_load(&led_fin[ot][ok]) > 0) XX("sig=%s line=%d what=after join(thread %d) the %sobject %d.%d it handed over has been finalised", isroot[ot][ok] ? "c13-lost-object" : "kf-c13-join-result-finalised", e->line, u, isroot[ot][ok] ? "root " : "", ot, ok);
        else if (p && (deref(pubo_ref[u]) != (var)p || p->canary != CANARY)) XX("sig=c13-join-stale line=%d what=after join(thread %d) the pointer it published does not read back as its object %d.%d", e->line, u, ot, ok);
      }
      break; }
    case OP_LOCK: { int m = (int)e->a % MAXM; if (holds[m]) break; c_lock(mutex_obj[m], e->line); sec_enter(m, e->line); break; }
    case OP_ENTER: { int m = (int)e->a % MAXM; if (holds[m]) break; c_enter(mutex_obj[m], e->line); sec_enter(m, e->line); break; }
    case OP_TRYLOCK: { int m = (int)e->a % MAXM; if (holds[m]) break; if (c_trylock(mutex_obj[m], e->line)) sec_enter(m, e->line); break; }
    case OP_UNLOCK: { int m = (int)e->a % MAXM; if (!holds[m]) break; sec_leave(m, e->line); c_unlock(mutex_obj[m], e->line); break; }
    case OP_LEAVE: { int m = (int)e->a % MAXM; if (!holds[m]) break; sec_leave(m, e->line); c_leave(mutex_obj[m], e->line); break; }
    case OP_WINC: {
      int m = (int)e->a % MAXM, c = (int)e->b % MAXC;
      if (holds[m]) break;
      tl_cello_sync = 1;
      with (x in mutex_obj[m]) { tl_cello_sync = 0; sec_enter(m, e->line); long v = counter[c]; noise(); counter[c] = v + 1; sec_leave(m, e->line); tl_cello_sync = 1; }
      tl_cello_sync = 0;
      atomic_fetch_add(&counter_expected[c], 1); break; }
    /* free mode: counter c is guarded by Mutex c; a thread that does not hold it (failed trylock) leaves it alone */
    case OP_LD: { int c = (int)e->a % MAXC; if (!holds[c % MAXM]) break; ldreg[me] = counter[c]; ldvalid = c + 1; noise(); break; }
    case OP_ST: { int c = (int)e->a % MAXC; if (!holds[c % MAXM] || ldvalid != c + 1) break; ldvalid = 0; counter[c] = ldreg[me] + 1; atomic_fetch_add(&counter_expected[c], 1); break; }
    case OP_RD: break;   /* checked at join */
    case OP_RDO: break;  /* checked at join */
    case OP_RDARG: exec_rdarg(e); set_out(e, "sync"); break;
    case OP_WTHROW: { int m = (int)e->a % MAXM; if (holds[m]) break; if (exec_wthrow(m)) sec_enter(m, e->line); else XX("sig=c13-overlap line=%d what=an exception out of a with block released Mutex %d", e->line, m); break; }
  }
}

/* watchdog: a run that does not finish (deadlock) reports where every thread is and exits with status 142 */
static volatile long cur_ev[MAXT];
static void on_alarm(int sig) {
  char b[256];
  for (int t = 0; t < MAXT; t++) if (cur_ev[t]) {
    long i = cur_ev[t] - 1; int n = snprintf(b, sizeof b, "stuck: thread %d at event %ld (line %d: %s)\n", t, i, ev[i].line, opname[ev[i].op]);
    if (write(2, b, n) < 0) {}
  }
  _exit(142);
}

/* progress watchdog: no event completed for 15 s = deadlock */
static atomic_long progress;
static void* watchdog(void* arg) {
  long last = -1; int quiet = 0;
  for (;;) {
    usleep(500000);
    long p = atomic_load(&progress);
    if (p != last) { last = p; quiet = 0; continue; }
    if (++quiet >= 30) on_alarm(0);
  }
  return NULL;
}

/* the events of one thread */
static void run_thread_events(int me, var* held) {
  if (free_mode) {
    int begun = me == 0;
    for (size_t i = next_ev[me]; i < nev; i++) {
      Evt* e = &ev[i]; if (e->tid != me) continue;
      if (!begun) { if (e->op != OP_BEGIN) { set_out(e, "dead"); continue; } begun = 1; atomic_store(&phase[me], PH_RUNNING); }
      else if (e->op == OP_BEGIN) { set_out(e, "dead"); continue; }
      noise();
      cur_ev[me] = (long)i + 1;
      if (e->op == OP_END) {
        cur_ev[me] = 0;
        if (me == 0) { set_out(e, "dead"); continue; }     /* the main thread has no Thread_Init_Run to return to */
        if (sweep_kills_live(me, NULL, 0)) { set_out(e, "ub"); continue; }   /* the teardown would free the Thread object of a live thread */
        end_idx[me] = (ssize_t)i; next_ev[me] = i + 1;      /* a later run of this Thread object continues after its `end` */
        return;
      }
      if (is_sync(e->op)) exec_sync_free(e); else exec_local(e, held);
      atomic_fetch_add(&progress, 1);
    }
    cur_ev[me] = 0; next_ev[me] = nev;
    return;
  }
  __real_pthread_mutex_lock(&bm);
  for (;;) {
    #define MY_TURN (turn < nev && ev[turn].tid == me && runnable(&ev[turn]))
    while (!(shutting_down || (me == 0 && turn >= nev) || MY_TURN)) pthread_cond_wait(&bc, &bm);
    if (!MY_TURN) break;                                  /* shutting down, or (main) every event is done */
    Evt* e = &ev[turn];
    cur_ev[me] = (long)turn + 1;
    if (e->op == OP_BEGIN) atomic_store(&phase[me], PH_RUNNING);
    if (e->op == OP_END) {
      if (me == 0) { set_out(e, "dead"); advance_locked(); continue; }
      if (sweep_kills_live(me, NULL, 0)) { set_out(e, "ub"); cur_ev[me] = 0; advance_locked(); continue; }   /* not executed */
      end_idx[me] = (ssize_t)turn;                       /* the exit hook reports and passes the baton */
      __real_pthread_mutex_unlock(&bm);
      return;
    }
    /* the event is executed while the baton mutex is held: exactly one event runs at a time */
    if (is_sync(e->op)) exec_sync_sched(e); else exec_local(e, held);
    atomic_fetch_add(&progress, 1);
    advance_locked();
  }
  __real_pthread_mutex_unlock(&bm);
}

static var worker(var args) {
  int me = (int)c_int(get(args, $I(0)));
  my_tid = me; my_args = args;
  pthread_setspecific(exit_key, (void*)(intptr_t)(me + 1));
  atomic_store(&entered[me], 1);                 /* the prologue of Thread_Init_Run is over */
  var held[MAXK + MAXT]; memset(held, 0, sizeof held);   /* named objects, then the `var x = new(Thread, f)` variables (HTHR) */
  run_thread_events(me, held);
  return NULL;
}

/* ------------------------------------------------------------------------------------------- parsing */
static int parse_errno(const char* s) {
  if (!strcmp(s, "0")) return 0; if (!strcmp(s, "EINVAL")) return EINVAL; if (!strcmp(s, "EDEADLK")) return EDEADLK;
  if (!strcmp(s, "EBUSY")) return EBUSY; if (!strcmp(s, "EPERM")) return EPERM; if (!strcmp(s, "ESRCH")) return ESRCH;
  if (!strcmp(s, "EAGAIN")) return EAGAIN; return -1;
}
static int is_nat(const char* s) { if (!*s) return 0; for (; *s; s++) if (*s < '0' || *s > '9') return 0; return 1; }

static int parse_event(char* line, Evt* e) {
  char* copy = strdup(line); char* tok[600]; int nt = 0;
  for (char* p = strtok(copy, " "); p && nt < 600; p = strtok(NULL, " ")) tok[nt++] = p;
  #define FAIL do { free(copy); return 0; } while (0)
  if (nt < 2 || !is_nat(tok[0])) FAIL;
  e->tid = atoi(tok[0]); if (e->tid >= MAXT) FAIL;
  const char* op = tok[1]; int na = nt - 2; char** a = tok + 2;
  e->op = OP_BAD;
  #define NAT(i) (na > (i) && is_nat(a[i]))
  #define LT(i, lim) (NAT(i) && strlen(a[i]) < 8 && atol(a[i]) < (lim))
  if (!strcmp(op, "begin") && na == 0 && e->tid != 0) e->op = OP_BEGIN;
  else if (!strcmp(op, "end") && na == 0 && e->tid != 0) e->op = OP_END;
  else if (!strcmp(op, "new") && na == 1 && LT(0, MAXK)) { e->op = OP_NEW; e->a = atol(a[0]); }
  else if (!strcmp(op, "newroot") && na == 1 && LT(0, MAXK)) { e->op = OP_NEWROOT; e->a = atol(a[0]); }
  else if (!strcmp(op, "newx") && na == 1 && LT(0, MAXK)) { e->op = OP_NEWX; e->a = atol(a[0]); }
  else if (!strcmp(op, "del") && na == 2 && LT(0, MAXT) && LT(1, MAXK)) { e->op = OP_DEL; e->a = atol(a[0]); e->b = atol(a[1]); }
  else if (!strcmp(op, "gc")) {
    e->op = OP_GC; e->nks = 0; e->nts = 0; e->ks = calloc(na + 1, sizeof(int)); e->ts = calloc(na + 1, sizeof(int));
    for (int i = 0; i < na; i++) {
      if (a[i][0] == 'T') { if (!is_nat(a[i] + 1) || strlen(a[i]) > 3 || atoi(a[i] + 1) >= MAXT || atoi(a[i] + 1) < 1) FAIL; e->ts[e->nts++] = atoi(a[i] + 1); }
      else { if (!LT(i, MAXK)) FAIL; e->ks[e->nks++] = atoi(a[i]); } } }
  else if (!strcmp(op, "newthr") && na == 1 && LT(0, MAXT) && atol(a[0]) >= 1) { e->op = OP_NEWTHR; e->a = atol(a[0]); }
  else if (!strcmp(op, "pubo") && na == 1 && LT(0, MAXK)) { e->op = OP_PUBO; e->a = atol(a[0]); }
  else if (!strcmp(op, "rdo") && na == 1 && LT(0, MAXT)) { e->op = OP_RDO; e->a = atol(a[0]); }
  else if (!strcmp(op, "kf") && na == 1 && strlen(a[0]) < 60) { e->op = OP_KF; strcpy(e->key, a[0]); }
  else if (!strcmp(op, "churn") && na == 1 && LT(0, 5001)) { e->op = OP_CHURN; e->a = atol(a[0]); }
  else if (!strcmp(op, "tset") && na == 3 && LT(1, MAXT) && LT(2, MAXK) && strlen(a[0]) < 60) { e->op = OP_TSET; strcpy(e->key, a[0]); e->a = atol(a[1]); e->b = atol(a[2]); }
  else if (!strcmp(op, "tget") && na == 1 && strlen(a[0]) < 60) { e->op = OP_TGET; strcpy(e->key, a[0]); }
  else if (!strcmp(op, "tmem") && na == 1 && strlen(a[0]) < 60) { e->op = OP_TMEM; strcpy(e->key, a[0]); }
  else if (!strcmp(op, "trem") && na == 1 && strlen(a[0]) < 60) { e->op = OP_TREM; strcpy(e->key, a[0]); }
  else if (!strcmp(op, "x") && na >= 1) {
    char* p = strstr(line, " x "); if (!p) FAIL; cur = p + 3; Node* n = parse_node(); if (!n) FAIL; skipws(); if (*cur) FAIL;
    e->op = OP_X; e->prog = n; }
  else if (!strcmp(op, "lookup") && na == 2 && LT(0, 3) && LT(1, 8)) { e->op = OP_LOOKUP; e->a = atol(a[0]); e->b = atol(a[1]); }
  else if (!strcmp(op, "pub") && na == 1 && LT(0, 1000000)) { e->op = OP_PUB; e->a = atol(a[0]); }
  else if (!strcmp(op, "perr") && na == 2) {
    int fn = !strcmp(a[0], "lock") ? FN_LOCK : !strcmp(a[0], "trylock") ? FN_TRYLOCK : !strcmp(a[0], "unlock") ? FN_UNLOCK : !strcmp(a[0], "join") ? FN_JOIN : !strcmp(a[0], "create") ? FN_CREATE : !strcmp(a[0], "stop") ? FN_STOP : FN_NONE;
    int er = parse_errno(a[1]); if (fn == FN_NONE || er < 0) FAIL; e->op = OP_PERR; e->a = fn; e->b = er; }
  else if (!strcmp(op, "work") && na == 3 && LT(0, 4) && LT(1, 1000000) && LT(2, 1000000)) { e->op = OP_WORK; e->a = atol(a[0]); e->b = atol(a[1]); e->c = atol(a[2]); }
  else if (!strcmp(op, "spawn") && na == 1 && LT(0, MAXT) && atol(a[0]) >= 1) { e->op = OP_SPAWN; e->a = atol(a[0]); }
  else if (!strcmp(op, "call") && (na == 2 || na == 3) && LT(0, MAXT) && atol(a[0]) >= 1 && LT(1, MAXK) && (na == 2 || LT(2, MAXK))) {
    e->op = OP_CALL; e->a = atol(a[0]); e->nks = na - 1; e->ks = calloc(2, sizeof(int)); for (int i = 1; i < na; i++) e->ks[i - 1] = atoi(a[i]); }
  else if (!strcmp(op, "rdarg") && na == 1 && LT(0, 8)) { e->op = OP_RDARG; e->a = atol(a[0]); }
  else if (!strcmp(op, "wthrow") && na == 1 && LT(0, MAXM)) { e->op = OP_WTHROW; e->a = atol(a[0]); }
  else if (!strcmp(op, "join") && na == 1 && LT(0, MAXT) && atol(a[0]) >= 1) { e->op = OP_JOIN; e->a = atol(a[0]); }
  else if (!strcmp(op, "lock") && na == 1 && LT(0, MAXM)) { e->op = OP_LOCK; e->a = atol(a[0]); }
  else if (!strcmp(op, "enter") && na == 1 && LT(0, MAXM)) { e->op = OP_ENTER; e->a = atol(a[0]); }
  else if (!strcmp(op, "trylock") && na == 1 && LT(0, MAXM)) { e->op = OP_TRYLOCK; e->a = atol(a[0]); }
  else if (!strcmp(op, "unlock") && na == 1 && LT(0, MAXM)) { e->op = OP_UNLOCK; e->a = atol(a[0]); }
  else if (!strcmp(op, "leave") && na == 1 && LT(0, MAXM)) { e->op = OP_LEAVE; e->a = atol(a[0]); }
  else if (!strcmp(op, "winc") && na == 2 && LT(0, MAXM) && LT(1, MAXC)) { e->op = OP_WINC; e->a = atol(a[0]); e->b = atol(a[1]); }
  else if (!strcmp(op, "ld") && na == 1 && LT(0, MAXC)) { e->op = OP_LD; e->a = atol(a[0]); }
  else if (!strcmp(op, "st") && na == 1 && LT(0, MAXC)) { e->op = OP_ST; e->a = atol(a[0]); }
  else if (!strcmp(op, "rd") && na == 1 && LT(0, MAXT)) { e->op = OP_RD; e->a = atol(a[0]); }
  else FAIL;
  free(copy); return 1;
}

/* ------------------------------------------------------------------------------------------- main */
int main(int argc, char** argv) {
  v_init();
  if (argc < 2) { fprintf(stderr, "usage: h_thr <opfile>\n"); return 2; }
  size_t n; char** lines = v_read_lines(argv[1], &n);
  ev = calloc(n + 1, sizeof(Evt)); nev = 0;
  /* bad lines are reported in place: keep a list of (position among events, "bad-op") */
  size_t* badpos = calloc(n + 1, sizeof(size_t)); size_t nbadl = 0;
  for (size_t li = 0; li < n; li++) {
    char* l = lines[li];
    if (v_skippable(l)) continue;
    if (l[0] == 'M' && l[1] == ' ') { free_mode = strstr(l + 2, "free") != NULL; continue; }
    if (l[0] == 'N' && l[1] == ' ') { nworkers = atoi(l + 2); if (nworkers < 0) nworkers = 0; if (nworkers > MAXT - 1) nworkers = MAXT - 1; continue; }
    if (l[0] == 'S' && l[1] == ' ') { noise_seed = strtoull(l + 2, NULL, 10) + 1; continue; }
    Evt e; memset(&e, 0, sizeof e); e.line = (int)li + 1;
    if (!parse_event(l, &e)) { badpos[nbadl++] = nev; continue; }
    ev[nev++] = e;
  }
  for (size_t i = 0; i < nev; i++) {
    if (ev[i].tid > nworkers) nworkers = ev[i].tid;
    if ((ev[i].op == OP_SPAWN || ev[i].op == OP_CALL || ev[i].op == OP_JOIN || ev[i].op == OP_RD || ev[i].op == OP_RDO || ev[i].op == OP_NEWTHR) && ev[i].a > nworkers) nworkers = (int)ev[i].a;
  }
  for (int t = 0; t < MAXT; t++) { end_idx[t] = -1; last_pub[t] = 0; }
  for (size_t i = 0; i < nev; i++) {            /* what thread t has published last when it reaches each of its `end`s */
    if (ev[i].op == OP_PUB) last_pub[ev[i].tid] = ev[i].a;
    if (ev[i].op == OP_END) ev[i].c = last_pub[ev[i].tid];
  }
  signal(SIGALRM, on_alarm); alarm(getenv("THR_ALARM") ? atoi(getenv("THR_ALARM")) : 45);
  malloc_noise = free_mode && getenv("THR_NO_MALLOC_NOISE") == NULL;

  /* solo pre-pass: every workload of the file runs once, alone, in the main thread */
  solo = calloc(nev + 1, sizeof(Solo)); nsolo = 0;
  { int fm = free_mode; free_mode = 0;
    for (size_t i = 0; i < nev; i++) if (ev[i].op == OP_WORK && solo_digest(ev[i].a, ev[i].b, ev[i].c) == 0) {
      solo[nsolo].kind = ev[i].a; solo[nsolo].seed = ev[i].b; solo[nsolo].n = ev[i].c;
      solo[nsolo].digest = do_work((int)ev[i].a, (uint64_t)ev[i].b, (int)ev[i].c); nsolo++;
    }
    free_mode = fm; }

  { pthread_t wd; pthread_create(&wd, NULL, watchdog, NULL); pthread_detach(wd); }

  /* infrastructure objects are raw: no collector manages them */
  pthread_key_create(&exit_key, on_thread_exit);
  worker_fn = $(Function, worker);
  for (int t = 0; t <= nworkers; t++) {
    tid_obj[t] = new_raw(Int, $I(t)); pub_obj[t] = new_raw(Int, $I(0)); pubo_ref[t] = alloc_raw(Ref); pubo_k[t] = -1;
    scratch_mutex[t] = new_raw(Mutex); scratch_thread[t] = new_raw(Thread, worker_fn);
    if (t > 0) thread_obj[t] = new_raw(Thread, worker_fn);
    atomic_store(&phase[t], t == 0 ? PH_RUNNING : PH_UNBORN);
  }
  thread_obj[0] = current(Thread);
  for (int m = 0; m < MAXM; m++) mutex_obj[m] = new_raw(Mutex);
  (void)len(current(Exception));

  my_tid = 0;
  for (int t = nworkers + 1; t < MAXT; t++) pubo_k[t] = -1;
  var held[MAXK + MAXT]; memset(held, 0, sizeof held);
  if (!free_mode) {
    __real_pthread_mutex_lock(&bm);
    turn = (size_t)-1; advance_locked();          /* skip leading events nobody can execute */
    __real_pthread_mutex_unlock(&bm);
  }
  run_thread_events(0, held);

  /* wind down: wait (sched: until every event is done), then release and reap every thread that was started */
  __real_pthread_mutex_lock(&bm);
  shutting_down = 1; pthread_cond_broadcast(&bc);
  __real_pthread_mutex_unlock(&bm);
  for (int u = 1; u <= nworkers; u++) if (atomic_load(&phase[u]) != PH_UNBORN && !was_joined[u] && !wrapper_gone[u]) { join(thread_obj[u]); was_joined[u] = 1; }

  /* end-of-run oracles */
  for (int c = 0; c < MAXC; c++) if (free_mode && counter[c] != atomic_load(&counter_expected[c]))
    XX("sig=c13-counter line=0 what=counter %d is %ld after %ld increments made inside sections", c, counter[c], atomic_load(&counter_expected[c]));
  check_alive(0, held, 0, "by the end of the run");
  for (int u = 1; u <= nworkers; u++) if (atomic_load(&phase[u]) == PH_DONE && end_idx[u] >= 0) check_teardown(u, 0);

  /* print the observations in file order */
  size_t bi = 0;
  for (size_t i = 0; i <= nev; i++) {
    while (bi < nbadl && badpos[bi] == i) { fputs("O bad-op\n", stdout); bi++; }
    if (i == nev) break;
    Evt* e = &ev[i];
    const char* o = e->out ? e->out : "dead";
    if (free_mode && is_sync(e->op)) o = "sync";
    printf("O %zu %d %s %s\n", i, e->tid, opname[e->op], o);
  }
  long gsum = 0; for (int t = 0; t < MAXT; t++) gsum += atomic_load(&garb_fin[t]);
  I("events=%zu workers=%d mode=%s prim lock=%ld trylock=%ld unlock=%ld join=%ld create=%ld stop=%ld garbage-finalised=%ld workloads=%zu", nev, nworkers, free_mode ? "free" : "sched",
    atomic_load(&prim_total[FN_LOCK]), atomic_load(&prim_total[FN_TRYLOCK]), atomic_load(&prim_total[FN_UNLOCK]), atomic_load(&prim_total[FN_JOIN]), atomic_load(&prim_total[FN_CREATE]), atomic_load(&prim_total[FN_STOP]), gsum, nsolo);
  fflush(stdout);
  for (int u = 1; u <= nworkers; u++) if (!managed[u]) { del_raw(thread_obj[u]); }     /* the managed ones belong to their maker's collector */
  return 0;
}
