/* harness/h_hash.c — engine `hash` (property C10): equal values hash equally; copy and assign produce equal values;
 * swap exchanges.
 *
 * Op file (objects are named by small integers; an id is bound once):
 *   D <hex>                              hash_data over the bytes
 *   new <id> <S|H|E> <spec>              scalar object on the stack / on the heap (new) / embedded in an Array
 *   arr|lst <id> <S|H> <ety> <spec>*     Array / List with the constructor arguments; ety: I | F | S | <n> (plain struct P<n> of n bytes, n = 1 … 41)
 *   tup <id> <S|H> <objid>*              Tuple of existing scalar objects
 *   tab|tre <id> <S|H> <kty> <vty> (<kspec> <vspec>)*     Table / Tree with constructor arguments; kty, vty: I | F | S | <n>
 *                                        (key, value and element types of any size, in any combination; a Tree takes plain structs
 *                                        whose size is a multiple of 8 only: KF-C19-tree-misaligned-header)
 *   put <id> <spec>                      assign(obj, temporary of spec)             (scalars)
 *   push <c> <spec|objid> | pushat <c> <idx> <spec|objid> | pop <c> | popat <c> <idx> | rem <c> <spec>
 *   set <c> <idx|kspec> <spec> | resize <c> <n> | concat <c> <d> | clear <c>
 *   H <a>                                dump and hash
 *   eq <a> <b>                           cmp(a,b) (sign) and both hashes
 *   heq <a> <b>                          both hashes only (no comparison)
 *   copy <newid> <a> | assign <y> <x> | swap <a> <b>      (assign <x> <x>: self-assignment, every kind but a String)
 *   sort <c>                             sort(c) on an Array (quicksort: every element move is a swap of two element structs)
 *   has <c> <spec>                       mem(c, x) and, for a Table / Tree, get(c, x)
 *   hcopy <newid> <a> | hassign <y> <x>  copy / assign observed through content and hashes only (no cmp: for Tables of any layout,
 *                                        whose cmp is order-of-slots dependent — KF-C10-table-cmp)
 * spec: i:<dec> | f:<16 hex: bits> | s:<hex bytes, no 00> | t:<builtin type name> | u:<name: run-time Type of that name> |
 *       p<n>:<hex, exactly n bytes> | r:<objid> | b:<objid>
 *
 * O lines carry a canonical dump of the concrete value (for a Table: nslots and every slot with its stored home+1) and the
 * hash; the Lean driver must print the same.  X lines: the direct oracle — an independent MurmurHash64A, and shadow values
 * (plain C sequences / association lists maintained from the ops alone) that say which objects are equal by construction. */
#include "common.h"
#include <inttypes.h>
#include <errno.h>

/* ------------------------------------------------------------------ probe types: plain structs of every size 1 … 41 bytes, no
 * instances at all (hash = hash_data, cmp = memcmp, assign = memcpy, swap = memswap over size(type)); declared at file scope */
#define MAXPROBE 41
#define PROBES(X) X(1) X(2) X(3) X(4) X(5) X(6) X(7) X(8) X(9) X(10) X(11) X(12) X(13) X(14) X(15) X(16) X(17) X(18) X(19) X(20) \
  X(21) X(22) X(23) X(24) X(25) X(26) X(27) X(28) X(29) X(30) X(31) X(32) X(33) X(34) X(35) X(36) X(37) X(38) X(39) X(40) X(41)
#define PROBE_DECL(n) struct P##n { unsigned char b[n]; }; static var P##n = Cello(P##n);
PROBES(PROBE_DECL)
#define PROBE_ENTRY(n) &P##n,
static var* const PROBE_TAB[MAXPROBE + 1] = { NULL, PROBES(PROBE_ENTRY) };
static var probe_type(int n) { return (n >= 1 && n <= MAXPROBE) ? *PROBE_TAB[n] : NULL; }
static int probe_index(var t) { for (int n = 1; n <= MAXPROBE; n++) if (*PROBE_TAB[n] == t) return n; return -1; }   /* = its size */
/* type codes: 'I' 'F' 'S' 'T' 'r' 'b', or TC_RAW + n for the plain struct of n bytes */
#define TC_RAW 1000
static int tc_is_raw(int c) { return c > TC_RAW && c <= TC_RAW + MAXPROBE; }
static const char* tc_str(int c) {
  static char buf[8][8]; static int k = 0; char* b = buf[k++ & 7];
  if (tc_is_raw(c)) snprintf(b, 8, "%d", c - TC_RAW); else snprintf(b, 8, "%c", (char)c);
  return b;
}
static int parse_tc(const char* s) {   /* element / key / value type token: I | F | S | <n>; 0 = ill-formed */
  if (!s[0]) return 0;
  if (!s[1] && (s[0] == 'I' || s[0] == 'F' || s[0] == 'S')) return s[0];
  if (s[0] < '1' || s[0] > '9' || strlen(s) > 2) return 0;
  for (const char* q = s; *q; q++) if (*q < '0' || *q > '9') return 0;
  int n = atoi(s); return (n >= 1 && n <= MAXPROBE) ? TC_RAW + n : 0;
}

/* ------------------------------------------------------------------ independent MurmurHash64A (Austin Appleby's reference, transcribed) */
static uint64_t ref_murmur64a(const unsigned char* key, size_t len, uint64_t seed) {
  const uint64_t m = 0xc6a4a7935bd1e995ULL; const int r = 47;
  uint64_t h = seed ^ (len * m);
  size_t nblocks = len / 8;
  for (size_t i = 0; i < nblocks; i++) {
    uint64_t k = 0;
    for (int j = 7; j >= 0; j--) k = (k << 8) | key[i * 8 + j];
    k *= m; k ^= k >> r; k *= m;
    h ^= k; h *= m;
  }
  const unsigned char* t = key + nblocks * 8;
  size_t rem = len & 7;
  if (rem) { uint64_t k = 0; for (size_t j = rem; j-- > 0;) k = (k << 8) | t[j]; h ^= k; h *= m; }
  h ^= h >> r; h *= m; h ^= h >> r;
  return h;
}

/* ------------------------------------------------------------------ shadow values */
typedef struct { char k; int64_t i; uint64_t bits; unsigned char* b; size_t n; int pk; int target; } SV;
typedef struct { char kind; /* 'v' scalar, 'A' 'L' 'U' 'T' 'R' */ SV sv; int ety, kty, vty; size_t n, cap; SV* items; SV* vals; int* ids; } Shadow;
/* buf: where the buffer a String / Tuple struct points to lies — 'S': not the allocator's (the literal of $S("…"), the array of
 * tuple(…): here the harness arena), 'H': from malloc / realloc.  swap exchanges the structs, and the buffers with them. */
typedef struct { int used; var p; char cls; char buf; Shadow sh; } Obj;
#define MAXID 4096
static Obj objs[MAXID];

static char* arena; static size_t arena_left;
static void* arena_get(size_t n) {
  n = (n + 15) & ~(size_t)15;
  if (n > arena_left) return calloc(1, n);   /* arena exhausted: the header still says AllocStack */
  void* p = arena; arena += n; arena_left -= n; memset(p, 0, n); return p;
}

static int hexval(char c) { if (c >= '0' && c <= '9') return c - '0'; if (c >= 'a' && c <= 'f') return c - 'a' + 10; if (c >= 'A' && c <= 'F') return c - 'A' + 10; return -1; }
static int parse_hex(const char* s, unsigned char** out, size_t* n) {
  size_t l = strlen(s); if (l % 2) return 0;
  unsigned char* b = malloc(l / 2 + 1);
  for (size_t i = 0; i < l / 2; i++) { int a = hexval(s[2*i]), c = hexval(s[2*i+1]); if (a < 0 || c < 0) { free(b); return 0; } b[i] = (unsigned char)(a * 16 + c); }
  b[l / 2] = 0; *out = b; *n = l / 2; return 1;
}
static int parse_i64(const char* s, int64_t* v) {
  if (!*s) return 0; char* e; errno = 0; long long x = strtoll(s, &e, 10); if (*e || errno) return 0; *v = x; return 1;
}
static int parse_id(const char* s, int* id) {
  if (!*s) return 0; for (const char* q = s; *q; q++) if (*q < '0' || *q > '9') return 0;
  if (strlen(s) > 5) return 0; int v = atoi(s); if (v >= MAXID) return 0; *id = v; return 1;
}
static int is_live(int id) { return id >= 0 && id < MAXID && objs[id].used; }

static const char* BUILTIN_NAMES[] = {"Int", "Float", "String", "Array", "List", "Table", "Tree", "Tuple", "Ref", "Box", "Type", "Range", "Slice", "File", NULL};
static var builtin_type(const char* n) {
  var ts[] = {Int, Float, String, Array, List, Table, Tree, Tuple, Ref, Box, Type, Range, Slice, File};
  for (int i = 0; BUILTIN_NAMES[i]; i++) if (strcmp(BUILTIN_NAMES[i], n) == 0) return ts[i];
  return NULL;
}

/* spec -> SV ; returns 0 when ill-formed */
static int parse_spec(const char* s, SV* v) {
  memset(v, 0, sizeof *v);
  if (s[0] == 'i' && s[1] == ':') { v->k = 'i'; return parse_i64(s + 2, &v->i); }
  if (s[0] == 'f' && s[1] == ':') { v->k = 'f'; if (strlen(s + 2) != 16) return 0; unsigned char* b; size_t n; if (!parse_hex(s + 2, &b, &n)) return 0;
    uint64_t x = 0; for (int i = 0; i < 8; i++) x = (x << 8) | b[i]; free(b); v->bits = x; return 1; }
  if (s[0] == 's' && s[1] == ':') { v->k = 's'; if (!parse_hex(s + 2, &v->b, &v->n)) return 0; for (size_t i = 0; i < v->n; i++) if (!v->b[i]) return 0; return 1; }
  if ((s[0] == 't' || s[0] == 'u') && s[1] == ':') { v->k = s[0]; size_t l = strlen(s + 2); if (!l || l > 40) return 0;
    for (const char* q = s + 2; *q; q++) if (!((*q >= 'a' && *q <= 'z') || (*q >= 'A' && *q <= 'Z') || (*q >= '0' && *q <= '9') || *q == '_')) return 0;
    if (s[0] == 't' && !builtin_type(s + 2)) return 0;
    v->b = (unsigned char*)strdup(s + 2); v->n = l; return 1; }
  if (s[0] == 'p' && s[1] >= '1' && s[1] <= '9') { const char* c = strchr(s, ':'); if (!c || c - s > 3) return 0;
    char num[4] = {0}; memcpy(num, s + 1, (size_t)(c - s - 1)); int tc = parse_tc(num); if (!tc_is_raw(tc)) return 0;
    v->k = 'p'; v->pk = tc - TC_RAW;
    if (!parse_hex(c + 1, &v->b, &v->n)) return 0; return v->n == (size_t)v->pk; }
  if ((s[0] == 'r' || s[0] == 'b') && s[1] == ':') { v->k = s[0]; return parse_id(s + 2, &v->target) && is_live(v->target); }
  return 0;
}
static SV sv_clone(const SV* a) { SV c = *a; if (a->b) { c.b = malloc(a->n + 1); memcpy(c.b, a->b, a->n + 1); } return c; }
static int f_is_zero(uint64_t b) { return (b << 1) == 0; }
static int f_is_nan(uint64_t b) { return (b & 0x7fffffffffffffffULL) > 0x7ff0000000000000ULL; }
/* equal by construction */
static int sv_equal(const SV* a, const SV* b) {
  char ka = a->k == 'u' ? 't' : a->k, kb = b->k == 'u' ? 't' : b->k;
  if (ka != kb) return 0;
  switch (ka) {
    case 'i': return a->i == b->i;
    case 'f': return a->bits == b->bits || (f_is_zero(a->bits) && f_is_zero(b->bits));
    case 's': case 't': return a->n == b->n && memcmp(a->b, b->b, a->n) == 0;
    case 'p': return a->pk == b->pk && memcmp(a->b, b->b, a->n) == 0;
    case 'r': case 'b': return a->target == b->target;
  }
  return 0;
}
static int sv_ty(const SV* a) { switch (a->k) { case 'i': return 'I'; case 'f': return 'F'; case 's': return 'S'; case 't': case 'u': return 'T'; case 'p': return TC_RAW + a->pk; case 'r': return 'r'; default: return 'b'; } }

/* the order sort() must produce among values of one type: Int by value, Float along the number line (the two zeros are one
 * value), String / plain struct byte-wise */
static int64_t f_key(uint64_t b) { return (b >> 63) ? -(int64_t)(b & 0x7fffffffffffffffULL) : (int64_t)b; }
static int sv_ref_cmp(const SV* a, const SV* b) {
  switch (a->k) {
    case 'i': return a->i < b->i ? -1 : a->i > b->i;
    case 'f': { int64_t x = f_key(a->bits), y = f_key(b->bits); return x < y ? -1 : x > y; }
    default: { size_t n = a->n < b->n ? a->n : b->n; int c = n ? memcmp(a->b, b->b, n) : 0; if (c) return c < 0 ? -1 : 1; return a->n < b->n ? -1 : a->n > b->n; }
  }
}

/* ------------------------------------------------------------------ string builder */
typedef struct { char* s; size_t n, cap; } SB;
static void sb_put(SB* b, const char* fmt, ...) {
  va_list va; va_start(va, fmt); char tmp[128]; int l = vsnprintf(tmp, sizeof tmp, fmt, va); va_end(va);
  if (b->n + (size_t)l + 1 > b->cap) { b->cap = (b->cap + l + 64) * 2; b->s = realloc(b->s, b->cap); }
  memcpy(b->s + b->n, tmp, l + 1); b->n += l;
}
static void sb_puts(SB* b, const char* t) { size_t l = strlen(t); if (b->n + l + 1 > b->cap) { b->cap = (b->cap + l + 64) * 2; b->s = realloc(b->s, b->cap); } memcpy(b->s + b->n, t, l + 1); b->n += l; }
static void sb_hex(SB* b, const unsigned char* p, size_t n) { for (size_t i = 0; i < n; i++) sb_put(b, "%02x", p[i]); }
static void sb_init(SB* b) { b->cap = 256; b->s = malloc(b->cap); b->n = 0; b->s[0] = 0; }

static void sv_dump(SB* b, const SV* v) {
  switch (v->k) {
    case 'i': sb_put(b, "i:%" PRId64, v->i); break;
    case 'f': sb_put(b, "f:%016" PRIx64, v->bits); break;
    case 's': sb_put(b, "s:"); sb_hex(b, v->b, v->n); break;
    case 't': case 'u': sb_put(b, "t:%s", (char*)v->b); break;
    case 'p': sb_put(b, "p%d:", v->pk); sb_hex(b, v->b, v->n); break;
    case 'r': sb_put(b, "r:%d", v->target); break;
    case 'b': sb_put(b, "b:%d", v->target); break;
  }
}

/* ------------------------------------------------------------------ dumps of the library's objects (white box) */
static int id_of_ptr(var p) { for (int i = 0; i < MAXID; i++) if (objs[i].used && objs[i].p == p) return i; return -1; }
static int ty_code(var t) {
  if (t == Int) return 'I'; if (t == Float) return 'F'; if (t == String) return 'S'; if (t == Type) return 'T';
  if (t == Ref) return 'r'; if (t == Box) return 'b'; int k = probe_index(t); if (k >= 0) return TC_RAW + k; return '?';
}
static var ty_of_code(int c) { if (c == 'I') return Int; if (c == 'F') return Float; if (c == 'S') return String; if (tc_is_raw(c)) return probe_type(c - TC_RAW); return NULL; }
static size_t size_of_code(int c) { if (tc_is_raw(c)) return (size_t)(c - TC_RAW); return 8; }
static int tree_ty_ok(int c) { return size_of_code(c) % 8 == 0; }

static void dump_scalar(SB* b, var p) {
  var t = type_of(p);
  if (t == Int) sb_put(b, "i:%" PRId64, ((struct Int*)p)->val);
  else if (t == Float) { uint64_t x; memcpy(&x, p, 8); sb_put(b, "f:%016" PRIx64, x); }
  else if (t == String) { char* s = ((struct String*)p)->val; sb_put(b, "s:"); if (s) sb_hex(b, (unsigned char*)s, strlen(s)); else sb_put(b, "NULL"); }
  else if (t == Type) sb_put(b, "t:%s", Type_Builtin_Name(p));
  else if (t == Ref) sb_put(b, "r:%d", id_of_ptr(((struct Ref*)p)->val));
  else if (t == Box) sb_put(b, "b:%d", id_of_ptr(((struct Box*)p)->val));
  else { int k = probe_index(t); if (k >= 0) { sb_put(b, "p%d:", k); sb_hex(b, p, (size_t)k); } else sb_put(b, "?"); }
}
static int is_container_type(var t) { return t == Array || t == List || t == Tuple || t == Table || t == Tree; }

/* full concrete dump (layout == 1) or abstract content (layout == 0: no slot numbers, map entries sorted) */
static int cmp_str(const void* a, const void* b) { return strcmp(*(char* const*)a, *(char* const*)b); }
static void dump_value(SB* b, var p, int layout) {
  var t = type_of(p);
  if (t == Array) {
    struct Array* a = p; if (layout) sb_put(b, "A:%s", tc_str(ty_code(a->type))); sb_put(b, "[");
    for (size_t i = 0; i < a->nitems; i++) { if (i) sb_put(b, ","); dump_scalar(b, Array_Item(a, i)); }
    sb_put(b, "]");
  } else if (t == List) {
    struct List* l = p; if (layout) sb_put(b, "L:%s", tc_str(ty_code(l->type))); sb_put(b, "[");
    var it = l->head; for (size_t i = 0; i < l->nitems && it; i++) { if (i) sb_put(b, ","); dump_scalar(b, it); it = *List_Next(l, it); }
    sb_put(b, "]");
  } else if (t == Tuple) {
    struct Tuple* u = p; if (layout) sb_put(b, "U"); sb_put(b, "[");
    for (size_t i = 0; u->items && u->items[i] != Terminal; i++) { if (i) sb_put(b, ","); dump_scalar(b, u->items[i]); }
    sb_put(b, "]");
  } else if (t == Table) {
    struct Table* tb = p;
    if (layout) {
      sb_put(b, "T:%s,%s{%zu|", tc_str(ty_code(tb->ktype)), tc_str(ty_code(tb->vtype)), tb->nslots);
      int first = 1;
      for (size_t i = 0; i < tb->nslots; i++) { uint64_t h = Table_Key_Hash(tb, i); if (!h) continue;
        if (!first) sb_put(b, ","); first = 0; sb_put(b, "%zu:%" PRIu64 ":", i, h); dump_scalar(b, Table_Key(tb, i)); sb_put(b, "="); dump_scalar(b, Table_Val(tb, i)); }
      sb_put(b, "}");
    } else {
      size_t n = 0; char** es = malloc(sizeof(char*) * (tb->nslots + 1));
      for (size_t i = 0; i < tb->nslots; i++) { if (!Table_Key_Hash(tb, i)) continue; SB e; sb_init(&e); dump_scalar(&e, Table_Key(tb, i)); sb_put(&e, "="); dump_scalar(&e, Table_Val(tb, i)); es[n++] = e.s; }
      qsort(es, n, sizeof(char*), cmp_str); sb_put(b, "{"); for (size_t i = 0; i < n; i++) { if (i) sb_put(b, ","); sb_puts(b, es[i]); free(es[i]); } sb_put(b, "}"); free(es);
    }
  } else if (t == Tree) {
    struct Tree* tr = p;
    if (layout) {
      sb_put(b, "R:%s,%s{", tc_str(ty_code(tr->ktype)), tc_str(ty_code(tr->vtype)));
      int first = 1; foreach (k in p) { if (!first) sb_put(b, ","); first = 0; dump_scalar(b, k); sb_put(b, "="); dump_scalar(b, get(p, k)); }
      sb_put(b, "}");
    } else {
      size_t n = 0; char** es = malloc(sizeof(char*) * (tr->nitems + 1));
      foreach (k in p) { if (n >= tr->nitems) break; SB e; sb_init(&e); dump_scalar(&e, k); sb_put(&e, "="); dump_scalar(&e, get(p, k)); es[n++] = e.s; }
      qsort(es, n, sizeof(char*), cmp_str); sb_put(b, "{"); for (size_t i = 0; i < n; i++) { if (i) sb_put(b, ","); sb_puts(b, es[i]); free(es[i]); } sb_put(b, "}"); free(es);
    }
  } else dump_scalar(b, p);
}

/* abstract content predicted by the shadow */
static void shadow_dump(SB* b, const Shadow* s) {
  if (s->kind == 'v') { sv_dump(b, &s->sv); return; }
  if (s->kind == 'A' || s->kind == 'L') { sb_put(b, "["); for (size_t i = 0; i < s->n; i++) { if (i) sb_put(b, ","); sv_dump(b, &s->items[i]); } sb_put(b, "]"); return; }
  if (s->kind == 'U') { sb_put(b, "["); for (size_t i = 0; i < s->n; i++) { if (i) sb_put(b, ","); if (is_live(s->ids[i]) && objs[s->ids[i]].sh.kind == 'v') sv_dump(b, &objs[s->ids[i]].sh.sv); else sb_put(b, "?"); } sb_put(b, "]"); return; }
  char** es = malloc(sizeof(char*) * (s->n + 1));
  for (size_t i = 0; i < s->n; i++) { SB e; sb_init(&e); sv_dump(&e, &s->items[i]); sb_put(&e, "="); sv_dump(&e, &s->vals[i]); es[i] = e.s; }
  qsort(es, s->n, sizeof(char*), cmp_str); sb_put(b, "{");
  for (size_t i = 0; i < s->n; i++) { if (i) sb_put(b, ","); sb_puts(b, es[i]); free(es[i]); }
  sb_put(b, "}"); free(es);
}

/* shadow helpers */
static void sh_reserve(Shadow* s, size_t n) {
  if (n <= s->cap) return; s->cap = n * 2 + 8;
  s->items = realloc(s->items, s->cap * sizeof(SV)); s->vals = realloc(s->vals, s->cap * sizeof(SV)); s->ids = realloc(s->ids, s->cap * sizeof(int));
}
static const SV* sh_item(const Shadow* s, size_t i) {   /* element i of a sequence shadow, tuples resolved */
  if (s->kind == 'U') { int id = s->ids[i]; return (is_live(id) && objs[id].sh.kind == 'v') ? &objs[id].sh.sv : NULL; }
  return &s->items[i];
}
static int is_seq(char k) { return k == 'A' || k == 'L' || k == 'U'; }
static int is_map(char k) { return k == 'T' || k == 'R'; }
static int shadow_equal(const Shadow* a, const Shadow* b) {
  if (a->kind == 'v' && b->kind == 'v') return sv_equal(&a->sv, &b->sv);
  if (is_seq(a->kind) && is_seq(b->kind)) {
    if (a->n != b->n) return 0;
    for (size_t i = 0; i < a->n; i++) { const SV* x = sh_item(a, i); const SV* y = sh_item(b, i); if (!x || !y || !sv_equal(x, y)) return 0; }
    return 1;
  }
  if (is_map(a->kind) && is_map(b->kind)) {
    if (a->n != b->n) return 0;
    for (size_t i = 0; i < a->n; i++) { int f = 0; for (size_t j = 0; j < b->n; j++) if (sv_equal(&a->items[i], &b->items[j])) { f = sv_equal(&a->vals[i], &b->vals[j]); break; } if (!f) return 0; }
    return 1;
  }
  return 0;
}
static int shadow_has_nan(const Shadow* s) {
  if (s->kind == 'v') return s->sv.k == 'f' && f_is_nan(s->sv.bits);
  for (size_t i = 0; i < s->n; i++) {
    const SV* x = is_seq(s->kind) ? sh_item(s, i) : &s->items[i];
    if (x && x->k == 'f' && f_is_nan(x->bits)) return 1;
    if (is_map(s->kind) && s->vals[i].k == 'f' && f_is_nan(s->vals[i].bits)) return 1;
  }
  return 0;
}
static int shadow_has_ptr(const Shadow* s) {
  if (s->kind == 'v') return s->sv.k == 'r' || s->sv.k == 'b';
  for (size_t i = 0; i < s->n; i++) { const SV* x = is_seq(s->kind) ? sh_item(s, i) : &s->items[i]; if (x && (x->k == 'r' || x->k == 'b')) return 1; }
  return 0;
}
static void shadow_copy_content(Shadow* dst, const Shadow* src) {   /* what assign(dst, src) must produce: dst keeps its kind */
  if (dst->kind == 'v') { dst->sv = sv_clone(&src->sv); return; }
  dst->n = 0; sh_reserve(dst, src->n);
  if (dst->kind == 'U') { for (size_t i = 0; i < src->n; i++) dst->ids[i] = src->ids[i]; dst->n = src->n; return; }
  if (src->kind == 'U') {   /* Array / List from a Tuple: element type Ref, each slot a reference to the item (KF-C10-assign-from-tuple) */
    for (size_t i = 0; i < src->n; i++) { memset(&dst->items[i], 0, sizeof(SV)); dst->items[i].k = 'r'; dst->items[i].target = src->ids[i]; }
    dst->n = src->n; dst->ety = 'r'; return;
  }
  for (size_t i = 0; i < src->n; i++) { dst->items[i] = sv_clone(&src->items[i]); if (is_map(src->kind)) dst->vals[i] = sv_clone(&src->vals[i]); }
  dst->n = src->n;
  if (is_seq(dst->kind)) dst->ety = src->ety; else { dst->kty = src->kty; dst->vty = src->vty; }
}
static size_t sh_map_find(const Shadow* s, const SV* k) { for (size_t i = 0; i < s->n; i++) if (sv_equal(&s->items[i], k)) return i; return (size_t)-1; }
static void sh_map_set(Shadow* s, const SV* k, const SV* v) {
  size_t i = sh_map_find(s, k);
  if (i == (size_t)-1) { sh_reserve(s, s->n + 1); i = s->n++; }
  s->items[i] = sv_clone(k); s->vals[i] = sv_clone(v);
}

/* ------------------------------------------------------------------ building library objects */
static var type_of_sv(const SV* v) {
  switch (v->k) { case 'i': return Int; case 'f': return Float; case 's': return String; case 't': case 'u': return Type;
    case 'p': return probe_type(v->pk); case 'r': return Ref; default: return Box; }
}
/* a temporary with a stack header holding the value (never freed: arena) */
static var temp_of(const SV* v) {
  if (v->k == 't') return builtin_type((char*)v->b);
  if (v->k == 'u') {
    char* nm = strdup((char*)v->b); struct String* s = arena_get(sizeof(struct Header) + sizeof(struct String));
    s = header_init(s, String, AllocStack); s->val = nm;
    return new_raw_with(Type, tuple(s, $I(8)));
  }
  var t = type_of_sv(v);
  char* mem = arena_get(sizeof(struct Header) + size(t) + 8);
  var o = header_init(mem, t, AllocStack);
  switch (v->k) {
    case 'i': ((struct Int*)o)->val = v->i; break;
    case 'f': memcpy(o, &v->bits, 8); break;
    case 's': { char* lit = arena_get(v->n + 1); memcpy(lit, v->b, v->n); lit[v->n] = 0; ((struct String*)o)->val = lit; break; }   /* $S("…"): the characters are not the allocator's */
    case 'p': memcpy(o, v->b, v->n); break;
    case 'r': ((struct Ref*)o)->val = objs[v->target].p; break;
    case 'b': ((struct Box*)o)->val = objs[v->target].p; break;
  }
  return o;
}
static var make_scalar(const SV* v, char cls) {
  var tmp = temp_of(v);
  if (v->k == 't' || v->k == 'u') return tmp;
  if (cls == 'S') return tmp;
  if (cls == 'H') return new_with(type_of_sv(v), tuple(tmp));
  /* embedded: the middle element of a hidden three-element Array */
  var arr = new_with(Array, tuple(type_of_sv(v)));
  SV pad = *v; unsigned char* padb = NULL;
  if (v->k == 'p') { padb = calloc(1, v->n + 1); pad.b = padb; }
  if (v->k == 's') { pad.b = (unsigned char*)"pad"; pad.n = 3; }
  if (v->k == 'i') pad.i = 77; if (v->k == 'f') pad.bits = 0x4000000000000000ULL;
  push(arr, temp_of(&pad)); push(arr, tmp); push(arr, temp_of(&pad));
  return get(arr, $I(1));
}
/* container object memory of class S (stack header, harness arena) or H (alloc) */
static var container_mem(var type, char cls) {
  if (cls == 'H') return alloc(type);
  char* mem = arena_get(sizeof(struct Header) + size(type) + 8);
  return header_init(mem, type, AllocStack);
}

/* ------------------------------------------------------------------ observation */
static uint64_t H_val; static var H_exc;
static int hash_of(var p) { V_TRY(H_exc, H_val = hash(p)); return H_exc == NULL; }
static void hash_str(char* out, size_t n, var p, const Shadow* sh) {
  if (shadow_has_ptr(sh)) { hash_of(p); snprintf(out, n, "@"); return; }
  if (hash_of(p)) snprintf(out, n, "%016" PRIx64, H_val); else snprintf(out, n, "%s", v_exc_name(H_exc));
}
static size_t cur_line;
static void check_content(int id, const char* opname) {
  SB a, s; sb_init(&a); sb_init(&s); dump_value(&a, objs[id].p, 0); shadow_dump(&s, &objs[id].sh);
  if (strcmp(a.s, s.s) != 0) X("sig=c10-content line=%zu what=after %s object %d holds %.300s but its construction history gives %.300s", cur_line, opname, id, a.s, s.s);
  free(a.s); free(s.s);
}
static void observe(const char* opname, int id, var exc) {
  SB d; sb_init(&d); dump_value(&d, objs[id].p, 1); char hs[40]; hash_str(hs, sizeof hs, objs[id].p, &objs[id].sh);
  O("%s %d %s v=%s h=%s", opname, id, exc ? v_exc_name(exc) : "ok", d.s, hs); free(d.s);
  check_content(id, opname);
}

/* table whose every entry sits in its home slot: its slot order is a function of its contents and nslots */
static int table_canonical(var p) {
  if (type_of(p) != Table) return 1; struct Table* t = p;
  for (size_t i = 0; i < t->nslots; i++) { uint64_t h = Table_Key_Hash(t, i); if (h && Table_Probe(t, i, h) != 0) return 0; }
  return 1;
}
static int table_kf_territory(var a, var b) {   /* known finding F06: Table_Cmp compares in slot order */
  int ta = type_of(a) == Table, tb = type_of(b) == Table;
  if (!ta && !tb) return 0;
  if (ta != tb) return 1;                          /* Table against Tree: different iteration orders */
  if (((struct Table*)a)->nslots != ((struct Table*)b)->nslots) return 1;
  return !(table_canonical(a) && table_canonical(b));
}

static char kind_of_type(var t) { if (t == Array) return 'A'; if (t == List) return 'L'; if (t == Tuple) return 'U'; if (t == Table) return 'T'; if (t == Tree) return 'R'; return 'v'; }

/* which (dst, src) pairs assign is exercised on (both sides of the protocol apply the same rule) */
static int assign_allowed(const Shadow* y, const Shadow* x) {
  if (y->kind == 'v' && x->kind == 'v') return sv_ty(&y->sv) == sv_ty(&x->sv);
  if ((y->kind == 'A' || y->kind == 'L') && (x->kind == 'A' || x->kind == 'L')) return 1;
  if ((y->kind == 'A' || y->kind == 'L') && x->kind == 'U') return 1;   /* KF-C10-assign-from-tuple */
  if (y->kind == 'U' && x->kind == 'U') return 1;
  if (is_map(y->kind) && is_map(x->kind)) return 1;
  return 0;
}
static int cmp_allowed(const Shadow* a, const Shadow* b) {
  if (a->kind == 'v' && b->kind == 'v') return sv_ty(&a->sv) == sv_ty(&b->sv);
  if (is_seq(a->kind) && is_seq(b->kind)) {
    size_t n = a->n < b->n ? a->n : b->n;
    for (size_t i = 0; i < n; i++) { const SV* x = sh_item(a, i); const SV* y = sh_item(b, i); if (!x || !y || sv_ty(x) != sv_ty(y)) return 0; }
    return 1;
  }
  if (is_map(a->kind) && is_map(b->kind)) return a->kty == b->kty && a->vty == b->vty;
  if (is_seq(a->kind) && is_map(b->kind)) {   /* a sequence against a Table / Tree: its elements meet the keys (KF-C10-seq-map-eq) */
    size_t n = a->n < b->n ? a->n : b->n;
    for (size_t i = 0; i < n; i++) { const SV* x = sh_item(a, i); if (!x || sv_ty(x) != b->kty) return 0; }
    return 1;
  }
  return 0;
}
/* the object's header lets its methods realloc / free the buffer, but the buffer is not the allocator's (it came in through swap) */
static int is_foreign(int id) {
  if (!is_live(id)) return 0; Obj* o = &objs[id];
  int hasbuf = o->sh.kind == 'U' || (o->sh.kind == 'v' && o->sh.sv.k == 's');
  return hasbuf && o->cls != 'S' && o->buf == 'S';
}
static int child_mode = 0;
static int sign(int c) { return c < 0 ? -1 : c > 0 ? 1 : 0; }

#define MAXTOK 600
static char* toks[MAXTOK]; static int ntok;
static void tokenize(char* l) { ntok = 0; char* p = l; while (*p && ntok < MAXTOK) { while (*p == ' ') p++; if (!*p) break; toks[ntok++] = p; while (*p && *p != ' ') p++; if (*p) *p++ = 0; } }

static size_t n_eq_pairs = 0, n_equal_by_construction = 0, n_copy = 0, n_swap = 0, n_hashdata = 0, n_hashdata_aligned = 0, n_hashdata_high = 0;
/* swaps of two plain structs whose size is not a multiple of 8 / of 4; sorts, and sorts of Arrays of such structs that moved an element */
static size_t n_swap_odd8 = 0, n_swap_odd4 = 0, n_sort = 0, n_sort_odd = 0, n_sort_moved = 0;
/* coverage of nearly equal values: compared pairs of different scalars that are neighbours (doubles at most 4 ulp apart or the two
 * smallest subnormals of opposite sign; Ints 1, 2^31, 2^32 or 2^63 apart; Strings / structs differing in the last byte only or by one
 * trailing byte), lookups, self-assignments */
static size_t n_foreign = 0;
static size_t n_near_float = 0, n_near_int = 0, n_near_bytes = 0, n_near_in_container = 0, n_lookup = 0, n_lookup_near = 0, n_self_assign = 0;
static int sv_near(const SV* a, const SV* b) {
  if (a->k != b->k || sv_equal(a, b)) return 0;
  if (a->k == 'f') { if (f_is_nan(a->bits) || f_is_nan(b->bits)) return 0;
    int64_t ka = (a->bits >> 63) ? -(int64_t)(a->bits & 0x7fffffffffffffffULL) : (int64_t)a->bits, kb = (b->bits >> 63) ? -(int64_t)(b->bits & 0x7fffffffffffffffULL) : (int64_t)b->bits;
    uint64_t d = ka > kb ? (uint64_t)ka - (uint64_t)kb : (uint64_t)kb - (uint64_t)ka; return d <= 4; }
  if (a->k == 'i') { uint64_t d = (uint64_t)a->i - (uint64_t)b->i; uint64_t e = (uint64_t)b->i - (uint64_t)a->i; if (e < d) d = e;
    return d == 1 || d == (1ULL << 31) || d == (1ULL << 32) || d == (1ULL << 63); }
  if (a->k == 's' || a->k == 'p') { size_t n = a->n < b->n ? a->n : b->n; size_t m = a->n > b->n ? a->n : b->n;
    if (m - n > 1) return 0; if (m == n) return n > 0 && memcmp(a->b, b->b, n - 1) == 0; return memcmp(a->b, b->b, n) == 0; }
  return 0;
}
static int shadow_near(const Shadow* a, const Shadow* b) {    /* 1: near scalars; 2: containers with a near pair at some position */
  if (a->kind == 'v' && b->kind == 'v') return sv_near(&a->sv, &b->sv);
  if (is_seq(a->kind) && is_seq(b->kind)) { size_t n = a->n < b->n ? a->n : b->n;
    for (size_t i = 0; i < n; i++) { const SV* x = sh_item(a, i); const SV* y = sh_item(b, i); if (x && y && sv_near(x, y)) return 2; } return 0; }
  if (is_map(a->kind) && is_map(b->kind)) { for (size_t i = 0; i < a->n; i++) for (size_t j = 0; j < b->n; j++) if (sv_near(&a->items[i], &b->items[j])) return 2; return 0; }
  return 0;
}
/* coverage of element moves (white box): Tree removals of a node with two children (the in-order neighbour's payload is copied
 * over the node), of which with a value wider than the key / a key wider than the value; Table removals that shift a
 * neighbouring slot back or rehash, and Array removals / insertions that shift elements, on entries wider than one word each */
static size_t n_tree_reloc = 0, n_tree_reloc_vwide = 0, n_tree_reloc_kwide = 0, n_table_shift_wide = 0, n_array_shift_wide = 0;
static int tree_two_children(var p, var key) {
  struct Tree* m = p; var node = m->root; var exc = NULL; int c = 0;
  while (node) { V_TRY(exc, c = cmp(Tree_Key(m, node), key)); if (exc) return 0; if (c == 0) break; node = c < 0 ? *Tree_Left(m, node) : *Tree_Right(m, node); }
  return node && *Tree_Left(m, node) && *Tree_Right(m, node);
}

static void do_hash_data(void) {
  unsigned char* b; size_t n;
  if (ntok != 2 && !(ntok == 1)) { O("bad-op"); return; }
  if (ntok == 1) { b = malloc(1); n = 0; } else if (!parse_hex(toks[1], &b, &n)) { O("bad-op"); return; }
  uint64_t h = hash_data(b, n); n_hashdata++;
  O("D len=%zu h=%016" PRIx64, n, h);
  uint64_t want = ref_murmur64a(b, n, 0xCe110);
  if (h != want) X("sig=c10-murmur line=%zu what=hash_data over %zu bytes gives %016" PRIx64 ", MurmurHash64A gives %016" PRIx64, cur_line, n, h, want);
  /* the same bytes at every start alignment 0 … 7 inside a larger buffer, with three kinds of neighbouring bytes: the hash is a
   * function of the bytes alone (not of the address, not of what lies before or behind them) */
  unsigned char* raw = malloc(n + 48); unsigned char* buf = raw + ((8 - ((uintptr_t)raw & 7)) & 7);   /* buf is 8-aligned */
  static const unsigned char fills[3] = {0xA5, 0x00, 0xFF};
  for (int off = 0; off < 8; off++) for (int f = 0; f < 3; f++) {
    memset(buf, fills[f] ^ (f == 0 ? off : 0), n + 32); memcpy(buf + 8 + off, b, n);
    uint64_t h2 = hash_data(buf + 8 + off, n); n_hashdata_aligned++;
    if (h2 != want) { X("sig=c10-hashdata-addr line=%zu what=hash_data of %zu bytes starting %d bytes behind an 8-byte boundary (neighbouring bytes %02x) gives %016" PRIx64 ", MurmurHash64A of those bytes is %016" PRIx64, cur_line, n, off, fills[f], h2, want); off = 8; break; }
  }
  for (size_t i = 0; i < n; i++) if (b[i] >= 0x80) { n_hashdata_high++; break; }
  free(raw); free(b);
}

/* parse an element argument for a sequence container: spec (Array/List) or object id (Tuple) */
static int elem_arg(Obj* c, const char* tok, SV* sv, int* id, var* val) {
  if (c->sh.kind == 'U') { if (!parse_id(tok, id) || !is_live(*id) || objs[*id].sh.kind != 'v') return 0; char k = objs[*id].sh.sv.k; if (k == 'r' || k == 'b' || k == 't' || k == 'u') return 0; *val = objs[*id].p; return 1; }
  if (!parse_spec(tok, sv) || sv_ty(sv) != c->sh.ety) return 0; *val = temp_of(sv); return 1;
}

int main(int argc, char** argv) {
  v_init();
  if (argc < 2) { fprintf(stderr, "usage: h_hash <opfile>\n"); return 2; }
  char arena_mem[1 << 22]; arena = arena_mem; arena_left = sizeof arena_mem;
  stop(current(GC));   /* objects are kept alive by the harness table, which the collector cannot see */
  size_t nl; char** lines = v_read_lines(argv[1], &nl);
  for (size_t li = 0; li < nl; li++) {
    if (v_skippable(lines[li])) continue;
    cur_line = li + 1;
    char* l = strdup(lines[li]); tokenize(l);
    if (ntok == 0) { free(l); continue; }
    const char* op = toks[0];
    var exc = NULL;
    /* an op that makes a String / Tuple realloc its buffer, on an object whose buffer is not the allocator's (KF-C10-swap-foreign-buffer):
     * tried in a forked child first; when the child dies (glibc / ASan: realloc of a pointer that was not malloc()-ed) the op is
     * reported as `undefined` and skipped — the parent's objects stay as they were */
    { static const char* MUT[] = {"put", "push", "pushat", "pop", "popat", "rem", "resize", "clear", "assign", "hassign", NULL}; int id = -1, ismut = 0;
      for (int k = 0; MUT[k]; k++) if (strcmp(op, MUT[k]) == 0) ismut = 1;
      if (ismut && !child_mode && ntok >= 2 && parse_id(toks[1], &id) && is_foreign(id)) {
        fflush(stdout); fflush(stderr);
        pid_t pid = fork();
        if (pid == 0) { alarm(20); child_mode = 1; FILE* dn = fopen("/dev/null", "w"); if (dn) { vout = dn; dup2(fileno(dn), 1); dup2(fileno(dn), 2); } }
        else if (pid > 0) {
          int stt = 0; waitpid(pid, &stt, 0);
          if (!(WIFEXITED(stt) && WEXITSTATUS(stt) == 0)) {
            O("%s %d undefined", op, id);
            X("sig=kf-c10-swap-foreign-buffer line=%zu what=%s on object %d, whose header says heap and whose buffer came in through swap from a stack object, ended the process (status %d)", cur_line, op, id, stt);
            n_foreign++; goto next;
          }
        }
      }
    }
    if (strcmp(op, "D") == 0) { do_hash_data(); }
    else if (strcmp(op, "new") == 0) {
      int id; SV sv;
      if (ntok != 4 || !parse_id(toks[1], &id) || objs[id].used || strlen(toks[2]) != 1 || !strchr("SHE", toks[2][0]) || !parse_spec(toks[3], &sv)) { O("bad-op"); goto next; }
      char cls = toks[2][0];
      if ((sv.k == 'r' || sv.k == 'b' || sv.k == 't' || sv.k == 'u') && cls == 'E') { O("bad-op"); goto next; }
      objs[id].p = make_scalar(&sv, cls); objs[id].used = 1; objs[id].cls = cls; objs[id].buf = cls == 'S' ? 'S' : 'H'; objs[id].sh.kind = 'v'; objs[id].sh.sv = sv;
      observe("new", id, NULL);
      /* the same value in the other allocation classes hashes alike */
      if (sv.k != 't' && sv.k != 'u') {
        const char* classes = (sv.k == 'r' || sv.k == 'b') ? "SH" : "SHE";
        if (hash_of(objs[id].p)) { uint64_t h0 = H_val;
          for (const char* c = classes; *c; c++) { var o2 = make_scalar(&sv, *c); if (!hash_of(o2) || H_val != h0) X("sig=c10-hash-class line=%zu what=the value %s hashes differently in allocation class %c than in class %c", cur_line, toks[3], *c, cls); } }
      }
    }
    else if (strcmp(op, "arr") == 0 || strcmp(op, "lst") == 0) {
      int id; int isarr = op[0] == 'a';
      int ety = ntok >= 4 ? parse_tc(toks[3]) : 0;
      if (ntok < 4 || !parse_id(toks[1], &id) || objs[id].used || strlen(toks[2]) != 1 || !strchr("SH", toks[2][0]) || !ety) { O("bad-op"); goto next; }
      int n = ntok - 4; SV* svs = calloc(n + 1, sizeof(SV)); int ok = 1;
      for (int i = 0; i < n; i++) if (!parse_spec(toks[4 + i], &svs[i]) || sv_ty(&svs[i]) != ety) ok = 0;
      if (!ok) { O("bad-op"); goto next; }
      var* args = malloc(sizeof(var) * (n + 2)); args[0] = ty_of_code(ety);
      for (int i = 0; i < n; i++) args[1 + i] = temp_of(&svs[i]); args[n + 1] = Terminal;
      var type = isarr ? Array : List; var mem = container_mem(type, toks[2][0]);
      V_TRY(exc, construct_with(mem, $(Tuple, args)));
      Obj* o = &objs[id]; o->p = mem; o->used = 1; o->cls = toks[2][0]; o->buf = 'H'; o->sh.kind = isarr ? 'A' : 'L'; o->sh.ety = ety;
      sh_reserve(&o->sh, n); for (int i = 0; i < n; i++) o->sh.items[i] = svs[i]; o->sh.n = n;
      observe(op, id, exc);
    }
    else if (strcmp(op, "tup") == 0) {
      int id;
      if (ntok < 3 || !parse_id(toks[1], &id) || objs[id].used || strlen(toks[2]) != 1 || !strchr("SH", toks[2][0])) { O("bad-op"); goto next; }
      int n = ntok - 3; int* ids = calloc(n + 1, sizeof(int)); int ok = 1;
      for (int i = 0; i < n; i++) { if (!parse_id(toks[3 + i], &ids[i]) || !is_live(ids[i]) || objs[ids[i]].sh.kind != 'v') { ok = 0; break; }
        char k = objs[ids[i]].sh.sv.k; if (k == 'r' || k == 'b' || k == 't' || k == 'u') ok = 0;
        for (int j = 0; j < i; j++) if (ids[j] == ids[i]) ok = 0; }   /* a repeated object in a Tuple is outside the contract (Tuple_Iter_Next) */
      if (!ok) { O("bad-op"); goto next; }
      var* args = malloc(sizeof(var) * (n + 1)); for (int i = 0; i < n; i++) args[i] = objs[ids[i]].p; args[n] = Terminal;
      var mem = container_mem(Tuple, toks[2][0]);
      if (toks[2][0] == 'S') {   /* tuple(…): a stack header over a pointer array that is not the allocator's */
        var* items = arena_get(sizeof(var) * (n + 1)); memcpy(items, args, sizeof(var) * (n + 1)); ((struct Tuple*)mem)->items = items;
      } else V_TRY(exc, construct_with(mem, $(Tuple, args)));
      Obj* o = &objs[id]; o->p = mem; o->used = 1; o->cls = toks[2][0]; o->buf = toks[2][0] == 'S' ? 'S' : 'H'; o->sh.kind = 'U';
      sh_reserve(&o->sh, n); for (int i = 0; i < n; i++) o->sh.ids[i] = ids[i]; o->sh.n = n;
      observe(op, id, exc);
    }
    else if (strcmp(op, "tab") == 0 || strcmp(op, "tre") == 0) {
      int id; int istab = op[1] == 'a';
      int kty = ntok >= 5 ? parse_tc(toks[3]) : 0, vty = ntok >= 5 ? parse_tc(toks[4]) : 0;
      if (ntok < 5 || (ntok - 5) % 2 || !parse_id(toks[1], &id) || objs[id].used || strlen(toks[2]) != 1 || !strchr("SH", toks[2][0])
          || !kty || !vty) { O("bad-op"); goto next; }
      if (!istab && !(tree_ty_ok(kty) && tree_ty_ok(vty))) { O("bad-op"); goto next; }
      int n = (ntok - 5) / 2; SV* ks = calloc(n + 1, sizeof(SV)); SV* vs = calloc(n + 1, sizeof(SV)); int ok = 1;
      for (int i = 0; i < n; i++) { if (!parse_spec(toks[5 + 2*i], &ks[i]) || sv_ty(&ks[i]) != kty) ok = 0; if (!parse_spec(toks[6 + 2*i], &vs[i]) || sv_ty(&vs[i]) != vty) ok = 0; }
      if (!ok) { O("bad-op"); goto next; }
      var* args = malloc(sizeof(var) * (2 * n + 3)); args[0] = ty_of_code(kty); args[1] = ty_of_code(vty);
      for (int i = 0; i < n; i++) { args[2 + 2*i] = temp_of(&ks[i]); args[3 + 2*i] = temp_of(&vs[i]); } args[2 * n + 2] = Terminal;
      var type = istab ? Table : Tree; var mem = container_mem(type, toks[2][0]);
      V_TRY(exc, construct_with(mem, $(Tuple, args)));
      Obj* o = &objs[id]; o->p = mem; o->used = 1; o->cls = toks[2][0]; o->buf = 'H'; o->sh.kind = istab ? 'T' : 'R'; o->sh.kty = kty; o->sh.vty = vty;
      for (int i = 0; i < n; i++) sh_map_set(&o->sh, &ks[i], &vs[i]);
      observe(op, id, exc);
    }
    else if (strcmp(op, "put") == 0) {
      int id; SV sv;
      if (ntok != 3 || !parse_id(toks[1], &id) || !is_live(id) || objs[id].sh.kind != 'v' || !parse_spec(toks[2], &sv) || sv_ty(&sv) != sv_ty(&objs[id].sh.sv)) { O("bad-op"); goto next; }
      var tmp = temp_of(&sv);
      V_TRY(exc, assign(objs[id].p, tmp));
      if (!exc) { objs[id].sh.sv = sv; if (sv.k == 's') objs[id].buf = 'H'; }
      observe(op, id, exc);
    }
    else if (strcmp(op, "push") == 0 || strcmp(op, "pushat") == 0) {
      int c, eid = -1; SV sv; var val; int64_t idx = 0; int at = op[4] == 'a';
      if (ntok != (at ? 4 : 3) || !parse_id(toks[1], &c) || !is_live(c) || !is_seq(objs[c].sh.kind) || (at && !parse_i64(toks[2], &idx))
          || !elem_arg(&objs[c], toks[at ? 3 : 2], &sv, &eid, &val)) { O("bad-op"); goto next; }
      Shadow* s = &objs[c].sh;
      if (s->kind == 'U') for (size_t i = 0; i < s->n; i++) if (s->ids[i] == eid) { O("bad-op"); goto next; }
      if (at) V_TRY(exc, push_at(objs[c].p, val, $I(idx))); else V_TRY(exc, push(objs[c].p, val));
      if (!exc && at && s->kind == 'A' && size_of_code(s->ety) > 8) n_array_shift_wide++;
      if (!exc) { size_t pos = at ? (size_t)idx : s->n; if (at && idx < 0) pos = (size_t)((int64_t)s->n + (s->kind == 'A' ? 1 : 0) + idx);
        if (pos > s->n) pos = s->n; sh_reserve(s, s->n + 1);
        memmove(&s->items[pos + 1], &s->items[pos], (s->n - pos) * sizeof(SV)); memmove(&s->ids[pos + 1], &s->ids[pos], (s->n - pos) * sizeof(int));
        if (s->kind == 'U') s->ids[pos] = eid; else s->items[pos] = sv; s->n++; }
      observe(op, c, exc);
    }
    else if (strcmp(op, "pop") == 0 || strcmp(op, "popat") == 0) {
      int c; int64_t idx = 0; int at = op[3] == 'a';
      if (ntok != (at ? 3 : 2) || !parse_id(toks[1], &c) || !is_live(c) || !is_seq(objs[c].sh.kind) || (at && !parse_i64(toks[2], &idx))) { O("bad-op"); goto next; }
      Shadow* s = &objs[c].sh;
      if (at) V_TRY(exc, pop_at(objs[c].p, $I(idx))); else V_TRY(exc, pop(objs[c].p));
      if (!exc && at && s->kind == 'A' && size_of_code(s->ety) > 8) n_array_shift_wide++;
      if (!exc && s->n) { size_t pos = at ? (size_t)(idx < 0 ? (int64_t)s->n + idx : idx) : s->n - 1; if (pos >= s->n) pos = s->n - 1;
        memmove(&s->items[pos], &s->items[pos + 1], (s->n - pos - 1) * sizeof(SV)); memmove(&s->ids[pos], &s->ids[pos + 1], (s->n - pos - 1) * sizeof(int)); s->n--; }
      observe(op, c, exc);
    }
    else if (strcmp(op, "rem") == 0) {
      int c; SV sv;
      if (ntok != 3 || !parse_id(toks[1], &c) || !is_live(c) || objs[c].sh.kind == 'v' || !parse_spec(toks[2], &sv)) { O("bad-op"); goto next; }
      Shadow* s = &objs[c].sh;
      if (is_map(s->kind) ? sv_ty(&sv) != s->kty : (s->kind != 'U' && sv_ty(&sv) != s->ety)) { O("bad-op"); goto next; }
      if (s->kind == 'U') for (size_t i = 0; i < s->n; i++) { const SV* x = sh_item(s, i); if (!x || sv_ty(x) != sv_ty(&sv)) { O("bad-op"); goto next; } }
      int two = 0; size_t nslots0 = 0; int shifts = 0;
      if (s->kind == 'R') two = tree_two_children(objs[c].p, temp_of(&sv));
      if (s->kind == 'T') { struct Table* tb = objs[c].p; nslots0 = tb->nslots;
        for (size_t i = 0; i < tb->nslots; i++) { uint64_t h = Table_Key_Hash(tb, i); if (h && Table_Probe(tb, i, h) > 0) shifts = 1; } }
      V_TRY(exc, rem(objs[c].p, temp_of(&sv)));
      if (!exc) {
        if (two) { n_tree_reloc++; if (size_of_code(s->vty) > size_of_code(s->kty)) n_tree_reloc_vwide++; if (size_of_code(s->kty) > size_of_code(s->vty)) n_tree_reloc_kwide++; }
        if (s->kind == 'T' && size_of_code(s->kty) + size_of_code(s->vty) > 16 && (shifts || ((struct Table*)objs[c].p)->nslots != nslots0)) n_table_shift_wide++;
        if (s->kind == 'A' && size_of_code(s->ety) > 8) n_array_shift_wide++;
        if (is_map(s->kind)) { size_t i = sh_map_find(s, &sv); if (i != (size_t)-1) { s->items[i] = s->items[s->n - 1]; s->vals[i] = s->vals[s->n - 1]; s->n--; } }
        else for (size_t i = 0; i < s->n; i++) { const SV* x = sh_item(s, i); if (x && sv_equal(x, &sv)) {
          memmove(&s->items[i], &s->items[i + 1], (s->n - i - 1) * sizeof(SV)); memmove(&s->ids[i], &s->ids[i + 1], (s->n - i - 1) * sizeof(int)); s->n--; break; } }
      }
      observe(op, c, exc);
    }
    else if (strcmp(op, "set") == 0) {
      int c; SV k, v; int64_t idx;
      if (ntok != 4 || !parse_id(toks[1], &c) || !is_live(c) || objs[c].sh.kind == 'v' || objs[c].sh.kind == 'U') { O("bad-op"); goto next; }
      Shadow* s = &objs[c].sh;
      if (is_map(s->kind)) {
        if (!parse_spec(toks[2], &k) || sv_ty(&k) != s->kty || !parse_spec(toks[3], &v) || sv_ty(&v) != s->vty) { O("bad-op"); goto next; }
        V_TRY(exc, set(objs[c].p, temp_of(&k), temp_of(&v)));
        if (!exc) sh_map_set(s, &k, &v);
      } else {
        if (!parse_i64(toks[2], &idx) || !parse_spec(toks[3], &v) || sv_ty(&v) != s->ety) { O("bad-op"); goto next; }
        V_TRY(exc, set(objs[c].p, $I(idx), temp_of(&v)));
        if (!exc) { int64_t p = idx < 0 ? (int64_t)s->n + idx : idx; if (p >= 0 && (size_t)p < s->n) s->items[p] = v; }
      }
      observe(op, c, exc);
    }
    else if (strcmp(op, "resize") == 0 || strcmp(op, "clear") == 0) {
      int c; int64_t n = 0; int isclear = op[0] == 'c';
      if (ntok != (isclear ? 2 : 3) || !parse_id(toks[1], &c) || !is_live(c) || objs[c].sh.kind == 'v' || (!isclear && (!parse_i64(toks[2], &n) || n < 0 || n > 100000))) { O("bad-op"); goto next; }
      Shadow* s = &objs[c].sh;
      /* growing a List creates unconstructed items; a stack Tuple cannot be resized: outside this engine */
      if (!isclear && s->kind == 'L' && (size_t)n > s->n) { O("bad-op"); goto next; }
      V_TRY(exc, resize(objs[c].p, (size_t)n));
      if (!exc) { if (n == 0) s->n = 0; else if (is_seq(s->kind) && (size_t)n < s->n) s->n = (size_t)n; }
      observe(op, c, exc);
    }
    else if (strcmp(op, "concat") == 0) {
      int c, d;
      if (ntok != 3 || !parse_id(toks[1], &c) || !parse_id(toks[2], &d) || !is_live(c) || !is_live(d) || c == d) { O("bad-op"); goto next; }
      Shadow* s = &objs[c].sh; Shadow* t = &objs[d].sh;
      if (!((s->kind == 'A' || s->kind == 'L') && (t->kind == 'A' || t->kind == 'L') && s->ety == t->ety)) { O("bad-op"); goto next; }
      V_TRY(exc, concat(objs[c].p, objs[d].p));
      if (!exc) { sh_reserve(s, s->n + t->n); for (size_t i = 0; i < t->n; i++) s->items[s->n + i] = sv_clone(&t->items[i]); s->n += t->n; }
      observe(op, c, exc);
    }
    else if (strcmp(op, "H") == 0) {
      int a; if (ntok != 2 || !parse_id(toks[1], &a) || !is_live(a)) { O("bad-op"); goto next; }
      observe(op, a, NULL);
    }
    else if (strcmp(op, "eq") == 0) {
      int a, b;
      if (ntok != 3 || !parse_id(toks[1], &a) || !parse_id(toks[2], &b) || !is_live(a) || !is_live(b) || !cmp_allowed(&objs[a].sh, &objs[b].sh)) { O("bad-op"); goto next; }
      int c = 0; V_TRY(exc, c = cmp(objs[a].p, objs[b].p));
      char ha[40], hb[40]; hash_str(ha, sizeof ha, objs[a].p, &objs[a].sh); uint64_t va = H_val; int oka = H_exc == NULL;
      hash_str(hb, sizeof hb, objs[b].p, &objs[b].sh); uint64_t vb = H_val; int okb = H_exc == NULL;
      int ptr = shadow_has_ptr(&objs[a].sh) || shadow_has_ptr(&objs[b].sh);
      if (exc) O("eq %d %d c=%s ha=%s hb=%s", a, b, v_exc_name(exc), ha, hb);
      else if (ptr) O("eq %d %d c=%s ha=%s hb=%s hsame=%d", a, b, c == 0 ? "0" : "ne", ha, hb, oka && okb && va == vb);
      else O("eq %d %d c=%d ha=%s hb=%s", a, b, sign(c), ha, hb);
      n_eq_pairs++;
      int se = shadow_equal(&objs[a].sh, &objs[b].sh);
      int nan = shadow_has_nan(&objs[a].sh) || shadow_has_nan(&objs[b].sh);
      if (se && !nan) n_equal_by_construction++;
      { int nr = shadow_near(&objs[a].sh, &objs[b].sh);
        if (nr == 2) n_near_in_container++;
        else if (nr == 1) { char k = objs[a].sh.sv.k; if (k == 'f') n_near_float++; else if (k == 'i') n_near_int++; else n_near_bytes++; } }
      /* the comparison itself: cmp says equal exactly when the two values are the same value (bit patterns for doubles, the two
       * zeros being one value; NaN is KF-C10-float-nan) */
      int sm = is_seq(objs[a].sh.kind) && is_map(objs[b].sh.kind);   /* KF-C10-seq-map-eq: the sequence is compared with the keys alone */
      if (!exc && c == 0 && !se && !nan && !(sm && objs[a].sh.n == 0 && objs[b].sh.n == 0)) X("sig=%s line=%zu what=eq(%d,%d) holds but the two objects hold different values by construction", sm ? "kf-c10-seq-map-eq" : "c10-eq-distinct", cur_line, a, b);
      if (!exc && oka && okb) {
        if (c == 0 && va != vb) X("sig=%s line=%zu what=eq(%d,%d) holds but the hashes differ: %016" PRIx64 " vs %016" PRIx64, nan ? "kf-c10-float-nan" : sm ? "kf-c10-seq-map-eq" : "c10-eq-hash", cur_line, a, b, va, vb);
        if (se && c != 0 && !nan) X("sig=%s line=%zu what=objects %d and %d hold equal contents by construction but cmp gives %d", table_kf_territory(objs[a].p, objs[b].p) ? "kf-c10-table-cmp" : "c10-eq-by-construction", cur_line, a, b, sign(c));
        if (se && va != vb) X("sig=c10-hash-by-construction line=%zu what=objects %d and %d hold equal contents by construction but hash to %016" PRIx64 " and %016" PRIx64, cur_line, a, b, va, vb);
      }
    }
    else if (strcmp(op, "has") == 0) {   /* mem, and get for a map: a key eq to a stored one is found, any other is not */
      int c; SV sv;
      if (ntok != 3 || !parse_id(toks[1], &c) || !is_live(c) || objs[c].sh.kind == 'v' || !parse_spec(toks[2], &sv)) { O("bad-op"); goto next; }
      Shadow* s = &objs[c].sh;
      if (is_map(s->kind)) { if (sv_ty(&sv) != s->kty) { O("bad-op"); goto next; } }
      else for (size_t i = 0; i < s->n; i++) { const SV* x = sh_item(s, i); if (!x || sv_ty(x) != sv_ty(&sv)) { O("bad-op"); goto next; } }
      var key = temp_of(&sv); int m = 0; var mexc = NULL, gexc = NULL; var g = NULL;
      V_TRY(mexc, m = mem(objs[c].p, key));
      SB gs; sb_init(&gs);
      if (is_map(s->kind)) { V_TRY(gexc, g = get(objs[c].p, key)); if (gexc) sb_puts(&gs, v_exc_name(gexc)); else dump_scalar(&gs, g); } else sb_puts(&gs, "-");
      if (mexc) O("has %d m=%s g=%s", c, v_exc_name(mexc), gs.s); else O("has %d m=%d g=%s", c, m ? 1 : 0, gs.s);
      n_lookup++;
      int nan = (sv.k == 'f' && f_is_nan(sv.bits)) || shadow_has_nan(s);
      if (!nan) {
        size_t at = (size_t)-1; int near = 0;
        if (is_map(s->kind)) { at = sh_map_find(s, &sv); for (size_t i = 0; i < s->n; i++) if (sv_near(&s->items[i], &sv)) near = 1; }
        else for (size_t i = 0; i < s->n; i++) { const SV* x = sh_item(s, i); if (x && sv_equal(x, &sv) && at == (size_t)-1) at = i; if (x && sv_near(x, &sv)) near = 1; }
        if (near) n_lookup_near++;
        int want = at != (size_t)-1;
        if (mexc || (m ? 1 : 0) != want) X("sig=c10-lookup line=%zu what=mem(%d, %s) gives %s, the container %s such an element by construction", cur_line, c, toks[2], mexc ? v_exc_name(mexc) : (m ? "true" : "false"), want ? "holds" : "does not hold");
        if (is_map(s->kind)) {
          if (want) { SB ws; sb_init(&ws); sv_dump(&ws, &s->vals[at]); if (gexc || strcmp(ws.s, gs.s) != 0) X("sig=c10-lookup line=%zu what=get(%d, %s) gives %s, the value stored under that key is %s", cur_line, c, toks[2], gs.s, ws.s); free(ws.s); }
          else if (!gexc) X("sig=c10-lookup line=%zu what=get(%d, %s) gives %s for a key the container does not hold", cur_line, c, toks[2], gs.s);
        }
      }
      free(gs.s);
    }
    else if (strcmp(op, "heq") == 0) {   /* hashes only: equal contents by construction must hash alike whatever the layout / kind */
      int a, b;
      if (ntok != 3 || !parse_id(toks[1], &a) || !parse_id(toks[2], &b) || !is_live(a) || !is_live(b)) { O("bad-op"); goto next; }
      char ha[40], hb[40]; hash_str(ha, sizeof ha, objs[a].p, &objs[a].sh); uint64_t va = H_val; int oka = H_exc == NULL;
      hash_str(hb, sizeof hb, objs[b].p, &objs[b].sh); uint64_t vb = H_val; int okb = H_exc == NULL;
      int se = shadow_equal(&objs[a].sh, &objs[b].sh);
      O("heq %d %d ha=%s hb=%s same=%d", a, b, ha, hb, oka && okb && va == vb);
      n_eq_pairs++; if (se) n_equal_by_construction++;
      if (se && (!oka || !okb || va != vb)) X("sig=c10-hash-by-construction line=%zu what=objects %d and %d hold equal contents by construction but hash to %016" PRIx64 " and %016" PRIx64, cur_line, a, b, va, vb);
    }
    else if (strcmp(op, "copy") == 0 || strcmp(op, "assign") == 0 || strcmp(op, "hcopy") == 0 || strcmp(op, "hassign") == 0) {
      int y, x; int nocmp = op[0] == 'h'; int iscopy = op[nocmp] == 'c';
      if (ntok != 3 || !parse_id(toks[1], &y) || !parse_id(toks[2], &x) || !is_live(x) || (x == y && iscopy)) { O("bad-op"); goto next; }
      /* assign(x, x): every kind; a String returns at once (fix 744a45f) — before that it reallocated its buffer and copied from the old pointer */
      if (iscopy ? objs[y].used : (!is_live(y) || !assign_allowed(&objs[y].sh, &objs[x].sh))) { O("bad-op"); goto next; }
      var px = objs[x].p; var py = NULL;
      SB self0; sb_init(&self0); uint64_t selfh0 = 0; int selfhok = 0;
      if (x == y) { dump_value(&self0, px, 1); selfhok = hash_of(px); selfh0 = H_val; n_self_assign++; }
      if (iscopy) { V_TRY(exc, py = copy(px)); }
      else { py = objs[y].p; V_TRY(exc, assign(py, px)); }
      if (x == y) {   /* with or without an exception, assign(x, x) leaves x as it was */
        SB self1; sb_init(&self1); dump_value(&self1, px, 1); int h1ok = hash_of(px);
        if (strcmp(self0.s, self1.s) != 0 || h1ok != selfhok || (h1ok && H_val != selfh0))
          X("sig=c10-assign-self line=%zu what=assign(%d,%d) changed the object: before %.300s after %.300s", cur_line, x, x, self0.s, self1.s);
        free(self1.s);
      }
      free(self0.s);
      if (iscopy) {
        if (exc) { O("%s %d %d %s", op, y, x, v_exc_name(exc)); goto next; }
        Obj* o = &objs[y]; o->p = py; o->used = 1; o->cls = 'H'; o->buf = 'H'; memset(&o->sh, 0, sizeof o->sh); o->sh.kind = objs[x].sh.kind; o->sh.sv = objs[x].sh.sv;
        o->sh.ety = objs[x].sh.ety; o->sh.kty = objs[x].sh.kty; o->sh.vty = objs[x].sh.vty;
        if (header(py)->alloc != (var)AllocHeap) X("sig=c10-copy-class line=%zu what=copy did not return a heap object", cur_line);
        if (type_of(py) != type_of(px)) X("sig=c10-copy-type line=%zu what=copy returned an object of another type", cur_line);
      }
      int from_tuple = !iscopy && x != y && (objs[y].sh.kind == 'A' || objs[y].sh.kind == 'L') && objs[x].sh.kind == 'U';
      if (!exc && x != y) shadow_copy_content(&objs[y].sh, &objs[x].sh);
      if (!exc && (objs[y].sh.kind == 'U' || (objs[y].sh.kind == 'v' && objs[y].sh.sv.k == 's')) && (iscopy || x != y || objs[y].sh.kind == 'U')) objs[y].buf = 'H';   /* the buffer was reallocated */
      n_copy++;
      SB d; sb_init(&d); dump_value(&d, objs[y].p, 1); char hy[40], hx[40];
      hash_str(hy, sizeof hy, objs[y].p, &objs[y].sh); uint64_t vy = H_val; int oky = H_exc == NULL;
      hash_str(hx, sizeof hx, px, &objs[x].sh); uint64_t vx = H_val; int okx = H_exc == NULL;
      int c = 0; var exc2 = NULL; int cmpok = !nocmp && (cmp_allowed(&objs[y].sh, &objs[x].sh) || from_tuple);
      if (cmpok) V_TRY(exc2, c = cmp(objs[y].p, px));
      char cs[24]; if (!cmpok) snprintf(cs, sizeof cs, "-"); else if (exc2) snprintf(cs, sizeof cs, "%s", v_exc_name(exc2)); else if (shadow_has_ptr(&objs[x].sh)) snprintf(cs, sizeof cs, "%s", c == 0 ? "0" : "ne"); else snprintf(cs, sizeof cs, "%d", sign(c));
      O("%s %d %d %s v=%s h=%s hx=%s c=%s", op, y, x, exc ? v_exc_name(exc) : "ok", d.s, hy, hx, cs); free(d.s);
      check_content(y, op); check_content(x, op);
      if (!exc) {
        int nan = shadow_has_nan(&objs[x].sh);
        if (cmpok && (exc2 || c != 0) && !nan) X("sig=%s line=%zu what=after %s the result %d is not eq to its source %d (cmp %d)", from_tuple ? "kf-c10-assign-from-tuple" : table_kf_territory(objs[y].p, px) ? "kf-c10-table-cmp" : (iscopy ? "c10-copy-eq" : "c10-assign-eq"), cur_line, op, y, x, sign(c));
        if (oky && okx && vy != vx) X("sig=%s line=%zu what=after %s the result %d hashes to %016" PRIx64 ", its source %d to %016" PRIx64, from_tuple ? "kf-c10-assign-from-tuple" : iscopy ? "c10-copy-hash" : "c10-assign-hash", cur_line, op, y, vy, x, vx);
        if (oky != okx) X("sig=c10-copy-hash line=%zu what=hash raised for only one of result and source", cur_line);
      }
    }
    else if (strcmp(op, "swap") == 0) {
      int a, b;
      if (ntok != 3 || !parse_id(toks[1], &a) || !parse_id(toks[2], &b) || !is_live(a) || !is_live(b)) { O("bad-op"); goto next; }
      Shadow* sa = &objs[a].sh; Shadow* sb = &objs[b].sh;
      /* any two objects other than Type objects; two different types: swap raises TypeError and nothing moves */
      if ((sa->kind == 'v' && (sa->sv.k == 't' || sa->sv.k == 'u')) || (sb->kind == 'v' && (sb->sv.k == 't' || sb->sv.k == 'u'))) { O("bad-op"); goto next; }
      int same_type = type_of(objs[a].p) == type_of(objs[b].p);
      SB a0, b0, a1, b1; sb_init(&a0); sb_init(&b0); sb_init(&a1); sb_init(&b1);
      dump_value(&a0, objs[a].p, 1); dump_value(&b0, objs[b].p, 1);
      uint64_t ha0 = 0, hb0 = 0, ha1 = 0, hb1 = 0; if (hash_of(objs[a].p)) ha0 = H_val; if (hash_of(objs[b].p)) hb0 = H_val;
      V_TRY(exc, swap(objs[a].p, objs[b].p));
      if (same_type ? exc != NULL : (exc == NULL || strcmp(v_exc_name(exc), "TypeError") != 0))
        X("sig=c10-swap-type line=%zu what=swap(%d,%d) of %s %s", cur_line, a, b, same_type ? "two objects of one type raised" : "objects of two different types did not raise TypeError:", exc ? v_exc_name(exc) : "ok");
      if (exc) {   /* refused: both objects are as they were */
        dump_value(&a1, objs[a].p, 1); dump_value(&b1, objs[b].p, 1);
        char hsa[40], hsb[40]; hash_str(hsa, sizeof hsa, objs[a].p, sa); hash_str(hsb, sizeof hsb, objs[b].p, sb);
        O("swap %d %d %s va=%s ha=%s vb=%s hb=%s", a, b, v_exc_name(exc), a1.s, hsa, b1.s, hsb); n_swap++;
        if (strcmp(a1.s, a0.s) != 0 || strcmp(b1.s, b0.s) != 0) X("sig=c10-swap-refused line=%zu what=swap(%d,%d) raised %s and changed an operand", cur_line, a, b, v_exc_name(exc));
        check_content(a, op); check_content(b, op);
        free(a0.s); free(b0.s); free(a1.s); free(b1.s); goto next;
      }
      { char tb = objs[a].buf; objs[a].buf = objs[b].buf; objs[b].buf = tb; }
      Shadow t = *sa; *sa = *sb; *sb = t;
      dump_value(&a1, objs[a].p, 1); dump_value(&b1, objs[b].p, 1);
      if (hash_of(objs[a].p)) ha1 = H_val; if (hash_of(objs[b].p)) hb1 = H_val;
      char hsa[40], hsb[40]; hash_str(hsa, sizeof hsa, objs[a].p, sa); hash_str(hsb, sizeof hsb, objs[b].p, sb);
      O("swap %d %d %s va=%s ha=%s vb=%s hb=%s", a, b, exc ? v_exc_name(exc) : "ok", a1.s, hsa, b1.s, hsb);
      n_swap++;
      if (sa->kind == 'v' && sa->sv.k == 'p') { if (sa->sv.n % 8) n_swap_odd8++; if (sa->sv.n % 4) n_swap_odd4++; }
      if (!exc) {
        if (strcmp(a1.s, b0.s) != 0 || strcmp(b1.s, a0.s) != 0) X("sig=c10-swap line=%zu what=swap(%d,%d) did not exchange the values: before %.200s / %.200s after %.200s / %.200s", cur_line, a, b, a0.s, b0.s, a1.s, b1.s);
        if (ha1 != hb0 || hb1 != ha0) X("sig=c10-swap-hash line=%zu what=swap(%d,%d) did not exchange the hashes", cur_line, a, b);
      } else { Shadow t2 = *sa; *sa = *sb; *sb = t2; }
      check_content(a, op); check_content(b, op);
      free(a0.s); free(b0.s); free(a1.s); free(b1.s);
    }
    else if (strcmp(op, "sort") == 0) {
      int c;
      if (ntok != 2 || !parse_id(toks[1], &c) || !is_live(c) || objs[c].sh.kind != 'A' || shadow_has_nan(&objs[c].sh)) { O("bad-op"); goto next; }
      Shadow* s = &objs[c].sh;
      int h0ok = hash_of(objs[c].p); uint64_t h0 = H_val;
      SB before; sb_init(&before); dump_value(&before, objs[c].p, 1);
      V_TRY(exc, sort(objs[c].p));
      n_sort++; if (tc_is_raw(s->ety) && size_of_code(s->ety) % 8 && s->n > 1) n_sort_odd++;
      if (!exc) {
        /* the elements the Array holds now, matched one by one against what it held; the shadow takes the Array's order */
        struct Array* a = objs[c].p; int ok = a->nitems == s->n;
        SV* ns = calloc(s->n + 1, sizeof(SV)); char* used = calloc(s->n + 1, 1);
        for (size_t i = 0; ok && i < s->n; i++) {
          SB e; sb_init(&e); dump_scalar(&e, Array_Item(a, i)); int found = 0;
          for (size_t j = 0; j < s->n && !found; j++) if (!used[j]) {
            SB d; sb_init(&d); sv_dump(&d, &s->items[j]); if (strcmp(d.s, e.s) == 0) { used[j] = 1; ns[i] = s->items[j]; found = 1; } free(d.s); }
          if (!found) ok = 0; free(e.s);
        }
        SB after; sb_init(&after); dump_value(&after, objs[c].p, 1);
        if (!ok) X("sig=c10-sort line=%zu what=sort(%d) changed the elements of the Array: before %.300s after %.300s", cur_line, c, before.s, after.s);
        else {
          int sorted = 1; for (size_t i = 0; i + 1 < s->n; i++) if (sv_ref_cmp(&ns[i], &ns[i + 1]) > 0) sorted = 0;
          if (!sorted) X("sig=c10-sort-order line=%zu what=sort(%d) left the Array out of order: %.300s", cur_line, c, after.s);
          if (strcmp(before.s, after.s) != 0) n_sort_moved++;
          if (s->n) memcpy(s->items, ns, s->n * sizeof(SV));
        }
        if (h0ok && (!hash_of(objs[c].p) || H_val != h0)) X("sig=c10-sort-hash line=%zu what=sort(%d) changed the hash of the Array from %016" PRIx64 " to %016" PRIx64, cur_line, c, h0, H_val);
        free(ns); free(used); free(after.s);
      }
      free(before.s);
      observe(op, c, exc);
    }
    else O("bad-op");
    next:
    if (child_mode) _exit(0);
    free(l);
  }
  I("eq_pairs=%zu equal_by_construction=%zu copies=%zu swaps=%zu hash_data=%zu", n_eq_pairs, n_equal_by_construction, n_copy, n_swap, n_hashdata);
  I("hash_data_at_alignments=%zu hash_data_with_high_bytes=%zu swaps_size_not_mult_8=%zu swaps_size_not_mult_4=%zu sorts=%zu sorts_elem_not_mult_8=%zu sorts_that_moved=%zu",
    n_hashdata_aligned, n_hashdata_high, n_swap_odd8, n_swap_odd4, n_sort, n_sort_odd, n_sort_moved);
  I("tree_two_child_rems=%zu tree_two_child_rems_value_wider=%zu tree_two_child_rems_key_wider=%zu table_shifting_rems_wide=%zu array_shifts_wide=%zu",
    n_tree_reloc, n_tree_reloc_vwide, n_tree_reloc_kwide, n_table_shift_wide, n_array_shift_wide);
  I("near_float_pairs=%zu near_int_pairs=%zu near_bytes_pairs=%zu near_in_container_pairs=%zu lookups=%zu lookups_with_near_key=%zu self_assigns=%zu foreign_buffer_ops=%zu",
    n_near_float, n_near_int, n_near_bytes, n_near_in_container, n_lookup, n_lookup_near, n_self_assign, n_foreign);
  fflush(stdout);
  _exit(0);   /* objects are leaked on purpose (shared elements, Boxes sharing a target): no teardown */
}
