/* harness/h_cmp.c — engine `cmp` (C09): cmp / eq neq gt lt ge le on the real library.
 *
 * op file (one op per line, tokens separated by single spaces):
 *   cmp  <A> <B>        O cmp s=<sign cmp(A,B)> rs=<sign cmp(B,A)> eq= neq= gt= lt= ge= le=      |  O cmp exc=<E> rexc=<E>
 *   lcmp <A> <B>        one direction only:  O lcmp s=<sign cmp(A,B)> eq= neq= gt= lt= ge= le=      |  O lcmp exc=<E>
 *   tri  <A> <B> <C>    O tri ab= ba= bc= cb= ac= ca=
 *   cmp.n / cmp.s (likewise lcmp, tri): the ALLOCATION CLASS of every operand object of the line: plain `cmp` builds them with
 *                       new_raw / alloc_raw; `.n` with new_root / alloc_root (collector-managed, registered as roots); `.s` gives
 *                       Int / Float / String / Tuple / plain-struct objects the header of a `$(…)` stack object (AllocStack; the
 *                       String's characters and the Tuple's item array lie outside the object, as for `$S("…")` / `tuple(…)`).
 *                       The O line is the same (`cmp` does not look at the class; the model ignores the suffix).
 *   keys <v1> … <vn>    scalars of one kind set into a Tree and a Table (value = index):
 *                       O keys n= tree=<len> table=<len> order=<values in Tree iteration order> tget=<get per key> hget=<…>
 *   sort <v1> … <vn>    scalars of one kind pushed into an Array, sort(): O sort <elements>
 * values (prefix terms):  i<decimal int64>  f<16 hex digits: the bits of a double, NaN refused>  s<hex bytes, no 00>
 *   t<TypeName>  p<tid>:<hex bytes> (plain struct types declared below: 0 = size 0, 1 and 2 = 4 bytes, 3 = 16 bytes)
 *   A<n> v1…vn (Array)  L<n> … (List)  T<n> … (Tuple)  R<n> k1 v1 … kn vn (Tree)
 *   &<k> <term>  names the OBJECT built from <term> (k = 0…63, once per line);  *<k>  is that object again: the same pointer in
 *   two slots of a Tuple (a Tuple holds references; Array / List / Tree take copies), in both operands, or as both operands.
 *   A name is usable only after its term is complete, so no object contains itself.
 *   Array / List elements and Tree values may be Tuples (element type Tuple): the container's copy of a Tuple is made by
 *   Tuple_Assign, which copies the item POINTERS, so the embedded Tuple references the objects its source references.
 * A sign is printed as `H` when the call did not return (it is then run in a forked child and killed) and `C` when the child died.
 * Comparisons in which an operand holds a Tuple with one object in two slots (an identity walk over it never ends), and every
 * comparison after the first oracle failure of the process, run in a forked child; everything else runs under a watchdog
 * timer that reports `sig=cmp-hang` with the line and ends the process.
 * Which values/pairs are run is the rule of lean/Cello/Cmp.lean (`Val.valid`, `comparable`) and lean/Driver/Cmp.lean
 * (`okPair`, `runnableObj`), implemented here a second time; anything else prints `O bad-op` on both sides.
 *
 * Direct oracle (independent of the Lean model): `ref_cmp` below — integers by `<`, doubles by the C relational operators
 * (never by subtraction) and, cross-checked, by the sign-magnitude key of their bits, strings / type names / plain structs by
 * an explicit unsigned-byte loop, sequences lexicographically with the shorter first, Trees as their entries in descending
 * key order, key then value.  Every cmp result is checked for: sign = reference, antisymmetry, reflexivity, the six
 * predicates = predicates of the sign; triples for transitivity; Tree/Table for finding every key that was set.
 * The reference works on the VALUES (the parsed terms): which objects are shared must not matter.
 *
 * Known finding KF-C09-tuple-dup-obj (root cause F13): X_Cmp walks its RIGHT operand with iter_next, and Tuple_Iter_Next finds the
 * current element again by pointer identity; with one object in two slots of the right-hand Tuple a step FROM the second
 * occurrence falls back to the slot after the first.  The territory is computed here, independently of the library, by
 * `walk_clean(obj, self)` (the same rule as `Obj.walkClean` of lean/Cello/Cmp.lean, on the reference order): the walk is clean
 * when it is decided before it leaves a repeated slot (or `self` ends right there and `obj` does not).  Only failures of a call
 * whose walk is NOT clean are printed with sig=kf-c09-tuple-dup-obj; a wrong answer on a clean walk — also with a repeated
 * object in the right operand — is an ordinary violation.  The generators put such a Tuple on the right only where the walk
 * is clean (`lcmp`: one direction).  "Contains" reaches through Arrays, Lists and Tree values: `new(Array, Tuple, x)` holds a copy
 * of `x` that references the same objects twice. */
#include "common.h"
#include <inttypes.h>
#include <poll.h>
#include <signal.h>
#include <sys/time.h>
#include <errno.h>

struct P0 {};                          var P0 = CelloEmpty(P0);
struct P4 { unsigned char b[4]; };     var P4 = Cello(P4);
struct Q4 { unsigned char b[4]; };     var Q4 = Cello(Q4);
struct P16 { unsigned char b[16]; };   var P16 = Cello(P16);

enum { K_INT, K_FLT, K_STR, K_TYP, K_PLAIN, K_ARR, K_LST, K_TUP, K_TREE };

typedef struct V {
  int kind; int64_t i; uint64_t bits; double d;
  unsigned char* bytes; size_t nbytes; int tid; var type;
  struct V** el; size_t n;          /* containers: n elements; Tree: n entries = 2n elements k,v,k,v,… */
  var obj;
  int refs;                         /* `*k` hands out the same V again */
  int cls; void* stk; var* items;   /* how `obj` was allocated (build) */
} V;

#define TN(X) { #X, &X }
static struct { const char* name; var* obj; } type_tab[] = {
  TN(Int), TN(Float), TN(String), TN(Array), TN(List), TN(Tuple), TN(Tree), TN(Table), TN(Type), TN(Ref), TN(Box), TN(Range),
  TN(Slice), TN(Zip), TN(Filter), TN(Map), TN(File), TN(Mutex), TN(Thread), TN(Process), TN(Function), TN(Cmp), TN(Hash),
  TN(Iter), TN(Len), TN(Push), TN(Get), TN(Mark), TN(New), TN(Copy), TN(Assign), TN(Show), TN(Size), TN(Sort), TN(Start),
  TN(Swap), TN(C_Int), TN(C_Str), TN(C_Float), TN(Call), TN(Cast), TN(Concat), TN(Current), TN(Doc), TN(Format), TN(Help),
  TN(Lock), TN(Pointer), TN(Resize), TN(Alloc), TN(TypeError), TN(ValueError), TN(KeyError), TN(IOError), TN(ClassError),
  TN(IndexOutOfBoundsError), TN(OutOfMemoryError), TN(FormatError), TN(BusyError), TN(ResourceError), TN(GC), TN(Exception),
};
#define NTYPES (sizeof type_tab / sizeof type_tab[0])

static size_t plain_size(int tid) { switch (tid) { case 1: case 2: return 4; case 3: return 16; default: return 0; } }
static var plain_type(int tid) { switch (tid) { case 0: return P0; case 1: return P4; case 2: return Q4; default: return P16; } }

/* ------------------------------------------------------------------------------------------------ parsing */
#define MAXCOUNT 4096
static char** toks; static size_t ntok, tpos;

static int hexv(char c) { if (c >= '0' && c <= '9') return c - '0'; if (c >= 'a' && c <= 'f') return c - 'a' + 10; return -1; }

static void v_free(V* v);

static int parse_hex_bytes(const char* h, unsigned char** out, size_t* n) {
  size_t l = strlen(h); if (l % 2) return 0;
  unsigned char* b = malloc(l / 2 + 1);
  for (size_t i = 0; i < l / 2; i++) {
    int x = hexv(h[2*i]), y = hexv(h[2*i+1]);
    if (x < 0 || y < 0) { free(b); return 0; }
    b[i] = (unsigned char)(16 * x + y);
  }
  b[l/2] = 0; *out = b; *n = l / 2; return 1;
}

static int parse_count(const char* s, size_t* out) {
  if (!*s) return 0;
  size_t v = 0;
  for (; *s; s++) { if (*s < '0' || *s > '9') return 0; v = v * 10 + (size_t)(*s - '0'); if (v > MAXCOUNT) return 0; }
  *out = v; return 1;
}

#define MAXNAME 63
static V* named[MAXNAME + 1];
static int line_alias;               /* the line uses & or * (statistics) */

static int parse_name(const char* s) {
  size_t l = strlen(s); if (l == 0 || l > 2) return -1;
  int k = 0; for (; *s; s++) { if (*s < '0' || *s > '9') return -1; k = k * 10 + (*s - '0'); }
  return k <= MAXNAME ? k : -1;
}

static V* parse_val(void) {
  if (tpos >= ntok) return NULL;
  const char* t = toks[tpos++];
  if (t[0] == '&') {
    int k = parse_name(t + 1); if (k < 0 || named[k]) return NULL;
    line_alias = 1;
    V* v = parse_val(); if (!v) return NULL;
    if (named[k]) { v_free(v); return NULL; }          /* named again inside its own term */
    named[k] = v; return v;
  }
  if (t[0] == '*') {
    int k = parse_name(t + 1); if (k < 0 || !named[k]) return NULL;
    line_alias = 1;
    named[k]->refs++; return named[k];
  }
  V* v = calloc(1, sizeof(V)); v->refs = 1;
  switch (t[0]) {
    case 'i': {
      const char* p = t + 1; int neg = 0; if (*p == '-') { neg = 1; p++; }
      size_t l = strlen(p); if (l == 0 || l > 19) goto bad;
      unsigned __int128 m = 0;
      for (const char* q = p; *q; q++) { if (*q < '0' || *q > '9') goto bad; m = m * 10 + (unsigned)(*q - '0'); }
      if (neg ? m > ((unsigned __int128)1 << 63) : m >= ((unsigned __int128)1 << 63)) goto bad;
      v->kind = K_INT; v->i = neg ? (int64_t)(0 - (uint64_t)m) : (int64_t)m; return v;
    }
    case 'f': {
      if (strlen(t + 1) != 16) goto bad;
      uint64_t b = 0; for (int k = 0; k < 16; k++) { int x = hexv(t[1+k]); if (x < 0) goto bad; b = b * 16 + (uint64_t)x; }
      v->kind = K_FLT; v->bits = b; memcpy(&v->d, &b, 8); return v;      /* NaN is refused by valid() */
    }
    case 's': {
      if (!parse_hex_bytes(t + 1, &v->bytes, &v->nbytes)) goto bad;
      for (size_t k = 0; k < v->nbytes; k++) if (v->bytes[k] == 0) goto bad;
      v->kind = K_STR; return v;
    }
    case 't': {
      for (size_t k = 0; k < NTYPES; k++) if (strcmp(type_tab[k].name, t + 1) == 0) {
        v->kind = K_TYP; v->type = *type_tab[k].obj; v->nbytes = strlen(t + 1);
        v->bytes = malloc(v->nbytes + 1); memcpy(v->bytes, t + 1, v->nbytes + 1); return v;
      }
      goto bad;
    }
    case 'p': {
      if (t[1] < '0' || t[1] > '9' || t[2] != ':') goto bad;
      if (!parse_hex_bytes(t + 3, &v->bytes, &v->nbytes)) goto bad;
      v->kind = K_PLAIN; v->tid = t[1] - '0'; return v;
    }
    case 'A': case 'L': case 'T': case 'R': {
      size_t cnt; if (!parse_count(t + 1, &cnt)) goto bad;
      v->kind = t[0] == 'A' ? K_ARR : t[0] == 'L' ? K_LST : t[0] == 'T' ? K_TUP : K_TREE;
      size_t ne = v->kind == K_TREE ? 2 * cnt : cnt;
      v->n = cnt; v->el = calloc(ne + 1, sizeof(V*));
      for (size_t k = 0; k < ne; k++) { v->el[k] = parse_val(); if (!v->el[k]) { v_free(v); return NULL; } }
      return v;
    }
    default: goto bad;
  }
bad:
  v_free(v); return NULL;
}

static size_t nelems(V* v) { return v->kind == K_TREE ? 2 * v->n : (v->kind >= K_ARR ? v->n : 0); }

/* ------------------------------------------------------------------------------------------------ validity rule */
static int is_nan_bits(uint64_t b) { return (b & 0x7fffffffffffffffULL) > 0x7ff0000000000000ULL; }

static int all_same_kind(V** e, size_t n, size_t start, size_t step) {
  for (size_t k = start; k < n; k += step) if (e[k]->kind != e[start]->kind) return 0;
  return 1;
}

static int valid(V* v) {
  switch (v->kind) {
    case K_INT: case K_STR: case K_TYP: return 1;
    case K_FLT: return !is_nan_bits(v->bits);
    case K_PLAIN: return v->tid < 4 && v->nbytes == plain_size(v->tid);
    case K_TUP:
      for (size_t k = 0; k < v->n; k++) if (!valid(v->el[k])) return 0;   /* anything; a Type twice = the same object twice: F13 */
      return 1;
    case K_ARR: case K_LST:
      for (size_t k = 0; k < v->n; k++) {
        if (!valid(v->el[k])) return 0;
        int ek = v->el[k]->kind;
        if (!(ek == K_INT || ek == K_FLT || ek == K_STR || ek == K_ARR || ek == K_LST || ek == K_TUP || (ek == K_PLAIN && v->el[k]->tid != 0))) return 0;
        if (ek == K_PLAIN && v->el[k]->tid != v->el[0]->tid) return 0;       /* elements of ONE struct type */
      }
      return v->n == 0 || all_same_kind(v->el, v->n, 0, 1);
    case K_TREE:
      for (size_t k = 0; k < 2 * v->n; k++) {
        if (!valid(v->el[k])) return 0;
        int ek = v->el[k]->kind;
        if (!(ek == K_INT || ek == K_FLT || ek == K_STR || (ek == K_TUP && (k & 1)))) return 0;     /* values may be Tuples */
      }
      return v->n == 0 || (all_same_kind(v->el, 2 * v->n, 0, 2) && all_same_kind(v->el, 2 * v->n, 1, 2));
  }
  return 0;
}

static int is_seq(V* v) { return v->kind == K_ARR || v->kind == K_LST || v->kind == K_TUP; }

/* NB: a Tree value is compared in its iteration order; `comparable` in the model is evaluated on the entries in that order.
   Keys are all of one kind and values are all of one kind inside a valid Tree, so the order does not matter for this test. */
static int comparable(V* a, V* b) {
  if (a->kind <= K_TYP && a->kind == b->kind) return 1;
  if (a->kind == K_PLAIN && b->kind == K_PLAIN) return a->tid == b->tid && plain_size(a->tid) != 0;     /* the memcmp arm of cmp */
  if (is_seq(a) && is_seq(b)) {
    for (size_t k = 0; k < a->n && k < b->n; k++) if (!comparable(a->el[k], b->el[k])) return 0;
    return 1;
  }
  if (a->kind == K_TREE && b->kind == K_TREE) {
    if (a->n == 0 || b->n == 0) return 1;
    return comparable(a->el[0], b->el[0]) && comparable(a->el[1], b->el[1]);
  }
  return 0;
}

/* the same OBJECT: the same term instance (`*k`), or the same Type (there is one object per Type) */
static int same_obj(V* x, V* y) { return x == y || (x->kind == K_TYP && y->kind == K_TYP && x->type == y->type); }

/* one object in two slots of this Tuple itself */
static int has_dup_top(V* v) {
  if (v->kind != K_TUP) return 0;
  for (size_t i = 0; i < v->n; i++) for (size_t j = i + 1; j < v->n; j++) if (same_obj(v->el[i], v->el[j])) return 1;
  return 0;
}

/* `comparable`, except that where one of two sequences is a Tuple holding an object twice an identity walk can bring ANY element
   of the one against ANY element of the other: all of those pairs must be of one kind (lean/Driver/Cmp.lean `okPair`) */
static int ref_cmp(V* a, V* b);
static V** ref_tree_entries(V* t, size_t* n_out);

static int ok_pair(V* a, V* b) {
  if (a->kind == K_TREE && b->kind == K_TREE) {
    /* entry by entry in iteration order (the reference order of the keys): key with key, value with value */
    size_t na, nb; V** ea = ref_tree_entries(a, &na); V** eb = ref_tree_entries(b, &nb); int ok = 1;
    for (size_t k = 0; k < na && k < nb; k++) if (!comparable(ea[2*k], eb[2*k]) || !ok_pair(ea[2*k+1], eb[2*k+1])) ok = 0;
    free(ea); free(eb); return ok;
  }
  if (is_seq(a) && is_seq(b)) {
    if (has_dup_top(a) || has_dup_top(b)) {
      for (size_t i = 0; i < a->n; i++) for (size_t j = 0; j < b->n; j++) if (!ok_pair(a->el[i], b->el[j])) return 0;
      return 1;
    }
    for (size_t k = 0; k < a->n && k < b->n; k++) if (!ok_pair(a->el[k], b->el[k])) return 0;
    return 1;
  }
  if (is_seq(a) || is_seq(b)) return 0;
  return comparable(a, b);
}

static int runnable(V* a, V* b) {
  return valid(a) && valid(b) && (ok_pair(a, b) || (a->kind == K_PLAIN && b->kind == K_PLAIN));
}

/* ------------------------------------------------------------------------------------------------ building Cello objects */
static var elem_type(V* e) {
  switch (e->kind) { case K_INT: return Int; case K_FLT: return Float; case K_STR: return String; case K_ARR: return Array; case K_TUP: return Tuple;
                     case K_PLAIN: return plain_type(e->tid); default: return List; }
}

/* allocation class of the operand objects of the current line: 0 = new_raw / alloc_raw, 1 = new_root / alloc_root, 2 = stack class */
static int aclass = 0;

/* an object with the header of a `$(T, …)` stack object (header_init(…, AllocStack)), its memory owned by the V */
static var stack_obj(V* v, var type, const void* init, size_t size) {
  v->stk = calloc(1, sizeof(struct Header) + size + 1);
  var self = header_init(v->stk, type, AllocStack);
  if (size) memcpy(self, init, size);
  return self;
}

static var build(V* v) {
  if (v->obj) return v->obj;          /* a shared object is built once */
  v->cls = aclass;
  switch (v->kind) {
    case K_INT:
      if (aclass == 2) { struct Int x = { v->i }; v->obj = stack_obj(v, Int, &x, sizeof x); }
      else v->obj = aclass == 1 ? (var)new_root(Int, $I(v->i)) : (var)new_raw(Int, $I(v->i));
      break;
    case K_FLT:
      if (aclass == 2) { struct Float x = { v->d }; v->obj = stack_obj(v, Float, &x, sizeof x); }
      else v->obj = aclass == 1 ? (var)new_root(Float, $F(v->d)) : (var)new_raw(Float, $F(v->d));
      break;
    case K_STR:
      if (aclass == 2) { struct String x = { (char*)v->bytes }; v->obj = stack_obj(v, String, &x, sizeof x); }     /* $S(bytes) */
      else v->obj = aclass == 1 ? (var)new_root(String, $S((char*)v->bytes)) : (var)new_raw(String, $S((char*)v->bytes));
      break;
    case K_TYP: v->obj = v->type; break;
    case K_PLAIN:
      if (aclass == 2) v->obj = stack_obj(v, plain_type(v->tid), v->bytes, v->nbytes);
      else { v->obj = aclass == 1 ? alloc_root(plain_type(v->tid)) : alloc_raw(plain_type(v->tid)); if (v->nbytes) memcpy(v->obj, v->bytes, v->nbytes); }
      break;
    case K_ARR: case K_LST: {
      var et = v->n ? elem_type(v->el[0]) : Int;
      var c = v->kind == K_ARR ? (aclass == 1 ? (var)new_root(Array, et) : (var)new_raw(Array, et))
                               : (aclass == 1 ? (var)new_root(List, et) : (var)new_raw(List, et));
      if (aclass == 2) v->cls = 0;
      for (size_t k = 0; k < v->n; k++) push(c, build(v->el[k]));     /* the container holds a copy */
      v->obj = c; break;
    }
    case K_TUP: {
      if (aclass == 2) {                                               /* tuple(…): the item array lies outside the object */
        v->items = calloc(v->n + 1, sizeof(var));
        for (size_t k = 0; k < v->n; k++) v->items[k] = build(v->el[k]);
        v->items[v->n] = Terminal;
        struct Tuple x = { v->items }; v->obj = stack_obj(v, Tuple, &x, sizeof x); break;
      }
      var c = aclass == 1 ? (var)new_root(Tuple) : (var)new_raw(Tuple);
      for (size_t k = 0; k < v->n; k++) push(c, build(v->el[k]));     /* the Tuple holds the reference */
      v->obj = c; break;
    }
    case K_TREE: {
      var kt = v->n ? elem_type(v->el[0]) : Int, vt = v->n ? elem_type(v->el[1]) : Int;
      var c = aclass == 1 ? (var)new_root(Tree, kt, vt) : (var)new_raw(Tree, kt, vt);
      if (aclass == 2) v->cls = 0;
      for (size_t k = 0; k < v->n; k++) set(c, build(v->el[2*k]), build(v->el[2*k+1]));
      v->obj = c; break;
    }
  }
  return v->obj;
}

static void v_free(V* v) {
  if (!v) return;
  if (--v->refs > 0) return;
  if (v->el) { size_t ne = nelems(v); for (size_t k = 0; k < ne; k++) v_free(v->el[k]); free(v->el); }
  if (v->obj && v->kind != K_TYP) {
    if (v->cls == 2) { free(v->stk); free(v->items); }
    else if (v->cls == 1) del_root(v->obj);          /* also for alloc_root'ed structs: dealloc_root would leave the collector's entry behind */
    else if (v->kind == K_PLAIN) dealloc_raw(v->obj);
    else del_raw(v->obj);
  }
  free(v->bytes); free(v);
}

/* ------------------------------------------------------------------------------------------------ the direct oracle */
static int sign(long long x) { return x < 0 ? -1 : x > 0 ? 1 : 0; }

static int ref_bytes(const unsigned char* a, size_t na, const unsigned char* b, size_t nb) {
  for (size_t k = 0; ; k++) {
    if (k == na && k == nb) return 0;
    if (k == na) return -1;
    if (k == nb) return 1;
    if (a[k] != b[k]) return a[k] < b[k] ? -1 : 1;
  }
}

static long long float_key(uint64_t b) {
  long long m = (long long)(b & 0x7fffffffffffffffULL);
  return (b >> 63) ? -m : m;
}
static size_t key_disagreements = 0;

static int ref_lex(V** x, size_t nx, V** y, size_t ny) {
  for (size_t k = 0; ; k++) {
    if (k == nx && k == ny) return 0;
    if (k == nx) return -1;
    if (k == ny) return 1;
    int r = ref_cmp(x[k], y[k]); if (r) return r;
  }
}

/* entries of a Tree in the reference order: distinct keys (a later entry with an equal key replaces the earlier), descending */
static V** ref_tree_entries(V* t, size_t* n_out) {
  V** out = calloc(2 * t->n + 2, sizeof(V*)); size_t n = 0;
  for (size_t k = 0; k < t->n; k++) {
    V* key = t->el[2*k]; V* val = t->el[2*k+1];
    size_t pos = 0; int found = 0;
    while (pos < n) { int r = ref_cmp(out[2*pos], key); if (r == 0) { found = 1; break; } if (r < 0) break; pos++; }
    if (found) { out[2*pos] = key; out[2*pos+1] = val; continue; }
    memmove(out + 2*pos + 2, out + 2*pos, (n - pos) * 2 * sizeof(V*));
    out[2*pos] = key; out[2*pos+1] = val; n++;
  }
  *n_out = n; return out;
}

static int ref_cmp(V* a, V* b) {
  if (a->kind == K_INT && b->kind == K_INT) return a->i < b->i ? -1 : a->i > b->i ? 1 : 0;
  if (a->kind == K_FLT && b->kind == K_FLT) {
    int r = a->d < b->d ? -1 : a->d > b->d ? 1 : 0;
    long long ka = float_key(a->bits), kb = float_key(b->bits);
    if (r != (ka < kb ? -1 : ka > kb ? 1 : 0)) key_disagreements++;
    return r;
  }
  if ((a->kind == K_STR && b->kind == K_STR) || (a->kind == K_TYP && b->kind == K_TYP) || (a->kind == K_PLAIN && b->kind == K_PLAIN))
    return ref_bytes(a->bytes, a->nbytes, b->bytes, b->nbytes);
  if (is_seq(a) && is_seq(b)) return ref_lex(a->el, a->n, b->el, b->n);
  if (a->kind == K_TREE && b->kind == K_TREE) {
    size_t na, nb; V** ea = ref_tree_entries(a, &na); V** eb = ref_tree_entries(b, &nb);
    int r = ref_lex(ea, 2 * na, eb, 2 * nb);
    free(ea); free(eb); return r;
  }
  return 0;
}

/* ------------------------------------------------------------------------------------------------ ops */
static size_t lineno;
static size_t n_cmp = 0, n_exc = 0, n_nonzero = 0, n_forked = 0, n_hang = 0, n_alias = 0, n_kf = 0;
static size_t n_fail = 0;            /* oracle failures so far in this process */
#define XF(...) do { n_fail++; X(__VA_ARGS__); } while (0)
#define KF_SIG "kf-c09-tuple-dup-obj"

/* a Tuple, at any depth — as a slot of a Tuple, an element of an Array / List, a value of a Tree — that references one object from
   two slots (the container's copy of a Tuple references the same objects as its source) */
static int has_dup_tuple(V* v) {
  if (v->kind == K_TUP)
    for (size_t i = 0; i < v->n; i++) for (size_t j = i + 1; j < v->n; j++) if (same_obj(v->el[i], v->el[j])) return 1;
  if (v->kind == K_TUP || v->kind == K_ARR || v->kind == K_LST) { for (size_t i = 0; i < v->n; i++) if (has_dup_tuple(v->el[i])) return 1; }
  if (v->kind == K_TREE) { for (size_t i = 0; i < v->n; i++) if (has_dup_tuple(v->el[2*i+1])) return 1; }
  return 0;
}

/* The territory of the known finding, computed from the terms and the reference order alone: is the walk of cmp(self, obj) CLEAN,
   i.e. does it never step from a slot of a Tuple inside `obj` whose object already sits in an earlier slot of that Tuple — except
   for the one step after which `self` has ended and `obj` has not?  The loops compare position by position until the first pair
   that does not compare equal; only the pairs reached count.  (lean/Cello/Cmp.lean `Obj.walkClean` / `slotsClean` / `entsClean`) */
static int walk_clean(V* obj, V* self);
static int slots_clean(int tup, V** b, size_t nb, V** a, size_t na) {
  for (size_t j = 0; j < nb && j < na; j++) {
    if (!walk_clean(b[j], a[j])) return 0;
    if (ref_cmp(a[j], b[j]) != 0) return 1;                      /* decided here: no step */
    if (tup) {
      int earlier = 0; for (size_t i = 0; i < j; i++) if (same_obj(b[i], b[j])) earlier = 1;
      if (earlier && !(j + 1 == na && j + 1 < nb)) return 0;
    }
  }
  return 1;
}
static int walk_clean(V* obj, V* self) {
  if (is_seq(obj) && is_seq(self)) return slots_clean(obj->kind == K_TUP, obj->el, obj->n, self->el, self->n);
  if (obj->kind == K_TREE && self->kind == K_TREE) {
    size_t nb, na; V** eb = ref_tree_entries(obj, &nb); V** ea = ref_tree_entries(self, &na); int ok = 1;
    for (size_t j = 0; j < nb && j < na; j++) {
      if (ref_cmp(ea[2*j], eb[2*j]) != 0) break;
      if (!walk_clean(eb[2*j+1], ea[2*j+1])) { ok = 0; break; }
      if (ref_cmp(ea[2*j+1], eb[2*j+1]) != 0) break;
    }
    free(eb); free(ea); return ok;
  }
  return 1;
}

/* ---- calls into the library: directly, or in a forked child that is killed when it does not answer */
enum { ST_OK = 0, ST_EXC = 1, ST_HANG = 2, ST_CRASH = 3 };
typedef struct { var a, b; int preds; } CmpCall;            /* preds = 0: cmp(a, b);  1: eq neq gt lt ge le (a, b) */
typedef struct { int st; int c; int p[6]; char exc[40]; } CmpRet;

static void do_call(const CmpCall* k, CmpRet* r) {
  memset(r, 0, sizeof *r);
  var exc;
  if (!k->preds) { volatile int c = 0; V_TRY(exc, c = cmp(k->a, k->b)); r->c = c; }
  else {
    volatile int p0 = 0, p1 = 0, p2 = 0, p3 = 0, p4 = 0, p5 = 0;
    V_TRY(exc, { p0 = eq(k->a, k->b); p1 = neq(k->a, k->b); p2 = gt(k->a, k->b); p3 = lt(k->a, k->b); p4 = ge(k->a, k->b); p5 = le(k->a, k->b); });
    r->p[0] = p0; r->p[1] = p1; r->p[2] = p2; r->p[3] = p3; r->p[4] = p4; r->p[5] = p5;
  }
  if (exc) { r->st = ST_EXC; snprintf(r->exc, sizeof r->exc, "%s", v_exc_name(exc)); }
}

#define ANSWER_CPU_MS 300      /* CPU time a forked call may use */
#define ANSWER_MS 20000        /* … and, as a backstop, wall time the parent waits for it */
static volatile sig_atomic_t op_serial = 0;     /* bumped whenever the main process makes progress (watchdog) */

static int read_full(int fd, void* buf, size_t n, int timeout_ms) {
  /* 1 = record read, 0 = timed out, -1 = end of file / error (the child died) */
  size_t got = 0; struct timeval t0, t1; gettimeofday(&t0, NULL);
  while (got < n) {
    gettimeofday(&t1, NULL);
    long el = (t1.tv_sec - t0.tv_sec) * 1000L + (t1.tv_usec - t0.tv_usec) / 1000L;
    if (el >= timeout_ms) return 0;
    struct pollfd pf = { fd, POLLIN, 0 };
    int pr = poll(&pf, 1, (int)(timeout_ms - el));
    if (pr < 0) { if (errno == EINTR) continue; return -1; }
    if (pr == 0) return 0;
    ssize_t k = read(fd, (char*)buf + got, n - got);
    if (k < 0) { if (errno == EINTR) continue; return -1; }
    if (k == 0) return -1;
    got += (size_t)k;
  }
  return 1;
}

static void run_calls(const CmpCall* ks, CmpRet* rs, int n, int guard) {
  n_cmp += (size_t)n;
  if (!guard) { for (int i = 0; i < n; i++) do_call(&ks[i], &rs[i]); return; }
  int start = 0;
  while (start < n) {
    int fd[2]; if (pipe(fd) != 0) { perror("pipe"); exit(3); }
    fflush(stdout); fflush(stderr);
    pid_t pid = fork();
    if (pid < 0) { perror("fork"); exit(3); }
    if (pid == 0) {
      /* each call gets ANSWER_CPU_MS of CPU time of its own (a loaded machine cannot make a call that returns look like one
         that does not); the default action of SIGVTALRM ends the child, the parent sees which signal it was */
      close(fd[0]); signal(SIGVTALRM, SIG_DFL); signal(SIGALRM, SIG_DFL); alarm(60);
      for (int i = start; i < n; i++) {
        struct itimerval it = { {0, 0}, {ANSWER_CPU_MS / 1000, (ANSWER_CPU_MS % 1000) * 1000} }; setitimer(ITIMER_VIRTUAL, &it, NULL);
        CmpRet r; do_call(&ks[i], &r);
        if (write(fd[1], &r, sizeof r) != (ssize_t)sizeof r) _exit(4);
      }
      _exit(0);
    }
    n_forked++;
    close(fd[1]);
    int got = start, why = 1;
    while (got < n) { CmpRet r; why = read_full(fd[0], &r, sizeof r, ANSWER_MS); op_serial++; if (why != 1) break; rs[got++] = r; }
    if (got < n && why == 0) kill(pid, SIGKILL);
    int status = 0; waitpid(pid, &status, 0); close(fd[0]);
    if (got < n) {
      int hang = why == 0 || (WIFSIGNALED(status) && WTERMSIG(status) == SIGVTALRM);
      memset(&rs[got], 0, sizeof(CmpRet)); rs[got].st = hang ? ST_HANG : ST_CRASH; if (hang) n_hang++; got++;
    }
    start = got;
  }
}

static const char* show_sign(const CmpRet* r, char* buf) {
  if (r->st == ST_OK) { snprintf(buf, 8, "%d", r->c < 0 ? -1 : r->c > 0 ? 1 : 0); return buf; }
  return r->st == ST_HANG ? "H" : r->st == ST_CRASH ? "C" : r->exc;
}

static void show_preds(const CmpRet* fwd, const CmpRet* pr, char* buf, size_t n) {
  if (fwd->st != ST_OK || pr->st == ST_HANG || pr->st == ST_CRASH) {
    const char* h = (fwd->st == ST_CRASH || pr->st == ST_CRASH) ? "C" : "H";
    snprintf(buf, n, "eq=%s neq=%s gt=%s lt=%s ge=%s le=%s", h, h, h, h, h, h);
  } else snprintf(buf, n, "eq=%d neq=%d gt=%d lt=%d ge=%d le=%d", pr->p[0], pr->p[1], pr->p[2], pr->p[3], pr->p[4], pr->p[5]);
}

/* one call against the reference: `kf` = the call's right operand holds a Tuple with a repeated object (known finding) */
static void check_call(const char* what, const CmpRet* r, int want, int kf) {
  if (r->st == ST_OK) {
    int s = sign(r->c);
    if (s == want) return;
    if (kf) { n_kf++; XF("sig=" KF_SIG " line=%zu what=%s: sign %d, the reference order gives %d (right operand: a Tuple with one object in two slots)", lineno, what, s, want); }
    else XF("sig=cmp-order line=%zu what=%s: sign of cmp is %d, the reference order gives %d", lineno, what, s, want);
  } else if (r->st == ST_HANG) {
    if (kf) { n_kf++; XF("sig=" KF_SIG " line=%zu what=%s does not return (right operand: a Tuple with one object in two slots)", lineno, what); }
    else XF("sig=cmp-hang line=%zu what=%s does not return within %d ms of CPU time (the reference order gives %d)", lineno, what, ANSWER_CPU_MS, want);
  } else if (r->st == ST_CRASH) XF("sig=cmp-crash line=%zu what=%s: the child process running it died", lineno, what);
}

static void op_cmp(V* a, V* b, int both) {
  var x = build(a), y = build(b);
  int da = has_dup_tuple(a), db = has_dup_tuple(b);
  int kab = !walk_clean(b, a), kba = !walk_clean(a, b), kaa = !walk_clean(a, a), kbb = !walk_clean(b, b);   /* known-finding territory, per call */
  int guard = da || db || n_fail > 0;       /* an identity walk over a repeated object never ends; after a failure nothing is trusted */
  CmpCall ks[5] = { { x, y, 0 }, { x, y, 1 }, { y, x, 0 }, { x, x, 0 }, { y, y, 0 } };
  CmpRet r[5]; memset(r, 0, sizeof r);
  int plain_ok = !(a->kind == K_PLAIN) || (a->tid == b->tid && plain_size(a->tid) != 0);
  /* a comparison that must raise is not repeated through the predicates and the reflexive calls */
  int n = !plain_ok ? (both ? 2 : 1) : (both ? 5 : 2);
  if (!plain_ok) ks[1] = ks[2];
  run_calls(ks, r, n, guard);
  const CmpRet* fwd = &r[0]; const CmpRet* prd = plain_ok ? &r[1] : NULL; const CmpRet* rev = both ? (plain_ok ? &r[2] : &r[1]) : NULL;
  char b1[8], b2[8], pb[96];
  if (fwd->st == ST_EXC || (rev && rev->st == ST_EXC)) {
    const char* e1 = fwd->st == ST_EXC ? fwd->exc : NULL; const char* e2 = rev && rev->st == ST_EXC ? rev->exc : NULL;
    if (both) O("cmp exc=%s rexc=%s", show_sign(fwd, b1), show_sign(rev, b2)); else O("lcmp exc=%s", show_sign(fwd, b1));
    n_exc++;
    if (plain_ok) XF("sig=cmp-raises line=%zu what=cmp of two comparable values raised %s / %s", lineno, e1 ? e1 : "-", e2 ? e2 : "-");
    else if (!e1 || (both && !e2) || strcmp(e1, "TypeError") || (both && strcmp(e2, "TypeError")))
      XF("sig=cmp-default line=%zu what=cmp of plain structs of different types (or of size 0) must raise TypeError both ways: %s / %s", lineno, e1 ? e1 : "-", e2 ? e2 : "-");
    return;
  }
  if (!plain_ok) {
    XF("sig=cmp-default line=%zu what=cmp of plain structs of different types (or of size 0) returned %d instead of raising TypeError", lineno, fwd->c);
    if (both) O("cmp s=%s rs=%s eq=- neq=- gt=- lt=- ge=- le=-", show_sign(fwd, b1), show_sign(rev, b2)); else O("lcmp s=%s eq=- neq=- gt=- lt=- ge=- le=-", show_sign(fwd, b1));
    return;
  }
  if (prd->st == ST_EXC) {
    if (both) O("cmp exc=%s rexc=pred", prd->exc); else O("lcmp exc=%s", prd->exc);
    XF("sig=cmp-raises line=%zu what=a predicate raised %s where cmp did not", lineno, prd->exc); return;
  }
  show_preds(fwd, prd, pb, sizeof pb);
  if (both) O("cmp s=%s rs=%s %s", show_sign(fwd, b1), show_sign(rev, b2), pb); else O("lcmp s=%s %s", show_sign(fwd, b1), pb);
  if (fwd->st == ST_OK && fwd->c) n_nonzero++;
  if (da || db) n_alias++;
  /* ---- the oracle: the content-based reference order; which objects are shared must not matter */
  int want = ref_cmp(a, b);
  check_call(both ? "cmp(a,b)" : "lcmp: cmp(a,b)", fwd, want, kab);
  if (fwd->st == ST_OK && prd->st == ST_OK) {
    int s = sign(fwd->c); const int* p = prd->p;
    if (p[0] != (s == 0) || p[1] != (s != 0) || p[2] != (s > 0) || p[3] != (s < 0) || p[4] != (s >= 0) || p[5] != (s <= 0))
      XF("sig=cmp-preds line=%zu what=predicates eq=%d neq=%d gt=%d lt=%d ge=%d le=%d are not those of cmp's sign %d", lineno, p[0], p[1], p[2], p[3], p[4], p[5], s);
  } else if (fwd->st == ST_OK) check_call("a predicate of (a,b)", prd, 0, kab);
  if (!both) return;
  check_call("cmp(b,a)", rev, -want, kba);
  if (fwd->st == ST_OK && rev->st == ST_OK && sign(rev->c) != -sign(fwd->c)) {
    if (kab || kba) { n_kf++; XF("sig=" KF_SIG " line=%zu what=sign cmp(a,b)=%d but sign cmp(b,a)=%d (an operand holds a Tuple with one object in two slots)", lineno, sign(fwd->c), sign(rev->c)); }
    else XF("sig=cmp-antisym line=%zu what=sign cmp(a,b)=%d but sign cmp(b,a)=%d", lineno, sign(fwd->c), sign(rev->c));
  }
  const CmpRet* aa = &r[3]; const CmpRet* bb = &r[4];
  if (aa->st != ST_OK || aa->c != 0) {
    if (kaa) { n_kf++; XF("sig=" KF_SIG " line=%zu what=cmp(a,a)=%s for a Tuple with one object in two slots", lineno, show_sign(aa, b1)); }
    else XF("sig=cmp-refl line=%zu what=cmp(a,a)=%s", lineno, show_sign(aa, b1));
  }
  if (bb->st != ST_OK || bb->c != 0) {
    if (kbb) { n_kf++; XF("sig=" KF_SIG " line=%zu what=cmp(b,b)=%s for a Tuple with one object in two slots", lineno, show_sign(bb, b1)); }
    else XF("sig=cmp-refl line=%zu what=cmp(b,b)=%s", lineno, show_sign(bb, b1));
  }
}

static void op_tri(V* a, V* b, V* c) {
  var x = build(a), y = build(b), z = build(c);
  int dup = has_dup_tuple(a) || has_dup_tuple(b) || has_dup_tuple(c);
  int kf = !walk_clean(b, a) || !walk_clean(a, b) || !walk_clean(c, b) || !walk_clean(b, c) || !walk_clean(c, a) || !walk_clean(a, c);
  int guard = dup || n_fail > 0;
  CmpCall ks[6] = { {x,y,0}, {y,x,0}, {y,z,0}, {z,y,0}, {x,z,0}, {z,x,0} };
  CmpRet rr[6]; int r[6]; const char* e = NULL; int odd = 0;
  run_calls(ks, rr, 6, guard);
  for (int k = 0; k < 6; k++) { if (rr[k].st == ST_EXC) e = rr[k].exc; else if (rr[k].st != ST_OK) odd = 1; r[k] = sign(rr[k].c); }
  if (e) { O("tri exc=%s", e); XF("sig=cmp-raises line=%zu what=cmp of two comparable values raised %s", lineno, e); return; }
  char sb[6][8];
  O("tri ab=%s ba=%s bc=%s cb=%s ac=%s ca=%s", show_sign(&rr[0], sb[0]), show_sign(&rr[1], sb[1]), show_sign(&rr[2], sb[2]),
    show_sign(&rr[3], sb[3]), show_sign(&rr[4], sb[4]), show_sign(&rr[5], sb[5]));
  if (odd) {
    if (kf) { n_kf++; XF("sig=" KF_SIG " line=%zu what=a comparison of the triple does not return (a Tuple with one object in two slots)", lineno); }
    else XF("sig=cmp-hang line=%zu what=a comparison of the triple does not return within %d ms of CPU time, or its process died", lineno, ANSWER_CPU_MS);
    return;
  }
  int ab = r[0], bc = r[2], ac = r[4];
  const char* sg_anti = kf ? KF_SIG : "cmp-antisym"; const char* sg_trans = kf ? KF_SIG : "cmp-trans"; const char* sg_order = kf ? KF_SIG : "cmp-order";
  if (r[1] != -ab || r[3] != -bc || r[5] != -ac) XF("sig=%s line=%zu what=triple not antisymmetric: ab=%d ba=%d bc=%d cb=%d ac=%d ca=%d", sg_anti, lineno, r[0], r[1], r[2], r[3], r[4], r[5]);
  /* transitivity in every rotation of the triple */
  int s[3][3] = { {ab, bc, ac}, {bc, -ac, -ab}, {-ac, ab, -bc} };   /* (x≤y, y≤z ⇒ x≤z) for (a,b,c), (b,c,a), (c,a,b) */
  for (int k = 0; k < 3; k++) {
    if (s[k][0] <= 0 && s[k][1] <= 0 && s[k][2] > 0) XF("sig=%s line=%zu what=x<=y and y<=z but x>z (rotation %d): ab=%d bc=%d ac=%d", sg_trans, lineno, k, ab, bc, ac);
    if (s[k][0] >= 0 && s[k][1] >= 0 && s[k][2] < 0) XF("sig=%s line=%zu what=x>=y and y>=z but x<z (rotation %d): ab=%d bc=%d ac=%d", sg_trans, lineno, k, ab, bc, ac);
    if (s[k][0] == 0 && s[k][1] != s[k][2]) XF("sig=%s line=%zu what=x=y but cmp(y,z)!=cmp(x,z) (rotation %d): ab=%d bc=%d ac=%d", sg_trans, lineno, k, ab, bc, ac);
  }
  if (ab != ref_cmp(a, b) || bc != ref_cmp(b, c) || ac != ref_cmp(a, c))
    XF("sig=%s line=%zu what=triple signs ab=%d bc=%d ac=%d, reference %d %d %d", sg_order, lineno, ab, bc, ac, ref_cmp(a, b), ref_cmp(b, c), ref_cmp(a, c));
}

static int same_scalar_kind(V** vs, size_t n) {
  for (size_t k = 0; k < n; k++) if (!valid(vs[k]) || vs[k]->kind > K_STR || vs[k]->kind != vs[0]->kind) return 0;
  return 1;
}

static char obuf[1 << 20]; static size_t olen;
static void oappend(const char* fmt, ...) {
  va_list va; va_start(va, fmt);
  if (olen < sizeof obuf - 64) olen += (size_t)vsnprintf(obuf + olen, sizeof obuf - olen - 1, fmt, va);
  va_end(va);
}

static void op_keys(V** vs, size_t n) {
  var kt = elem_type(vs[0]);
  var tree = new_raw(Tree, kt, Int), table = new_raw(Table, kt, Int);
  var exc = NULL;
  for (size_t k = 0; k < n && !exc; k++) {
    var key = build(vs[k]);
    V_TRY(exc, { set(tree, key, $I((int64_t)k)); set(table, key, $I((int64_t)k)); });
  }
  if (exc) { O("keys exc=%s", v_exc_name(exc)); XF("sig=cmp-raises line=%zu what=set raised %s", lineno, v_exc_name(exc)); del_raw(tree); del_raw(table); return; }
  /* reference: last index of an equal key, number of distinct keys */
  size_t distinct = 0;
  for (size_t k = 0; k < n; k++) { int first = 1; for (size_t j = 0; j < k; j++) if (ref_cmp(vs[j], vs[k]) == 0) first = 0; distinct += (size_t)first; }
  olen = 0; obuf[0] = 0;
  oappend("keys n=%zu tree=%zu table=%zu order=", n, len(tree), len(table));
  /* iteration order of the Tree: values (indices), and the oracle: keys strictly descending in the reference order */
  V* prev = NULL; size_t cnt = 0; int first = 1;
  foreach (key in tree) {
    int64_t idx = c_int(get(tree, key));
    oappend("%s%" PRId64, first ? "" : ",", idx); first = 0; cnt++;
    V* cur = (idx >= 0 && (size_t)idx < n) ? vs[idx] : NULL;
    if (!cur) XF("sig=cmp-lookup line=%zu what=Tree holds value %" PRId64 " that was never set", lineno, idx);
    if (prev && cur && ref_cmp(prev, cur) <= 0) XF("sig=cmp-tree-order line=%zu what=Tree iteration is not strictly descending in the reference order at position %zu", lineno, cnt);
    prev = cur;
  }
  if (len(tree) != distinct || cnt != distinct) XF("sig=cmp-lookup line=%zu what=Tree holds %zu keys (iterates %zu), %zu distinct keys were set", lineno, len(tree), cnt, distinct);
  if (len(table) != distinct) XF("sig=cmp-lookup line=%zu what=Table holds %zu keys, %zu distinct keys were set", lineno, len(table), distinct);
  for (int pass = 0; pass < 2; pass++) {
    var c = pass == 0 ? tree : table;
    oappend(pass == 0 ? " tget=" : " hget=");
    for (size_t k = 0; k < n; k++) {
      size_t want = k; for (size_t j = k + 1; j < n; j++) if (ref_cmp(vs[j], vs[k]) == 0) want = j;
      var volatile r = NULL; volatile bool m = false;
      V_TRY(exc, { m = mem(c, vs[k]->obj); r = get(c, vs[k]->obj); });
      if (exc || !m) {
        oappend("%s-", k ? "," : "");
        XF("sig=cmp-lookup line=%zu what=key #%zu that was set into the %s is not found again (%s)", lineno, k, pass == 0 ? "Tree" : "Table", exc ? v_exc_name(exc) : "mem is false");
      } else {
        int64_t got = c_int(r);
        oappend("%s%" PRId64, k ? "," : "", got);
        if (got != (int64_t)want) XF("sig=cmp-lookup line=%zu what=key #%zu looked up in the %s gives %" PRId64 ", the last equal key was set with %zu", lineno, k, pass == 0 ? "Tree" : "Table", got, want);
      }
    }
  }
  O("%s", obuf);
  del_raw(tree); del_raw(table);
}

static void show_scalar(var item, int kind) {
  if (kind == K_INT) oappend("%" PRId64, c_int(item));
  else if (kind == K_FLT) { double d = c_float(item); uint64_t b; memcpy(&b, &d, 8); oappend("%lld", float_key(b)); }
  else { oappend("s"); for (const unsigned char* p = (const unsigned char*)c_str(item); *p; p++) oappend("%02x", *p); }
}

static void op_sort(V** vs, size_t n) {
  int kind = vs[0]->kind;
  var arr = new_raw(Array, elem_type(vs[0]));
  for (size_t k = 0; k < n; k++) push(arr, build(vs[k]));
  var exc; V_TRY(exc, sort(arr));
  if (exc) { O("sort exc=%s", v_exc_name(exc)); XF("sig=cmp-raises line=%zu what=sort raised %s", lineno, v_exc_name(exc)); del_raw(arr); return; }
  olen = 0; obuf[0] = 0; oappend("sort ");
  for (size_t k = 0; k < len(arr); k++) { if (k) oappend(","); show_scalar(get(arr, $I((int64_t)k)), kind); }
  O("%s", obuf);
  /* oracle: ascending under cmp itself, and a permutation of the input (checked through the reference order) */
  for (size_t k = 0; k + 1 < len(arr); k++)
    if (cmp(get(arr, $I((int64_t)k)), get(arr, $I((int64_t)k + 1))) > 0) XF("sig=cmp-sort line=%zu what=sorted Array is not ascending under cmp at %zu", lineno, k);
  V** ref = malloc(n * sizeof(V*)); memcpy(ref, vs, n * sizeof(V*));
  for (size_t k = 1; k < n; k++) { V* x = ref[k]; size_t j = k; while (j > 0 && ref_cmp(ref[j-1], x) > 0) { ref[j] = ref[j-1]; j--; } ref[j] = x; }
  if (len(arr) != n) XF("sig=cmp-sort line=%zu what=sorted Array has %zu elements, %zu were pushed", lineno, len(arr), n);
  else for (size_t k = 0; k < n; k++) {
    var it = get(arr, $I((int64_t)k)); int bad = 0;
    if (kind == K_INT) bad = c_int(it) != ref[k]->i;
    else if (kind == K_FLT) { double d = c_float(it); bad = !(d == ref[k]->d); }
    else bad = strcmp(c_str(it), (char*)ref[k]->bytes) != 0;
    if (bad) { XF("sig=cmp-sort line=%zu what=sorted Array differs from the reference sort at position %zu", lineno, k); break; }
  }
  free(ref); del_raw(arr);
}

/* watchdog for the calls that run in this process: a tick per second of CPU time used by the process (so that a loaded machine
   cannot trigger it); two ticks without progress = a call that
   does not return.  The line is reported and the process ends (the rest of the file is not run). */
static void on_tick(int sig) {
  (void)sig;
  static sig_atomic_t seen = -1; static int stuck = 0;
  if (seen != op_serial) { seen = op_serial; stuck = 0; return; }
  if (++stuck < 2) return;
  X("sig=cmp-hang line=%zu what=an operation on this line does not return (no progress during 2 s of CPU time); the rest of the file was not run", lineno);
  fflush(stdout); _exit(0);
}

int main(int argc, char** argv) {
  v_init();
  { struct sigaction sa; memset(&sa, 0, sizeof sa); sa.sa_handler = on_tick; sa.sa_flags = SA_RESTART; sigaction(SIGVTALRM, &sa, NULL);
    struct itimerval it = { {1, 0}, {1, 0} }; setitimer(ITIMER_VIRTUAL, &it, NULL); }
  if (argc < 2) { fprintf(stderr, "usage: h_cmp <opfile>\n"); return 2; }
  size_t n; char** lines = v_read_lines(argv[1], &n);
  size_t nops = 0, nbad = 0;
  for (size_t li = 0; li < n; li++) {
    char* l = lines[li]; lineno = li + 1;
    if (v_skippable(l)) continue;
    /* tokenise */
    op_serial++;
    memset(named, 0, sizeof named); line_alias = 0;
    size_t cap = strlen(l) / 2 + 2; toks = malloc(cap * sizeof(char*)); ntok = 0; tpos = 0;
    for (char* p = strtok(l, " "); p; p = strtok(NULL, " ")) toks[ntok++] = p;
    V* vs[MAXCOUNT + 1]; size_t nv = 0; int ok = ntok >= 1;
    char* op = ntok ? toks[0] : (char*)""; tpos = 1;
    aclass = 0;
    { size_t ol = strlen(op);
      if (ol > 2 && op[ol-2] == '.' && (op[ol-1] == 'n' || op[ol-1] == 's')
          && (strncmp(op, "cmp.", 4) == 0 || strncmp(op, "lcmp.", 5) == 0 || strncmp(op, "tri.", 4) == 0)
          && (ol == 5 || ol == 6)) { aclass = op[ol-1] == 'n' ? 1 : 2; op[ol-2] = 0; } }
    while (ok && tpos < ntok) { if (nv >= MAXCOUNT) { ok = 0; break; } V* v = parse_val(); if (!v) { ok = 0; break; } vs[nv++] = v; }
    nops++;
    if (ok && strcmp(op, "cmp") == 0 && nv == 2 && runnable(vs[0], vs[1])) op_cmp(vs[0], vs[1], 1);
    else if (ok && strcmp(op, "lcmp") == 0 && nv == 2 && runnable(vs[0], vs[1])) op_cmp(vs[0], vs[1], 0);
    else if (ok && strcmp(op, "tri") == 0 && nv == 3 && valid(vs[0]) && valid(vs[1]) && valid(vs[2])
             && ok_pair(vs[0], vs[1]) && ok_pair(vs[1], vs[2]) && ok_pair(vs[0], vs[2])) op_tri(vs[0], vs[1], vs[2]);
    else if (ok && strcmp(op, "keys") == 0 && nv >= 1 && same_scalar_kind(vs, nv)) op_keys(vs, nv);
    else if (ok && strcmp(op, "sort") == 0 && nv >= 1 && same_scalar_kind(vs, nv)) op_sort(vs, nv);
    else { O("bad-op"); nbad++; }
    for (size_t k = 0; k < nv; k++) v_free(vs[k]);
    free(toks);
  }
  if (key_disagreements) XF("sig=float-key line=0 what=the C relational operators and the sign-magnitude key of the bits disagree on %zu pairs of doubles", key_disagreements);
  I("ops=%zu bad=%zu cmp_calls=%zu raised=%zu nonzero=%zu aliased=%zu forked=%zu hangs=%zu known=%zu", nops, nbad, n_cmp, n_exc, n_nonzero, n_alias, n_forked, n_hang, n_kf);
  return 0;
}
