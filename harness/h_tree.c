/* harness/h_tree.c — engine `tree` (C03): runs op files on the real Tree (src/Tree.c) of the tree under test.
 *
 * op file (one op per line; trees are named by small integers, keys are Int (`i`) or String (`s`), values Int):
 *   auto 0|1                 dump the whole tree after every mutating op (default 1) or only `n=`
 *   new T i|s [k v]...       set T k v      rem T k      get T k      mem T k      len T      resize T n
 *   assign T S               copy T S       iter T       riter T      del T        check T
 *   remroot T                rem of the key at the root          rem2 T   rem of the first node (preorder) with two children
 *
 * O lines (reproduced verbatim by lean/Driver/Tree.lean from the model):
 *   O <op> <outcome> n=<nitems> ok=<0|1> h=<height> t=<preorder "(Ck:v left right)", "." = NULL | #hash when n>40>
 *   O get <value>|KeyError      O mem 0|1      O len <n>      O iter k:v ...      O riter k:v ...
 * The dump is white-box: colours from the parent word's low bit, children from the node's link fields.
 *
 * Direct oracle (independent of the Lean model): a sorted array of (key, value) per tree, maintained by this file with
 * its own comparison (integer compare / strcmp), plus a red-black checker.  X lines:
 *   tree-map      len/mem/get or the in-order contents differ from the reference map
 *   tree-keyerror KeyError raised for a present key or not raised for an absent one, or another exception
 *   tree-iter     forward iteration is not the strictly monotone key sequence / backward is not its reverse / no Terminal
 *   tree-order    in-order key sequence of the nodes is not strictly monotone
 *   tree-rb       root red, red node with red child, or unequal black heights
 *   tree-parent   parent(child) != node, or parent(root) != NULL
 *   tree-count    number of nodes != nitems
 *   tree-height   height > 2*log2(n+1)
 *   tree-self-assign   assign(t, t) changed t   (known finding, see KNOWN_FINDINGS.txt)
 */
#include "common.h"
#include <signal.h>
#include <limits.h>
#include <sys/time.h>

#define MAXT 64
#define BIG 40

typedef struct { long i; char* s; long v; } Ent;       /* reference entry: key (i or s) and value */
typedef struct { Ent* e; size_t n, cap; int isstr; } RefMap;

static size_t lineno = 0;
static int automode = 1;
static size_t st_ops = 0, st_set_new = 0, st_set_upd = 0, st_rem = 0, st_rem2 = 0, st_remroot = 0, st_remblack = 0,
  st_keyerr = 0, st_maxn = 0, st_maxh = 0, st_checks = 0, st_iters = 0;

/* ------------------------------------------------------------------------------------------------ reference map */
static int ref_cmp(const RefMap* r, const Ent* a, long ki, const char* ks) {
  if (r->isstr) { int c = strcmp(a->s, ks); return c < 0 ? -1 : c > 0 ? 1 : 0; }
  return a->i < ki ? -1 : a->i > ki ? 1 : 0;
}
/* first index whose key is >= the key (ascending array) */
static size_t ref_lower(const RefMap* r, long ki, const char* ks) {
  size_t lo = 0, hi = r->n;
  while (lo < hi) { size_t mid = (lo + hi) / 2; if (ref_cmp(r, &r->e[mid], ki, ks) < 0) lo = mid + 1; else hi = mid; }
  return lo;
}
static int ref_find(const RefMap* r, long ki, const char* ks, size_t* at) {
  size_t p = ref_lower(r, ki, ks); *at = p;
  return p < r->n && ref_cmp(r, &r->e[p], ki, ks) == 0;
}
static void ref_clear(RefMap* r) {
  for (size_t i = 0; i < r->n; i++) free(r->e[i].s);
  r->n = 0;
}
static void ref_set(RefMap* r, long ki, const char* ks, long v) {
  size_t p;
  if (ref_find(r, ki, ks, &p)) { r->e[p].v = v; return; }
  if (r->n == r->cap) { r->cap = r->cap ? r->cap * 2 : 16; r->e = realloc(r->e, r->cap * sizeof(Ent)); }
  memmove(&r->e[p+1], &r->e[p], (r->n - p) * sizeof(Ent));
  r->e[p].i = ki; r->e[p].s = ks ? strdup(ks) : NULL; r->e[p].v = v; r->n++;
}
static int ref_rem(RefMap* r, long ki, const char* ks) {
  size_t p;
  if (!ref_find(r, ki, ks, &p)) return 0;
  free(r->e[p].s);
  memmove(&r->e[p], &r->e[p+1], (r->n - p - 1) * sizeof(Ent));
  r->n--; return 1;
}
static void ref_copy(RefMap* dst, const RefMap* src) {
  if (dst == src) return;
  ref_clear(dst); dst->isstr = src->isstr;
  if (dst->cap < src->n) { dst->cap = src->n + 16; dst->e = realloc(dst->e, dst->cap * sizeof(Ent)); }
  for (size_t i = 0; i < src->n; i++) { dst->e[i] = src->e[i]; if (src->e[i].s) dst->e[i].s = strdup(src->e[i].s); }
  dst->n = src->n;
}

/* ------------------------------------------------------------------------------------------------ hashing (same in Lean) */
static uint64_t mixstep(uint64_t h, uint64_t x) { return (h ^ x) * 0x100000001b3ULL; }
#define FNV_INIT 0xcbf29ce484222325ULL
static uint64_t str_hash(const char* s) { uint64_t h = FNV_INIT; for (; *s; s++) h = mixstep(h, (unsigned char)*s); return h; }

/* ------------------------------------------------------------------------------------------------ white-box access */
static var node_of_key(var key) { return (char*)key - sizeof(struct Header) - 3 * sizeof(var); }
static long node_val(struct Tree* m, var node) { return (long)c_int(Tree_Val(m, node)); }
static uint64_t node_keyhash(struct Tree* m, var node, int isstr) {
  return isstr ? str_hash(c_str(Tree_Key(m, node))) : (uint64_t)c_int(Tree_Key(m, node));
}
static uint64_t tree_hash(struct Tree* m, var node, int isstr) {
  if (node == NULL) return 0x9E3779B97F4A7C15ULL;
  uint64_t h = FNV_INIT;
  h = mixstep(h, Tree_Is_Red(m, node) ? 1 : 0);
  h = mixstep(h, node_keyhash(m, node, isstr));
  h = mixstep(h, (uint64_t)node_val(m, node));
  h = mixstep(h, tree_hash(m, *Tree_Left(m, node), isstr));
  h = mixstep(h, tree_hash(m, *Tree_Right(m, node), isstr));
  return h;
}

static char* dbuf = NULL; static size_t dlen = 0, dcap = 0;
static void dput(const char* s) {
  size_t l = strlen(s);
  if (dlen + l + 1 > dcap) { dcap = (dcap + l + 64) * 2; dbuf = realloc(dbuf, dcap); }
  memcpy(dbuf + dlen, s, l + 1); dlen += l;
}
static void preorder(struct Tree* m, var node, int isstr, int depth) {
  if (node == NULL) { dput("."); return; }
  if (depth > 200) { dput("<deep>"); return; }
  char b[64];
  dput(Tree_Is_Red(m, node) ? "(R" : "(B");
  if (isstr) dput(c_str(Tree_Key(m, node))); else { snprintf(b, sizeof b, "%ld", (long)c_int(Tree_Key(m, node))); dput(b); }
  snprintf(b, sizeof b, ":%ld ", node_val(m, node)); dput(b);
  preorder(m, *Tree_Left(m, node), isstr, depth + 1); dput(" ");
  preorder(m, *Tree_Right(m, node), isstr, depth + 1); dput(")");
}

/* ------------------------------------------------------------------------------------------------ red-black checker */
typedef struct { int rr, bh_bad, parent_bad, deep; size_t count; var* inorder; size_t cap; } Walk;
static int walk(struct Tree* m, var node, var parent, Walk* w, int depth, int* height) {   /* returns black height */
  if (node == NULL) { *height = 0; return 0; }
  if (depth > 400) { w->deep = 1; *height = 0; return 0; }
  if (Tree_Get_Parent(m, node) != parent) w->parent_bad++;
  var l = *Tree_Left(m, node), r = *Tree_Right(m, node);
  if (Tree_Is_Red(m, node) && (Tree_Is_Red(m, l) || Tree_Is_Red(m, r))) w->rr++;
  int hl, hr;
  int bl = walk(m, l, node, w, depth + 1, &hl);
  if (w->count == w->cap) { w->cap = w->cap ? w->cap * 2 : 64; w->inorder = realloc(w->inorder, w->cap * sizeof(var)); }
  w->inorder[w->count++] = node;
  int br = walk(m, r, node, w, depth + 1, &hr);
  if (bl != br) w->bh_bad++;
  *height = (hl > hr ? hl : hr) + 1;
  return bl + (Tree_Is_Red(m, node) ? 0 : 1);
}

static int key_matches(struct Tree* m, var node, const RefMap* r, const Ent* e) {
  if (r->isstr) return strcmp(c_str(Tree_Key(m, node)), e->s) == 0;
  return (long)c_int(Tree_Key(m, node)) == e->i;
}
static int node_cmp(struct Tree* m, var a, var b, int isstr) {   /* own comparison of two nodes' keys */
  if (isstr) { int c = strcmp(c_str(Tree_Key(m, a)), c_str(Tree_Key(m, b))); return c < 0 ? -1 : c > 0 ? 1 : 0; }
  long x = (long)c_int(Tree_Key(m, a)), y = (long)c_int(Tree_Key(m, b));
  return x < y ? -1 : x > y ? 1 : 0;
}

static var first_two_children(struct Tree* m, var node) {
  if (node == NULL) return NULL;
  if (*Tree_Left(m, node) && *Tree_Right(m, node)) return node;
  var x = first_two_children(m, *Tree_Left(m, node));
  return x ? x : first_two_children(m, *Tree_Right(m, node));
}

static Walk W;
/* structural check; fills W; returns the `ok` flag of the dump; *height_out = height */
static int rb_check(struct Tree* m, const RefMap* r, int* height_out, int report) {
  W.rr = W.bh_bad = W.parent_bad = W.deep = 0; W.count = 0;
  int height = 0;
  walk(m, m->root, NULL, &W, 0, &height);
  *height_out = height;
  int rootred = Tree_Is_Red(m, m->root);
  int desc = 1, mono = 1;
  for (size_t i = 0; i + 1 < W.count; i++) {
    int c = node_cmp(m, W.inorder[i], W.inorder[i+1], r->isstr);
    if (c <= 0) desc = 0;
    if (c == 0 || (i > 0 && c != node_cmp(m, W.inorder[0], W.inorder[1], r->isstr))) mono = 0;
  }
  int ok = !rootred && !W.rr && !W.bh_bad && !W.deep && desc && W.count == m->nitems;
  if (report) {
    if (rootred) X("sig=tree-rb line=%zu what=root is red", lineno);
    if (W.rr) X("sig=tree-rb line=%zu what=%d red node(s) with a red child", lineno, W.rr);
    if (W.bh_bad || W.deep) X("sig=tree-rb line=%zu what=black height differs between the subtrees of %d node(s)", lineno, W.bh_bad + W.deep);
    if (W.parent_bad) X("sig=tree-parent line=%zu what=%d node(s) whose parent link is not the node that points to them", lineno, W.parent_bad);
    if (!mono) X("sig=tree-order line=%zu what=in-order key sequence of the nodes is not strictly monotone", lineno);
    if (W.count != m->nitems) X("sig=tree-count line=%zu what=%zu nodes reachable but nitems=%zu", lineno, W.count, m->nitems);
    /* height <= 2*log2(n+1)  <=>  2^height <= (n+1)^2 */
    size_t n = W.count;
    if (height >= 120 || ((unsigned __int128)1 << height) > (unsigned __int128)(n + 1) * (n + 1))
      X("sig=tree-height line=%zu what=height %d exceeds 2*log2(%zu+1)", lineno, height, n);
    /* contents = reference map (either direction; the direction is fixed by the dump comparison with the model) */
    if (W.count != r->n) X("sig=tree-map line=%zu what=tree holds %zu bindings, reference map %zu", lineno, W.count, r->n);
    else {
      int asc = 1, dsc = 1;
      for (size_t i = 0; i < r->n; i++) {
        if (!key_matches(m, W.inorder[i], r, &r->e[i]) || node_val(m, W.inorder[i]) != r->e[i].v) asc = 0;
        if (!key_matches(m, W.inorder[i], r, &r->e[r->n-1-i]) || node_val(m, W.inorder[i]) != r->e[r->n-1-i].v) dsc = 0;
      }
      if (!asc && !dsc) X("sig=tree-map line=%zu what=in-order bindings differ from the reference map", lineno);
    }
  }
  if ((size_t)height > st_maxh) st_maxh = height;
  if (W.count > st_maxn) st_maxn = W.count;
  return ok;
}

/* iteration through the public interface, compared with the reference (strictly monotone, each key once, reverse) */
static void iter_check(var t, struct Tree* m, const RefMap* r) {
  size_t n = r->n, cnt = 0; int bad = 0, asc = 1, dsc = 1;
  var* seen = malloc((n + 2) * sizeof(var));
  for (var k = iter_init(t); k != Terminal; k = iter_next(t, k)) {
    if (cnt > n) { bad = 1; break; }
    seen[cnt++] = k;
  }
  if (bad || cnt != n) { X("sig=tree-iter line=%zu what=forward iteration yields %s%zu keys, map has %zu", lineno, bad ? "more than " : "", cnt, n); free(seen); return; }
  for (size_t i = 0; i < n; i++) {
    var node = node_of_key(seen[i]);
    if (!key_matches(m, node, r, &r->e[i])) asc = 0;
    if (!key_matches(m, node, r, &r->e[n-1-i])) dsc = 0;
  }
  if (!asc && !dsc) X("sig=tree-iter line=%zu what=forward iteration is not the strictly monotone sequence of the map's keys", lineno);
  size_t j = n; bad = 0;
  for (var k = iter_last(t); k != Terminal; k = iter_prev(t, k)) {
    if (j == 0) { bad = 1; break; }
    j--;
    if (k != seen[j]) { bad = 1; break; }
  }
  if (bad || j != 0) X("sig=tree-iter line=%zu what=backward iteration is not the exact reverse of forward iteration", lineno);
  free(seen);
  st_iters++;
}

/* len / mem / get against the reference for every key of the map and for neighbours that are absent */
static void map_check(var t, const RefMap* r, int full) {
  if (len(t) != r->n) X("sig=tree-map line=%zu what=len %zu, reference map has %zu", lineno, len(t), r->n);
  size_t step = full || r->n <= 64 ? 1 : r->n / 48;
  for (size_t i = 0; i < r->n; i += step) {
    var key = r->isstr ? (var)$S(r->e[i].s) : (var)$I(r->e[i].i);
    var exc, val = NULL;
    if (!mem(t, key)) X("sig=tree-map line=%zu what=mem false for a key of the map", lineno);
    V_TRY(exc, val = get(t, key));
    if (exc) X("sig=tree-keyerror line=%zu what=get raised %s for a key of the map", lineno, v_exc_name(exc));
    else if ((long)c_int(val) != r->e[i].v) X("sig=tree-map line=%zu what=get returned %ld, map has %ld", lineno, (long)c_int(val), r->e[i].v);
    /* an absent neighbour */
    if (!r->isstr) {
      long a = r->e[i].i == LONG_MAX ? LONG_MIN : r->e[i].i + 1; size_t p;
      if (!ref_find(r, a, NULL, &p)) {
        if (mem(t, $I(a))) X("sig=tree-map line=%zu what=mem true for absent key %ld", lineno, a);
        V_TRY(exc, val = get(t, $I(a)));
        if (exc != KeyError) X("sig=tree-keyerror line=%zu what=get of absent key %ld: %s", lineno, a, v_exc_name(exc));
      }
    } else {
      char buf[300]; size_t p; snprintf(buf, sizeof buf, "%s~", r->e[i].s);
      if (!ref_find(r, 0, buf, &p)) {
        if (mem(t, $S(buf))) X("sig=tree-map line=%zu what=mem true for absent key %s", lineno, buf);
        V_TRY(exc, val = get(t, $S(buf)));
        if (exc != KeyError) X("sig=tree-keyerror line=%zu what=get of absent key %s: %s", lineno, buf, v_exc_name(exc));
      }
    }
  }
}

/* the dump that follows a mutating op; also runs the oracle on the whole tree when `full` */
static void dump_state(char* out, size_t outsz, var t, RefMap* r, int full) {
  struct Tree* m = t;
  if (!full) {
    if (m->nitems != r->n) X("sig=tree-map line=%zu what=nitems %zu, reference map has %zu", lineno, m->nitems, r->n);
    snprintf(out, outsz, "n=%zu", m->nitems); return;
  }
  int height = 0;
  int ok = rb_check(m, r, &height, 1);
  iter_check(t, m, r);
  map_check(t, r, 0);
  st_checks++;
  int n = snprintf(out, outsz, "n=%zu ok=%d h=%d t=", m->nitems, ok, height);
  if (m->nitems > BIG) snprintf(out + n, outsz - n, "#%016llx", (unsigned long long)tree_hash(m, m->root, r->isstr));
  else { dlen = 0; if (dbuf) dbuf[0] = 0; preorder(m, m->root, r->isstr, 0); snprintf(out + n, outsz - n, "%s", dbuf ? dbuf : "."); }
}

static void print_iter(const char* name, var t, RefMap* r, int backward) {
  struct Tree* m = t;
  size_t n = m->nitems, cnt = 0; int nonterm = 0;
  uint64_t h = FNV_INIT;
  dlen = 0; dput("");
  char b[64];
  for (var k = backward ? iter_last(t) : iter_init(t); k != Terminal; k = backward ? iter_prev(t, k) : iter_next(t, k)) {
    if (cnt > n) { nonterm = 1; break; }
    var node = node_of_key(k);
    h = mixstep(mixstep(h, node_keyhash(m, node, r->isstr)), (uint64_t)node_val(m, node));
    if (n <= BIG) {
      if (cnt) dput(" ");
      if (r->isstr) dput(c_str(k)); else { snprintf(b, sizeof b, "%ld", (long)c_int(k)); dput(b); }
      snprintf(b, sizeof b, ":%ld", node_val(m, node)); dput(b);
    }
    cnt++;
  }
  if (nonterm) { X("sig=tree-iter line=%zu what=%s iteration does not reach Terminal", lineno, name); O("%s NOT-TERMINATED", name); return; }
  if (cnt > BIG) O("%s #%zu:%016llx", name, cnt, (unsigned long long)h);
  else O("%s %s", name, dbuf);
  iter_check(t, m, r);
}

/* ------------------------------------------------------------------------------------------------ op interpreter */
static char* toks[4096]; static int ntok;
static void split(char* l) {
  ntok = 0;
  for (char* p = strtok(l, " "); p && ntok < 4096; p = strtok(NULL, " ")) toks[ntok++] = p;
}
static int parse_long(const char* s, long* out) {
  char* e; if (!*s) return 0; long v = strtol(s, &e, 10); if (*e) return 0; *out = v; return 1;
}
static int parse_nat(const char* s, long* out) {
  if (!*s) return 0; for (const char* p = s; *p; p++) if (*p < '0' || *p > '9') return 0;
  return parse_long(s, out);
}

int main(int argc, char** argv) {
  v_init();
  if (argc < 2) { fprintf(stderr, "usage: h_tree <opfile>\n"); return 2; }
  alarm(140);                                    /* whole file, wall clock */
  size_t nl; char** lines = v_read_lines(argv[1], &nl);
  var trees[MAXT]; RefMap refs[MAXT];           /* `trees` lives on main's stack: the collector scans it */
  memset(trees, 0, sizeof trees); memset(refs, 0, sizeof refs);
  static char dump[1 << 16];

  for (size_t li = 0; li < nl; li++) {
    if (v_skippable(lines[li])) continue;
    lineno = li + 1;
    /* watchdog: no single op needs more than a few seconds of CPU; a tree whose links form a cycle makes the library
       loop forever — the process then dies with SIGPROF and the runner reports the crash */
    { struct itimerval tv = { {0, 0}, {4, 0} }; setitimer(ITIMER_PROF, &tv, NULL); }
    char* l = strdup(lines[li]);
    split(l);
    long T = -1, S = -1, v = 0, ki = 0; const char* ks = NULL;
    #define BAD do { O("bad-op"); goto next; } while (0)
    #define NEED_TREE(ix) do { if (!parse_nat(toks[ix], &T) || T >= MAXT || !trees[T]) BAD; } while (0)
    #define PARSE_KEY(tok, isstr) do { if (isstr) { ks = (tok); ki = 0; if (!*ks) BAD; } else { ks = NULL; if (!parse_long((tok), &ki)) BAD; } } while (0)
    #define KEYOBJ(isstr) ((isstr) ? (var)$S((char*)ks) : (var)$I(ki))
    if (ntok == 0) BAD;
    const char* op = toks[0];

    if (!strcmp(op, "auto") && ntok == 2) {
      long a; if (!parse_nat(toks[1], &a)) BAD;
      automode = a != 0;
    }
    else if (!strcmp(op, "new") && ntok >= 3) {
      if (!parse_nat(toks[1], &T) || T >= MAXT) BAD;
      int isstr; if (!strcmp(toks[2], "i")) isstr = 0; else if (!strcmp(toks[2], "s")) isstr = 1; else BAD;
      if ((ntok - 3) % 2) BAD;
      int np = (ntok - 3) / 2;
      for (int i = 0; i < np; i++) { long x; if (!isstr && !parse_long(toks[3+2*i], &x)) BAD; if (!parse_long(toks[4+2*i], &x)) BAD; }
      /* the constructor's argument tuple: key type, value type, k1, v1, ..., Terminal */
      var* items = malloc((2 * np + 3) * sizeof(var));
      items[0] = isstr ? String : Int; items[1] = Int;
      for (int i = 0; i < np; i++) {
        long x;
        if (isstr) items[2+2*i] = new_raw(String, $S(toks[3+2*i])); else { parse_long(toks[3+2*i], &x); items[2+2*i] = new_raw(Int, $I(x)); }
        parse_long(toks[4+2*i], &x); items[3+2*i] = new_raw(Int, $I(x));
      }
      items[2+2*np] = Terminal;
      if (trees[T]) { del(trees[T]); trees[T] = NULL; }
      trees[T] = new_with(Tree, $(Tuple, items));
      ref_clear(&refs[T]); refs[T].isstr = isstr;
      for (int i = 0; i < np; i++) {
        long x, kk = 0; parse_long(toks[4+2*i], &x);
        if (!isstr) parse_long(toks[3+2*i], &kk);
        ref_set(&refs[T], kk, isstr ? toks[3+2*i] : NULL, x);
      }
      for (int i = 0; i < 2 * np; i++) del_raw(items[2+i]);
      free(items);
      dump_state(dump, sizeof dump, trees[T], &refs[T], automode);
      O("new ok %s", dump); st_ops++;
    }
    else if (!strcmp(op, "set") && ntok == 4) {
      NEED_TREE(1); PARSE_KEY(toks[2], refs[T].isstr); if (!parse_long(toks[3], &v)) BAD;
      size_t before = len(trees[T]), p;
      int had = ref_find(&refs[T], ki, ks, &p);
      set(trees[T], KEYOBJ(refs[T].isstr), $I(v));
      ref_set(&refs[T], ki, ks, v);
      if (had) st_set_upd++; else st_set_new++;
      if (len(trees[T]) != before + (had ? 0 : 1)) X("sig=tree-map line=%zu what=set of %s key changed len from %zu to %zu", lineno, had ? "a present" : "an absent", before, len(trees[T]));
      dump_state(dump, sizeof dump, trees[T], &refs[T], automode);
      O("set ok %s", dump); st_ops++;
    }
    else if ((!strcmp(op, "rem") && ntok == 3) || ((!strcmp(op, "remroot") || !strcmp(op, "rem2")) && ntok == 2)) {
      NEED_TREE(1);
      struct Tree* m = trees[T]; size_t p;
      static char keycopy[512];
      if (ntok == 3) PARSE_KEY(toks[2], refs[T].isstr);
      else {
        /* white-box choice of the key: the root's, or that of the first node in preorder that has two children */
        var pick = op[3] == 'r' ? m->root : first_two_children(m, m->root);
        if (!pick) { O("%s none", op); goto next; }
        if (refs[T].isstr) { snprintf(keycopy, sizeof keycopy, "%s", c_str(Tree_Key(m, pick))); ks = keycopy; ki = 0; }
        else { ks = NULL; ki = (long)c_int(Tree_Key(m, pick)); }
      }
      int had = ref_find(&refs[T], ki, ks, &p);
      if (had) {   /* statistics about the case being exercised (white-box, before the removal) */
        var node = m->root;
        while (node) { int c = cmp(Tree_Key(m, node), KEYOBJ(refs[T].isstr)); if (c == 0) break; node = c < 0 ? *Tree_Left(m, node) : *Tree_Right(m, node); }
        if (node) {
          if (node == m->root) st_remroot++;
          var victim = node;
          if (*Tree_Left(m, node) && *Tree_Right(m, node)) { st_rem2++; victim = Tree_Maximum(m, *Tree_Left(m, node)); }
          if (Tree_Is_Black(m, victim)) st_remblack++;
        }
      }
      var exc; V_TRY(exc, rem(trees[T], KEYOBJ(refs[T].isstr)));
      if (had && exc) X("sig=tree-keyerror line=%zu what=rem of a present key raised %s", lineno, v_exc_name(exc));
      if (!had && exc != KeyError) X("sig=tree-keyerror line=%zu what=rem of an absent key raised %s instead of KeyError", lineno, v_exc_name(exc));
      if (had) { ref_rem(&refs[T], ki, ks); st_rem++; } else st_keyerr++;
      dump_state(dump, sizeof dump, trees[T], &refs[T], automode);
      O("rem %s %s", exc ? v_exc_name(exc) : "ok", dump); st_ops++;
    }
    else if (!strcmp(op, "get") && ntok == 3) {
      NEED_TREE(1); PARSE_KEY(toks[2], refs[T].isstr);
      size_t p; int had = ref_find(&refs[T], ki, ks, &p);
      var exc, val = NULL; V_TRY(exc, val = get(trees[T], KEYOBJ(refs[T].isstr)));
      if (had && exc) X("sig=tree-keyerror line=%zu what=get of a present key raised %s", lineno, v_exc_name(exc));
      if (!had && exc != KeyError) X("sig=tree-keyerror line=%zu what=get of an absent key raised %s instead of KeyError", lineno, v_exc_name(exc));
      if (had && !exc && (long)c_int(val) != refs[T].e[p].v) X("sig=tree-map line=%zu what=get returned %ld, reference map has %ld", lineno, (long)c_int(val), refs[T].e[p].v);
      if (exc) { O("get %s", v_exc_name(exc)); st_keyerr++; } else O("get %ld", (long)c_int(val));
      st_ops++;
    }
    else if (!strcmp(op, "mem") && ntok == 3) {
      NEED_TREE(1); PARSE_KEY(toks[2], refs[T].isstr);
      size_t p; int had = ref_find(&refs[T], ki, ks, &p);
      int got = mem(trees[T], KEYOBJ(refs[T].isstr)) ? 1 : 0;
      if (got != had) X("sig=tree-map line=%zu what=mem returned %d, reference map says %d", lineno, got, had);
      O("mem %d", got); st_ops++;
    }
    else if (!strcmp(op, "len") && ntok == 2) {
      NEED_TREE(1);
      size_t n = len(trees[T]);
      if (n != refs[T].n) X("sig=tree-map line=%zu what=len %zu, reference map has %zu", lineno, n, refs[T].n);
      O("len %zu", n); st_ops++;
    }
    else if (!strcmp(op, "resize") && ntok == 3) {
      NEED_TREE(1); long n; if (!parse_nat(toks[2], &n)) BAD;
      var exc; V_TRY(exc, resize(trees[T], (size_t)n));
      if (n == 0) { if (exc) X("sig=tree-map line=%zu what=resize(t, 0) raised %s", lineno, v_exc_name(exc)); ref_clear(&refs[T]); }
      dump_state(dump, sizeof dump, trees[T], &refs[T], automode);
      O("resize %s %s", exc ? v_exc_name(exc) : "ok", dump); st_ops++;
    }
    else if (!strcmp(op, "assign") && ntok == 3) {
      NEED_TREE(1); if (!parse_nat(toks[2], &S) || S >= MAXT || !trees[S]) BAD;
      assign(trees[T], trees[S]);
      if (T == S) {
        /* the ordered-map meaning of t := t is "unchanged" */
        struct Tree* m = trees[T];
        if (m->nitems != refs[T].n) {
          X("sig=tree-self-assign line=%zu what=assign(t, t) left %zu of %zu bindings", lineno, m->nitems, refs[T].n);
          ref_clear(&refs[T]);   /* follow the implementation from here on */
        }
      } else ref_copy(&refs[T], &refs[S]);
      dump_state(dump, sizeof dump, trees[T], &refs[T], automode);
      O("assign ok %s", dump); st_ops++;
    }
    else if (!strcmp(op, "copy") && ntok == 3) {
      if (!parse_nat(toks[1], &T) || T >= MAXT) BAD;
      if (!parse_nat(toks[2], &S) || S >= MAXT || !trees[S]) BAD;
      var c = copy(trees[S]);
      if (T != S) { ref_copy(&refs[T], &refs[S]); }
      if (trees[T]) del(trees[T]);
      trees[T] = c;
      dump_state(dump, sizeof dump, trees[T], &refs[T], automode);
      O("copy ok %s", dump); st_ops++;
    }
    else if ((!strcmp(op, "iter") || !strcmp(op, "riter")) && ntok == 2) {
      NEED_TREE(1);
      print_iter(op, trees[T], &refs[T], op[0] == 'r'); st_ops++;
    }
    else if (!strcmp(op, "del") && ntok == 2) {
      NEED_TREE(1);
      del(trees[T]); trees[T] = NULL; ref_clear(&refs[T]);
      O("del ok"); st_ops++;
    }
    else if (!strcmp(op, "check") && ntok == 2) {
      NEED_TREE(1);
      dump_state(dump, sizeof dump, trees[T], &refs[T], 1);
      map_check(trees[T], &refs[T], 1);
      O("check %s", dump);
    }
    else BAD;
  next:
    free(l);
  }
  I("ops=%zu set_new=%zu set_update=%zu rem=%zu rem_two_children=%zu rem_root=%zu rem_black=%zu keyerror=%zu max_n=%zu max_height=%zu full_checks=%zu",
    st_ops, st_set_new, st_set_upd, st_rem, st_rem2, st_remroot, st_remblack, st_keyerr, st_maxn, st_maxh, st_checks);
  for (int i = 0; i < MAXT; i++) if (trees[i]) { del(trees[i]); trees[i] = NULL; }
  return 0;
}
