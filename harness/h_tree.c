/* harness/h_tree.c — engine `tree` (C03): runs op files on the real Tree (src/Tree.c) of the tree under test.
 *
 * op file (one op per line; trees are named by small integers):
 *   key kinds    i = Int (8 bytes), s = String (8 bytes), w = struct K3 { int64_t a, b, c; } with a lexicographic Cmp
 *                instance (24 bytes), written `a,b,c`
 *   value kinds  (none) = Int (8 bytes), s = String (8 bytes, owns its buffer), 3 = struct V3 { int64_t w[3]; } (24 bytes),
 *                5 = struct V5 (40 bytes): plain structs without instances, written `x,y,z` / `x,y,z,p,q`
 *   auto 0|1                 dump the whole tree after every mutating op (default 1) or only `n=`
 *   new T <kind> [k v]...    kind = key kind followed by value kind: i s w  is ss ws  i3 s3 w3  i5 s5 w5
 *   set T k v      rem T k      get T k      mem T k      len T      resize T n
 *   assign T S               copy T S       iter T       riter T      del T        check T
 *   remroot T                rem of the key at the root          rem2 T   rem of the first node (preorder) with two children
 *   arguments that are the tree's OWN objects (K = the key object `foreach (K in t)` hands out for the key k; get(t, k2) = the
 *   value object inside the node of k2):
 *   setk T k v               set(t, K, v)             setv T k k2    set(t, k, get(t, k2))     setkv T k k2   set(t, K, get(t, k2))
 *   getk T k    memk T k    remk T k                  get / mem / rem given K (for rem: K lives in the node that is removed)
 *   walk T v                 foreach (K in t) { set(t, K, v); }        walkself T    foreach (K in t) { set(t, K, get(t, K)); }
 *   assignmap T <kind> [k v]...   assign(t, obj) with obj a map that is NOT a Tree (PMap below: pairs iterated in this order)
 *   newodd T <kind> a b ... (odd count)   new(Tree, K, V, a, b, ...) with an odd number of arguments: FormatError, no tree
 *   cmp T S                  cmp(t, s) for two Trees of the same kind (Tree_Cmp: lock-step walk, values fetched by Tree_Get / get)
 *   hash T                   hash(t) (Tree_Hash: xor of hash(key) ^ hash(value) along the walk)
 *   links T                  the link table: per node in preorder `key<parentkey:colour`, decoded from the raw parent word
 *
 * O lines (reproduced verbatim by lean/Driver/Tree.lean from the model):
 *   O <op> <outcome> n=<nitems> ok=<0|1> h=<height> sz=<ksize>/<vsize> t=<preorder "(Ck:v left right)", "." = NULL | #hash when n>40>
 *   (k and v with every 8-byte word, comma separated, read from the node with the widths of the key / value type)
 *   O get <value>|KeyError      O mem 0|1      O len <n>      O iter k:v ...      O riter k:v ...
 * The dump is white-box: colours from the parent word's low bit, children from the node's link fields.
 *
 * Direct oracle (independent of the Lean model): a sorted array of (key, value) per tree, maintained by this file with
 * its own comparison (integer compare / strcmp), plus a red-black checker.  X lines:
 *   tree-map      len/mem/get or the in-order contents differ from the reference map (whole keys and whole values: every word)
 *   tree-size     ksize/vsize of the Tree are not the sizes of its key/value types
 *   tree-keyerror KeyError raised for a present key or not raised for an absent one, or another exception
 *   tree-raise    new / set / assign / copy raised an exception (they have no documented failure on well-typed arguments);
 *                 the state after the exception is still dumped and checked against the reference map
 *   tree-iter     forward iteration is not the strictly monotone key sequence / backward is not its reverse / no Terminal
 *   tree-order    in-order key sequence of the nodes is not strictly monotone
 *   tree-rb       root red, red node with red child, or unequal black heights
 *   tree-parent   parent(child) != node, or parent(root) != NULL
 *   tree-count    number of nodes != nitems
 *   tree-height   height > 2*log2(n+1)
 *   tree-cmp      cmp(t, s) is not the comparison of the two reference maps binding by binding in iteration order (keys by the
 *                 harness's own comparison, values by integer compare / strcmp / memcmp), or it raised
 *   tree-hash     hash(t) is not the xor over the reference map of the element hashes (Int: the value, String: hash_data of the
 *                 characters, structs: hash_data of the bytes), or it raised
 */
#include "common.h"
#include <signal.h>
#include <limits.h>
#include <sys/time.h>

#define MAXT 64
#define BIG 40

#define MAXW 5
/* probe types (file scope: run-time types built in main's frame die before Cello_Exit) */
struct K3 { int64_t a, b, c; };
static int K3_Cmp(var x, var y) {
  struct K3* p = x; struct K3* q = cast(y, type_of(x));
  if (p->a != q->a) return p->a < q->a ? -1 : 1;
  if (p->b != q->b) return p->b < q->b ? -1 : 1;
  if (p->c != q->c) return p->c < q->c ? -1 : 1;
  return 0;
}
var K3 = Cello(K3, Instance(Cmp, K3_Cmp));
struct V3 { int64_t w[3]; };  var V3 = Cello(V3);
struct V5 { int64_t w[5]; };  var V5 = Cello(V5);

enum { KI = 0, KS = 1, KW = 2 };
typedef struct { long k[3]; const char* s; } KeyV;      /* a key: k[0] (Int), s (String), k[0..2] (K3) */
typedef struct { long k[3]; char* s; long v[MAXW]; char* sv; } Ent;       /* reference entry: key and whole value (sv: String value) */
typedef struct { Ent** e; size_t n, cap; int kk; int vw; } RefMap;  /* sorted array of pointers; kk = key kind, vw = words in a value, 0 = String value */

static int kwords(int kk) { return kk == KW ? 3 : 1; }
static var ktype_of(int kk) { return kk == KS ? String : kk == KW ? K3 : Int; }
static var vtype_of(int vw) { return vw == 0 ? String : vw == 3 ? V3 : vw == 5 ? V5 : Int; }
static size_t vbytes(int vw) { return vw == 0 ? 8 : (size_t)vw * 8; }

/* a map that is not a Tree: pairs in a fixed order (source of `assign(tree, m)`) */
struct PMap { var kt; var vt; size_t n; var* ks; var* vs; };
static size_t PMap_Len(var self) { return ((struct PMap*)self)->n; }
static var PMap_Iter_Init(var self) { struct PMap* m = self; return m->n ? m->ks[0] : Terminal; }
static var PMap_Iter_Next(var self, var cur) {
  struct PMap* m = self;
  for (size_t i = 0; i < m->n; i++) if (m->ks[i] == cur) return i + 1 < m->n ? m->ks[i + 1] : Terminal;
  return Terminal;
}
static var PMap_Iter_Type(var self) { return ((struct PMap*)self)->kt; }
static var PMap_Get(var self, var key) {
  struct PMap* m = self;
  for (size_t i = 0; i < m->n; i++) if (m->ks[i] == key) return m->vs[i];
  return throw(KeyError, "Key %$ not in PMap!", key);
}
static var PMap_Key_Type(var self) { return ((struct PMap*)self)->kt; }
static var PMap_Val_Type(var self) { return ((struct PMap*)self)->vt; }
var PMap = Cello(PMap, Instance(Len, PMap_Len), Instance(Iter, PMap_Iter_Init, PMap_Iter_Next, NULL, NULL, PMap_Iter_Type),
  Instance(Get, PMap_Get, NULL, NULL, NULL, PMap_Key_Type, PMap_Val_Type));

static size_t lineno = 0;
static int automode = 1;
static size_t st_ops = 0, st_set_new = 0, st_set_upd = 0, st_rem = 0, st_rem2 = 0, st_remroot = 0, st_remblack = 0,
  st_keyerr = 0, st_maxn = 0, st_maxh = 0, st_checks = 0, st_iters = 0, st_rem2_wide = 0,
  st_assign_empty = 0, st_assign_one = 0, st_assign_retype = 0,
  st_own_key = 0, st_own_val = 0, st_self_key_assign = 0, st_self_val_assign = 0, st_self_string_assign = 0, st_walk = 0,
  st_assign_map = 0, st_new_odd = 0,
  st_cmp = 0, st_cmp_eq = 0, st_cmp_key = 0, st_cmp_val = 0, st_cmp_prefix = 0, st_cmp_self = 0, st_hash = 0, st_hash_empty = 0, st_links = 0;

/* ------------------------------------------------------------------------------------------------ reference map */
static int ref_cmp(const RefMap* r, const Ent* a, const KeyV* k) {
  if (r->kk == KS) { int c = strcmp(a->s, k->s); return c < 0 ? -1 : c > 0 ? 1 : 0; }
  for (int i = 0; i < kwords(r->kk); i++) if (a->k[i] != k->k[i]) return a->k[i] < k->k[i] ? -1 : 1;
  return 0;
}
/* first index whose key is >= the key (ascending array) */
static size_t ref_lower(const RefMap* r, const KeyV* k) {
  size_t lo = 0, hi = r->n;
  while (lo < hi) { size_t mid = (lo + hi) / 2; if (ref_cmp(r, r->e[mid], k) < 0) lo = mid + 1; else hi = mid; }
  return lo;
}
static int ref_find(const RefMap* r, const KeyV* k, size_t* at) {
  size_t p = ref_lower(r, k); *at = p;
  return p < r->n && ref_cmp(r, r->e[p], k) == 0;
}
static void ent_free(Ent* e) { free(e->s); free(e->sv); free(e); }
static void ref_clear(RefMap* r) {
  for (size_t i = 0; i < r->n; i++) ent_free(r->e[i]);
  r->n = 0;
}
static void ref_set(RefMap* r, const KeyV* k, const long* v, const char* sv) {
  size_t p;
  if (ref_find(r, k, &p)) {
    memcpy(r->e[p]->v, v, sizeof r->e[p]->v);
    char* n = sv ? strdup(sv) : NULL; free(r->e[p]->sv); r->e[p]->sv = n; return; }
  if (r->n == r->cap) { r->cap = r->cap ? r->cap * 2 : 16; r->e = realloc(r->e, r->cap * sizeof(Ent*)); }
  memmove(&r->e[p+1], &r->e[p], (r->n - p) * sizeof(Ent*));
  Ent* e = malloc(sizeof(Ent));
  memcpy(e->k, k->k, sizeof e->k); e->s = k->s ? strdup(k->s) : NULL;
  memcpy(e->v, v, sizeof e->v); e->sv = sv ? strdup(sv) : NULL; r->e[p] = e; r->n++;
}
static int ref_rem(RefMap* r, const KeyV* k) {
  size_t p;
  if (!ref_find(r, k, &p)) return 0;
  ent_free(r->e[p]);
  memmove(&r->e[p], &r->e[p+1], (r->n - p - 1) * sizeof(Ent*));
  r->n--; return 1;
}
static void ref_copy(RefMap* dst, const RefMap* src) {
  if (dst == src) return;
  ref_clear(dst); dst->kk = src->kk; dst->vw = src->vw;
  if (dst->cap < src->n) { dst->cap = src->n + 16; dst->e = realloc(dst->e, dst->cap * sizeof(Ent*)); }
  for (size_t i = 0; i < src->n; i++) {
    Ent* e = malloc(sizeof(Ent)); *e = *src->e[i]; if (e->s) e->s = strdup(e->s); if (e->sv) e->sv = strdup(e->sv);
    dst->e[i] = e;
  }
  dst->n = src->n;
}
static KeyV ent_key(const Ent* e) { KeyV k; memcpy(k.k, e->k, sizeof k.k); k.s = e->s; return k; }

/* ------------------------------------------------------------------------------------------------ hashing (same in Lean) */
static uint64_t mixstep(uint64_t h, uint64_t x) { return (h ^ x) * 0x100000001b3ULL; }
#define FNV_INIT 0xcbf29ce484222325ULL
static uint64_t str_hash(const char* s) { uint64_t h = FNV_INIT; for (; *s; s++) h = mixstep(h, (unsigned char)*s); return h; }
static uint64_t words_hash(const long* w, int n) {      /* one word: the word itself; more: FNV over the words */
  if (n == 1) return (uint64_t)w[0];
  uint64_t h = FNV_INIT; for (int i = 0; i < n; i++) h = mixstep(h, (uint64_t)w[i]); return h;
}

/* ------------------------------------------------------------------------------------------------ white-box access */
/* Keys and values are read from the node as raw 8-byte words, with the widths of the key / value TYPE (not through
   m->ksize / m->vsize), at the places Tree_Key / Tree_Val designate. */
static var node_of_key(var key) { return (char*)key - sizeof(struct Header) - 3 * sizeof(var); }
static void node_valwords(struct Tree* m, var node, int vw, long* out) {
  if (vw == 1) { out[0] = (long)c_int(Tree_Val(m, node)); return; }
  memcpy(out, Tree_Val(m, node), vw * sizeof(long));
}
static void obj_valwords(var val, int vw, long* out) {
  if (vw == 1) { out[0] = (long)c_int(val); return; }
  memcpy(out, val, vw * sizeof(long));
}
static void node_keywords(struct Tree* m, var node, int kk, long* out) {   /* kk != KS */
  if (kk == KI) { out[0] = (long)c_int(Tree_Key(m, node)); return; }
  memcpy(out, Tree_Key(m, node), 3 * sizeof(long));
}
static uint64_t node_keyhash(struct Tree* m, var node, int kk) {
  if (kk == KS) return str_hash(c_str(Tree_Key(m, node)));
  long w[3]; node_keywords(m, node, kk, w); return words_hash(w, kwords(kk));
}
static uint64_t node_valhash(struct Tree* m, var node, int vw) {
  if (vw == 0) return str_hash(c_str(Tree_Val(m, node)));
  long w[MAXW]; node_valwords(m, node, vw, w); return words_hash(w, vw); }
static uint64_t tree_hash(struct Tree* m, var node, const RefMap* r) {
  if (node == NULL) return 0x9E3779B97F4A7C15ULL;
  uint64_t h = FNV_INIT;
  h = mixstep(h, Tree_Is_Red(m, node) ? 1 : 0);
  h = mixstep(h, node_keyhash(m, node, r->kk));
  h = mixstep(h, node_valhash(m, node, r->vw));
  h = mixstep(h, tree_hash(m, *Tree_Left(m, node), r));
  h = mixstep(h, tree_hash(m, *Tree_Right(m, node), r));
  return h;
}

static char* dbuf = NULL; static size_t dlen = 0, dcap = 0;
static void dput(const char* s) {
  size_t l = strlen(s);
  if (dlen + l + 1 > dcap) { dcap = (dcap + l + 64) * 2; dbuf = realloc(dbuf, dcap); }
  memcpy(dbuf + dlen, s, l + 1); dlen += l;
}
static void dput_words(const long* w, int n) {
  char b[32];
  for (int i = 0; i < n; i++) { snprintf(b, sizeof b, i ? ",%ld" : "%ld", w[i]); dput(b); }
}
static void dput_entry(struct Tree* m, var node, const RefMap* r) {      /* key:value */
  long w[MAXW];
  if (r->kk == KS) dput(c_str(Tree_Key(m, node))); else { node_keywords(m, node, r->kk, w); dput_words(w, kwords(r->kk)); }
  dput(":");
  if (r->vw == 0) dput(c_str(Tree_Val(m, node))); else { node_valwords(m, node, r->vw, w); dput_words(w, r->vw); }
}
static void preorder(struct Tree* m, var node, const RefMap* r, int depth) {
  if (node == NULL) { dput("."); return; }
  if (depth > 200) { dput("<deep>"); return; }
  dput(Tree_Is_Red(m, node) ? "(R" : "(B");
  dput_entry(m, node, r); dput(" ");
  preorder(m, *Tree_Left(m, node), r, depth + 1); dput(" ");
  preorder(m, *Tree_Right(m, node), r, depth + 1); dput(")");
}

/* the link table: per node in preorder `key<parentkey|-:R|B`, decoded from the RAW parent-and-colour word (third word of the
   node) by this file — low bit = colour, the rest = parent — not through the library's accessors; at most `limit` nodes */
static size_t links_count, links_bad;
static void dput_key(struct Tree* m, var node, const RefMap* r) {
  long w[3];
  if (r->kk == KS) dput(c_str(Tree_Key(m, node))); else { node_keywords(m, node, r->kk, w); dput_words(w, kwords(r->kk)); }
}
static void links_pre(struct Tree* m, var node, var from, const RefMap* r, int depth, size_t limit) {
  if (node == NULL || depth > 200) return;
  uintptr_t raw = ((uintptr_t*)node)[2];
  var par = (var)(raw & ~(uintptr_t)1);
  if (par != from) links_bad++;
  if (links_count < limit) {
    if (links_count) dput(" ");
    dput_key(m, node, r); dput("<");
    if (par) dput_key(m, par, r); else dput("-");
    dput((raw & 1) ? ":R" : ":B");
  }
  links_count++;
  links_pre(m, *Tree_Left(m, node), node, r, depth + 1, limit);
  links_pre(m, *Tree_Right(m, node), node, r, depth + 1, limit);
}

/* ------------------------------------------------------------------------------------------------ red-black checker */
typedef struct { int rr, bh_bad, parent_bad, deep; size_t count; var* inorder; size_t cap; } Walk;
static int walk(struct Tree* m, var node, var parent, Walk* w, int depth, int* height) {   /* returns black height */
  if (node == NULL) { *height = 0; return 0; }
  if (depth > 400) { w->deep = 1; *height = 0; return 0; }
  if (Tree_Get_Parent(m, node) != parent) w->parent_bad++;
  var l = *Tree_Left(m, node), r = *Tree_Right(m, node);
  if (Tree_Is_Red(m, node) && (Tree_Is_Red(m, l) || Tree_Is_Red(m, r))) w->rr++;
  int hl, hr;
  int bl = walk(m, l, node, w, depth + 1, &hl);
  if (w->count == w->cap) { w->cap = w->cap ? w->cap * 2 : 64; w->inorder = realloc(w->inorder, w->cap * sizeof(var)); }
  w->inorder[w->count++] = node;
  int br = walk(m, r, node, w, depth + 1, &hr);
  if (bl != br) w->bh_bad++;
  *height = (hl > hr ? hl : hr) + 1;
  return bl + (Tree_Is_Red(m, node) ? 0 : 1);
}

/* whole key of the node == key of the reference entry (every word) */
static int key_matches(struct Tree* m, var node, const RefMap* r, const Ent* e) {
  if (r->kk == KS) return strcmp(c_str(Tree_Key(m, node)), e->s) == 0;
  long w[3]; node_keywords(m, node, r->kk, w);
  return memcmp(w, e->k, kwords(r->kk) * sizeof(long)) == 0;
}
/* whole value of the node == value of the reference entry (every word) */
static int val_matches(struct Tree* m, var node, const RefMap* r, const Ent* e) {
  if (r->vw == 0) return e->sv && strcmp(c_str(Tree_Val(m, node)), e->sv) == 0;
  long w[MAXW]; node_valwords(m, node, r->vw, w);
  return memcmp(w, e->v, r->vw * sizeof(long)) == 0;
}
static int node_cmp(struct Tree* m, var a, var b, int kk) {   /* own comparison of two nodes' keys */
  if (kk == KS) { int c = strcmp(c_str(Tree_Key(m, a)), c_str(Tree_Key(m, b))); return c < 0 ? -1 : c > 0 ? 1 : 0; }
  long x[3], y[3]; node_keywords(m, a, kk, x); node_keywords(m, b, kk, y);
  for (int i = 0; i < kwords(kk); i++) if (x[i] != y[i]) return x[i] < y[i] ? -1 : 1;
  return 0;
}

static var first_two_children(struct Tree* m, var node) {
  if (node == NULL) return NULL;
  if (*Tree_Left(m, node) && *Tree_Right(m, node)) return node;
  var x = first_two_children(m, *Tree_Left(m, node));
  return x ? x : first_two_children(m, *Tree_Right(m, node));
}

static Walk W;
/* structural check; fills W; returns the `ok` flag of the dump; *height_out = height */
static int rb_check(struct Tree* m, const RefMap* r, int* height_out, int report) {
  W.rr = W.bh_bad = W.parent_bad = W.deep = 0; W.count = 0;
  int height = 0;
  walk(m, m->root, NULL, &W, 0, &height);
  *height_out = height;
  int rootred = Tree_Is_Red(m, m->root);
  int desc = 1, mono = 1;
  for (size_t i = 0; i + 1 < W.count; i++) {
    int c = node_cmp(m, W.inorder[i], W.inorder[i+1], r->kk);
    if (c <= 0) desc = 0;
    if (c == 0 || (i > 0 && c != node_cmp(m, W.inorder[0], W.inorder[1], r->kk))) mono = 0;
  }
  /* the sizes the Tree works with are those of its key / value types */
  int sized = m->ktype == ktype_of(r->kk) && m->vtype == vtype_of(r->vw)
    && m->ksize == (size_t)kwords(r->kk) * 8 && m->vsize == vbytes(r->vw);
  int ok = !rootred && !W.rr && !W.bh_bad && !W.deep && desc && W.count == m->nitems && (sized || W.count == 0);
  if (report) {
    if (rootred) X("sig=tree-rb line=%zu what=root is red", lineno);
    if (W.rr) X("sig=tree-rb line=%zu what=%d red node(s) with a red child", lineno, W.rr);
    if (W.bh_bad || W.deep) X("sig=tree-rb line=%zu what=black height differs between the subtrees of %d node(s)", lineno, W.bh_bad + W.deep);
    if (W.parent_bad) X("sig=tree-parent line=%zu what=%d node(s) whose parent link is not the node that points to them", lineno, W.parent_bad);
    if (!mono) X("sig=tree-order line=%zu what=in-order key sequence of the nodes is not strictly monotone", lineno);
    if (W.count != m->nitems) X("sig=tree-count line=%zu what=%zu nodes reachable but nitems=%zu", lineno, W.count, m->nitems);
    if (!sized) X("sig=tree-size line=%zu what=ksize/vsize %zu/%zu or the types are not those of the tree's key/value types (%d/%d bytes)",
                  lineno, m->ksize, m->vsize, kwords(r->kk) * 8, (int)vbytes(r->vw));
    /* height <= 2*log2(n+1)  <=>  2^height <= (n+1)^2 */
    size_t n = W.count;
    if (height >= 120 || ((unsigned __int128)1 << height) > (unsigned __int128)(n + 1) * (n + 1))
      X("sig=tree-height line=%zu what=height %d exceeds 2*log2(%zu+1)", lineno, height, n);
    /* contents = reference map (either direction; the direction is fixed by the dump comparison with the model) */
    if (W.count != r->n) X("sig=tree-map line=%zu what=tree holds %zu bindings, reference map %zu", lineno, W.count, r->n);
    else {
      int asc = 1, dsc = 1;
      for (size_t i = 0; i < r->n; i++) {
        if (!key_matches(m, W.inorder[i], r, r->e[i]) || !val_matches(m, W.inorder[i], r, r->e[i])) asc = 0;
        if (!key_matches(m, W.inorder[i], r, r->e[r->n-1-i]) || !val_matches(m, W.inorder[i], r, r->e[r->n-1-i])) dsc = 0;
      }
      if (!asc && !dsc) X("sig=tree-map line=%zu what=in-order bindings (whole keys and values) differ from the reference map", lineno);
    }
  }
  if ((size_t)height > st_maxh) st_maxh = height;
  if (W.count > st_maxn) st_maxn = W.count;
  return ok;
}

/* iteration through the public interface, compared with the reference (strictly monotone, each key once, reverse);
   the value found beside each key is compared too */
static void iter_check(var t, struct Tree* m, const RefMap* r) {
  size_t n = r->n, cnt = 0; int bad = 0, asc = 1, dsc = 1;
  var* seen = malloc((n + 2) * sizeof(var));
  for (var k = iter_init(t); k != Terminal; k = iter_next(t, k)) {
    if (cnt > n) { bad = 1; break; }
    seen[cnt++] = k;
  }
  if (bad || cnt != n) { X("sig=tree-iter line=%zu what=forward iteration yields %s%zu keys, map has %zu", lineno, bad ? "more than " : "", cnt, n); free(seen); return; }
  for (size_t i = 0; i < n; i++) {
    var node = node_of_key(seen[i]);
    if (!key_matches(m, node, r, r->e[i]) || !val_matches(m, node, r, r->e[i])) asc = 0;
    if (!key_matches(m, node, r, r->e[n-1-i]) || !val_matches(m, node, r, r->e[n-1-i])) dsc = 0;
  }
  if (!asc && !dsc) X("sig=tree-iter line=%zu what=forward iteration is not the strictly monotone sequence of the map's bindings", lineno);
  size_t j = n; bad = 0;
  for (var k = iter_last(t); k != Terminal; k = iter_prev(t, k)) {
    if (j == 0) { bad = 1; break; }
    j--;
    if (k != seen[j]) { bad = 1; break; }
  }
  if (bad || j != 0) X("sig=tree-iter line=%zu what=backward iteration is not the exact reverse of forward iteration", lineno);
  free(seen);
  st_iters++;
}

/* key / value objects for a call; compound literals: valid until the end of the enclosing block */
#define KEYOBJ(kk, kv) ((kk) == KS ? (var)$S((char*)(kv).s) : (kk) == KW ? (var)$(K3, (kv).k[0], (kv).k[1], (kv).k[2]) : (var)$I((kv).k[0]))
#define VALOBJS(vw, v, sv) ((vw) == 0 ? (var)$S((char*)(sv)) : VALOBJ(vw, v))
#define VALOBJ(vw, v) ((vw) == 3 ? (var)$(V3, {(v)[0], (v)[1], (v)[2]}) : (vw) == 5 ? (var)$(V5, {(v)[0], (v)[1], (v)[2], (v)[3], (v)[4]}) : (var)$I((v)[0]))

/* len / mem / get against the reference for every key of the map and for neighbours that are absent */
static void map_check(var t, const RefMap* r, int full) {
  if (len(t) != r->n) X("sig=tree-map line=%zu what=len %zu, reference map has %zu", lineno, len(t), r->n);
  size_t step = full || r->n <= 64 ? 1 : r->n / 48;
  for (size_t i = 0; i < r->n; i += step) {
    KeyV kv = ent_key(r->e[i]);
    var key = KEYOBJ(r->kk, kv);
    var exc, val = NULL;
    if (!mem(t, key)) X("sig=tree-map line=%zu what=mem false for a key of the map", lineno);
    V_TRY(exc, val = get(t, key));
    if (exc) X("sig=tree-keyerror line=%zu what=get raised %s for a key of the map", lineno, v_exc_name(exc));
    else if (r->vw == 0) {
      if (strcmp(c_str(val), r->e[i]->sv)) X("sig=tree-map line=%zu what=get returned the String \"%.40s\", map has \"%.40s\"", lineno, c_str(val), r->e[i]->sv);
    }
    else {
      long w[MAXW]; obj_valwords(val, r->vw, w);
      for (int j = 0; j < r->vw; j++) if (w[j] != r->e[i]->v[j]) {
        X("sig=tree-map line=%zu what=get returned a value whose word %d is %ld, map has %ld", lineno, j, w[j], r->e[i]->v[j]); break; }
    }
    /* an absent neighbour */
    KeyV a = kv; char buf[300]; size_t p;
    if (r->kk == KS) { snprintf(buf, sizeof buf, "%s~", r->e[i]->s); a.s = buf; }
    else { int last = kwords(r->kk) - 1; a.k[last] = kv.k[last] == LONG_MAX ? LONG_MIN : kv.k[last] + 1; }
    if (!ref_find(r, &a, &p)) {
      var akey = KEYOBJ(r->kk, a);
      if (mem(t, akey)) X("sig=tree-map line=%zu what=mem true for an absent key (neighbour of entry %zu)", lineno, i);
      V_TRY(exc, val = get(t, akey));
      if (exc != KeyError) X("sig=tree-keyerror line=%zu what=get of an absent key (neighbour of entry %zu): %s", lineno, i, v_exc_name(exc));
    }
  }
}

/* the dump that follows a mutating op; also runs the oracle on the whole tree when `full` */
static void dump_state(char* out, size_t outsz, var t, RefMap* r, int full) {
  struct Tree* m = t;
  if (!full) {
    if (m->nitems != r->n) X("sig=tree-map line=%zu what=nitems %zu, reference map has %zu", lineno, m->nitems, r->n);
    snprintf(out, outsz, "n=%zu", m->nitems); return;
  }
  int height = 0;
  int ok = rb_check(m, r, &height, 1);
  iter_check(t, m, r);
  map_check(t, r, 0);
  st_checks++;
  int n = snprintf(out, outsz, "n=%zu ok=%d h=%d sz=%zu/%zu t=", m->nitems, ok, height, m->ksize, m->vsize);
  if (m->nitems > BIG) snprintf(out + n, outsz - n, "#%016llx", (unsigned long long)tree_hash(m, m->root, r));
  else { dlen = 0; if (dbuf) dbuf[0] = 0; preorder(m, m->root, r, 0); snprintf(out + n, outsz - n, "%s", dbuf ? dbuf : "."); }
}

static void print_iter(const char* name, var t, RefMap* r, int backward) {
  struct Tree* m = t;
  size_t n = m->nitems, cnt = 0; int nonterm = 0;
  uint64_t h = FNV_INIT;
  dlen = 0; dput("");
  for (var k = backward ? iter_last(t) : iter_init(t); k != Terminal; k = backward ? iter_prev(t, k) : iter_next(t, k)) {
    if (cnt > n) { nonterm = 1; break; }
    var node = node_of_key(k);
    h = mixstep(mixstep(h, node_keyhash(m, node, r->kk)), node_valhash(m, node, r->vw));
    if (n <= BIG) { if (cnt) dput(" "); dput_entry(m, node, r); }
    cnt++;
  }
  if (nonterm) { X("sig=tree-iter line=%zu what=%s iteration does not reach Terminal", lineno, name); O("%s NOT-TERMINATED", name); return; }
  if (cnt > BIG) O("%s #%zu:%016llx", name, cnt, (unsigned long long)h);
  else O("%s %s", name, dbuf);
  iter_check(t, m, r);
}

/* ------------------------------------------------------------------------------------------------ op interpreter */
static char* toks[4096]; static int ntok;
static void split(char* l) {
  ntok = 0;
  for (char* p = strtok(l, " "); p && ntok < 4096; p = strtok(NULL, " ")) toks[ntok++] = p;
}
static int parse_long(const char* s, long* out) {
  char* e; if (!*s) return 0; long v = strtol(s, &e, 10); if (*e) return 0; *out = v; return 1;
}
static int parse_nat(const char* s, long* out) {
  if (!*s) return 0; for (const char* p = s; *p; p++) if (*p < '0' || *p > '9') return 0;
  return parse_long(s, out);
}
/* exactly n comma-separated integers */
static int parse_words(const char* s, int n, long* out) {
  char buf[256]; if (strlen(s) >= sizeof buf) return 0;
  strcpy(buf, s);
  char* p = buf;
  for (int i = 0; i < n; i++) {
    char* c = strchr(p, ',');
    if ((c != NULL) != (i + 1 < n)) return 0;
    if (c) *c = 0;
    if (!parse_long(p, &out[i])) return 0;
    p = c ? c + 1 : p;
  }
  return 1;
}
static int parse_key(const char* tok, int kk, KeyV* k) {
  memset(k, 0, sizeof *k);
  if (kk == KS) { if (!*tok) return 0; k->s = tok; return 1; }
  return parse_words(tok, kwords(kk), k->k);
}
static const char* vs = NULL;      /* the String value of the op being parsed (value kind s) */
static int parse_val(const char* tok, int vw, long* v) {
  memset(v, 0, MAXW * sizeof(long)); vs = NULL;
  if (vw == 0) { if (!*tok) return 0; vs = tok; return 1; }
  return parse_words(tok, vw, v);
}
/* the key object the tree itself holds for a key, obtained the way a program obtains it: by iterating */
static var own_key(var t, const RefMap* r, const KeyV* k) {
  struct Tree* m = t; size_t cnt = 0;
  for (var key = iter_init(t); key != Terminal; key = iter_next(t, key)) {
    if (cnt++ > m->nitems) return NULL;
    if (r->kk == KS) { if (!strcmp(c_str(key), k->s)) return key; }
    else { long w[3]; node_keywords(m, node_of_key(key), r->kk, w); if (!memcmp(w, k->k, kwords(r->kk) * sizeof(long))) return key; }
  }
  return NULL;
}
/* print a value object the way the dump prints it */
static void dput_val(var val, int vw) {
  if (vw == 0) { dput(c_str(val)); return; }
  long w[MAXW]; obj_valwords(val, vw, w); dput_words(w, vw);
}
static int parse_kind(const char* tok, int* kk, int* vw) {
  if (tok[0] == 'i') *kk = KI; else if (tok[0] == 's') *kk = KS; else if (tok[0] == 'w') *kk = KW; else return 0;
  if (tok[1] == 0) *vw = 1; else if (!strcmp(tok + 1, "3")) *vw = 3; else if (!strcmp(tok + 1, "5")) *vw = 5;
  else if (!strcmp(tok + 1, "s")) *vw = 0; else return 0;
  return 1;
}

int main(int argc, char** argv) {
  v_init();
  if (argc < 2) { fprintf(stderr, "usage: h_tree <opfile>\n"); return 2; }
  alarm(140);                                    /* whole file, wall clock */
  size_t nl; char** lines = v_read_lines(argv[1], &nl);
  var trees[MAXT]; RefMap refs[MAXT];           /* `trees` lives on main's stack: the collector scans it */
  memset(trees, 0, sizeof trees); memset(refs, 0, sizeof refs);
  static char dump[1 << 16];

  for (size_t li = 0; li < nl; li++) {
    if (v_skippable(lines[li])) continue;
    lineno = li + 1;
    /* watchdog: no single op needs more than a few seconds of CPU; a tree whose links form a cycle makes the library
       loop forever — the process then dies with SIGPROF and the runner reports the crash */
    { struct itimerval tv = { {0, 0}, {4, 0} }; setitimer(ITIMER_PROF, &tv, NULL); }
    char* l = strdup(lines[li]);
    split(l);
    long T = -1, S = -1; KeyV kv; long vv[MAXW];
    memset(&kv, 0, sizeof kv); memset(vv, 0, sizeof vv);
    #define BAD do { O("bad-op"); goto next; } while (0)
    #define NEED_TREE(ix) do { if (!parse_nat(toks[ix], &T) || T >= MAXT || !trees[T]) BAD; } while (0)
    if (ntok == 0) BAD;
    const char* op = toks[0];

    if (!strcmp(op, "auto") && ntok == 2) {
      long a; if (!parse_nat(toks[1], &a)) BAD;
      automode = a != 0;
    }
    else if (!strcmp(op, "new") && ntok >= 3) {
      if (!parse_nat(toks[1], &T) || T >= MAXT) BAD;
      int kk, vw; if (!parse_kind(toks[2], &kk, &vw)) BAD;
      if ((ntok - 3) % 2) BAD;
      int np = (ntok - 3) / 2;
      for (int i = 0; i < np; i++) { if (!parse_key(toks[3+2*i], kk, &kv) || !parse_val(toks[4+2*i], vw, vv)) BAD; }
      /* the constructor's argument tuple: key type, value type, k1, v1, ..., Terminal */
      var* items = malloc((2 * np + 3) * sizeof(var));
      items[0] = ktype_of(kk); items[1] = vtype_of(vw);
      for (int i = 0; i < np; i++) {
        parse_key(toks[3+2*i], kk, &kv); parse_val(toks[4+2*i], vw, vv);
        items[2+2*i] = new_raw_with(ktype_of(kk), tuple(KEYOBJ(kk, kv)));
        items[3+2*i] = new_raw_with(vtype_of(vw), tuple(VALOBJS(vw, vv, vs)));
      }
      items[2+2*np] = Terminal;
      if (trees[T]) { del(trees[T]); trees[T] = NULL; }
      { var exc; V_TRY(exc, trees[T] = new_with(Tree, $(Tuple, items)));
        if (exc) { X("sig=tree-raise line=%zu what=new raised %s", lineno, v_exc_name(exc)); O("new %s", v_exc_name(exc)); free(items); goto next; } }
      ref_clear(&refs[T]); refs[T].kk = kk; refs[T].vw = vw;
      for (int i = 0; i < np; i++) {
        parse_key(toks[3+2*i], kk, &kv); parse_val(toks[4+2*i], vw, vv);
        ref_set(&refs[T], &kv, vv, vs);
      }
      for (int i = 0; i < 2 * np; i++) del_raw(items[2+i]);
      free(items);
      dump_state(dump, sizeof dump, trees[T], &refs[T], automode);
      O("new ok %s", dump); st_ops++;
    }
    else if (!strcmp(op, "newodd") && ntok >= 4 && (ntok - 3) % 2 == 1) {
      /* new(Tree, K, V, a, b, ...) with an odd number of arguments: Tree_New raises FormatError after it has set the types and
         before the first Tree_Set; the storage is released here (no object came into being) */
      if (!parse_nat(toks[1], &T) || T >= MAXT) BAD;
      int kk, vw; if (!parse_kind(toks[2], &kk, &vw)) BAD;
      int na = ntok - 3;
      for (int i = 0; i < na; i++) { if (i % 2 == 0 ? !parse_key(toks[3+i], kk, &kv) : !parse_val(toks[3+i], vw, vv)) BAD; }
      var* items = malloc((na + 3) * sizeof(var));
      items[0] = ktype_of(kk); items[1] = vtype_of(vw);
      for (int i = 0; i < na; i++) {
        if (i % 2 == 0) { parse_key(toks[3+i], kk, &kv); items[2+i] = new_raw_with(ktype_of(kk), tuple(KEYOBJ(kk, kv))); }
        else { parse_val(toks[3+i], vw, vv); items[2+i] = new_raw_with(vtype_of(vw), tuple(VALOBJS(vw, vv, vs))); }
      }
      items[2+na] = Terminal;
      struct Tree* obj = alloc_raw(Tree);
      var exc; V_TRY(exc, construct_with(obj, $(Tuple, items)));
      if (exc != FormatError) X("sig=tree-raise line=%zu what=new with an odd argument count: %s instead of FormatError", lineno, v_exc_name(exc));
      if (obj->nitems != 0 || obj->root != NULL) { X("sig=tree-map line=%zu what=the refused constructor left %zu bindings behind", lineno, obj->nitems); Tree_Clear(obj); }
      dealloc_raw(obj);
      for (int i = 0; i < na; i++) del_raw(items[2+i]);
      free(items);
      O("newodd %s", exc ? v_exc_name(exc) : "ok"); st_new_odd++; st_ops++;
    }
    else if (!strcmp(op, "assignmap") && ntok >= 3 && (ntok - 3) % 2 == 0) {
      NEED_TREE(1);
      int kk, vw; if (!parse_kind(toks[2], &kk, &vw)) BAD;
      int np = (ntok - 3) / 2;
      for (int i = 0; i < np; i++) { if (!parse_key(toks[3+2*i], kk, &kv) || !parse_val(toks[4+2*i], vw, vv)) BAD; }
      var* ko = malloc((np + 1) * sizeof(var)); var* vo = malloc((np + 1) * sizeof(var));
      for (int i = 0; i < np; i++) {
        parse_key(toks[3+2*i], kk, &kv); parse_val(toks[4+2*i], vw, vv);
        ko[i] = new_raw_with(ktype_of(kk), tuple(KEYOBJ(kk, kv)));
        vo[i] = new_raw_with(vtype_of(vw), tuple(VALOBJS(vw, vv, vs)));
      }
      var src_map = $(PMap, ktype_of(kk), vtype_of(vw), (size_t)np, ko, vo);
      var exc; V_TRY(exc, assign(trees[T], src_map));
      if (exc) X("sig=tree-raise line=%zu what=assign from a map that is not a Tree raised %s", lineno, v_exc_name(exc));
      ref_clear(&refs[T]); refs[T].kk = kk; refs[T].vw = vw;
      for (int i = 0; i < np; i++) {
        parse_key(toks[3+2*i], kk, &kv); parse_val(toks[4+2*i], vw, vv);
        ref_set(&refs[T], &kv, vv, vs);
      }
      for (int i = 0; i < np; i++) { del_raw(ko[i]); del_raw(vo[i]); }
      free(ko); free(vo);
      dump_state(dump, sizeof dump, trees[T], &refs[T], automode);
      O("assignmap %s %s", exc ? v_exc_name(exc) : "ok", dump); st_assign_map++; st_ops++;
    }
    else if ((!strcmp(op, "setk") || !strcmp(op, "setv") || !strcmp(op, "setkv")) && ntok == 4) {
      /* set with the tree's own key object and / or a value object that lives in one of its nodes */
      NEED_TREE(1);
      int ownk = op[3] == 'k', ownv = op[3] == 'v' || op[4] == 'v';
      KeyV k2; memset(&k2, 0, sizeof k2);
      if (!parse_key(toks[2], refs[T].kk, &kv)) BAD;
      if (ownv) { if (!parse_key(toks[3], refs[T].kk, &k2)) BAD; } else if (!parse_val(toks[3], refs[T].vw, vv)) BAD;
      var K = ownk ? own_key(trees[T], &refs[T], &kv) : NULL;
      if (ownk && !K) BAD;
      size_t before = len(trees[T]), p, p2;
      int had = ref_find(&refs[T], &kv, &p);
      var exc = NULL, V = NULL; long cv[MAXW]; char* csv = NULL; memcpy(cv, vv, sizeof cv);
      if (ownv) {
        int had2 = ref_find(&refs[T], &k2, &p2);
        V_TRY(exc, V = get(trees[T], KEYOBJ(refs[T].kk, k2)));
        if (had2 && exc) X("sig=tree-keyerror line=%zu what=get of a present key raised %s", lineno, v_exc_name(exc));
        if (!had2 && exc != KeyError) X("sig=tree-keyerror line=%zu what=get of an absent key raised %s instead of KeyError", lineno, v_exc_name(exc));
        if (exc) { dump_state(dump, sizeof dump, trees[T], &refs[T], automode); O("%s %s %s", op, v_exc_name(exc), dump); st_keyerr++; st_ops++; goto next; }
        memcpy(cv, refs[T].e[p2]->v, sizeof cv); csv = refs[T].e[p2]->sv ? strdup(refs[T].e[p2]->sv) : NULL;
        st_own_val++;
        if (had && p == p2) { st_self_val_assign++; if (refs[T].vw == 0) st_self_string_assign++; }
      } else if (vs) csv = strdup(vs);
      if (ownk) { st_own_key++; st_self_key_assign++; if (refs[T].kk == KS) st_self_string_assign++; }
      if (ownv) V_TRY(exc, set(trees[T], ownk ? K : KEYOBJ(refs[T].kk, kv), V));
      else V_TRY(exc, set(trees[T], K, VALOBJS(refs[T].vw, cv, csv)));
      if (exc) X("sig=tree-raise line=%zu what=set with the tree's own key / value object raised %s", lineno, v_exc_name(exc));
      ref_set(&refs[T], &kv, cv, csv); free(csv);
      if (had) st_set_upd++; else st_set_new++;
      if (len(trees[T]) != before + (had ? 0 : 1)) X("sig=tree-map line=%zu what=set of %s key changed len from %zu to %zu", lineno, had ? "a present" : "an absent", before, len(trees[T]));
      dump_state(dump, sizeof dump, trees[T], &refs[T], automode);
      O("%s %s %s", op, exc ? v_exc_name(exc) : "ok", dump); st_ops++;
    }
    else if ((!strcmp(op, "getk") || !strcmp(op, "memk") || !strcmp(op, "remk")) && ntok == 3) {
      NEED_TREE(1); if (!parse_key(toks[2], refs[T].kk, &kv)) BAD;
      var K = own_key(trees[T], &refs[T], &kv);
      if (!K) BAD;
      size_t p; int had = ref_find(&refs[T], &kv, &p);
      st_own_key++;
      if (op[0] == 'm') {
        int got = mem(trees[T], K) ? 1 : 0;
        if (got != had) X("sig=tree-map line=%zu what=mem of the tree's own key object returned %d, reference map says %d", lineno, got, had);
        O("memk %d", got);
      } else if (op[0] == 'g') {
        var exc, val = NULL; V_TRY(exc, val = get(trees[T], K));
        if (exc) { X("sig=tree-keyerror line=%zu what=get of the tree's own key object raised %s", lineno, v_exc_name(exc)); O("getk %s", v_exc_name(exc)); }
        else {
          if (!had || val != Tree_Val((struct Tree*)trees[T], node_of_key(K)) || !val_matches(trees[T], node_of_key(K), &refs[T], refs[T].e[p]))
            X("sig=tree-map line=%zu what=get of the tree's own key object returned a value that is not the map's", lineno);
          dlen = 0; dput(""); dput_val(val, refs[T].vw); O("getk %s", dbuf);
        }
      } else {
        var exc; V_TRY(exc, rem(trees[T], K));          /* K lives in the node that is removed */
        if (exc) X("sig=tree-keyerror line=%zu what=rem of the tree's own key object raised %s", lineno, v_exc_name(exc));
        if (had) { ref_rem(&refs[T], &kv); st_rem++; }
        dump_state(dump, sizeof dump, trees[T], &refs[T], automode);
        O("remk %s %s", exc ? v_exc_name(exc) : "ok", dump);
      }
      st_ops++;
    }
    else if ((!strcmp(op, "walk") && ntok == 3) || (!strcmp(op, "walkself") && ntok == 2)) {
      /* updating a map while walking its keys: every call gives the tree its own key object (and, walkself, its own value) */
      NEED_TREE(1);
      int self_ = ntok == 2;
      if (!self_ && !parse_val(toks[2], refs[T].vw, vv)) BAD;
      struct Tree* m = trees[T]; size_t cnt = 0, n = m->nitems; var exc = NULL;
      for (var key = iter_init(trees[T]); key != Terminal; key = iter_next(trees[T], key)) {
        if (cnt++ > n) { X("sig=tree-iter line=%zu what=iteration interleaved with set of present keys does not reach Terminal", lineno); break; }
        if (self_) V_TRY(exc, set(trees[T], key, get(trees[T], key)));
        else V_TRY(exc, set(trees[T], key, VALOBJS(refs[T].vw, vv, vs)));
        if (exc) { X("sig=tree-raise line=%zu what=set inside foreach raised %s", lineno, v_exc_name(exc)); break; }
        st_own_key++; st_self_key_assign++; if (refs[T].kk == KS) st_self_string_assign++;
        if (self_) { st_own_val++; st_self_val_assign++; if (refs[T].vw == 0) st_self_string_assign++; }
      }
      if (cnt != n) X("sig=tree-iter line=%zu what=foreach with set of its own keys visited %zu keys, the map has %zu", lineno, cnt, n);
      if (!self_) for (size_t i = 0; i < refs[T].n; i++) {
        memcpy(refs[T].e[i]->v, vv, sizeof refs[T].e[i]->v);
        char* nsv = vs ? strdup(vs) : NULL; free(refs[T].e[i]->sv); refs[T].e[i]->sv = nsv; }
      dump_state(dump, sizeof dump, trees[T], &refs[T], automode);
      O("%s %s %s", op, exc ? v_exc_name(exc) : "ok", dump); st_walk++; st_ops++;
    }
    else if (!strcmp(op, "set") && ntok == 4) {
      NEED_TREE(1);
      if (!parse_key(toks[2], refs[T].kk, &kv) || !parse_val(toks[3], refs[T].vw, vv)) BAD;
      size_t before = len(trees[T]), p;
      int had = ref_find(&refs[T], &kv, &p);
      var exc; V_TRY(exc, set(trees[T], KEYOBJ(refs[T].kk, kv), VALOBJS(refs[T].vw, vv, vs)));
      if (exc) X("sig=tree-raise line=%zu what=set of a key and a value of the tree's types raised %s", lineno, v_exc_name(exc));
      ref_set(&refs[T], &kv, vv, vs);
      if (had) st_set_upd++; else st_set_new++;
      if (len(trees[T]) != before + (had ? 0 : 1)) X("sig=tree-map line=%zu what=set of %s key changed len from %zu to %zu", lineno, had ? "a present" : "an absent", before, len(trees[T]));
      if (exc) { O("set %s n=%zu", v_exc_name(exc), len(trees[T])); st_ops++; goto next; }
      dump_state(dump, sizeof dump, trees[T], &refs[T], automode);
      O("set ok %s", dump); st_ops++;
    }
    else if ((!strcmp(op, "rem") && ntok == 3) || ((!strcmp(op, "remroot") || !strcmp(op, "rem2")) && ntok == 2)) {
      NEED_TREE(1);
      struct Tree* m = trees[T]; size_t p;
      static char keycopy[512];
      if (ntok == 3) { if (!parse_key(toks[2], refs[T].kk, &kv)) BAD; }
      else {
        /* white-box choice of the key: the root's, or that of the first node in preorder that has two children */
        var pick = op[3] == 'r' ? m->root : first_two_children(m, m->root);
        if (!pick) { O("%s none", op); goto next; }
        if (refs[T].kk == KS) { snprintf(keycopy, sizeof keycopy, "%s", c_str(Tree_Key(m, pick))); kv.s = keycopy; }
        else node_keywords(m, pick, refs[T].kk, kv.k);
      }
      int had = ref_find(&refs[T], &kv, &p);
      if (had) {   /* statistics about the case being exercised (white-box, before the removal) */
        var node = m->root;
        while (node) { int c = cmp(Tree_Key(m, node), KEYOBJ(refs[T].kk, kv)); if (c == 0) break; node = c < 0 ? *Tree_Left(m, node) : *Tree_Right(m, node); }
        if (node) {
          if (node == m->root) st_remroot++;
          var victim = node;
          if (*Tree_Left(m, node) && *Tree_Right(m, node)) {
            st_rem2++; victim = Tree_Maximum(m, *Tree_Left(m, node));
            if ((size_t)kwords(refs[T].kk) * 8 != vbytes(refs[T].vw)) st_rem2_wide++;
          }
          if (Tree_Is_Black(m, victim)) st_remblack++;
        }
      }
      var exc; V_TRY(exc, rem(trees[T], KEYOBJ(refs[T].kk, kv)));
      if (had && exc) X("sig=tree-keyerror line=%zu what=rem of a present key raised %s", lineno, v_exc_name(exc));
      if (!had && exc != KeyError) X("sig=tree-keyerror line=%zu what=rem of an absent key raised %s instead of KeyError", lineno, v_exc_name(exc));
      if (had) { ref_rem(&refs[T], &kv); st_rem++; } else st_keyerr++;
      dump_state(dump, sizeof dump, trees[T], &refs[T], automode);
      O("rem %s %s", exc ? v_exc_name(exc) : "ok", dump); st_ops++;
    }
    else if (!strcmp(op, "get") && ntok == 3) {
      NEED_TREE(1); if (!parse_key(toks[2], refs[T].kk, &kv)) BAD;
      size_t p; int had = ref_find(&refs[T], &kv, &p);
      var exc, val = NULL; V_TRY(exc, val = get(trees[T], KEYOBJ(refs[T].kk, kv)));
      if (had && exc) X("sig=tree-keyerror line=%zu what=get of a present key raised %s", lineno, v_exc_name(exc));
      if (!had && exc != KeyError) X("sig=tree-keyerror line=%zu what=get of an absent key raised %s instead of KeyError", lineno, v_exc_name(exc));
      if (exc) { O("get %s", v_exc_name(exc)); st_keyerr++; }
      else {
        if (refs[T].vw == 0) {
          if (had && strcmp(c_str(val), refs[T].e[p]->sv)) X("sig=tree-map line=%zu what=get returned the String \"%.40s\", reference map has \"%.40s\"", lineno, c_str(val), refs[T].e[p]->sv);
        } else {
          long w[MAXW]; obj_valwords(val, refs[T].vw, w);
          if (had) for (int j = 0; j < refs[T].vw; j++) if (w[j] != refs[T].e[p]->v[j]) {
            X("sig=tree-map line=%zu what=get returned a value whose word %d is %ld, reference map has %ld", lineno, j, w[j], refs[T].e[p]->v[j]); break; }
        }
        dlen = 0; dput(""); dput_val(val, refs[T].vw);
        O("get %s", dbuf);
      }
      st_ops++;
    }
    else if (!strcmp(op, "mem") && ntok == 3) {
      NEED_TREE(1); if (!parse_key(toks[2], refs[T].kk, &kv)) BAD;
      size_t p; int had = ref_find(&refs[T], &kv, &p);
      int got = mem(trees[T], KEYOBJ(refs[T].kk, kv)) ? 1 : 0;
      if (got != had) X("sig=tree-map line=%zu what=mem returned %d, reference map says %d", lineno, got, had);
      O("mem %d", got); st_ops++;
    }
    else if (!strcmp(op, "len") && ntok == 2) {
      NEED_TREE(1);
      size_t n = len(trees[T]);
      if (n != refs[T].n) X("sig=tree-map line=%zu what=len %zu, reference map has %zu", lineno, n, refs[T].n);
      O("len %zu", n); st_ops++;
    }
    else if (!strcmp(op, "resize") && ntok == 3) {
      NEED_TREE(1); long n; if (!parse_nat(toks[2], &n)) BAD;
      var exc; V_TRY(exc, resize(trees[T], (size_t)n));
      if (n == 0) { if (exc) X("sig=tree-map line=%zu what=resize(t, 0) raised %s", lineno, v_exc_name(exc)); ref_clear(&refs[T]); }
      dump_state(dump, sizeof dump, trees[T], &refs[T], automode);
      O("resize %s %s", exc ? v_exc_name(exc) : "ok", dump); st_ops++;
    }
    else if (!strcmp(op, "assign") && ntok == 3) {
      NEED_TREE(1); if (!parse_nat(toks[2], &S) || S >= MAXT || !trees[S]) BAD;
      { struct Tree* sm = trees[S];
        if (sm->nitems == 0) st_assign_empty++; else if (sm->nitems == 1) st_assign_one++;
        if (T != S && (refs[T].kk != refs[S].kk || refs[T].vw != refs[S].vw)) st_assign_retype++; }
      var exc; V_TRY(exc, assign(trees[T], trees[S]));
      if (exc) X("sig=tree-raise line=%zu what=assign raised %s", lineno, v_exc_name(exc));
      /* the ordered-map meaning of t := t is "unchanged": the reference map stays, the checks below compare */
      if (T != S) ref_copy(&refs[T], &refs[S]);
      dump_state(dump, sizeof dump, trees[T], &refs[T], automode);
      O("assign %s %s", exc ? v_exc_name(exc) : "ok", dump); st_ops++;
    }
    else if (!strcmp(op, "copy") && ntok == 3) {
      if (!parse_nat(toks[1], &T) || T >= MAXT) BAD;
      if (!parse_nat(toks[2], &S) || S >= MAXT || !trees[S]) BAD;
      { struct Tree* sm = trees[S];
        if (sm->nitems == 0) st_assign_empty++; else if (sm->nitems == 1) st_assign_one++; }
      var c = NULL; var exc; V_TRY(exc, c = copy(trees[S]));
      if (exc || !c) { X("sig=tree-raise line=%zu what=copy raised %s", lineno, v_exc_name(exc)); O("copy %s", v_exc_name(exc)); goto next; }
      if (T != S) { ref_copy(&refs[T], &refs[S]); }
      if (trees[T]) del(trees[T]);
      trees[T] = c;
      dump_state(dump, sizeof dump, trees[T], &refs[T], automode);
      O("copy ok %s", dump); st_ops++;
    }
    else if ((!strcmp(op, "iter") || !strcmp(op, "riter")) && ntok == 2) {
      NEED_TREE(1);
      print_iter(op, trees[T], &refs[T], op[0] == 'r'); st_ops++;
    }
    else if (!strcmp(op, "del") && ntok == 2) {
      NEED_TREE(1);
      del(trees[T]); trees[T] = NULL; ref_clear(&refs[T]);
      O("del ok"); st_ops++;
    }
    else if (!strcmp(op, "cmp") && ntok == 3) {
      NEED_TREE(1); if (!parse_nat(toks[2], &S) || S >= MAXT || !trees[S]) BAD;
      if (refs[T].kk != refs[S].kk || refs[T].vw != refs[S].vw) BAD;     /* cmp of an Int with a String raises in the element type */
      int c = 0; var exc; V_TRY(exc, c = cmp(trees[T], trees[S]));
      c = c < 0 ? -1 : c > 0 ? 1 : 0;
      /* reference: iteration order = descending keys = the reference arrays from the back */
      int want = 0, how = 0; { const RefMap* a = &refs[T]; const RefMap* b = &refs[S]; size_t i = a->n, j = b->n;
        for (;;) {
          if (i == 0 && j == 0) { want = 0; how = 0; break; }
          if (i == 0) { want = -1; how = 3; break; }
          if (j == 0) { want = 1; how = 3; break; }
          const Ent* x = a->e[i-1]; const Ent* y = b->e[j-1]; int d = 0;
          if (a->kk == KS) { d = strcmp(x->s, y->s); }
          else for (int w = 0; w < kwords(a->kk) && !d; w++) if (x->k[w] != y->k[w]) d = x->k[w] < y->k[w] ? -1 : 1;
          if (d) { want = d < 0 ? -1 : 1; how = 1; break; }
          if (a->vw == 0) d = strcmp(x->sv, y->sv);
          else if (a->vw == 1) d = x->v[0] < y->v[0] ? -1 : x->v[0] > y->v[0] ? 1 : 0;
          else d = memcmp(x->v, y->v, vbytes(a->vw));
          if (d) { want = d < 0 ? -1 : 1; how = 2; break; }
          i--; j--;
        } }
      st_cmp++; if (T == S) st_cmp_self++;
      if (how == 0) st_cmp_eq++; else if (how == 1) st_cmp_key++; else if (how == 2) st_cmp_val++; else st_cmp_prefix++;
      if (exc) { X("sig=tree-cmp line=%zu what=cmp raised %s", lineno, v_exc_name(exc)); O("cmp %s", v_exc_name(exc)); }
      else {
        if (c != want) X("sig=tree-cmp line=%zu what=cmp returned %d, the reference maps compare %d", lineno, c, want);
        O("cmp %d", c);
      }
      st_ops++;
    }
    else if (!strcmp(op, "hash") && ntok == 2) {
      NEED_TREE(1);
      uint64_t h = 0; var exc; V_TRY(exc, h = hash(trees[T]));
      uint64_t want = 0; { const RefMap* a = &refs[T];
        for (size_t i = 0; i < a->n; i++) { const Ent* x = a->e[i];
          want ^= a->kk == KI ? (uint64_t)x->k[0] : a->kk == KS ? hash_data(x->s, strlen(x->s)) : hash_data(x->k, 24);
          want ^= a->vw == 1 ? (uint64_t)x->v[0] : a->vw == 0 ? hash_data(x->sv, strlen(x->sv)) : hash_data(x->v, vbytes(a->vw)); } }
      st_hash++; if (refs[T].n == 0) st_hash_empty++;
      if (exc) { X("sig=tree-hash line=%zu what=hash raised %s", lineno, v_exc_name(exc)); O("hash %s", v_exc_name(exc)); }
      else {
        if (h != want) X("sig=tree-hash line=%zu what=hash %016llx, xor over the reference map %016llx", lineno,
                         (unsigned long long)h, (unsigned long long)want);
        O("hash %016llx", (unsigned long long)h);
      }
      st_ops++;
    }
    else if (!strcmp(op, "links") && ntok == 2) {
      NEED_TREE(1);
      struct Tree* m = trees[T];
      dlen = 0; dput(""); links_count = 0; links_bad = 0;
      links_pre(m, m->root, NULL, &refs[T], 0, BIG);
      if (links_bad) X("sig=tree-parent line=%zu what=%zu raw parent word(s) do not decode to the node that points to them", lineno, links_bad);
      st_links++;
      O("links n=%zu %s", links_count, dbuf);
    }
    else if (!strcmp(op, "check") && ntok == 2) {
      NEED_TREE(1);
      dump_state(dump, sizeof dump, trees[T], &refs[T], 1);
      map_check(trees[T], &refs[T], 1);
      O("check %s", dump);
    }
    else BAD;
  next:
    free(l);
  }
  I("ops=%zu set_new=%zu set_update=%zu rem=%zu rem_two_children=%zu rem_two_children_ksize_ne_vsize=%zu rem_root=%zu rem_black=%zu keyerror=%zu max_n=%zu max_height=%zu full_checks=%zu assign_copy_from_empty=%zu assign_copy_from_singleton=%zu assign_across_layouts=%zu",
    st_ops, st_set_new, st_set_upd, st_rem, st_rem2, st_rem2_wide, st_remroot, st_remblack, st_keyerr, st_maxn, st_maxh, st_checks,
    st_assign_empty, st_assign_one, st_assign_retype);
  I("own_key_args=%zu own_value_args=%zu key_assigned_from_itself=%zu value_assigned_from_itself=%zu string_assigned_from_itself=%zu walks=%zu assign_from_foreign_map=%zu new_odd_count=%zu",
    st_own_key, st_own_val, st_self_key_assign, st_self_val_assign, st_self_string_assign, st_walk, st_assign_map, st_new_odd);
  I("cmp_ops=%zu cmp_equal=%zu cmp_key_decides=%zu cmp_value_decides=%zu cmp_prefix_decides=%zu cmp_with_itself=%zu hash_ops=%zu hash_of_empty=%zu link_tables=%zu",
    st_cmp, st_cmp_eq, st_cmp_key, st_cmp_val, st_cmp_prefix, st_cmp_self, st_hash, st_hash_empty, st_links);
  for (int i = 0; i < MAXT; i++) if (trees[i]) { del(trees[i]); trees[i] = NULL; }
  return 0;
}
